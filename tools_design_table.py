#!/usr/bin/env python3
"""Prints the last column of DESIGN.md section 0.2 from evidence/*.json (numbers of the latest runs)."""
import json, os
ROOT = os.path.dirname(os.path.abspath(__file__))
for i in range(1, 21):
    pid = f"C{i:02d}"
    try:
        e = json.load(open(os.path.join(ROOT, "evidence", pid + ".json")))
    except Exception as ex:
        print(pid, "no evidence", ex); continue
    c = e["coverage"]
    if e["level"] == "model_checking":
        print(f"{pid} | {e['level']} | {c.get('states'):,} / {c.get('tlc_behaviours_replayed_into_impl', '-')} / {c.get('random_runs', c.get('evaluations', '-'))} / {c.get('impl_events_validated', '-')} / {round(e['wall_s'])}".replace(",", " "))
    else:
        print(f"{pid} | {e['level']} | {c.get('evaluations')} evaluations, {c.get('impl_events_validated', '-')} events / {round(e['wall_s'])}")
