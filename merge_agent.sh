#!/bin/bash
# merge_agent.sh <name> : merges an agent delivery from /tmp/ag_<name> into /repo and /verif
set -e
N=$1; WS=/tmp/ag_$N
# 1. repo hooks (add-only diff of the agent's worktree against its HEAD)
git -C $WS/repo diff > /tmp/ag_$N.repo.diff
git -C $WS/repo ls-files --others --exclude-standard | grep -v "^_out\|^target" > /tmp/ag_$N.newfiles || true
if [ -s /tmp/ag_$N.repo.diff ]; then git -C /repo apply --3way /tmp/ag_$N.repo.diff || git -C /repo apply /tmp/ag_$N.repo.diff; fi
while read f; do [ -n "$f" ] && mkdir -p /repo/$(dirname $f) && cp $WS/repo/$f /repo/$f; done < /tmp/ag_$N.newfiles
# 2. verif files owned by the agent
cd $WS/verif
for f in $(find . -type f -not -path "./harness/target*" -not -path "./out/*" -not -path "./evidence/*" -not -name "*.pyc" | sed 's#^\./##'); do
  if [ ! -e /verif/$f ]; then mkdir -p /verif/$(dirname $f); cp $f /verif/$f; echo "new: $f"; fi
done
cp harness/src/${N}_drv.rs /verif/harness/src/${N}_drv.rs
echo "--- shared files changed by the agent:"
for f in bin/check known_findings.json checks/common.py checks/pipeline.py harness/src/main.rs harness/src/util.rs harness/src/wire.rs harness/Cargo.toml; do
  if ! diff -q <(git -C /verif show HEAD:$f 2>/dev/null | sed "s#/tmp/ag_$N/repo#/repo#") <(sed "s#/tmp/ag_$N/repo#/repo#" $f) >/dev/null 2>&1; then echo "DIFF $f"; fi
done
