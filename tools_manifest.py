#!/usr/bin/env python3
"""Regenerates MANIFEST.json from the table below (single source of truth for the interface)."""
import json, os, subprocess
ROOT = os.path.dirname(os.path.abspath(__file__))
hook_commits = subprocess.run(["git", "-C", "/repo", "log", "--format=%H %s"], capture_output=True, text=True).stdout.splitlines()
hook_commits = [l.split()[0] for l in hook_commits if " verif hook:" in l]

ALL = [f"C{n:02d}" for n in range(1, 21)]
CHECKS = {
 "C01": dict(level="model_checking", engine="tlc+reader-driver", design="§4 C01",
   technique="TLC model checking of RtpsReader.tla + replay of TLC behaviours into the real reader + TLC trace validation (Trace_RtpsReader.tla)",
   text="TLC explores every sequence of DATA/DATAFRAG/HEARTBEAT/GAP/match/take actions of the implementation-shaped model within the bound and checks order / once / no-hole / identity; every explored edge (sampled in quick) is replayed through the real MessageReceiver->Reader->TopicCache->DataReader chain, plus long seeded random runs, and every real execution is validated against the abstract spec with the invariants evaluated on each state.",
   note="bounded constants (spec/MC_RtpsReader_*.cfg); reader limits not exceeded in the driver; independent wire codec trusted; wall-clock reception timestamps strictly increasing"),
 "C03": dict(level="model_checking", engine="tlc+reader-driver", design="§4 C03",
   technique="TLC model checking of RtpsReader.tla + replay into the real reader + TLC trace validation of every ACKNACK/NACKFRAG decoded by an independent wire codec",
   text="Every ACKNACK/NACKFRAG the real reader emits in the replayed and random runs is decoded by an independent codec and judged by the observers of ReaderAbs.tla (base <= lowest unknown, non-decreasing base, listed numbers missing and in range, growing count, lowest missing requested); the same observers are model checked on the implementation-shaped model.",
   note="same as C01; windows wider than 256 reached by the random runs only"),
 "C04": dict(level="model_checking", engine="tlc+writer-driver", design="§4 C04",
   technique="TLC model checking of RtpsWriter.tla + replay of TLC behaviours into the real Writer + TLC trace validation (Trace_RtpsWriter.tla)",
   text="TLC explores every interleaving of write / ACKNACK (any base, bitmap) / match / loss / heartbeat tick / repair timer / cache cleaning / wait of the implementation-shaped writer model within the bound; the datagrams it emits, the retained set and the waiter signal are judged by the observers of WriterAbs.tla (retain, bound, answer, heartbeat range, single-reader). Sampled edges are replayed on the real Writer through the real WriterCommand channel, long random runs (40-300 events, fragmented samples, cleaning across the internal limit of 32) are added, and every datagram is decoded by an independent codec and validated by TLC.",
   note="bounded constants (spec/MC_RtpsWriter_*.cfg); timers fired through cfg-gated wrappers; fake readers with distinct unicast locators; KeepAll = nothing forces a sample out; a request for a number the reader acknowledged before creates no obligation"),
 "C20": dict(level="model_checking", engine="tlc+writer-driver", design="§4 C20",
   technique="TLC model checking of RtpsWriter.tla (AckWaiter) + replay into the real Writer + TLC trace validation of the completion signal",
   text="The AckWaiter of the implementation-shaped model is explored with all interleavings of writes, ACKNACKs with boundary bases, reader match/loss and the wait call; the completion signal observed on the real Writer after every event of every replayed and random run must be set only if (most generous reading) every reliable reader matched at the call acknowledged everything written before it or was lost, and must be set whenever (strictest reading) that is the case.",
   note="writer-level command and completion channel; the public sync/async DataWriter API on top of it is exercised by C13"),
 "C02": dict(level="model_checking", engine="tlc+link-driver", design="§4 C02",
   technique="TLC model checking of RtpsLink.tla (writer || reader || faulty FIFO network, fault budget) + replay of TLC fault schedules on a real Writer<->Reader link + TLC trace validation (Trace_RtpsLink.tla)",
   text="Convergence is stated as safety over rounds {heartbeat tick; deliver; fire repair timers; deliver}: K fault-free rounds bring the reader to hold everything the writer retains and the writer to see it acknowledged, one more round is silent. TLC explores every placement of up to 3 drop/duplicate faults over every datagram of a bounded exchange (plain and fragmented samples) on the implementation-shaped model; every explored fault schedule (content-addressed: kind, sequence number, fragment, occurrence) is replayed on a real Writer and a real Reader/DataReader joined through real MessageReceivers, plus random schedules with 1024-byte fragments, swaps and cache cleaning, and every run is validated by TLC.",
   note="bounded constants (spec/MC_RtpsLink_*.cfg); FIFO network; timers fired by the harness; known finding S3 (NACKFRAG not acted upon) is a named deviation of the model and is reported as KNOWN-FINDING only when its exact signature is observed"),
 "C05": dict(level="model_checking", engine="tlc+link-driver+reader-driver", design="§4 C05",
   technique="TLC: Fragmentation.tla partition lemma + RtpsLink.tla/RtpsReader.tla model checking; replay into the real writer->reader link and the real reader; TLC trace validation of fragment geometry, completeness, exact bytes, delivered once",
   text="Fragment geometry (number, offset and length of every DATAFRAG the real writer emits, sizes around multiples of 48/64/1024-byte fragments) is judged by the operators of Fragmentation.tla, whose partition lemma TLC checks for all fragment sizes 1..9 and sizes up to 4*fs+3; reassembly is checked end to end: every sample the real DataReader hands over must be byte-identical to what was written, handed over once and only after all fragments were delivered, under every drop/duplicate schedule of the link model and random permutations, duplications and interleavings of fragments of several samples and writers on the reader driver.",
   note="same bounds as C02 and C01; payload bytes are position dependent so that a misplaced or foreign fragment changes the comparison"),
 "C06": dict(level="exploration", engine="tlc+reader/writer-driver under supervisor", design="§4 C06",
   technique="TLC places a hostile step of each class at every reachable state of RtpsReader.tla (non-interference); hostile classes x protocol states replayed on the real Reader/Writer under a supervisor (rlimit, watchdog); TLC trace validation of the well-behaved peers' traffic",
   text="A catalogue of ~70 classes of well-framed but hostile datagrams (extreme sequence numbers, counts, bitmap sizes, fragment numbers/sizes, data sizes, flag combinations, lengths, truncation at every offset, wrong magic/version, unknown kinds), from a matched and from an unmatched peer, is injected into the real MessageReceiver->Reader and MessageReceiver->Writer at TLC-enumerated protocol states and at seeded random points. Per injection the harness records panic, wall time, bytes allocated by the thread, and the supervisor records process death or hang; the valid traffic of the other peers before and after must still be accepted by Trace_RtpsReader / Trace_RtpsWriter (non-interference).",
   note="not arbitrary byte strings (that is fuzzing); budgets 250 ms and 1 MiB + 256 x bytes per injection; address space 3 GiB; two known findings (GAP ranges, DATAFRAG dataSize) are listed by exact class signature"),
 "C10": dict(level="model_checking", engine="tlc+qos-driver", design="§4 C10",
   technique="RxO table transcribed as a TLA+ operator (QosRxO.tla); TLC enumerates all value pairs per policy in 9 contexts and checks the algebra; every case replayed on the real compliance_failure_wrt / update_writer_proxy / update_reader_proxy; TLC trace validation with the same operator as oracle",
   text="TLC enumerates 3925 offered/requested pairs (every pair of values of each policy with the other policies absent, compatible, or exactly one other incompatible) and checks monotonicity of the table; each case plus seeded samples of the full product is judged by the real function and by a real Reader and a real Writer (match sets and status events), and TLC validates: verdict None iff no rule violated, reported policy really violated, both sides agree, the matching status events are truthful.",
   note="value classes for durations and strengths; DDS 1.4 table as transcribed; policies absent on either side are skipped as the statement says"),
 "C08": dict(level="exploration", engine="tlc+cache-driver", design="§4 C08",
   technique="abstract DataReader cache semantics in TLA+ (SampleCacheAbs.tla); results of every read/take form of the real DataReader validated by TLC (Trace_SampleCache.tla)",
   text="Values and disposes (by key and by key hash) of several instances from two writers are injected as real datagrams; read, take, read/take_next_sample, iterator, into_iterator, read/take_instance (This/Next), both conditions, max 1/2/all and both async streams are called at random points; every returned SampleInfo (sample, view, instance state, generation counts), membership, order, take-once, read-marks-read, condition exactness and the KeepLast bound are judged by the TLA+ transcription of DDS 1.4 section 2.2.2.5.1 on every real run.",
   note="arrivals listed in hand-over order (reliable: per writer); KeepLast as upper bound, 'most recent' judged only when hand-over and reception order agree; dispose by key hash only from the instance's creator; identity-less bare disposes judged as far as possible; model checking of an implementation-shaped cache model not built yet"),
 "C09": dict(level="exploration", engine="tlc+cache-driver under supervisor", design="§4 C09",
   technique="TLA+ trace validation (SampleCacheAbs.tla) of every read/take form over caches containing unintelligible changes; supervisor turns a call that does not return into a trace event",
   text="Undecodable payloads, unknown representation identifiers and disposes by unseen key hash are placed at random positions among values and disposes of two writers, for reliable and best-effort readers; each of the 8 DataReader forms, both async streams and SimpleDataReader::try_take_one is called at random points and then until empty, under a supervisor with a progress watchdog. TLC validates: every call returns, an unintelligible change is never delivered and is reported at most once, every intelligible change is delivered.",
   note="with_key readers (no_key wraps the same code); 8 s without progress = the call did not return"),
 "C16": dict(level="model_checking", engine="tlc+crypto-driver (feature security)", design="§4 C16", sec=True,
   technique="symbolic TLA+ model of key registration / token exchange / encode / frame / tamper / decode (CryptoKeys.tla) model checked with TLC; behaviours replayed on real CryptographicBuiltin instances through the real DATA/DATAFRAG/secure framing; byte- and bit-level refinement of every tamper class; TLC trace validation",
   text="TLC explores the complete registration space of three plugin instances for every level x GMAC/GCM x origin authentication x AES128/256 and checks that decode yields plaintext iff untampered, keyed and (with origin authentication) carrying a valid receiver-specific MAC for this receiver; ~9000 behaviours are replayed on real plugins exchanging real tokens, each symbolic tamper class refined by every byte (every bit for MACs), payload lengths 0..67 incl. lengths not divisible by 4 through real framing; outcomes compared as classes Plain/NoData by Trace_CryptoKeys.tla.",
   note="cipher strength trusted (ring/openssl); volatile endpoints and unregister not exercised; known finding S10 (unaligned protected payload undecodable after DATA padding)"),
 "C17": dict(level="model_checking", engine="tlc+gate-driver (feature security)", design="§4 C17", sec=True,
   technique="TLA+ transcription of the MessageReceiver secure state machine (SecGate.tla) with the property stated on wire content (SecGateSem.tla), model checked; explored transitions replayed as datagrams into a real MessageReceiver with real SecurityPlugins; TLC trace validation of every delivery",
   text="TLC checks Inv_Protected / Inv_Flows over all sequences of <=4 submessages x governance kinds; every explored transition is rendered as a real datagram (plain, correctly / partially / wrongly wrapped by the plugin's own encode operations) and injected into a real MessageReceiver with builtin plugins configured from signed governance fixtures and 10 real Readers; deliveries observed at TopicCaches, writer proxies and the acknack channel are judged by Trace_SecGate.tla.",
   note="HEARTBEAT_FRAG/NACK_FRAG, origin-authentication kinds and a second distinct participant not covered; fixtures signed once with the CA shipped in examples/"),
 "C18": dict(level="model_checking", engine="tlc+access-driver (feature security)", design="§4 C18", sec=True,
   technique="decision function transcribed in TLA+ (AccessDecision.tla: fnmatch patterns, domain values/ranges, first applicable rule, first valid grant, governance switches); TLC enumerates document families; each rendered as real XML and decided by the real parsers and check_* functions; signature clause by exhaustive alteration of signed fixtures; TLC trace validation",
   text="TLC enumerates 3926 (thorough 7918) abstract permissions/governance documents with 18-81 queries each; every one is rendered as real XML, loaded through the real parsers below the signature check and decided by the real check_create_* / check_remote_* code; Trace_AccessControl.tla judges every decision with the TLA+ decision function. Signature clause: every single-byte flip/deletion/duplication of five signed fixtures, foreign CA, foreign signer, spliced signatures through the real S/MIME verification; oracle: never accepted with other content or another signer.",
   note="four ambiguous readings left open (entities without partitions etc.); data tags, join checks, validate_remote_permissions not covered"),
 "C19": dict(level="model_checking", engine="tlc+auth-driver (feature security)", design="§4 C19", sec=True,
   technique="implementation-shaped TLA+ model of the three-message handshake with a Dolev-Yao attacker (Handshake.tla), safety + liveness under fairness model checked; every attacker schedule replayed on two real AuthenticationBuiltin plugins; byte-level sweep of all fields; TLC trace validation",
   text="TLC explores every attacker schedule with <=3 (4) attacker deliveries (alter, forge, replay from an earlier session, reflect, reorder) and checks: completion only through clean copies, equal secrets, no secret before completion, genuine handshake completes afterwards (modulo the three named deviations); all 1679 behaviours plus a sweep flipping every byte of every field of the three messages, foreign-CA / insider / unbound-GUID certificates and random schedules run on two real plugins with fixture identities, get_shared_secret read after every call, validated by Trace_Handshake.tla.",
   note="EC identities / ECDH only; certificate expiry and revocation not exercised; known findings S7, S13, S14"),
 "C11": dict(level="model_checking", engine="tlc+disc-driver", design="§0.2, §4 C11",
   technique="TLC model checking of Discovery.tla (implementation-shaped model of DiscoveryDB + event-loop matching + status counters, judged by the observers of DiscoveryAbs.tla) + replay of TLC behaviours on the real DiscoveryDB / DPEventLoop / Writer / Reader + TLC trace validation (Trace_Discovery.tla)",
   text="TLC explores every sequence (within the bound) of SPDP announcement, liveliness assertion, clock step, clean-up, participant dispose, SEDP announcement and SEDP dispose over two participants and up to seven remote endpoints (compatible, incompatible, other topic, two writers / two readers of one participant, differing but compatible QoS values); after every event the matched sets, the status events (current / total counts, incompatible-QoS events) and the tables the model lets the outside see are judged by DiscoveryAbs: matched = announced and compatible and on the topic, one event per change with the right current count, totals never decreasing, all endpoints of a lost participant unmatched together. Every dumped behaviour is replayed on the real objects through DiscRig (DB update, then the event-loop handler, as discovery.rs does), 800 random sequences of 40 events are added, and every real execution is validated by TLC.",
   note="bounded constants (spec/MC_Discovery_*.cfg); remote endpoints keep the QoS they were announced with and are announced by participants that are present; the glue of discovery.rs itself is exercised by the system driver (C07)"),
 "C12": dict(level="model_checking", engine="tlc+disc-driver", design="§0.2, §4 C12",
   technique="TLC model checking of Discovery.tla (life signs, leases, clean-up, attic) against the lease rule of DiscoveryAbs.tla + replay on the real DiscoveryDB with a virtual clock + TLC trace validation (Trace_Discovery.tla)",
   text="The model carries the virtual clock, the stored life sign and the lease of every participant; TLC explores all sequences of announcement (leases 1100 ms, 2500 ms, none), liveliness assertion, clock steps of 400 ms / 1000 ms (thorough: 61 s), clean-up, dispose and reappearance within the bound and checks: a participant is declared lost exactly when no sign arrived for longer than its lease, never while signs keep arriving, dispose removes it at once, endpoints of a timed-out participant are parked and known (and matched) again when it reappears, endpoints of a lost participant are unmatched. The behaviours are replayed on the real DiscoveryDB whose Instant::now() is shifted by the cfg-gated virtual clock; random runs add leases from 550 ms to 100 s and steps from 300 ms to 101 s.",
   note="no event on the exact lease boundary (real time keeps running under the virtual offset: model leases 1100 / 2500 ms with steps of 400 / 1000 ms, random leases end in 50 ms with steps that are multiples of 100 ms)"),
 "C14": dict(level="exploration", engine="tlc+wire-driver", design="§4 C14",
   technique="framing model RtpsWire.tla (Decode(Encode(m)) = Canon(m) over submessage shapes) and NumberSet.tla (bitmap law) checked with TLC; shapes instantiated with the real serialisers, judged by an independent codec and by TLC trace validation; corpus of captured real datagrams round-tripped",
   text="TLC checks the framing law over 200 submessage shapes x both byte orders (21 602 messages quick) and the number-set law on 21 189 cases; every shape is built with the crate's structs/MessageBuilder with seeded values, serialised LE/BE, and checked: header length and flags agree with the body (independent codec harness/src/wire.rs), parse back equal, re-serialise to identical bytes; plus every datagram the real Reader/Writer emitted in the reader/writer/link drivers.",
   note="value equality is differential (the spec is generator and framing oracle); security submessages not covered; known finding X2 (INFO_REPLY)"),
 "C15": dict(level="exploration", engine="tlc+wire-driver", design="§4 C15",
   technique="generic parameter-list codec and per-type schema tables in TLA+ (ParamList.tla), round-trip law checked with TLC; cases replayed on the real PL-CDR (de)serialisers with foreign parameters spliced into the byte stream; TLC trace validation",
   text="TLC checks the round-trip law on 12 185 cases (presence sets x removed parameters x foreign standard/vendor parameters x byte order) for SpdpDiscoveredParticipantData, DiscoveredReaderData, DiscoveredWriterData, DiscoveredTopicData, ParticipantMessageData and QosPolicies; each case is built as the real struct, serialised, spliced, deserialised and compared with the schema's expected record including RTPS defaults.",
   note="presence combinations: single-field cover plus random; security parameters not covered; known finding Y1"),
 "C07": dict(level="model_checking", engine="tlc+system-driver+writer-driver", design="§4 C07",
   technique="TLC model checking of System.tla (discovery plane of two / three participants: every creation order, loss of any announcement, deletion, silence beyond the lease; safety and liveness under fair delivery) and of RtpsWriter.tla (late-joiner clause at the writer); creation orders dumped by TLC replayed on real DomainParticipants through the public API with seeded datagram loss; TLC trace validation (Trace_System.tla, Trace_RtpsWriter.tla)",
   text="System.tla is model checked for all creation orders of participants, topics, writer and reader with loss of any SPDP/SEDP announcement, late joiner in the same or a third participant, deletion of reader / writer / participant and a silence longer than the lease: matched sets are exactly the compatible pairs (safety) and every compatible pair is eventually matched, every deletion eventually observed (liveness under weak fairness of delivery and periodic re-announcement). The creation orders TLC dumps and seeded random configurations are executed on two or three real DomainParticipants in one process (public API only; all datagrams pass a cfg-gated send hook that applies seeded loss and records, decoded by an independent codec, every user-traffic submessage with its fate); Trace_System.tla judges match within 30 s, completeness / order / integrity of reliable keep-all delivery (values and disposals, payloads of 0..5123 bytes around the fragment size) in the loss-free suffix, TransientLocal history for the late joiner, nothing earlier for a Volatile one, unmatch after deletion, drop and re-match after a blackout. The late-joiner clause is additionally model checked at the writer (RtpsWriter.tla: every interleaving of write / match with or without requested TransientLocal / ACKNACK / repair) and its behaviours replayed on the real Writer.",
   note="wall-clock bounds (30 s match, 20 s delivery) on real threads: a violation of a bound is reported as such; both participants in one process over loopback; loss <= 20 % per datagram; security-enabled participants not exercised here; known findings S16 (shared TopicCache hands a same-participant Volatile late joiner the old samples) and S3 (lost fragment never repaired: recognised only by its exact wire signature - NACKFRAG for the lowest missing number in the loss-free suffix and no DATAFRAG of it sent)"),
 "C13": dict(level="model_checking", engine="tlc+sched-driver", design="§4 C13",
   technique="hand-over protocols (notify/poll/take, command queue/waker, wait-for-ack reply) as TLA+ processes in Wakeup.tla, all interleavings checked with TLC (no parked thread while its wake-up condition holds); every TLC schedule replayed on the real Reader/DataReader/DataWriter/Writer code under a cooperative two-thread scheduler with cfg-gated yield points; TLC trace validation of the recorded runs",
   text="TLC explores every interleaving of producer (Reader::notify_cache_change / Writer command processing) and application thread (BareDataReaderStream::poll_next, mio-0.6 and mio-0.8 readiness + take, AsyncWrite::poll, AsyncWaitForAcknowledgments::poll) at the grain of the yield points placed in the code, for 1-3 samples / commands; each explored schedule is then forced onto the real code by the cooperative scheduler (src/verif/sched.rs) and the end state judged: no consumer parked with a sample available, no async write parked with room in the queue, no wait that never completes; plus random schedules.",
   note="two threads, yield points only at the labelled places (atomic blocks between them are assumed atomic w.r.t. the other thread, which holds for the mutex-protected sections they bracket); real OS-level preemption inside a block is not explored"),
}
NOT_APPLICABLE = {}

def main():
    checks = []
    for pid in ALL:
        if pid not in CHECKS:
            continue
        c = CHECKS[pid]
        checks.append({
            "property_id": pid,
            "quick_cmd": f"./bin/check {pid} --tier quick",
            "thorough_cmd": f"./bin/check {pid} --tier thorough",
            "evidence_file": f"evidence/{pid}.json",
            "replay_cmd_template": f"./bin/check {pid} --replay {{path}}",
            "engine": c["engine"],
            "level_claimed": {"category": c["level"], "text": c["text"], "design_ref": c["design"]},
            "level_note": c["note"],
            "technique": c["technique"],
        })
    na = [{"property_id": p, "reason": NOT_APPLICABLE.get(p, "no check registered")} for p in ALL if p not in CHECKS]
    m = {
        "version": 1,
        "setup_cmd": "./bin/setup",
        "hooks": {
            "guard": "rustdds_verif",
            "enable": "RUSTFLAGS '--cfg rustdds_verif' set in harness/.cargo/config.toml; the harness crate has a path dependency on /repo",
            "baseline_off_cmd": "cd /repo && cargo nextest run --workspace --no-fail-fast --tool-config-file pb:/w/lib/nextest.toml --profile pb --test-threads 8 --offline",
            "source_commits": hook_commits,
            "add_only": True,
        },
        "engines": [
            {"name": "tlc", "path": "spec/", "serves_properties": sorted(CHECKS), "kind_free_text": "TLA+ specifications checked with TLC 1.8 (model checking, behaviour generation, trace validation)"},
            {"name": "vh", "path": "harness/", "serves_properties": sorted(CHECKS), "kind_free_text": "Rust conformance harness driving the real RustDDS objects through cfg(rustdds_verif) rigs"},
        ],
        "checks": checks,
        "not_applicable": na,
        "notes": "All checks: ./bin/check <id> [--tier quick|thorough] [--replay path]; exit 0 ok, 1 VIOLATION, 2 tool error.",
    }
    with open(os.path.join(ROOT, "MANIFEST.json"), "w") as f:
        json.dump(m, f, indent=1)
    print("MANIFEST.json written:", len(checks), "checks,", len(na), "not applicable")

if __name__ == "__main__":
    main()
