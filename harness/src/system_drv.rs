//! `system` driver (C07): two or three real DomainParticipants in this process, public API only.
//!
//! All their traffic goes through hook H2 (global policy at UDPSender::send_to_locator): the policy
//! consumes every datagram addressed to a port of a registered domain and forwards it over loopback to
//! the port it was meant for (multicast ports are fanned out to the unicast ports of participant ids
//! 0..4), so the driver depends neither on multicast routing nor on the interface the locators name,
//! and it can lose datagrams (seeded rate, or everything sent by one participant).
//!
//! The trace (one driver thread observes everything, so the order of the lines is the order of
//! observation) is judged by spec/Trace_System.tla.

use std::{
    collections::HashMap,
    net::{SocketAddr, UdpSocket},
    sync::{Arc, Mutex, Once, OnceLock},
    time::{Duration as StdDuration, Instant},
};

use rustdds::{
    no_key, policy::*, with_key, DataReaderStatus, DataWriterStatus, DomainParticipant, Duration, QosPolicies, QosPolicyBuilder, StatusEvented, TopicKind,
};
use rustdds::verif::VSample;
use rustdds::RTPSEntity;
use serde::{Deserialize, Serialize};
use serde_json::{json, Value};

use crate::util;
use crate::wire::{self, Sub};

#[derive(Serialize, Deserialize, Clone, Debug)]
pub struct SysSpec {
    /// creation order of "PA" "PB" "TA" "TB" "W" "R" (parents first)
    pub order: Vec<String>,
    pub keyed: bool,
    pub wrel: bool,
    pub rrel: bool,
    pub wtl: bool,
    pub rtl: bool,
    /// 0 = KeepAll, d = KeepLast(d) (both sides)
    pub depth: i32,
    /// "none" | "vol" | "tl": a second reader created after the first phase of writes
    pub late: String,
    /// the late joiner lives in its own participant
    pub third: bool,
    pub n1: usize,
    pub n2: usize,
    /// payload size class index of the first sample; following samples walk through SIZES
    pub size0: usize,
    pub dispose: bool,
    /// percent of datagrams lost while discovery and writes are going on
    pub loss: u32,
    /// "none" | "R" | "W" | "PA" | "PB"
    pub del: String,
    /// 0 none, 1 = PB falls silent for longer than its lease and comes back (S8 end-to-end)
    #[serde(default)]
    pub blackout: u32,
    /// "none" | "W2" | "R3": an endpoint created after the deletion was observed (second writer in A with W's QoS,
    /// second reader in B with R's QoS); it must not be matched with the deleted endpoint
    #[serde(default)]
    pub post: String,
    pub seed: u64,
    /// pause in ms after each creation step; when empty, drawn from the seed
    #[serde(default)]
    pub pauses: Vec<u64>,
}

/// every residue modulo 4 below and above the fragment size (1024 in this build: see rtps/constant.rs)
pub const SIZES: [usize; 12] = [0, 1, 2, 3, 996, 997, 998, 999, 1400, 2049, 3002, 5123];

/* ------------------------------------------------------------------ network */
struct DomCfg {
    loss_pct: u32,
    seed: u64,
    counter: u64,
    block_from: Option<[u8; 12]>,
    sent: u64,
    dropped: u64,
    /// user-endpoint traffic as seen on the wire (independent codec), with its fate; drained by the driver thread
    net: Vec<Value>,
    t0: Option<Instant>,
}

/// entity ids of user-defined endpoints (the two top bits of the kind octet are clear)
fn user_eid(e: &[u8; 4]) -> bool {
    e[3] & 0xc0 == 0 && e[3] != 0
}

fn hex4(e: &[u8; 4]) -> String {
    e.iter().map(|b| format!("{b:02x}")).collect()
}

/// One line per submessage of user endpoints: what kind, which sequence numbers / fragments, sent by which
/// participant (last octet of the GUID prefix of the RTPS header is not enough: 4 hex digits of its hash),
/// addressed to which port offset, dropped or forwarded.
fn net_lines(buf: &[u8], port_off: u16, dropped: bool, t: u64, out: &mut Vec<Value>) {
    let Ok(m) = wire::decode(buf) else { return };
    let from: String = m.prefix.iter().map(|b| format!("{b:02x}")).collect();
    let fate = if dropped { "drop" } else { "fwd" };
    for s in &m.subs {
        let line = match s {
            Sub::Data { writer, sn, payload, .. } if user_eid(writer) => json!({"k":"DATA","sn":sn,"len":payload.as_ref().map(|p| p.len()).unwrap_or(0)}),
            Sub::DataFrag { writer, reader, sn, frag_start, frags_in_sub, sample_size, frag_size, .. } if user_eid(writer) => {
                json!({"k":"FRAG","sn":sn,"f":frag_start,"n":frags_in_sub,"size":sample_size,"fsz":frag_size,"rd":hex4(reader)})
            }
            Sub::Heartbeat { writer, first, last, .. } if user_eid(writer) => json!({"k":"HB","first":first,"last":last}),
            Sub::Gap { writer, start, list, .. } if user_eid(writer) => json!({"k":"GAP","start":start,"base":list.base,"set":list.members()}),
            Sub::AckNack { writer, reader, set, .. } if user_eid(writer) => json!({"k":"ACKNACK","base":set.base,"set":set.members(),"rg":format!("{from}{}", hex4(reader))}),
            Sub::NackFrag { writer, reader, sn, set, .. } if user_eid(writer) => json!({"k":"NACKFRAG","sn":sn,"set":set.members(),"rg":format!("{from}{}", hex4(reader))}),
            _ => continue,
        };
        let mut line = line;
        line["ev"] = json!("Net");
        line["from"] = json!(from);
        line["to"] = json!(port_off);
        line["fate"] = json!(fate);
        line["t"] = json!(t);
        out.push(line);
    }
}

fn doms() -> &'static Mutex<HashMap<u16, DomCfg>> {
    static D: OnceLock<Mutex<HashMap<u16, DomCfg>>> = OnceLock::new();
    D.get_or_init(|| Mutex::new(HashMap::new()))
}

fn mix(mut x: u64) -> u64 {
    x ^= x >> 33;
    x = x.wrapping_mul(0xff51afd7ed558ccd);
    x ^= x >> 33;
    x = x.wrapping_mul(0xc4ceb9fe1a85ec53);
    x ^ (x >> 33)
}

fn install_policy() {
    static ONCE: Once = Once::new();
    ONCE.call_once(|| {
        let sock = UdpSocket::bind("127.0.0.1:0").expect("loopback socket");
        rustdds::verif::net::set_global_policy(Some(Arc::new(move |buf: &[u8], dest: &str| {
            let Ok(addr) = dest.parse::<SocketAddr>() else { return false };
            let port = addr.port();
            if port < 7400 {
                return false;
            }
            let d = (port - 7400) / 250;
            let r = (port - 7400) % 250;
            let mut g = doms().lock().unwrap();
            let Some(cfg) = g.get_mut(&d) else { return false };
            if addr.is_ipv6() {
                return true; // the listeners are IPv4; the same datagram also goes to the IPv4 locator
            }
            cfg.counter += 1;
            cfg.sent += 1;
            let from_blocked = cfg.block_from.map(|p| buf.len() >= 20 && buf[8..20] == p).unwrap_or(false);
            let lost = from_blocked || (cfg.loss_pct > 0 && mix(cfg.seed ^ cfg.counter.wrapping_mul(0x9e3779b97f4a7c15)) % 100 < u64::from(cfg.loss_pct));
            if r >= 10 {
                // user traffic goes to the unicast ports; under the same lock as the loss decision, so the lines
                // of one domain are in the order the datagrams were handed to the network
                let t = cfg.t0.map(|t0| t0.elapsed().as_millis() as u64).unwrap_or(0);
                net_lines(buf, r, lost, t, &mut cfg.net);
            }
            if lost {
                cfg.dropped += 1;
                return true;
            }
            drop(g);
            let base = 7400 + 250 * d;
            match r {
                0 => {
                    for p in 0..5u16 {
                        let _ = sock.send_to(buf, ("127.0.0.1", base + 10 + 2 * p));
                    }
                }
                1 => {
                    for p in 0..5u16 {
                        let _ = sock.send_to(buf, ("127.0.0.1", base + 11 + 2 * p));
                    }
                }
                _ => {
                    let _ = sock.send_to(buf, ("127.0.0.1", port));
                }
            }
            true
        })));
    });
}

fn set_loss(domain: u16, pct: u32) {
    if let Some(c) = doms().lock().unwrap().get_mut(&domain) {
        c.loss_pct = pct;
        let t = c.t0.map(|t0| t0.elapsed().as_millis() as u64).unwrap_or(0);
        c.net.push(json!({"ev":"Loss","pct":pct,"t":t}));
    }
}
fn set_block(domain: u16, from: Option<[u8; 12]>) {
    if let Some(c) = doms().lock().unwrap().get_mut(&domain) {
        c.block_from = from;
    }
}

/* ----------------------------------------------------------------- entities */
enum AnyWriter {
    K(with_key::DataWriter<VSample>),
    N(no_key::DataWriter<VSample>),
}
enum AnyReader {
    K(with_key::DataReader<VSample>),
    N(no_key::DataReader<VSample>),
}

fn body(id: u32, size: usize) -> Vec<u8> {
    (0..size).map(|i| (mix(u64::from(id) << 20 | i as u64) & 0xff) as u8).collect()
}

impl AnyWriter {
    fn write(&self, s: VSample) -> bool {
        match self {
            AnyWriter::K(w) => w.write(s, None).is_ok(),
            AnyWriter::N(w) => w.write(s, None).is_ok(),
        }
    }
    fn dispose(&self, key: u32) -> bool {
        match self {
            AnyWriter::K(w) => w.dispose(&key, None).is_ok(),
            AnyWriter::N(_) => false,
        }
    }
    fn statuses(&self) -> Vec<Value> {
        let mut v = vec![];
        loop {
            let s = match self {
                AnyWriter::K(w) => w.try_recv_status(),
                AnyWriter::N(w) => w.try_recv_status(),
            };
            match s {
                Some(DataWriterStatus::PublicationMatched { total, current, .. }) => {
                    v.push(json!({"k":"M","cur":current.count(),"chg":current.count_change(),"tot":total.count()}))
                }
                Some(DataWriterStatus::OfferedIncompatibleQos { count, .. }) => v.push(json!({"k":"I","cur":count.count(),"chg":count.count_change(),"tot":count.count()})),
                Some(_) => {}
                None => break,
            }
        }
        v
    }
}

impl AnyReader {
    fn guid_hex(&self) -> String {
        let g = match self {
            AnyReader::K(r) => r.guid(),
            AnyReader::N(r) => r.guid(),
        };
        g.to_bytes().iter().map(|b| format!("{b:02x}")).collect()
    }
    fn statuses(&self) -> Vec<Value> {
        let mut v = vec![];
        loop {
            let s = match self {
                AnyReader::K(r) => r.try_recv_status(),
                AnyReader::N(r) => r.verif_try_recv_status(),
            };
            match s {
                Some(DataReaderStatus::SubscriptionMatched { total, current, .. }) => {
                    v.push(json!({"k":"M","cur":current.count(),"chg":current.count_change(),"tot":total.count()}))
                }
                Some(DataReaderStatus::RequestedIncompatibleQos { count, .. }) => v.push(json!({"k":"I","cur":count.count(),"chg":count.count_change(),"tot":count.count()})),
                Some(_) => {}
                None => break,
            }
        }
        v
    }
    /// (id, key, is_value, intact)
    fn take(&mut self) -> Vec<(i64, u32, bool, bool)> {
        let mut out = vec![];
        match self {
            AnyReader::K(r) => {
                if let Ok(v) = r.take(10_000, rustdds::ReadCondition::any()) {
                    for ds in v {
                        match ds.value() {
                            rustdds::with_key::Sample::Value(s) => out.push((i64::from(s.id), s.key, true, s.body == body(s.id, s.body.len()))),
                            rustdds::with_key::Sample::Dispose(k) => out.push((-1, *k, false, true)),
                        }
                    }
                }
            }
            AnyReader::N(r) => {
                if let Ok(v) = r.take(10_000, rustdds::ReadCondition::any()) {
                    for ds in v {
                        let s = ds.value();
                        out.push((i64::from(s.id), s.key, true, s.body == body(s.id, s.body.len())));
                    }
                }
            }
        }
        out
    }
}

fn qos(rel: bool, tl: bool, depth: i32) -> QosPolicies {
    QosPolicyBuilder::new()
        .reliability(if rel { Reliability::Reliable { max_blocking_time: Duration::from_secs(5) } } else { Reliability::BestEffort })
        .durability(if tl { Durability::TransientLocal } else { Durability::Volatile })
        .history(if depth == 0 { History::KeepAll } else { History::KeepLast { depth } })
        .build()
}

struct World {
    domain: u16,
    t0: Instant,
    parts: HashMap<&'static str, DomainParticipant>,
    topics: HashMap<&'static str, rustdds::Topic>,
    w: Option<AnyWriter>,
    r: Option<AnyReader>,
    r2: Option<AnyReader>,
    w2: Option<AnyWriter>,
    r3: Option<AnyReader>,
    /// samples taken so far per reader, in take order
    got: HashMap<&'static str, usize>,
    /// current matched counts as last reported
    cur: HashMap<&'static str, i64>,
}

impl World {
    fn ms(&self) -> u64 {
        self.t0.elapsed().as_millis() as u64
    }
    fn poll(&mut self, out: &mut Vec<Value>) {
        let t = self.ms();
        if let Some(c) = doms().lock().unwrap().get_mut(&self.domain) {
            out.append(&mut c.net);
        }
        let mut push = |who: &'static str, evs: Vec<Value>, cur: &mut HashMap<&'static str, i64>| {
            for mut e in evs {
                if e["k"] == "M" {
                    cur.insert(who, e["cur"].as_i64().unwrap_or(0));
                }
                e["ev"] = json!("St");
                e["who"] = json!(who);
                e["t"] = json!(t);
                out.push(e);
            }
        };
        if let Some(w) = &self.w {
            push("W", w.statuses(), &mut self.cur);
        }
        if let Some(r) = &self.r {
            push("R", r.statuses(), &mut self.cur);
        }
        if let Some(r) = &self.r2 {
            push("R2", r.statuses(), &mut self.cur);
        }
        if let Some(w) = &self.w2 {
            push("W2", w.statuses(), &mut self.cur);
        }
        if let Some(r) = &self.r3 {
            push("R3", r.statuses(), &mut self.cur);
        }
    }
    fn take_all(&mut self, out: &mut Vec<Value>) {
        let t = self.ms();
        for (who, r) in [("R", &mut self.r), ("R2", &mut self.r2)] {
            if let Some(r) = r {
                for (id, key, val, intact) in r.take() {
                    *self.got.entry(who).or_insert(0) += 1;
                    out.push(json!({"ev":"Recv","who":who,"id":id,"key":key,"val":val,"intact":intact,"t":t}));
                }
            }
        }
    }
    fn wait<F: FnMut(&World) -> bool>(&mut self, bound_ms: u64, out: &mut Vec<Value>, mut done: F) -> (bool, u64) {
        let start = Instant::now();
        loop {
            self.poll(out);
            self.take_all(out);
            if done(self) {
                return (true, start.elapsed().as_millis() as u64);
            }
            if start.elapsed() > StdDuration::from_millis(bound_ms) {
                return (false, start.elapsed().as_millis() as u64);
            }
            std::thread::sleep(StdDuration::from_millis(15));
        }
    }
    fn cur(&self, who: &str) -> i64 {
        *self.cur.get(who).unwrap_or(&0)
    }
}

const MATCH_BOUND_MS: u64 = 30_000;
const DELIVERY_BOUND_MS: u64 = 20_000;
const NEGATIVE_WAIT_MS: u64 = 4_000;

fn create(world: &mut World, what: &str, spec: &SysSpec, out: &mut Vec<Value>) {
    let t = world.ms();
    let kind = if spec.keyed { TopicKind::WithKey } else { TopicKind::NoKey };
    let tq = QosPolicyBuilder::new().build();
    let mut ok = true;
    match what {
        "PA" | "PB" | "PC" => match DomainParticipant::new(world.domain) {
            Ok(dp) => {
                let k: &'static str = match what {
                    "PA" => "PA",
                    "PB" => "PB",
                    _ => "PC",
                };
                world.parts.insert(k, dp);
            }
            Err(_) => ok = false,
        },
        "TA" | "TB" | "TC" => {
            let (p, k): (&str, &'static str) = match what {
                "TA" => ("PA", "TA"),
                "TB" => ("PB", "TB"),
                _ => ("PC", "TC"),
            };
            match world.parts[p].create_topic("sys_topic".to_string(), "VSample".to_string(), &tq, kind) {
                Ok(t) => {
                    world.topics.insert(k, t);
                }
                Err(_) => ok = false,
            }
        }
        "W" | "W2" => {
            let q = qos(spec.wrel, spec.wtl, spec.depth);
            let p = world.parts["PA"].create_publisher(&q);
            ok = false;
            if let Ok(p) = p {
                if spec.keyed {
                    if let Ok(w) = p.create_datawriter_cdr::<VSample>(&world.topics["TA"], None) {
                        if what == "W" {
                            world.w = Some(AnyWriter::K(w));
                        } else {
                            world.w2 = Some(AnyWriter::K(w));
                        }
                        ok = true;
                    }
                } else if let Ok(w) = p.create_datawriter_no_key_cdr::<VSample>(&world.topics["TA"], None) {
                    if what == "W" {
                        world.w = Some(AnyWriter::N(w));
                    } else {
                        world.w2 = Some(AnyWriter::N(w));
                    }
                    ok = true;
                }
            }
        }
        "R" | "R2" | "R3" => {
            let (q, pn, tn) = if what == "R" || what == "R3" {
                (qos(spec.rrel, spec.rtl, spec.depth), "PB", "TB")
            } else {
                (qos(true, spec.late == "tl", spec.depth), if spec.third { "PC" } else { "PB" }, if spec.third { "TC" } else { "TB" })
            };
            ok = false;
            if let Ok(s) = world.parts[pn].create_subscriber(&q) {
                let r = if spec.keyed {
                    s.create_datareader_cdr::<VSample>(&world.topics[tn], None).ok().map(AnyReader::K)
                } else {
                    s.create_datareader_no_key_cdr::<VSample>(&world.topics[tn], None).ok().map(AnyReader::N)
                };
                if let Some(r) = r {
                    ok = true;
                    if what == "R" {
                        world.r = Some(r);
                    } else if what == "R3" {
                        world.r3 = Some(r);
                    } else {
                        world.r2 = Some(r);
                    }
                }
            }
        }
        _ => ok = false,
    }
    let guid = match what {
        "R" => world.r.as_ref().map(AnyReader::guid_hex),
        "R2" => world.r2.as_ref().map(AnyReader::guid_hex),
        "R3" => world.r3.as_ref().map(AnyReader::guid_hex),
        _ => None,
    }
    .unwrap_or_default();
    // offset of the user-traffic unicast port of the participant the reader lives in (as in the Net lines)
    let port = match what {
        "R" => world.parts.get("PB"),
        "R2" => world.parts.get(if spec.third { "PC" } else { "PB" }),
        _ => None,
    }
    .map(|p| 11 + 2 * p.participant_id())
    .unwrap_or(0);
    // eid: the entity id part of the GUID (DATAFRAG repairs name the reader they are for by it)
    let eid: String = if guid.len() >= 8 { guid[guid.len() - 8..].to_string() } else { String::new() };
    out.push(json!({"ev":"Create","what":what,"ok":ok,"guid":guid,"port":port,"eid":eid,"t":t}));
}

pub fn run_one(run_no: usize, spec: &SysSpec, out: &mut Vec<Value>) -> Vec<Vec<u8>> {
    install_policy();
    // distinct domain per run in flight: run_parallel gives run k to thread k % jobs
    let domain = 1 + (run_no % 180) as u16;
    doms().lock().unwrap().insert(domain, DomCfg { loss_pct: 0, seed: spec.seed, counter: 0, block_from: None, sent: 0, dropped: 0, net: vec![], t0: Some(Instant::now()) });
    let mut world = World { domain, t0: Instant::now(), parts: HashMap::new(), topics: HashMap::new(), w: None, r: None, r2: None, w2: None, r3: None, got: HashMap::new(), cur: HashMap::new() };
    let mut rng = spec.seed;
    let mut next = |m: u64| {
        rng = mix(rng.wrapping_add(0x9e3779b97f4a7c15));
        rng % m
    };
    out.push(json!({"ev":"Reset","run":run_no,"keyed":spec.keyed,"wrel":spec.wrel,"rrel":spec.rrel,"wtl":spec.wtl,"rtl":spec.rtl,"depth":spec.depth,
        "late":spec.late,"third":spec.third,"dispose":spec.dispose,"loss":spec.loss,"del":spec.del,"blackout":spec.blackout,"order":spec.order}));
    set_loss(domain, spec.loss);

    /* creation, in the given order, with small pauses so that the steps fall on different sides of the
    periodic announcements */
    for (i, what) in spec.order.iter().enumerate() {
        create(&mut world, what, spec, out);
        // mostly short; sometimes long enough for discovery to complete before the next entity exists
        let drawn = [0u64, 0, 30, 150, 700, 0, 30, 4500][next(8) as usize];
        let pause = spec.pauses.get(i).copied().unwrap_or(drawn);
        world.wait(pause, out, |_| false);
    }
    let compatible = (spec.wrel || !spec.rrel) && (spec.wtl || !spec.rtl);
    let (ok, waited) = if compatible {
        world.wait(MATCH_BOUND_MS, out, |w| w.cur("W") >= 1 && w.cur("R") >= 1)
    } else {
        let r = world.wait(NEGATIVE_WAIT_MS, out, |_| false);
        (false, r.1)
    };
    out.push(json!({"ev":"Sync","phase":"match","done":ok,"wcur":world.cur("W"),"rcur":world.cur("R"),"waited":waited,"t":world.ms()}));

    /* phase 1 */
    let mut next_id = 1u32;
    let mut written: Vec<u32> = vec![];
    let nkeys = 2u32;
    let mut do_writes = |world: &mut World, n: usize, phase: u32, out: &mut Vec<Value>, next_id: &mut u32, with_dispose: bool| {
        for i in 0..n {
            let id = *next_id;
            *next_id += 1;
            let size = SIZES[(spec.size0 + id as usize) % SIZES.len()];
            let key = if spec.keyed { 1 + id % nkeys } else { 1 };
            let okw = world.w.as_ref().map(|w| w.write(VSample { key, id, body: body(id, size) })).unwrap_or(false);
            out.push(json!({"ev":"Write","id":id,"key":key,"size":size,"phase":phase,"ok":okw,"t":world.ms()}));
            written.push(id);
            if with_dispose && spec.keyed && i + 1 == n / 2 {
                let okd = world.w.as_ref().map(|w| w.dispose(2)).unwrap_or(false);
                out.push(json!({"ev":"Dispose","key":2,"phase":phase,"ok":okd,"t":world.ms()}));
            }
            if i % 3 == 2 {
                world.wait(0, out, |_| false);
            }
        }
    };
    do_writes(&mut world, spec.n1, 1, out, &mut next_id, spec.dispose);
    // loss ends; the fault-free suffix in which everything owed must arrive
    world.wait(300, out, |_| false);
    set_loss(domain, 0);
    let expect1 = spec.n1 + usize::from(spec.dispose && spec.keyed);
    let must1 = compatible && spec.wrel && spec.rrel && spec.depth == 0 && ok;
    let (d1, waited) = if must1 {
        world.wait(DELIVERY_BOUND_MS, out, |w| *w.got.get("R").unwrap_or(&0) >= expect1)
    } else {
        world.wait(1_500, out, |_| false)
    };
    out.push(json!({"ev":"Settle","phase":1,"done":d1,"waited":waited,"t":world.ms()}));

    /* participant B falls silent for longer than its lease and comes back */
    if spec.blackout == 1 && compatible && ok {
        let pb = world.parts["PB"].guid().prefix;
        let mut p = [0u8; 12];
        p.copy_from_slice(pb.as_ref());
        set_block(domain, Some(p));
        out.push(json!({"ev":"Blackout","on":true,"t":world.ms()}));
        let (lost, waited) = world.wait(MATCH_BOUND_MS, out, |w| w.cur("W") == 0);
        out.push(json!({"ev":"Sync","phase":"lost","done":lost,"wcur":world.cur("W"),"rcur":world.cur("R"),"waited":waited,"t":world.ms()}));
        set_block(domain, None);
        out.push(json!({"ev":"Blackout","on":false,"t":world.ms()}));
        let (back, waited) = world.wait(MATCH_BOUND_MS, out, |w| w.cur("W") >= 1 && w.cur("R") >= 1);
        out.push(json!({"ev":"Sync","phase":"back","done":back,"wcur":world.cur("W"),"rcur":world.cur("R"),"waited":waited,"t":world.ms()}));
        // traffic after the pair has found each other again
        do_writes(&mut world, 3, 3, out, &mut next_id, false);
        let expect3 = expect1 + 3;
        let (d3, waited) = if must1 && back {
            world.wait(DELIVERY_BOUND_MS, out, |w| *w.got.get("R").unwrap_or(&0) >= expect3)
        } else {
            world.wait(1_500, out, |_| false)
        };
        out.push(json!({"ev":"Settle","phase":3,"done":d3,"waited":waited,"t":world.ms()}));
    }
    let expect1 = *world.got.get("R").unwrap_or(&0).max(&expect1);

    /* late joiner */
    if spec.late != "none" {
        set_loss(domain, spec.loss);
        if spec.third {
            create(&mut world, "PC", spec, out);
            create(&mut world, "TC", spec, out);
        }
        create(&mut world, "R2", spec, out);
        let compat2 = spec.wrel && (spec.wtl || spec.late != "tl");
        let wbefore = world.cur("W");
        let (ok2, waited) = if compat2 {
            world.wait(MATCH_BOUND_MS, out, |w| w.cur("R2") >= 1 && w.cur("W") > wbefore)
        } else {
            let r = world.wait(NEGATIVE_WAIT_MS, out, |_| false);
            (false, r.1)
        };
        out.push(json!({"ev":"Sync","phase":"late","done":ok2,"wcur":world.cur("W"),"rcur":world.cur("R2"),"waited":waited,"t":world.ms()}));
        do_writes(&mut world, spec.n2, 2, out, &mut next_id, false);
        world.wait(300, out, |_| false);
        set_loss(domain, 0);
        let must2 = compat2 && ok2 && spec.depth == 0;
        let hist = if spec.late == "tl" { expect1 } else { 0 };
        let n2 = spec.n2;
        let (d2, waited) = if must2 {
            world.wait(DELIVERY_BOUND_MS, out, |w| *w.got.get("R2").unwrap_or(&0) >= hist + n2 && (!must1 || *w.got.get("R").unwrap_or(&0) >= expect1 + n2))
        } else {
            world.wait(2_500, out, |_| false)
        };
        // a little longer, so that history wrongly sent to a Volatile joiner would have arrived too
        world.wait(700, out, |_| false);
        out.push(json!({"ev":"Settle","phase":2,"done":d2,"waited":waited,"t":world.ms()}));
    }

    /* deletion observed as unmatch by the peer */
    if spec.del != "none" && compatible && ok {
        let wbefore = world.cur("W");
        let rbefore = world.cur("R");
        out.push(json!({"ev":"Delete","what":spec.del,"wcur":wbefore,"rcur":rbefore,"t":world.ms()}));
        match spec.del.as_str() {
            "R" => world.r = None,
            "W" => world.w = None,
            "PA" => {
                world.w = None;
                world.topics.remove("TA");
                world.parts.remove("PA");
            }
            "PB" => {
                world.r = None;
                if !spec.third {
                    world.r2 = None;
                }
                world.topics.remove("TB");
                world.parts.remove("PB");
            }
            _ => {}
        }
        let del = spec.del.clone();
        let r2_on_b = spec.late != "none" && !spec.third;
        let (seen, waited) = world.wait(MATCH_BOUND_MS, out, |w| match del.as_str() {
            "R" => w.cur("W") < wbefore,
            "PB" => w.cur("W") <= wbefore - 1 - i64::from(r2_on_b && w.cur("R2") >= 0 && wbefore >= 2),
            _ => w.cur("R") < rbefore,
        });
        out.push(json!({"ev":"Sync","phase":"unmatch","done":seen,"wcur":world.cur("W"),"rcur":world.cur("R"),"waited":waited,"t":world.ms()}));
        /* an endpoint created after the peer's endpoint was deleted (and the deletion observed here) */
        if seen && spec.late == "none" && ((spec.post == "W2" && spec.del == "R") || (spec.post == "R3" && spec.del == "W")) {
            let what = if spec.post == "W2" { "W2" } else { "R3" };
            create(&mut world, what, spec, out);
            let (_, waited) = world.wait(NEGATIVE_WAIT_MS, out, |_| false);
            out.push(json!({"ev":"Sync","phase":"post","what":what,"done":true,"wcur":world.cur(what),"rcur":world.cur(what),"waited":waited,"t":world.ms()}));
        }
    }
    let (sent, dropped) = doms().lock().unwrap().get(&domain).map(|c| (c.sent, c.dropped)).unwrap_or((0, 0));
    out.push(json!({"ev":"End","sent":sent,"dropped":dropped,"t":world.ms()}));
    world.w = None;
    world.r = None;
    world.r2 = None;
    world.w2 = None;
    world.r3 = None;
    world.topics.clear();
    world.parts.clear();
    doms().lock().unwrap().remove(&domain);
    vec![]
}

/// parents-first random linear extension of the creation order
fn random_order(next: &mut dyn FnMut(u64) -> u64) -> Vec<String> {
    let mut left = vec!["PA", "PB", "TA", "TB", "W", "R"];
    let mut done: Vec<String> = vec![];
    while !left.is_empty() {
        let ready: Vec<&str> = left
            .iter()
            .copied()
            .filter(|x| match *x {
                "TA" => done.iter().any(|d| d == "PA"),
                "TB" => done.iter().any(|d| d == "PB"),
                "W" => done.iter().any(|d| d == "TA"),
                "R" => done.iter().any(|d| d == "TB"),
                _ => true,
            })
            .collect();
        let pick = ready[next(ready.len() as u64) as usize];
        left.retain(|x| *x != pick);
        done.push(pick.to_string());
    }
    done
}

pub fn random_specs(seed: u64, runs: usize) -> Vec<SysSpec> {
    let mut rng = mix(seed ^ 0x5157);
    let mut next = |m: u64| {
        rng = mix(rng.wrapping_add(0x9e3779b97f4a7c15));
        rng % m
    };
    (0..runs)
        .map(|k| {
            let full = next(10) < 7; // most runs use the configuration the delivery clauses speak of
            let mut sp = SysSpec {
                order: random_order(&mut next),
                keyed: next(3) != 0,
                wrel: full || next(2) == 0,
                rrel: full || next(2) == 0,
                wtl: next(2) == 0,
                rtl: next(3) == 0,
                depth: if full || next(2) == 0 { 0 } else { 1 + next(3) as i32 },
                late: ["none", "vol", "tl"][next(3) as usize].to_string(),
                third: next(3) == 0,
                n1: 4 + next(9) as usize,
                n2: 3 + next(6) as usize,
                size0: next(12) as usize,
                dispose: next(2) == 0,
                loss: [0, 0, 10, 20][next(4) as usize],
                del: ["none", "R", "W", "PA", "PB"][next(5) as usize].to_string(),
                blackout: u32::from(next(8) == 0),
                post: String::new(),
                seed: mix(seed.wrapping_mul(1000).wrapping_add(k as u64)),
                pauses: vec![],
            };
            // every fourth run: delete one endpoint, then create a new one on the other side
            if k % 4 == 3 {
                sp.late = "none".into();
                sp.third = false;
                sp.blackout = 0;
                sp.wrel = true;
                sp.wtl = sp.wtl || sp.rtl;
                if (k / 4) % 2 == 0 {
                    sp.del = "R".into();
                    sp.post = "W2".into();
                } else {
                    sp.del = "W".into();
                    sp.post = "R3".into();
                }
            }
            sp
        })
        .collect()
}

pub fn main(mode: &str, opt: &HashMap<String, String>) -> i32 {
    match mode {
        "random" => util::run_parallel(opt, random_specs(util::get(opt, "seed", 1), util::get(opt, "runs", 12)), run_one),
        "replay" => {
            let specs: Vec<SysSpec> = util::read_jsonl(&opt["in"]);
            util::run_parallel(opt, specs, run_one)
        }
        _ => 2,
    }
}
