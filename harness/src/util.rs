use std::{collections::HashMap, io::Write, str::FromStr, sync::Arc};

use serde::de::DeserializeOwned;
use serde_json::Value;

pub fn get<T: FromStr>(opt: &HashMap<String, String>, k: &str, default: T) -> T {
    opt.get(k).and_then(|s| s.parse().ok()).unwrap_or(default)
}

pub fn read_jsonl<T: DeserializeOwned>(path: &str) -> Vec<T> {
    let s = std::fs::read_to_string(path).unwrap_or_else(|e| panic!("read {path}: {e}"));
    s.lines()
        .filter(|l| !l.trim().is_empty())
        .map(|l| serde_json::from_str(l).unwrap_or_else(|e| panic!("parse {l}: {e}")))
        .collect()
}

/// Runs every spec through `f` on `jobs` threads; thread j writes <out>/trace_<j>.ndjson (runs in
/// ascending run number) and <out>/captured_<j>.hex (every datagram the code under test emitted).
pub fn run_parallel<S: Send + Sync + serde::Serialize + 'static>(
    opt: &HashMap<String, String>,
    specs: Vec<S>,
    f: fn(usize, &S, &mut Vec<Value>) -> Vec<Vec<u8>>,
) -> i32 {
    let jobs: usize = get(opt, "jobs", 8);
    let out_dir = opt.get("out").cloned().unwrap_or_else(|| ".".into());
    std::fs::create_dir_all(&out_dir).unwrap();
    let specs = Arc::new(specs);
    let n = specs.len();
    // --only k: run nothing but spec k (the supervisor in checks/common.py narrows down which run killed the process)
    let only: Option<usize> = opt.get("only").and_then(|s| s.parse().ok());
    let jobs = if only.is_some() { 1 } else { jobs };
    let mut handles = vec![];
    for j in 0..jobs {
        let specs = specs.clone();
        let out_dir = out_dir.clone();
        handles.push(std::thread::spawn(move || {
            use std::io::{Seek, SeekFrom};
            let mut tf = std::io::BufWriter::new(std::fs::File::create(format!("{out_dir}/trace_{j}.ndjson")).unwrap());
            let mut cf = std::io::BufWriter::new(std::fs::File::create(format!("{out_dir}/captured_{j}.hex")).unwrap());
            let mut sf = std::io::BufWriter::new(std::fs::File::create(format!("{out_dir}/specs_{j}.jsonl")).unwrap());
            // the run this thread is in, written (unbuffered) before the run starts: survives an abort of the process
            let mut pf = std::fs::File::create(format!("{out_dir}/current_{j}")).unwrap();
            let mut events = 0usize;
            let mut k = only.unwrap_or(j);
            while k < n {
                let _ = pf.seek(SeekFrom::Start(0));
                let _ = pf.write_all(format!("{k:>12}\n").as_bytes());
                if only.is_some() {
                    let mut of = std::fs::File::create(format!("{out_dir}/only_spec.json")).unwrap();
                    let _ = of.write_all(serde_json::to_string(&specs[k]).unwrap().as_bytes());
                }
                let mut ev = vec![];
                let cap = f(k, &specs[k], &mut ev);
                writeln!(sf, "{}", serde_json::json!({"run": k, "spec": &specs[k]})).unwrap();
                for e in &ev {
                    serde_json::to_writer(&mut tf, e).unwrap();
                    tf.write_all(b"\n").unwrap();
                }
                events += ev.len();
                for c in cap {
                    let h: String = c.iter().map(|b| format!("{b:02x}")).collect();
                    writeln!(cf, "{h}").unwrap();
                }
                if only.is_some() {
                    break;
                }
                k += jobs;
            }
            let _ = pf.seek(SeekFrom::Start(0));
            let _ = pf.write_all(format!("{:>12}\n", "done").as_bytes());
            events
        }));
    }
    let mut total = 0;
    for h in handles {
        total += h.join().expect("worker thread panicked");
    }
    println!("{{\"runs\":{n},\"events\":{total}}}");
    0
}

pub fn write_jsonl<T: serde::Serialize>(path: &str, items: &[T]) -> i32 {
    let mut f = std::io::BufWriter::new(std::fs::File::create(path).unwrap());
    for i in items {
        serde_json::to_writer(&mut f, i).unwrap();
        f.write_all(b"\n").unwrap();
    }
    println!("{{\"runs\":{}}}", items.len());
    0
}

thread_local! {
    /// when set, events are written (and flushed) to this file as they are produced, so that a
    /// supervisor can tell where the process died or hung
    pub static LIVE: std::cell::RefCell<Option<std::fs::File>> = const { std::cell::RefCell::new(None) };
}

pub fn live_event(v: &Value) {
    LIVE.with(|l| {
        if let Some(f) = l.borrow_mut().as_mut() {
            let _ = serde_json::to_writer(&mut *f, v);
            let _ = f.write_all(b"\n");
            let _ = f.flush();
        }
    });
}

/// Sequential execution for runs that may kill or hang the process (C06): runs --from.. are
/// executed on this thread, every event is appended to --out and flushed immediately.
pub fn run_guarded<S: serde::Serialize>(opt: &HashMap<String, String>, specs: Vec<S>, f: fn(usize, &S, &mut Vec<Value>) -> Vec<Vec<u8>>) -> i32 {
    let from: usize = get(opt, "from", 0);
    let out = opt.get("out").cloned().unwrap();
    let file = std::fs::OpenOptions::new().create(true).append(true).open(&out).unwrap();
    LIVE.with(|l| *l.borrow_mut() = Some(file));
    for k in from..specs.len() {
        let mut ev = vec![];
        let _ = f(k, &specs[k], &mut ev);
        // events were streamed by the driver through live_event(); write the rest
        for e in &ev {
            if e.get("_streamed").is_none() {
                live_event(e);
            }
        }
        live_event(&serde_json::json!({"ev":"RunDone","run":k}));
    }
    0
}
