//! `access` driver (property C18): renders abstract permissions / governance documents (as
//! enumerated by TLC from spec/AccessControl.tla, or seeded random ones over a larger alphabet) as
//! real XML, loads them through the real parsers of the crate and asks the real decision code
//! (`check_create_*`, `check_remote_*`, `check_entity`) every query of the run's query universe;
//! and, for the signature clause, feeds committed signed fixtures and byte-level alterations of
//! them into the real S/MIME verification and `validate_local_permissions`.
//!
//! Strengthening round: kind "forge" - a signed container assembled from genuine material by
//! COOPERATING edits (content exchanged / edited, signed attributes rewritten, signature value
//! exchanged / damaged, every field outside the signature replaced: MIME parameters, versions,
//! algorithm identifiers, signer identifier, embedded certificate, unsigned attributes).  The abstract
//! containers come from TLC (slice "forge" of spec/AccessControl.tla, <= MaxEdits edits) or from the
//! seeded generator (more edits, random content edits, byte noise / byte sweeps over the DER blob of
//! an already edited container); each is built on the real fixture bytes (own DER reader / writer,
//! base64, SHA-256) and given to the real S/MIME verification and validate_local_permissions.
//!
//! modes:  replay --in specs.jsonl | random --seed --runs --events [--tier --fixtures DIR]
//!         render --in fixtures.json --out DIR   (writes the XML that was signed once; not used by checks)
use std::collections::HashMap;

use rand::{rngs::StdRng, Rng, SeedableRng};
use rustdds::verif::access_rig::AccessRig;
use serde::{Deserialize, Serialize};
use serde_json::{json, Value};

use crate::util;

#[derive(Serialize, Deserialize, Clone, Debug)]
pub struct ARunSpec {
  pub kind: String, // "dec" | "sig"
  // ---- dec
  #[serde(default)]
  pub doc: Value, // {grants:[..], gov:[..]}
  #[serde(default)]
  pub subj: String, // "S1" | "S2"
  #[serde(default)]
  pub q: Value, // {doms:[..], topics:[..], parts:[[..],..]}  (product) or {list:[{op,dom,topic,parts}]}
  #[serde(default)]
  pub style: u32, // rendering style (time zone notation, white space)
  // ---- sig
  #[serde(default)]
  pub fixdir: String,
  #[serde(default)]
  pub perm: String, // permissions fixture name
  #[serde(default)]
  pub gov: String, // governance fixture name
  #[serde(default)]
  pub target: String, // "perm" | "gov": which blob is altered
  #[serde(default)]
  pub alts: Value, // {mode:"bytes", from, to, xors:[..], del:bool, ins:bool} | {mode:"special"}
  // ---- forge (perm / gov / target as for sig; empty perm = expanded over the tier's targets)
  #[serde(default)]
  pub blob: Value, // abstract container, AccessDecision!fblob
  #[serde(default)]
  pub ca: String, // configured CA: "CA" | "foreign"
  #[serde(default)]
  pub other: String, // fixture playing document "O" (same kind as the target)
  #[serde(default)]
  pub fmode: Value, // null: every concrete variant | {mode:"der_sweep",from,to,xors} | {mode:"rand",n,seed}
  // ---- dec with validity windows (grants with val = "window"): the reference instant the bounds are rendered
  // against, seconds since the Unix epoch; 1 = the wall clock at the start of the run; 0 = not chosen yet (a case
  // enumerated by TLC: `replay` runs it against the wall clock and against fixed dates)
  #[serde(default)]
  pub tref: i64,
}

pub const S1: &str = "CN=participant1_common_name,O=Example Organization";
pub const S2: &str = "CN=participant2_common_name,O=Example Organization";

fn subject_dn(s: &str) -> &str {
  match s {
    "S1" => S1,
    "S2" => S2,
    other => other,
  }
}

// ------------------------------------------------------------------ rendering
fn s(v: &Value) -> &str {
  v.as_str().unwrap_or("")
}
fn arr(v: &Value) -> &[Value] {
  v.as_array().map(|a| a.as_slice()).unwrap_or(&[])
}

fn render_time(which: &str, style: u32) -> String {
  let base = match which {
    "past1" => "2001-01-01T00:00:00",
    "past2" => "2002-01-01T00:00:00",
    "fut1" => "2998-01-01T00:00:00",
    _ => "2999-01-01T00:00:00",
  };
  match style % 3 {
    0 => base.to_string(),
    1 => format!("{base}Z"),
    _ => format!("{base}+00:00"),
  }
}

// ---- calendar arithmetic of the oracle side (own code: proleptic Gregorian calendar, no leap seconds)
fn days_from_civil(y: i64, m: i64, d: i64) -> i64 {
  let y = if m <= 2 { y - 1 } else { y };
  let era = if y >= 0 { y } else { y - 399 } / 400;
  let yoe = y - era * 400;
  let doy = (153 * (if m > 2 { m - 3 } else { m + 9 }) + 2) / 5 + d - 1;
  let doe = yoe * 365 + yoe / 4 - yoe / 100 + doy;
  era * 146097 + doe - 719468
}
fn unix_from_civil(y: i64, mo: i64, d: i64, h: i64, mi: i64, sec: i64) -> i64 {
  days_from_civil(y, mo, d) * 86400 + h * 3600 + mi * 60 + sec
}
/// "CCYY-MM-DDThh:mm:ss" of the instant `unix` read on a UTC clock
fn civil_digits(unix: i64) -> String {
  let days = unix.div_euclid(86400);
  let sod = unix.rem_euclid(86400);
  let z = days + 719468;
  let era = if z >= 0 { z } else { z - 146096 } / 146097;
  let doe = z - era * 146097;
  let yoe = (doe - doe / 1460 + doe / 36524 - doe / 146096) / 365;
  let doy = doe - (365 * yoe + yoe / 4 - yoe / 100);
  let mp = (5 * doy + 2) / 153;
  let d = doy - (153 * mp + 2) / 5 + 1;
  let m = if mp < 10 { mp + 3 } else { mp - 9 };
  let y = yoe + era * 400 + if m <= 2 { 1 } else { 0 };
  format!("{y:04}-{m:02}-{d:02}T{:02}:{:02}:{:02}", sod / 3600, sod % 3600 / 60, sod % 60)
}
fn wall_clock_unix() -> i64 {
  std::time::SystemTime::now().duration_since(std::time::UNIX_EPOCH).map(|d| d.as_secs() as i64).unwrap_or(0)
}
/// fixed reference instants (digits that cross a day / month / year / leap-day border once a zone is applied)
fn fixed_refs() -> [i64; 3] {
  [unix_from_civil(2031, 12, 31, 23, 30, 0), unix_from_civil(2028, 2, 29, 0, 20, 0), unix_from_civil(2040, 6, 15, 12, 0, 0)]
}
/// a validity bound as the abstract document writes it: wall-clock digits `d` (seconds relative to the reference
/// instant) + zone designator: none | Z | (+|-)hh:mm
fn render_bound(b: &Value, ref_unix: i64) -> String {
  let digits = civil_digits(ref_unix + b["d"].as_i64().unwrap_or(0));
  match s(&b["zk"]) {
    "none" => digits,
    "Z" => format!("{digits}Z"),
    _ => {
      let zm = b["zm"].as_i64().unwrap_or(0);
      format!("{digits}{}{:02}:{:02}", if zm < 0 { '-' } else { '+' }, zm.abs() / 60, zm.abs() % 60)
    }
  }
}
fn has_windows(doc: &Value) -> bool {
  arr(&doc["grants"]).iter().any(|g| s(&g["val"]) == "window")
}

fn render_criteria(tag: &str, crits: &[Value], out: &mut String) {
  for c in crits {
    out.push_str(&format!("        <{tag}>\n          <topics>\n"));
    for t in arr(&c["topics"]) {
      out.push_str(&format!("            <topic>{}</topic>\n", s(t)));
    }
    out.push_str("          </topics>\n");
    if !arr(&c["parts"]).is_empty() {
      out.push_str("          <partitions>\n");
      for p in arr(&c["parts"]) {
        out.push_str(&format!("            <partition>{}</partition>\n", s(p)));
      }
      out.push_str("          </partitions>\n");
    }
    out.push_str(&format!("        </{tag}>\n"));
  }
}

fn render_domains(doms: &[Value], out: &mut String) {
  out.push_str("        <domains>\n");
  for d in doms {
    let (a, b) = (d["a"].as_i64().unwrap_or(0), d["b"].as_i64().unwrap_or(0));
    match s(&d["k"]) {
      "id" => out.push_str(&format!("          <id>{a}</id>\n")),
      "range" => out.push_str(&format!("          <id_range><min>{a}</min><max>{b}</max></id_range>\n")),
      "min" => out.push_str(&format!("          <id_range><min>{a}</min></id_range>\n")),
      _ => out.push_str(&format!("          <id_range><max>{b}</max></id_range>\n")),
    }
  }
  out.push_str("        </domains>\n");
}

pub fn render_permissions(doc: &Value, style: u32) -> String {
  render_permissions_at(doc, style, 0)
}

/// `ref_unix`: the reference instant of grants with val = "window" (their bounds are written relative to it)
pub fn render_permissions_at(doc: &Value, style: u32, ref_unix: i64) -> String {
  let mut o = String::new();
  o.push_str("<?xml version=\"1.0\" encoding=\"UTF-8\"?>\n<dds xmlns:xsi=\"http://www.w3.org/2001/XMLSchema-instance\" xsi:noNamespaceSchemaLocation=\"http://www.omg.org/spec/DDS-Security/20170901/omg_shared_ca_permissions.xsd\">\n  <permissions>\n");
  for (i, g) in arr(&doc["grants"]).iter().enumerate() {
    o.push_str(&format!("    <grant name=\"g{i}\">\n      <subject_name>{}</subject_name>\n", subject_dn(s(&g["subj"]))));
    let (nb, na) = match s(&g["val"]) {
      "window" => (render_bound(&g["nb"], ref_unix), render_bound(&g["na"], ref_unix)),
      "valid" => (render_time("past1", style), render_time("fut2", style)),
      "expired" => (render_time("past1", style), render_time("past2", style)),
      _ => (render_time("fut1", style), render_time("fut2", style)),
    };
    o.push_str(&format!(
      "      <validity>\n        <not_before>{nb}</not_before>\n        <not_after>{na}</not_after>\n      </validity>\n"
    ));
    for r in arr(&g["rules"]) {
      let tag = if r["allow"].as_bool().unwrap_or(false) { "allow_rule" } else { "deny_rule" };
      o.push_str(&format!("      <{tag}>\n"));
      render_domains(arr(&r["doms"]), &mut o);
      render_criteria("publish", arr(&r["pub"]), &mut o);
      render_criteria("subscribe", arr(&r["sub"]), &mut o);
      render_criteria("relay", arr(&r["relay"]), &mut o);
      o.push_str(&format!("      </{tag}>\n"));
    }
    o.push_str(&format!("      <default>{}</default>\n    </grant>\n", s(&g["def"])));
  }
  o.push_str("  </permissions>\n</dds>\n");
  o
}

pub fn render_governance(doc: &Value, style: u32) -> String {
  let b = |v: &Value| {
    let t = v.as_bool().unwrap_or(true);
    match (style % 3, t) {
      (0, true) => "true",
      (0, false) => "false",
      (1, true) => "TRUE",
      (1, false) => "FALSE",
      (_, true) => "1",
      (_, false) => "0",
    }
  };
  let mut o = String::new();
  o.push_str("<?xml version=\"1.0\" encoding=\"UTF-8\"?>\n<dds xmlns:xsi=\"http://www.w3.org/2001/XMLSchema-instance\" xsi:noNamespaceSchemaLocation=\"http://www.omg.org/spec/DDS-SECURITY/20170901/omg_shared_ca_governance.xsd\">\n  <domain_access_rules>\n    <domain_rule>\n      <domains>\n        <id_range><min>0</min><max>230</max></id_range>\n      </domains>\n      <allow_unauthenticated_participants>false</allow_unauthenticated_participants>\n      <enable_join_access_control>true</enable_join_access_control>\n      <discovery_protection_kind>NONE</discovery_protection_kind>\n      <liveliness_protection_kind>NONE</liveliness_protection_kind>\n      <rtps_protection_kind>NONE</rtps_protection_kind>\n      <topic_access_rules>\n");
  for r in arr(&doc["gov"]) {
    o.push_str(&format!(
      "        <topic_rule>\n          <topic_expression>{}</topic_expression>\n          <enable_discovery_protection>false</enable_discovery_protection>\n          <enable_liveliness_protection>false</enable_liveliness_protection>\n          <enable_read_access_control>{}</enable_read_access_control>\n          <enable_write_access_control>{}</enable_write_access_control>\n          <metadata_protection_kind>NONE</metadata_protection_kind>\n          <data_protection_kind>NONE</data_protection_kind>\n        </topic_rule>\n",
      s(&r["expr"]),
      b(&r["read"]),
      b(&r["write"])
    ));
  }
  o.push_str("      </topic_access_rules>\n    </domain_rule>\n  </domain_access_rules>\n</dds>\n");
  o
}

// ------------------------------------------------------------------ queries
const DIRECT_OPS: [&str; 3] = ["entity_writer", "entity_reader", "entity_topic"];
const PUBLIC_OPS: [&str; 6] = ["create_writer", "create_reader", "create_topic", "remote_writer", "remote_reader", "remote_topic"];

fn queries(q: &Value) -> Vec<(String, u16, String, Vec<String>)> {
  let mut out = vec![];
  if let Some(list) = q.get("list").and_then(|l| l.as_array()) {
    for e in list {
      out.push((
        s(&e["op"]).to_string(),
        e["dom"].as_u64().unwrap_or(0) as u16,
        s(&e["topic"]).to_string(),
        arr(&e["parts"]).iter().map(|p| s(p).to_string()).collect(),
      ));
    }
    return out;
  }
  for d in arr(&q["doms"]) {
    let d = d.as_u64().unwrap_or(0) as u16;
    for t in arr(&q["topics"]) {
      for op in PUBLIC_OPS {
        out.push((op.to_string(), d, s(t).to_string(), vec![]));
      }
      for p in arr(&q["parts"]) {
        let parts: Vec<String> = arr(p).iter().map(|x| s(x).to_string()).collect();
        for op in DIRECT_OPS {
          out.push((op.to_string(), d, s(t).to_string(), parts.clone()));
        }
      }
    }
  }
  out
}

fn log_checks(rig: &AccessRig, handle: Option<u32>, q: &Value, ev: &mut Vec<Value>) {
  for (op, dom, topic, parts) in queries(q) {
    let (raw, _detail) = match handle {
      Some(h) => rig.check(h, &op, dom, &topic, &parts),
      None => ("no_handle", String::new()),
    };
    let out = if raw == "allow" { "allow" } else { "deny" };
    ev.push(json!({"ev":"Check","op":op,"dom":dom,"topic":topic,"parts":parts,"out":out,"raw":raw}));
  }
}

fn run_dec(k: usize, sp: &ARunSpec, ev: &mut Vec<Value>) {
  // validity windows are written relative to a reference instant: the wall clock (the public entrances ask the real
  // clock; every bound of the alphabet is >= 15 minutes away from the reference) or a fixed date (then the clock of
  // the run is years away from every window; a fixed date that has come within 30 days of the clock is not used)
  let clock = wall_clock_unix();
  let ref_unix = if sp.tref <= 1 || (sp.tref - clock).abs() < 30 * 86400 { clock } else { sp.tref };
  ev.push(json!({"ev":"Reset","run":k,"kind":"dec","doc":sp.doc,"subj":sp.subj,"now":clock - ref_unix,
                 "ref":if ref_unix == clock { "clock".to_string() } else { format!("{}Z", civil_digits(ref_unix)) }}));
  let pxml = render_permissions_at(&sp.doc, sp.style, ref_unix);
  let gxml = render_governance(&sp.doc, sp.style / 3);
  let mut rig = AccessRig::new();
  let inst = rig.install_unsigned(subject_dn(&sp.subj), &pxml, &gxml, 0);
  let handle = match &inst {
    Ok((h, g)) => {
      ev.push(json!({"ev":"Install","ok":true,"has_grant":g,"err":""}));
      Some(*h)
    }
    Err(e) => {
      ev.push(json!({"ev":"Install","ok":false,"has_grant":false,"err":e.chars().take(200).collect::<String>()}));
      None
    }
  };
  log_checks(&rig, handle, &sp.q, ev);
  // the real find_grant at explicit instants (relative to the reference)
  if let Some(h) = handle {
    for t in arr(&sp.q["times"]) {
      let t = t.as_i64().unwrap_or(0);
      match rig.has_grant_at(h, ref_unix + t) {
        Ok(g) => ev.push(json!({"ev":"GrantAt","t":t,"ok":true,"has_grant":g,"raw":""})),
        Err(e) => ev.push(json!({"ev":"GrantAt","t":t,"ok":e == "panic","has_grant":false,"raw":e})),
      }
    }
  }
}

// ------------------------------------------------------------------ signature clause
fn canonical(xml: &[u8]) -> Vec<u8> {
  // what `openssl smime -sign -text` signs: the text/plain MIME entity with CRLF line ends
  let mut o = b"Content-Type: text/plain\r\n\r\n".to_vec();
  let mut prev = 0u8;
  for &b in xml {
    if b == b'\n' && prev != b'\r' {
      o.push(b'\r');
    }
    o.push(b);
    prev = b;
  }
  o
}

struct Fix {
  dir: String,
}
impl Fix {
  fn read(&self, name: &str) -> Vec<u8> {
    std::fs::read(format!("{}/{}", self.dir, name)).unwrap_or_else(|e| panic!("fixture {}/{name}: {e}", self.dir))
  }
  fn path(&self, name: &str) -> String {
    format!("{}/{}", self.dir, name)
  }
}

fn split_parts(blob: &[u8]) -> Option<(usize, usize)> {
  // (start of 2nd boundary line, end of blob): positions to splice signature parts between fixtures
  let text = String::from_utf8_lossy(blob);
  let bstart = text.find("boundary=\"")? + 10;
  let bend = bstart + text[bstart..].find('"')?;
  let boundary = format!("--{}", &text[bstart..bend]);
  let first = text.find(&boundary)?;
  let second = first + boundary.len() + text[first + boundary.len()..].find(&boundary)?;
  Some((second, blob.len()))
}

#[allow(clippy::too_many_arguments)]
fn verify_event(
  alt: Value,
  blob: &[u8],
  ca_pem: &[u8],
  signer: &str,
  ca: &str,
  signed_content: &[u8],
  pristine: bool,
  ev: &mut Vec<Value>,
) -> bool {
  let r = AccessRig::verify_blob(blob, ca_pem);
  let (out, same) = match &r {
    Ok(c) => ("accepted", c.as_slice() == signed_content),
    Err(e) if e == "panic" => ("panic", false),
    Err(_) => ("refused", false),
  };
  ev.push(json!({"ev":"Verify","alt":alt,"signer":signer,"ca":ca,"out":out,"same":same,"pristine":pristine}));
  out == "accepted"
}

/// full validate_local_permissions with (possibly altered) blobs, then the decisions
#[allow(clippy::too_many_arguments)]
fn validate_event(k: usize, tag: &str, fx: &Fix, perm_blob: &[u8], gov_blob: &[u8], ca_file: &str, q: Option<&Value>, alt: Value, ev: &mut Vec<Value>) {
  let tmp = std::env::temp_dir().join(format!("vh_access_{}_{k}_{tag}", std::process::id()));
  std::fs::create_dir_all(&tmp).unwrap();
  let pp = tmp.join("p.p7s");
  let gp = tmp.join("g.p7s");
  std::fs::write(&pp, perm_blob).unwrap();
  std::fs::write(&gp, gov_blob).unwrap();
  let mut rig = AccessRig::new();
  let r = rig.validate_local(&fx.path(ca_file), gp.to_str().unwrap(), pp.to_str().unwrap(), &fx.path("identity_cert.pem"), 0);
  let _ = std::fs::remove_dir_all(&tmp);
  match r {
    Ok(h) => {
      ev.push(json!({"ev":"Validate","alt":alt,"ok":true,"has_grant":rig.has_grant(h),"err":""}));
      if let Some(q) = q {
        log_checks(&rig, Some(h), q, ev);
      }
    }
    Err(e) => ev.push(json!({"ev":"Validate","alt":alt,"ok":false,"has_grant":false,"err":e.chars().take(160).collect::<String>()})),
  }
}

fn run_sig(k: usize, sp: &ARunSpec, ev: &mut Vec<Value>) {
  let fx = Fix { dir: sp.fixdir.clone() };
  let meta: Value = serde_json::from_slice(&fx.read("fixtures.json")).expect("fixtures.json");
  let doc = json!({"grants": meta[&sp.perm]["grants"], "gov": meta[&sp.gov]["gov"]});
  ev.push(json!({"ev":"Reset","run":k,"kind":"sig","doc":doc,"subj":"S1","now":0,"perm":sp.perm,"gov":sp.gov,"target":sp.target}));
  let own_ca = fx.read("permissions_ca.cert.pem");
  let foreign_ca = fx.read("foreign_ca.cert.pem");
  let perm_blob = fx.read(&format!("{}.p7s", sp.perm));
  let gov_blob = fx.read(&format!("{}.p7s", sp.gov));
  let tname = if sp.target == "gov" { &sp.gov } else { &sp.perm };
  let blob = if sp.target == "gov" { gov_blob.clone() } else { perm_blob.clone() };
  let content = canonical(&fx.read(&format!("{tname}.xml")));
  let q = json!({"doms":[0,1],"topics":["A","AB","B"],"parts":[[], ["A"]]});
  let with = |alt_blob: &[u8]| -> (Vec<u8>, Vec<u8>) {
    if sp.target == "gov" {
      (perm_blob.clone(), alt_blob.to_vec())
    } else {
      (alt_blob.to_vec(), gov_blob.clone())
    }
  };
  match s(&sp.alts["mode"]) {
    "special" => {
      // pristine: accepted with exactly the signed content, and decisions as the document says
      verify_event(json!({"k":"pristine"}), &blob, &own_ca, "own", "own", &content, true, ev);
      validate_event(k, "pr", &fx, &perm_blob, &gov_blob, "permissions_ca.cert.pem", Some(&q), json!({"k":"pristine"}), ev);
      // configured CA is another one
      verify_event(json!({"k":"other_ca_configured"}), &blob, &foreign_ca, "own", "foreign", &content, false, ev);
      validate_event(k, "fc", &fx, &perm_blob, &gov_blob, "foreign_ca.cert.pem", Some(&q), json!({"k":"other_ca_configured"}), ev);
      // the same document signed by a foreign CA / by the participant's own identity key
      for (suffix, signer) in [("foreign", "foreign"), ("identity", "identity")] {
        let b = fx.read(&format!("{tname}.{suffix}.p7s"));
        verify_event(json!({"k":"signed_by","who":signer}), &b, &own_ca, signer, "own", &content, false, ev);
        let (p, g) = with(&b);
        validate_event(k, suffix, &fx, &p, &g, "permissions_ca.cert.pem", Some(&q), json!({"k":"signed_by","who":signer}), ev);
        if signer == "foreign" {
          verify_event(json!({"k":"signed_by_and_configured","who":signer}), &b, &foreign_ca, "foreign", "foreign", &content, true, ev);
        }
      }
      // a valid signature of the right CA over OTHER content: signature part of every other fixture of
      // the same kind spliced under this content
      for other in arr(&meta["_order"]) {
        let other = s(other);
        if other == tname || meta[other].get("grants").is_some() != meta[tname.as_str()].get("grants").is_some() {
          continue;
        }
        let ob = fx.read(&format!("{other}.p7s"));
        if let (Some((cut_t, _)), Some((cut_o, end_o))) = (split_parts(&blob), split_parts(&ob)) {
          // boundaries differ per file: rewrite the other's boundary to ours
          let text_t = String::from_utf8_lossy(&blob).to_string();
          let text_o = String::from_utf8_lossy(&ob).to_string();
          let bnd = |t: &str| {
            let a = t.find("boundary=\"").unwrap() + 10;
            t[a..a + t[a..].find('"').unwrap()].to_string()
          };
          let sigpart = text_o[cut_o..end_o].replace(&bnd(&text_o), &bnd(&text_t));
          let mut spliced = blob[..cut_t].to_vec();
          spliced.extend_from_slice(sigpart.as_bytes());
          let other_content = canonical(&fx.read(&format!("{other}.xml")));
          // accepted would mean: content of `tname` returned under a signature made over `other`
          verify_event(json!({"k":"splice","sig_of":other}), &spliced, &own_ca, "own", "own", &other_content, false, ev);
          let (p, g) = with(&spliced);
          validate_event(k, "sp", &fx, &p, &g, "permissions_ca.cert.pem", Some(&q), json!({"k":"splice","sig_of":other}), ev);
        }
      }
      // truncations
      for cut in [0usize, 1, blob.len() / 4, blob.len() / 2, blob.len() * 3 / 4, blob.len() - 40, blob.len() - 1] {
        let tb = &blob[..cut.min(blob.len())];
        verify_event(json!({"k":"truncate","at":cut}), tb, &own_ca, "own", "own", &content, false, ev);
        let (p, g) = with(tb);
        validate_event(k, "tr", &fx, &p, &g, "permissions_ca.cert.pem", Some(&q), json!({"k":"truncate","at":cut}), ev);
      }
    }
    _ => {
      let from = sp.alts["from"].as_u64().unwrap_or(0) as usize;
      let to = (sp.alts["to"].as_u64().unwrap_or(0) as usize).min(blob.len());
      let xors: Vec<u8> = arr(&sp.alts["xors"]).iter().map(|x| x.as_u64().unwrap_or(1) as u8).collect();
      let structural = sp.alts["structural"].as_bool().unwrap_or(false);
      let every = sp.alts["every"].as_u64().unwrap_or(1).max(1) as usize;
      let mut n_acc = 0usize;
      let qmini = json!({"doms":[0],"topics":["A","B"],"parts":[["A"]]});
      for pos in from..to {
        let mut alts: Vec<(Value, Vec<u8>)> = vec![];
        for x in &xors {
          let mut b = blob.clone();
          b[pos] ^= x;
          alts.push((json!({"k":"xor","pos":pos,"x":x}), b));
        }
        if structural {
          let mut b = blob.clone();
          b.remove(pos);
          alts.push((json!({"k":"del","pos":pos}), b));
          let mut b = blob.clone();
          b.insert(pos, blob[pos]);
          alts.push((json!({"k":"dup","pos":pos}), b));
          let mut b = blob.clone();
          b[pos] = if blob[pos] == b' ' { b'x' } else { b' ' };
          alts.push((json!({"k":"set","pos":pos}), b));
        }
        for (alt, b) in alts {
          // 1. the verification mechanism itself; 2. the public entry point with the same blob (its
          // verdict must not be more lenient); decisions are queried for every `every`-th accepted one
          let accepted = verify_event(alt.clone(), &b, &own_ca, "own", "own", &content, false, ev);
          let (p, g) = with(&b);
          let do_checks = accepted && n_acc % every == 0;
          if accepted {
            n_acc += 1;
          }
          validate_event(k, "alt", &fx, &p, &g, "permissions_ca.cert.pem", if do_checks { Some(&qmini) } else { None }, alt, ev);
        }
      }
    }
  }
}

// ------------------------------------------------------------------ forged containers (strengthening round)
fn blank_spec(kind: &str) -> ARunSpec {
  ARunSpec {
    kind: kind.into(),
    doc: Value::Null,
    subj: String::new(),
    q: Value::Null,
    style: 0,
    fixdir: String::new(),
    perm: String::new(),
    gov: String::new(),
    target: String::new(),
    alts: Value::Null,
    blob: Value::Null,
    ca: String::new(),
    other: String::new(),
    fmode: Value::Null,
    tref: 0,
  }
}

/// SHA-256, own implementation (the oracle side must not share code with the crate under test);
/// cross-checked at every run against the messageDigest attribute of the genuine fixture.
fn sha256(data: &[u8]) -> [u8; 32] {
  const K: [u32; 64] = [
    0x428a2f98, 0x71374491, 0xb5c0fbcf, 0xe9b5dba5, 0x3956c25b, 0x59f111f1, 0x923f82a4, 0xab1c5ed5, 0xd807aa98, 0x12835b01, 0x243185be, 0x550c7dc3, 0x72be5d74,
    0x80deb1fe, 0x9bdc06a7, 0xc19bf174, 0xe49b69c1, 0xefbe4786, 0x0fc19dc6, 0x240ca1cc, 0x2de92c6f, 0x4a7484aa, 0x5cb0a9dc, 0x76f988da, 0x983e5152, 0xa831c66d,
    0xb00327c8, 0xbf597fc7, 0xc6e00bf3, 0xd5a79147, 0x06ca6351, 0x14292967, 0x27b70a85, 0x2e1b2138, 0x4d2c6dfc, 0x53380d13, 0x650a7354, 0x766a0abb, 0x81c2c92e,
    0x92722c85, 0xa2bfe8a1, 0xa81a664b, 0xc24b8b70, 0xc76c51a3, 0xd192e819, 0xd6990624, 0xf40e3585, 0x106aa070, 0x19a4c116, 0x1e376c08, 0x2748774c, 0x34b0bcb5,
    0x391c0cb3, 0x4ed8aa4a, 0x5b9cca4f, 0x682e6ff3, 0x748f82ee, 0x78a5636f, 0x84c87814, 0x8cc70208, 0x90befffa, 0xa4506ceb, 0xbef9a3f7, 0xc67178f2,
  ];
  let mut h: [u32; 8] = [0x6a09e667, 0xbb67ae85, 0x3c6ef372, 0xa54ff53a, 0x510e527f, 0x9b05688c, 0x1f83d9ab, 0x5be0cd19];
  let mut m = data.to_vec();
  m.push(0x80);
  while m.len() % 64 != 56 {
    m.push(0);
  }
  m.extend_from_slice(&((data.len() as u64) * 8).to_be_bytes());
  for block in m.chunks(64) {
    let mut w = [0u32; 64];
    for i in 0..16 {
      w[i] = u32::from_be_bytes([block[4 * i], block[4 * i + 1], block[4 * i + 2], block[4 * i + 3]]);
    }
    for i in 16..64 {
      let s0 = w[i - 15].rotate_right(7) ^ w[i - 15].rotate_right(18) ^ (w[i - 15] >> 3);
      let s1 = w[i - 2].rotate_right(17) ^ w[i - 2].rotate_right(19) ^ (w[i - 2] >> 10);
      w[i] = w[i - 16].wrapping_add(s0).wrapping_add(w[i - 7]).wrapping_add(s1);
    }
    let mut v = h;
    for i in 0..64 {
      let s1 = v[4].rotate_right(6) ^ v[4].rotate_right(11) ^ v[4].rotate_right(25);
      let chv = (v[4] & v[5]) ^ (!v[4] & v[6]);
      let t1 = v[7].wrapping_add(s1).wrapping_add(chv).wrapping_add(K[i]).wrapping_add(w[i]);
      let s0 = v[0].rotate_right(2) ^ v[0].rotate_right(13) ^ v[0].rotate_right(22);
      let maj = (v[0] & v[1]) ^ (v[0] & v[2]) ^ (v[1] & v[2]);
      let t2 = s0.wrapping_add(maj);
      v = [t1.wrapping_add(t2), v[0], v[1], v[2], v[3].wrapping_add(t1), v[4], v[5], v[6]];
    }
    for i in 0..8 {
      h[i] = h[i].wrapping_add(v[i]);
    }
  }
  let mut out = [0u8; 32];
  for i in 0..8 {
    out[4 * i..4 * i + 4].copy_from_slice(&h[i].to_be_bytes());
  }
  out
}

const B64: &[u8; 64] = b"ABCDEFGHIJKLMNOPQRSTUVWXYZabcdefghijklmnopqrstuvwxyz0123456789+/";
fn b64_decode(text: &str) -> Vec<u8> {
  let mut out = vec![];
  let (mut acc, mut bits) = (0u32, 0u32);
  for c in text.bytes() {
    let v = match B64.iter().position(|&x| x == c) {
      Some(v) => v as u32,
      None => continue, // white space, padding
    };
    acc = (acc << 6) | v;
    bits += 6;
    if bits >= 8 {
      bits -= 8;
      out.push((acc >> bits) as u8);
      acc &= (1 << bits) - 1;
    }
  }
  out
}
/// 64 characters per line, every line ends with '\n' (the layout openssl writes)
fn b64_encode_lines(data: &[u8]) -> String {
  let mut flat = String::new();
  for chunk in data.chunks(3) {
    let b = [chunk[0], *chunk.get(1).unwrap_or(&0), *chunk.get(2).unwrap_or(&0)];
    let n = (u32::from(b[0]) << 16) | (u32::from(b[1]) << 8) | u32::from(b[2]);
    for k in 0..4 {
      if k <= chunk.len() {
        flat.push(B64[((n >> (18 - 6 * k)) & 63) as usize] as char);
      } else {
        flat.push('=');
      }
    }
  }
  let mut out = String::new();
  for line in flat.as_bytes().chunks(64) {
    out.push_str(std::str::from_utf8(line).unwrap());
    out.push('\n');
  }
  out
}

/// DER tree: primitive (tag, content octets) | constructed (tag, children); definite lengths only
#[derive(Clone, Debug, PartialEq)]
enum Der {
  Prim(u8, Vec<u8>),
  Cons(u8, Vec<Der>),
}
fn der_parse(b: &[u8], pos: &mut usize) -> Der {
  let tag = b[*pos];
  assert!(tag & 0x1f != 0x1f, "fixture shape: high tag number");
  let l0 = b[*pos + 1];
  *pos += 2;
  let len = if l0 < 0x80 {
    l0 as usize
  } else {
    let n = (l0 & 0x7f) as usize;
    let mut v = 0usize;
    for _ in 0..n {
      v = (v << 8) | b[*pos] as usize;
      *pos += 1;
    }
    v
  };
  let end = *pos + len;
  if tag & 0x20 != 0 {
    let mut c = vec![];
    while *pos < end {
      c.push(der_parse(b, pos));
    }
    assert!(*pos == end, "fixture shape: child overruns parent");
    Der::Cons(tag, c)
  } else {
    let v = b[*pos..end].to_vec();
    *pos = end;
    Der::Prim(tag, v)
  }
}
fn der_encode(d: &Der, out: &mut Vec<u8>) {
  let (tag, body) = match d {
    Der::Prim(t, v) => (*t, v.clone()),
    Der::Cons(t, c) => {
      let mut b = vec![];
      for x in c {
        der_encode(x, &mut b);
      }
      (*t, b)
    }
  };
  out.push(tag);
  if body.len() < 0x80 {
    out.push(body.len() as u8);
  } else {
    let bytes: Vec<u8> = body.len().to_be_bytes().iter().copied().skip_while(|&x| x == 0).collect();
    out.push(0x80 | bytes.len() as u8);
    out.extend_from_slice(&bytes);
  }
  out.extend_from_slice(&body);
}
fn ch(d: &mut Der) -> &mut Vec<Der> {
  match d {
    Der::Cons(_, c) => c,
    Der::Prim(t, _) => panic!("fixture shape: constructed value expected, found tag {t:#x}"),
  }
}
fn prim(d: &mut Der) -> &mut Vec<u8> {
  match d {
    Der::Prim(_, v) => v,
    Der::Cons(t, _) => panic!("fixture shape: primitive value expected, found tag {t:#x}"),
  }
}
fn tag(d: &Der) -> u8 {
  match d {
    Der::Prim(t, _) | Der::Cons(t, _) => *t,
  }
}
/// children of SignedData: version, digestAlgorithms, encapContentInfo, [0] certificates?, [1] crls?, signerInfos
fn sd(root: &mut Der) -> &mut Vec<Der> {
  ch(&mut ch(&mut ch(root)[1])[0])
}
/// children of the first SignerInfo: version, sid, digestAlgorithm, [0] signedAttrs, signatureAlgorithm, signature, [1] unsignedAttrs?
fn si(root: &mut Der) -> &mut Vec<Der> {
  let sdc = sd(root);
  let last = sdc.len() - 1;
  assert!(tag(&sdc[last]) == 0x31, "fixture shape: signerInfos");
  let sic = ch(&mut ch(&mut sdc[last])[0]);
  assert!(sic.len() >= 6 && tag(&sic[3]) == 0xa0 && tag(&sic[5]) == 0x04, "fixture shape: SignerInfo");
  sic
}
fn first_prim_with_tag(d: &mut Der, t: u8) -> Option<&mut Vec<u8>> {
  match d {
    Der::Prim(tt, v) => (*tt == t).then_some(v),
    Der::Cons(_, c) => c.iter_mut().find_map(|x| first_prim_with_tag(x, t)),
  }
}
const OID_ATTR_MD: [u8; 9] = [0x2a, 0x86, 0x48, 0x86, 0xf7, 0x0d, 0x01, 0x09, 0x04];
const OID_ATTR_TIME: [u8; 9] = [0x2a, 0x86, 0x48, 0x86, 0xf7, 0x0d, 0x01, 0x09, 0x05];
/// the (single) value of the signed attribute with this type
fn signed_attr<'a>(root: &'a mut Der, oid: &[u8]) -> &'a mut Vec<u8> {
  for a in ch(&mut si(root)[3]).iter_mut() {
    let is = matches!(&ch(a)[0], Der::Prim(0x06, v) if v.as_slice() == oid);
    if is {
      return prim(&mut ch(&mut ch(a)[1])[0]);
    }
  }
  panic!("fixture shape: signed attribute missing");
}

// registered object identifiers (content octets)
const DIGEST_OIDS: [&[u8]; 5] = [
  &[0x60, 0x86, 0x48, 0x01, 0x65, 0x03, 0x04, 0x02, 0x02], // sha384
  &[0x60, 0x86, 0x48, 0x01, 0x65, 0x03, 0x04, 0x02, 0x03], // sha512
  &[0x2b, 0x0e, 0x03, 0x02, 0x1a],                         // sha1
  &[0x60, 0x86, 0x48, 0x01, 0x65, 0x03, 0x04, 0x02, 0x04], // sha224
  &[0x2a, 0x86, 0x48, 0x86, 0xf7, 0x0d, 0x02, 0x05],       // md5
];
const SIGALG_OIDS: [&[u8]; 6] = [
  &[0x2a, 0x86, 0x48, 0xce, 0x3d, 0x04, 0x03, 0x03],             // ecdsa-with-SHA384
  &[0x2a, 0x86, 0x48, 0xce, 0x3d, 0x04, 0x03, 0x04],             // ecdsa-with-SHA512
  &[0x2a, 0x86, 0x48, 0xce, 0x3d, 0x04, 0x01],                   // ecdsa-with-SHA1
  &[0x2a, 0x86, 0x48, 0x86, 0xf7, 0x0d, 0x01, 0x01, 0x01],       // rsaEncryption
  &[0x2a, 0x86, 0x48, 0x86, 0xf7, 0x0d, 0x01, 0x01, 0x0b],       // sha256WithRSAEncryption
  &[0x2b, 0x65, 0x70],                                           // Ed25519
];
const CONTENT_OIDS: [&[u8]; 3] = [
  &[0x2a, 0x86, 0x48, 0x86, 0xf7, 0x0d, 0x01, 0x07, 0x01], // data
  &[0x2a, 0x86, 0x48, 0x86, 0xf7, 0x0d, 0x01, 0x07, 0x02], // signedData
  &[0x2a, 0x86, 0x48, 0x86, 0xf7, 0x0d, 0x01, 0x07, 0x03], // envelopedData
];
const UFIELDS: [&str; 12] = [
  "root_type", "sd_version", "sd_dalgs", "encap_type", "certs", "si_version", "si_sid", "si_dalg", "si_salg", "si_uattrs", "mime_micalg", "mime_protocol",
];
fn ualts(f: &str) -> &'static [&'static str] {
  match f {
    "root_type" | "encap_type" | "si_dalg" | "si_salg" => &["known", "unknown"],
    "sd_dalgs" => &["known", "unknown", "empty"],
    "certs" => &["flipped", "removed", "foreign"],
    "si_sid" => &["serial", "foreign"],
    _ => &["alt"],
  }
}
const MIME_BASE: usize = 100_000;
const N_E_VARIANTS: usize = 2; // in exhaustive-variant mode: defaults flipped, one character swapped

fn hexs(b: &[u8]) -> String {
  b.iter().map(|x| format!("{x:02x}")).collect()
}

/// a registered identifier other than the present one / an unregistered one
fn oid_variant(orig: &[u8], class: &str, known: &[&[u8]], i: usize) -> Vec<u8> {
  if class == "known" {
    let others: Vec<&&[u8]> = known.iter().filter(|k| **k != orig).collect();
    others[i % others.len()].to_vec()
  } else {
    let mut v = orig.to_vec();
    let n = v.len() - 1;
    v[n] ^= [0x40u8, 0x01, 0x08, 0x20][i % 4];
    if known.iter().any(|k| *k == v.as_slice()) || v[n] & 0x80 != 0 {
      v[n] ^= 0x10;
    }
    v
  }
}
fn n_oid_variants(class: &str, known: &[&[u8]]) -> usize {
  if class == "known" {
    known.len() - 1
  } else {
    4
  }
}

struct Frame {
  pre: String,  // MIME header, preamble, first boundary line
  mid: String,  // "\n" boundary line, headers of the signature part, blank line
  post: String, // blank line, closing boundary
  der: Vec<u8>,
}
fn split_frame(blob: &[u8]) -> Frame {
  let text = String::from_utf8(blob.to_vec()).expect("fixture is ASCII");
  let a = text.find("boundary=\"").expect("boundary") + 10;
  let delim = format!("--{}\n", &text[a..a + text[a..].find('"').unwrap()]);
  let pre_end = text.find(&delim).expect("first boundary") + delim.len();
  let second = pre_end + text[pre_end..].find(&format!("\n{delim}")).expect("second boundary");
  let mid_end = second + text[second..].find("\n\n").expect("signature part headers") + 2;
  let body_end = mid_end + text[mid_end..].find("\n\n").expect("signature part body") + 1;
  Frame {
    pre: text[..pre_end].to_string(),
    mid: text[second..mid_end].to_string(),
    post: text[body_end..].to_string(),
    der: b64_decode(&text[mid_end..body_end]),
  }
}

/// the edited content E, variant 0: the document with every default (permissions) / every access control switch
/// (governance) inverted - a loadable document that says the opposite
fn inverted_document(doc: &Value) -> (Vec<u8>, String) {
  let mut d = doc.clone();
  if d.get("grants").is_some() {
    for g in d["grants"].as_array_mut().unwrap() {
      g["def"] = json!(if s(&g["def"]) == "ALLOW" { "DENY" } else { "ALLOW" });
    }
    (render_permissions(&d, 0).into_bytes(), "defaults_inverted".into())
  } else {
    for r in d["gov"].as_array_mut().unwrap() {
      r["read"] = json!(!r["read"].as_bool().unwrap_or(true));
      r["write"] = json!(!r["write"].as_bool().unwrap_or(true));
    }
    (render_governance(&d, 0).into_bytes(), "switches_inverted".into())
  }
}

fn fixture(dir: &str, name: &str) -> std::sync::Arc<Vec<u8>> {
  use std::sync::{Arc, Mutex, OnceLock};
  static CACHE: OnceLock<Mutex<HashMap<String, Arc<Vec<u8>>>>> = OnceLock::new();
  let key = format!("{dir}/{name}");
  let mut c = CACHE.get_or_init(|| Mutex::new(HashMap::new())).lock().unwrap();
  c.entry(key.clone()).or_insert_with(|| Arc::new(std::fs::read(&key).unwrap_or_else(|e| panic!("fixture {key}: {e}")))).clone()
}

/// the genuine material for target document `t` and the other document `o` (same kind)
struct Materials {
  perm_kind: bool,
  frame: Frame,                          // t.p7s (signed by the Permissions CA)
  ders: HashMap<(String, String), Der>,  // ("T"|"O", signer) -> SignedData blob of that signature part
  xml_t: Vec<u8>,
  xml_o: Vec<u8>,
  doc_t: Value,
  doc_o: Value,
}
fn suffix(by: &str) -> &'static str {
  match by {
    "CA" => "",
    "foreign" => ".foreign",
    _ => ".identity",
  }
}
fn materials(dir: &str, t: &str, o: &str) -> Materials {
  let meta: Value = serde_json::from_slice(&fixture(dir, "fixtures.json")).expect("fixtures.json");
  let perm_kind = meta[t].get("grants").is_some();
  assert!(perm_kind == meta[o].get("grants").is_some() && t != o, "forge: documents T and O must be two of the same kind");
  let genuine = fixture(dir, &format!("{t}.p7s"));
  let frame = split_frame(&genuine);
  let mut ders = HashMap::new();
  for (d, name) in [("T", t), ("O", o)] {
    for by in ["CA", "foreign", "identity"] {
      let f = split_frame(&fixture(dir, &format!("{name}{}.p7s", suffix(by))));
      let mut p = 0;
      let tree = der_parse(&f.der, &mut p);
      assert!(p == f.der.len(), "fixture shape: trailing bytes after SignedData");
      ders.insert((d.to_string(), by.to_string()), tree);
    }
  }
  // the edited content E (variant 0), signed once by the participant's own identity key (no CA ever signed it)
  let e_fix = fixture(dir, &format!("{t}.E.identity.p7s"));
  {
    let f = split_frame(&e_fix);
    let mut p = 0;
    let tree = der_parse(&f.der, &mut p);
    assert!(p == f.der.len(), "fixture shape: trailing bytes after SignedData");
    ders.insert(("E".to_string(), "identity".to_string()), tree);
  }
  let m = Materials {
    perm_kind,
    frame,
    ders,
    xml_t: fixture(dir, &format!("{t}.xml")).to_vec(),
    xml_o: fixture(dir, &format!("{o}.xml")).to_vec(),
    doc_t: meta[t].clone(),
    doc_o: meta[o].clone(),
  };
  // tool sanity (a failure here is a tool error, never a verdict): the container is rebuilt byte for byte, the
  // own SHA-256 over the own canonical form is the digest openssl signed, the XML is the rendering of the abstract document
  let mut tree = m.ders[&("T".to_string(), "CA".to_string())].clone();
  assert!(m.build(&tree, &canonical(&m.xml_t), &m.frame.pre) == *genuine, "forge: genuine container not reproduced");
  assert!(signed_attr(&mut tree, &OID_ATTR_MD).as_slice() == sha256(&canonical(&m.xml_t)), "forge: digest of the canonical content");
  let rendered = if m.perm_kind { render_permissions(&m.doc_t, 0) } else { render_governance(&m.doc_t, 0) };
  assert!(rendered.as_bytes() == m.xml_t.as_slice(), "forge: fixture XML is not the rendering of fixtures.json");
  let mut etree = m.ders[&("E".to_string(), "identity".to_string())].clone();
  assert!(
    signed_attr(&mut etree, &OID_ATTR_MD).as_slice() == sha256(&canonical(&m.edited_xml(0).0)),
    "forge: the identity-signed fixture of the edited content does not fit the rendering of the edited document"
  );
  m
}

/// appends an (unknown) unsigned attribute carrying n octets to a SignerInfo: changes its place in the DER order of
/// the signerInfos SET without touching anything the signature covers
fn pad_signer_info(el: &mut Der, n: usize) {
  let attr = Der::Cons(0x30, vec![Der::Prim(0x06, vec![0x2a, 0x03, 0x05]), Der::Cons(0x31, vec![Der::Prim(0x04, vec![0x55; n])])]);
  let c = ch(el);
  if let Some(last) = c.last_mut() {
    if tag(last) == 0xa1 {
      ch(last).push(attr);
      return;
    }
  }
  c.push(Der::Cons(0xa1, vec![attr]));
}
fn encoded(d: &Der) -> Vec<u8> {
  let mut v = vec![];
  der_encode(d, &mut v);
  v
}
impl Materials {
  fn build(&self, tree: &Der, content: &[u8], pre: &str) -> Vec<u8> {
    let mut der = vec![];
    der_encode(tree, &mut der);
    self.assemble(&der, content, pre)
  }
  fn assemble(&self, der: &[u8], content: &[u8], pre: &str) -> Vec<u8> {
    self.assemble_noisy(der, content, pre, &[])
  }
  /// noise positions >= MIME_BASE address the MIME text around the two bodies (header + preamble + first boundary,
  /// second boundary + headers of the signature part, closing boundary), counted from MIME_BASE
  fn assemble_noisy(&self, der: &[u8], content: &[u8], pre: &str, noise: &[(usize, u8)]) -> Vec<u8> {
    let mut parts = [pre.as_bytes().to_vec(), self.frame.mid.as_bytes().to_vec(), self.frame.post.as_bytes().to_vec()];
    for (pos, x) in noise {
      if *pos >= MIME_BASE {
        let mut i = *pos - MIME_BASE;
        for p in parts.iter_mut() {
          if i < p.len() {
            p[i] ^= x;
            break;
          }
          i -= p.len();
        }
      }
    }
    let mut out = parts[0].clone();
    out.extend_from_slice(content);
    out.extend_from_slice(&parts[1]);
    out.extend_from_slice(b64_encode_lines(der).as_bytes());
    out.extend_from_slice(&parts[2]);
    out
  }
  fn mime_len(&self) -> usize {
    self.frame.pre.len() + self.frame.mid.len() + self.frame.post.len()
  }
  /// content nobody signed. variant 0: the target document with every default (permissions) / every access
  /// control switch (governance) inverted - still a loadable document; others: one letter of the XML changes case
  fn edited_xml(&self, variant: usize) -> (Vec<u8>, String) {
    if variant == 0 {
      inverted_document(&self.doc_t)
    } else {
      let mut x = self.xml_t.clone();
      let mut p = (variant.wrapping_mul(2654435761)) % x.len();
      while !x[p].is_ascii_alphabetic() {
        p = (p + 1) % x.len();
      }
      x[p] ^= 0x20;
      (x, format!("case_of_letter_at_{p}"))
    }
  }
  fn xml_of(&self, d: &str) -> &[u8] {
    if d == "O" {
      &self.xml_o
    } else {
      &self.xml_t
    }
  }
  fn doc_of(&self, d: &str) -> &Value {
    if d == "O" {
      &self.doc_o
    } else {
      &self.doc_t
    }
  }

  /// Builds the real bytes of the abstract container `b`. `pick(field, n)` chooses one of the n concrete values of a class.
  /// Returns (container, description of the concrete choices, DER length).
  fn realise(&self, b: &Value, pick: &mut dyn FnMut(&str, usize) -> usize, noise: &[(usize, u8)]) -> (Vec<u8>, Value, usize) {
    let (by, of) = (s(&b["by"]).to_string(), s(&b["of"]).to_string());
    let mut desc = serde_json::Map::new();
    let mut tree = self.ders[&(of.clone(), by.clone())].clone();
    let cos: Vec<Value> = arr(&b["co"]).to_vec();
    // a signature part made for the edited content exists for variant 0 of E only
    let e_material = of == "E" || cos.iter().any(|c| s(&c["of"]) == "E");
    let of_mat = if of == "E" { "T".to_string() } else { of.clone() }; // another signer's certificate / identifier: any document
    // transported content (+ digest of the edited content, should the messageDigest attribute be rewritten to it)
    let ev = pick("content_E", N_E_VARIANTS);
    let ev = if e_material { 0 } else { ev };
    let (exml, edesc) = self.edited_xml(ev);
    let content = match s(&b["content"]) {
      "E" => {
        desc.insert("content".into(), json!(edesc));
        canonical(&exml)
      }
      d => canonical(self.xml_of(d)),
    };
    // signed attributes (the signature value is NOT recomputed: no key)
    let md = s(&b["md"]);
    if md != of {
      let v = match md {
        "E" => sha256(&canonical(&exml)).to_vec(),
        "junk" => {
          let mut v = signed_attr(&mut tree, &OID_ATTR_MD).clone();
          let i = pick("md", 3);
          let n = v.len();
          v[[0, n / 2, n - 1][i]] ^= 0x01;
          v
        }
        d => sha256(&canonical(self.xml_of(d))).to_vec(),
      };
      desc.insert("md".into(), json!(hexs(&v)));
      *signed_attr(&mut tree, &OID_ATTR_MD) = v;
    }
    if s(&b["rest"]) != "orig" {
      let t = signed_attr(&mut tree, &OID_ATTR_TIME);
      let i = t.len() - 2 - pick("rest", 3); // a digit of the seconds / minutes of signingTime
      t[i] = if t[i] == b'0' { b'1' } else { b'0' };
      desc.insert("rest".into(), json!(format!("signingTime={}", String::from_utf8_lossy(t))));
    }
    let sig = s(&b["sig"]);
    if sig != of {
      if sig == "junk" {
        let v = prim(&mut si(&mut tree)[5]);
        let n = v.len();
        let i = [n / 4, n / 2, n - 1, 6][pick("sig", 4)];
        v[i] ^= 0x01;
        desc.insert("sig".into(), json!(format!("bit flipped in octet {i}")));
      } else {
        let mut other = self.ders[&(sig.to_string(), by.clone())].clone();
        let v = prim(&mut si(&mut other)[5]).clone();
        *prim(&mut si(&mut tree)[5]) = v;
        desc.insert("sig".into(), json!(format!("value from the signature part for {sig}")));
      }
    }
    // fields outside the signature
    let mut pre = self.frame.pre.clone();
    for f in UFIELDS {
      let class = s(&b["un"][f]);
      if class == "orig" || class.is_empty() {
        continue;
      }
      let d: String = match f {
        "root_type" | "encap_type" | "sd_dalgs" | "si_dalg" | "si_salg" => {
          if class == "empty" {
            ch(&mut sd(&mut tree)[1]).clear();
            "no element".into()
          } else {
            let known: &[&[u8]] = match f {
              "root_type" | "encap_type" => &CONTENT_OIDS,
              "si_salg" => &SIGALG_OIDS,
              _ => &DIGEST_OIDS,
            };
            let i = pick(f, n_oid_variants(class, known));
            let slot = match f {
              "root_type" => prim(&mut ch(&mut tree)[0]),
              "encap_type" => prim(&mut ch(&mut sd(&mut tree)[2])[0]),
              "sd_dalgs" => prim(&mut ch(&mut ch(&mut sd(&mut tree)[1])[0])[0]),
              "si_dalg" => prim(&mut ch(&mut si(&mut tree)[2])[0]),
              _ => prim(&mut ch(&mut si(&mut tree)[4])[0]),
            };
            *slot = oid_variant(slot, class, known, i);
            format!("oid {}", hexs(slot))
          }
        }
        "sd_version" | "si_version" => {
          let v = [3u8, 0, 4, 2][pick(f, 4)];
          let slot = if f == "sd_version" { prim(&mut sd(&mut tree)[0]) } else { prim(&mut si(&mut tree)[0]) };
          *slot = vec![v];
          format!("{v}")
        }
        "certs" => {
          let sdc = sd(&mut tree);
          let idx = sdc.iter().position(|x| tag(x) == 0xa0).expect("fixture shape: certificates");
          match class {
            "removed" => {
              sdc.remove(idx);
              "removed".into()
            }
            "foreign" => {
              let other_signer = if by == "foreign" { "CA" } else { "foreign" };
              let mut o = self.ders[&(of_mat.clone(), other_signer.to_string())].clone();
              let osd = sd(&mut o);
              let oi = osd.iter().position(|x| tag(x) == 0xa0).expect("fixture shape: certificates");
              sdc[idx] = osd[oi].clone();
              format!("certificate of {other_signer}")
            }
            _ => {
              let key = first_prim_with_tag(&mut sdc[idx], 0x03).expect("fixture shape: public key");
              let n = key.len();
              let i = [n / 2, n - 1, 2][pick(f, 3)];
              key[i] ^= 0x01;
              format!("bit flipped in octet {i} of the embedded public key")
            }
          }
        }
        "si_sid" => {
          if class == "foreign" {
            let other_signer = if by == "foreign" { "CA" } else { "foreign" };
            let mut o = self.ders[&(of_mat.clone(), other_signer.to_string())].clone();
            let sid = si(&mut o)[1].clone();
            si(&mut tree)[1] = sid;
            format!("signer identifier of {other_signer}")
          } else {
            let sidc = ch(&mut si(&mut tree)[1]);
            let last = sidc.len() - 1;
            let serial = prim(&mut sidc[last]);
            let n = serial.len();
            let i = [n - 1, n / 2][pick(f, 2)];
            serial[i] ^= 0x01;
            format!("bit flipped in octet {i} of the serial number")
          }
        }
        "si_uattrs" => {
          // unsigned attributes: an unknown one | a messageDigest attribute that fits the transported content |
          // a complete copy of the signed attributes with the messageDigest rewritten to the transported content
          let fitting = Der::Cons(0x30, vec![Der::Prim(0x06, OID_ATTR_MD.to_vec()), Der::Cons(0x31, vec![Der::Prim(0x04, sha256(&content).to_vec())])]);
          let (attrs, d) = match pick(f, 3) {
            0 => (vec![Der::Cons(0x30, vec![Der::Prim(0x06, vec![0x2a, 0x03, 0x04]), Der::Cons(0x31, vec![Der::Prim(0x04, b"unsigned".to_vec())])])], "one unknown unsigned attribute"),
            1 => (vec![fitting], "unsigned messageDigest attribute fitting the transported content"),
            _ => {
              let mut copy = ch(&mut si(&mut tree)[3]).clone();
              for a in copy.iter_mut() {
                if matches!(&ch(a)[0], Der::Prim(0x06, v) if v.as_slice() == OID_ATTR_MD) {
                  *a = fitting.clone();
                }
              }
              (copy, "unsigned copy of the signed attributes, messageDigest fitting the transported content")
            }
          };
          si(&mut tree).push(Der::Cons(0xa1, attrs));
          d.into()
        }
        "mime_micalg" => {
          let v = ["sha-384", "sha1", "md5", "sha-512"][pick(f, 4)];
          assert!(pre.contains("micalg=\"sha-256\""), "fixture shape: micalg");
          pre = pre.replace("micalg=\"sha-256\"", &format!("micalg=\"{v}\""));
          v.into()
        }
        _ => {
          let v = ["application/pkcs7-signature", "application/pgp-signature"][pick(f, 2)];
          assert!(pre.contains("protocol=\"application/x-pkcs7-signature\""), "fixture shape: protocol");
          pre = pre.replace("protocol=\"application/x-pkcs7-signature\"", &format!("protocol=\"{v}\""));
          v.into()
        }
      };
      desc.insert(f.into(), json!(d));
    }
    // co-SignerInfos: further members of the signerInfos SET, taken from the genuine material (seeded runs: also with
    // rewritten signed attributes / damaged signature value).  signerInfos is a SET OF: both transport orders and both
    // DER orders (the shorter encoding sorts first; an unsigned attribute of padding turns the order round) are realised.
    if !cos.is_empty() {
      let v = pick("co_var", 4);
      let (before, flip) = (v % 2 == 1, v / 2 == 1);
      let mut els: Vec<Der> = vec![];
      let mut cdesc = vec![];
      for c in &cos {
        let (cby, cof) = (s(&c["by"]).to_string(), s(&c["of"]).to_string());
        let mut ctree = self.ders[&(cof.clone(), cby.clone())].clone();
        let cmd = s(&c["md"]);
        if cmd != cof {
          let v = match cmd {
            "E" => sha256(&canonical(&exml)).to_vec(),
            "junk" => {
              let mut v = signed_attr(&mut ctree, &OID_ATTR_MD).clone();
              v[0] ^= 0x01;
              v
            }
            d => sha256(&canonical(self.xml_of(d))).to_vec(),
          };
          *signed_attr(&mut ctree, &OID_ATTR_MD) = v;
        }
        if s(&c["rest"]) != "orig" {
          let t = signed_attr(&mut ctree, &OID_ATTR_TIME);
          let i = t.len() - 2;
          t[i] = if t[i] == b'0' { b'1' } else { b'0' };
        }
        let csig = s(&c["sig"]);
        if csig != cof {
          if csig == "junk" {
            let v = prim(&mut si(&mut ctree)[5]);
            let n = v.len();
            v[n / 2] ^= 0x01;
          } else {
            let mut other = self.ders[&(csig.to_string(), cby.clone())].clone();
            let v = prim(&mut si(&mut other)[5]).clone();
            *prim(&mut si(&mut ctree)[5]) = v;
          }
        }
        els.push(Der::Cons(0x30, si(&mut ctree).clone()));
        // a co-signer brings his certificate along
        if cby != by {
          let csd = sd(&mut ctree);
          let ccerts: Vec<Der> = csd.iter_mut().find(|x| tag(x) == 0xa0).map(|x| ch(x).clone()).unwrap_or_default();
          if let Some(own) = sd(&mut tree).iter_mut().find(|x| tag(x) == 0xa0) {
            for cc in ccerts {
              if !ch(own).contains(&cc) {
                ch(own).push(cc);
              }
            }
          }
        }
        cdesc.push(format!("{cby}/{cof} md={cmd} rest={} sig={csig}", s(&c["rest"])));
      }
      let sdc = sd(&mut tree);
      let last = sdc.len() - 1;
      let set = ch(&mut sdc[last]);
      if flip {
        // pad whichever of (SignerInfo the container was built around, first co-SignerInfo) sorts first
        let (ep, ec) = (encoded(&set[0]), encoded(&els[0]));
        let diff = ep.len().abs_diff(ec.len()) + 16;
        if (ep.len(), &ep) < (ec.len(), &ec) {
          pad_signer_info(&mut set[0], diff);
        } else {
          pad_signer_info(&mut els[0], diff);
        }
      }
      if before {
        for (i, e) in els.into_iter().enumerate() {
          set.insert(i, e);
        }
      } else {
        set.extend(els);
      }
      desc.insert("co".into(), json!({"signer_infos":cdesc, "transported":if before {"before"} else {"after"}, "der_order_turned":flip}));
    }
    let mut der = vec![];
    der_encode(&tree, &mut der);
    for (pos, x) in noise {
      if *pos < der.len() {
        der[*pos] ^= x;
      }
    }
    let n = der.len();
    (self.assemble_noisy(&der, &content, &pre, noise), Value::Object(desc), n)
  }

  /// number of concrete realisations worth running for `b` in exhaustive-variant mode
  fn n_variants(&self, b: &Value) -> usize {
    let mut n = 1;
    if s(&b["content"]) == "E" || s(&b["md"]) == "E" {
      n = n.max(N_E_VARIANTS);
    }
    if s(&b["md"]) == "junk" || s(&b["rest"]) != "orig" {
      n = n.max(3);
    }
    if s(&b["sig"]) == "junk" || !arr(&b["co"]).is_empty() {
      n = n.max(4);
    }
    for f in UFIELDS {
      let class = s(&b["un"][f]);
      n = n.max(match (f, class) {
        (_, "orig") | (_, "") => 1,
        ("root_type" | "encap_type", c) => n_oid_variants(c, &CONTENT_OIDS),
        ("sd_dalgs", "empty") => 1,
        ("sd_dalgs" | "si_dalg", c) => n_oid_variants(c, &DIGEST_OIDS),
        ("si_salg", c) => n_oid_variants(c, &SIGALG_OIDS),
        ("sd_version" | "si_version" | "mime_micalg", _) => 4,
        ("certs", "flipped") | ("si_uattrs", _) => 3,
        ("si_sid", "serial") | ("mime_protocol", _) => 2,
        _ => 1,
      });
    }
    n
  }
}

fn run_forge(k: usize, sp: &ARunSpec, ev: &mut Vec<Value>) {
  let dir = sp.fixdir.as_str();
  let gov_target = sp.target == "gov";
  let tname = if gov_target { &sp.gov } else { &sp.perm };
  let m = materials(dir, tname, &sp.other);
  let meta: Value = serde_json::from_slice(&fixture(dir, "fixtures.json")).expect("fixtures.json");
  let b = &sp.blob;
  // the document whose statements hold if this container is accepted: the one its signature VALUE was made for
  // (a damaged value vouches for nothing; any acceptance is then a violation whatever the document)
  let of = if s(&b["sig"]) == "junk" { s(&b["of"]) } else { s(&b["sig"]) };
  // a container with several SignerInfos: the statements of the genuine document it transports (T / O) hold if it is
  // accepted; an edited content is judged against the document the first signature value of the configured CA was made for
  let of = if arr(&b["co"]).is_empty() {
    of
  } else if matches!(s(&b["content"]), "T" | "O") {
    s(&b["content"])
  } else {
    std::iter::once(b)
      .chain(arr(&b["co"]).iter())
      .find(|x| s(&x["by"]) == sp.ca && matches!(s(&x["sig"]), "T" | "O"))
      .map(|x| s(&x["sig"]))
      .unwrap_or("T")
  };
  let doc = if gov_target {
    json!({"grants": meta[&sp.perm]["grants"], "gov": m.doc_of(of)["gov"]})
  } else {
    json!({"grants": m.doc_of(of)["grants"], "gov": meta[&sp.gov]["gov"]})
  };
  ev.push(json!({"ev":"Reset","run":k,"kind":"forge","doc":doc,"subj":"S1","now":0,"perm":sp.perm,"gov":sp.gov,"target":sp.target,"other":sp.other}));
  let (ca_file, sfx) = if sp.ca == "foreign" { ("foreign_ca.cert.pem", ".foreign") } else { ("permissions_ca.cert.pem", "") };
  let ca_pem = fixture(dir, ca_file);
  // the document that is not under test is a genuine one of the configured CA
  let companion = fixture(dir, &format!("{}{sfx}.p7s", if gov_target { &sp.perm } else { &sp.gov }));
  let signed_content = canonical(m.xml_of(of));
  let fx = Fix { dir: dir.to_string() };
  let qmini = json!({"doms":[0],"topics":["A","B"],"parts":[["A"]]});
  let one = |pick: &mut dyn FnMut(&str, usize) -> usize, noise: &[(usize, u8)], ev: &mut Vec<Value>| -> usize {
    let (bytes, desc, der_len) = m.realise(b, pick, noise);
    let noise_json: Vec<Value> = noise.iter().map(|(p, x)| json!({"pos":p,"x":x})).collect();
    ev.push(json!({"ev":"Forge","blob":b,"ca":sp.ca,"doc":doc,"concrete":desc,"noise":noise_json}));
    let r = AccessRig::verify_blob(&bytes, &ca_pem);
    let (out, same) = match &r {
      Ok(c) => ("accepted", c.as_slice() == signed_content.as_slice()),
      Err(e) if e == "panic" => ("panic", false),
      Err(_) => ("refused", false),
    };
    ev.push(json!({"ev":"FVerify","out":out,"same":same}));
    // the public entrance; the two documents are handed over in memory (`data:` URIs; the containers built here are ASCII)
    let (p, g) = if gov_target { (companion.to_vec(), bytes) } else { (bytes, companion.to_vec()) };
    match (std::str::from_utf8(&p), std::str::from_utf8(&g)) {
      (Ok(ps), Ok(gs)) => {
        let mut rig = AccessRig::new();
        let r = rig.validate_local_uris(
          &format!("file:{}", fx.path(ca_file)),
          &format!("data:{gs}"),
          &format!("data:{ps}"),
          &format!("file:{}", fx.path("identity_cert.pem")),
          0,
        );
        match r {
          Ok(h) => {
            ev.push(json!({"ev":"Validate","alt":{"k":"forge"},"ok":true,"has_grant":rig.has_grant(h),"err":""}));
            log_checks(&rig, Some(h), &qmini, ev);
          }
          Err(e) => ev.push(json!({"ev":"Validate","alt":{"k":"forge"},"ok":false,"has_grant":false,"err":e.chars().take(160).collect::<String>()})),
        }
      }
      _ => validate_event(k, "fg", &fx, &p, &g, ca_file, Some(&qmini), json!({"k":"forge"}), ev),
    }
    der_len
  };
  match s(&sp.fmode["mode"]) {
    "der_sweep" => {
      // every octet of the SignedData blob of the (already edited) container, first concrete variant
      let from = sp.fmode["from"].as_u64().unwrap_or(0) as usize;
      let to = sp.fmode["to"].as_u64().unwrap_or(0) as usize;
      let xors: Vec<u8> = arr(&sp.fmode["xors"]).iter().map(|x| x.as_u64().unwrap_or(1) as u8).collect();
      let mut len = usize::MAX;
      for pos in from..to {
        if pos >= len {
          break;
        }
        for x in &xors {
          len = one(&mut |_, _| 0, &[(pos, *x)], ev);
        }
      }
    }
    "mime_sweep" => {
      // every octet of the MIME text around the two bodies of the (already edited) container
      let xors: Vec<u8> = arr(&sp.fmode["xors"]).iter().map(|x| x.as_u64().unwrap_or(1) as u8).collect();
      for pos in 0..m.mime_len() {
        for x in &xors {
          one(&mut |_, _| 0, &[(MIME_BASE + pos, *x)], ev);
        }
      }
    }
    "rand" => {
      let n = sp.fmode["n"].as_u64().unwrap_or(1) as usize;
      let mut r = StdRng::seed_from_u64(sp.fmode["seed"].as_u64().unwrap_or(0));
      for _ in 0..n {
        // byte noise is never combined with the one-bit edits of the alphabet (it could undo them)
        let bit_level = std::iter::once(b).chain(arr(&b["co"]).iter()).any(|x| s(&x["md"]) == "junk" || s(&x["rest"]) != "orig" || s(&x["sig"]) == "junk");
        let nn = if bit_level { 0 } else { [0usize, 0, 1, 1, 2, 3][r.gen_range(0..6)] };
        let noise: Vec<(usize, u8)> = (0..nn)
          .map(|_| (if r.gen_bool(0.8) { r.gen_range(0..960) } else { MIME_BASE + r.gen_range(0..m.mime_len()) }, 1u8 << r.gen_range(0..8)))
          .collect();
        let ev_e = r.gen_range(0..64usize);
        let salt = r.gen_range(0..1000usize);
        one(&mut |f, n| if f == "content_E" { ev_e } else { (salt + f.len() * 7) % n }, &noise, ev);
      }
    }
    _ => {
      for i in 0..m.n_variants(b) {
        // (the order variants of a co-signed container are not tied to the parity of the other choices)
        one(&mut |f, n| if f == "co_var" { [0usize, 2, 3, 1][i % 4] % n } else { i % n }, &[], ev);
      }
    }
  }
}

/// which (permissions, governance, target, other) fixtures a TLC-generated container is built on
fn forge_targets(meta: &Value, thorough: bool) -> Vec<(String, String, String, String)> {
  let order: Vec<String> = arr(&meta["_order"]).iter().map(|x| s(x).to_string()).collect();
  let perms: Vec<&String> = order.iter().filter(|n| meta[n.as_str()].get("grants").is_some()).collect();
  let govs: Vec<&String> = order.iter().filter(|n| meta[n.as_str()].get("gov").is_some()).collect();
  let mut v = vec![];
  for (i, p) in perms.iter().enumerate() {
    v.push((p.to_string(), govs[i % govs.len()].to_string(), "perm".to_string(), perms[(i + 1) % perms.len()].to_string()));
    if !thorough {
      break;
    }
  }
  for (i, g) in govs.iter().enumerate() {
    v.push((perms[i % perms.len()].to_string(), g.to_string(), "gov".to_string(), govs[(i + 1) % govs.len()].to_string()));
    if !thorough {
      break;
    }
  }
  v
}

/// seeded container beyond the model's bound: up to 5 cooperating edits (the same edit alphabet as ForgeEdit)
fn rnd_container(r: &mut StdRng) -> (Value, String) {
  let (by, of) = [("CA", "T"), ("CA", "T"), ("CA", "O"), ("foreign", "T"), ("foreign", "O"), ("identity", "T"), ("identity", "O"), ("identity", "E")][r.gen_range(0..8)];
  let mut un = serde_json::Map::new();
  for f in UFIELDS {
    un.insert(f.into(), json!("orig"));
  }
  let mut b = json!({"content":"T","by":by,"of":of,"md":of,"rest":"orig","sig":of});
  for _ in 0..r.gen_range(0..=5) {
    match r.gen_range(0..8) {
      0 | 1 => b["content"] = json!(["O", "E", "E"][r.gen_range(0..3)]),
      2 => {
        let m = ["T", "O", "E", "E", "junk"][r.gen_range(0..5)];
        b["md"] = json!(m);
      }
      3 => b["rest"] = json!("alt"),
      4 => b["sig"] = json!(["T", "O", "junk"][r.gen_range(0..3)]),
      _ => {
        let f = UFIELDS[r.gen_range(0..UFIELDS.len())];
        let a = ualts(f);
        un.insert(f.into(), json!(a[r.gen_range(0..a.len())]));
      }
    }
  }
  b["un"] = Value::Object(un);
  // co-signed: up to two more SignerInfos from the genuine material, now and then with an edit of their own
  let mut co = vec![];
  if r.gen_bool(0.4) {
    for _ in 0..r.gen_range(1..=2) {
      let (cby, cof) = [("CA", "T"), ("CA", "T"), ("CA", "O"), ("foreign", "T"), ("foreign", "O"), ("identity", "T"), ("identity", "O"), ("identity", "E"), ("identity", "E")][r.gen_range(0..9)];
      let mut c = json!({"by":cby,"of":cof,"md":cof,"rest":"orig","sig":cof});
      match r.gen_range(0..8) {
        0 => c["md"] = json!(["T", "O", "E", "junk"][r.gen_range(0..4)]),
        1 => c["sig"] = json!("junk"),
        2 => c["rest"] = json!("alt"),
        _ => {}
      }
      co.push(c);
    }
  }
  b["co"] = json!(co);
  let ca = if by == "foreign" && r.gen_bool(0.7) { "foreign" } else { "CA" };
  (b, ca.to_string())
}

pub fn run_one(k: usize, sp: &ARunSpec, ev: &mut Vec<Value>) -> Vec<Vec<u8>> {
  match sp.kind.as_str() {
    "sig" => run_sig(k, sp, ev),
    "forge" => run_forge(k, sp, ev),
    _ => run_dec(k, sp, ev),
  }
  vec![]
}

// ------------------------------------------------------------------ random documents
const NAMES: [&str; 6] = ["A", "AB", "B", "BA", "ABB", "C"];
const PATS: [&str; 12] = ["A", "A*", "*", "?B", "[AB]", "AB", "*B", "A?", "[!A]", "??", "A*B", "[A-B]*"];

fn pick<'a>(r: &mut StdRng, xs: &[&'a str]) -> &'a str {
  xs[r.gen_range(0..xs.len())]
}

fn rnd_crit(r: &mut StdRng) -> Value {
  let nt = if r.gen_bool(0.7) { 1 } else { 2 };
  let np = [0, 0, 1, 1, 2][r.gen_range(0..5)];
  let topics: Vec<&str> = (0..nt).map(|_| pick(r, &PATS)).collect();
  let parts: Vec<&str> = (0..np).map(|_| pick(r, &PATS)).collect();
  json!({"topics":topics,"parts":parts})
}

fn rnd_dom(r: &mut StdRng) -> Value {
  let a = r.gen_range(0..5);
  let b = r.gen_range(0..5);
  match r.gen_range(0..5) {
    0 | 1 => json!({"k":"id","a":a,"b":0}),
    2 => json!({"k":"range","a":a,"b":b}),
    3 => json!({"k":"min","a":a,"b":0}),
    _ => json!({"k":"max","a":0,"b":b}),
  }
}

fn rnd_rule(r: &mut StdRng) -> Value {
  let nd = if r.gen_bool(0.6) { 1 } else { 2 };
  let doms: Vec<Value> = (0..nd).map(|_| if r.gen_bool(0.4) { json!({"k":"min","a":0,"b":0}) } else { rnd_dom(r) }).collect();
  let mut lists = vec![];
  for _ in 0..3 {
    let n = [0, 1, 1, 2][r.gen_range(0..4)];
    lists.push((0..n).map(|_| rnd_crit(r)).collect::<Vec<Value>>());
  }
  json!({"allow": r.gen_bool(0.5), "doms": doms, "pub": lists[0], "sub": lists[1], "relay": if r.gen_bool(0.5) { json!([]) } else { json!(lists[2]) }})
}

fn rnd_doc(r: &mut StdRng) -> Value {
  let ng = r.gen_range(1..=3);
  let grants: Vec<Value> = (0..ng)
    .map(|_| {
      let nr = r.gen_range(1..=3);
      let rules: Vec<Value> = (0..nr).map(|_| rnd_rule(r)).collect();
      let val = ["valid", "valid", "valid", "expired", "future", "window", "window", "window"][r.gen_range(0..8)];
      let mut g = json!({"subj": if r.gen_bool(0.7) {"S1"} else {"S2"},
             "val": val,
             "def": if r.gen_bool(0.5) {"ALLOW"} else {"DENY"},
             "rules": rules});
      if val == "window" {
        // bounds as instants: multiples of a quarter of an hour up to 20 h either side of the reference, never the
        // reference itself; written in a random zone (-12:00 .. +14:00 in quarters of an hour) | Z | without designator
        let mut at = [0i64; 2];
        for a in at.iter_mut() {
          *a = 900 * r.gen_range(1..=80) * if r.gen_bool(0.5) { 1 } else { -1 };
        }
        if at[0] > at[1] && r.gen_bool(0.9) {
          at.swap(0, 1); // (now and then the window stays empty: not_after before not_before)
        }
        for (name, a) in [("nb", at[0]), ("na", at[1])] {
          g[name] = match r.gen_range(0..4) {
            0 => json!({"d": a, "zk": "none", "zm": 0}),
            1 => json!({"d": a, "zk": "Z", "zm": 0}),
            _ => {
              let zm = 15 * r.gen_range(-48i64..=56);
              json!({"d": a + 60 * zm, "zk": "off", "zm": zm})
            }
          };
        }
      }
      g
    })
    .collect();
  let ngov = r.gen_range(1..=3); // the schema demands at least one topic rule
  let gov: Vec<Value> = (0..ngov).map(|_| json!({"expr": pick(r, &PATS), "read": r.gen_bool(0.6), "write": r.gen_bool(0.6)})).collect();
  json!({"grants": grants, "gov": gov})
}

pub fn random_specs(seed: u64, runs: usize, events: usize, tier: &str, fixdir: &str) -> Vec<ARunSpec> {
  let mut r = StdRng::seed_from_u64(seed ^ 0xacce55);
  let mut v = vec![];
  let blank = |kind: &str| blank_spec(kind);
  for _ in 0..runs {
    let doc = rnd_doc(&mut r);
    let mut list = vec![];
    for _ in 0..events {
      let np = [0, 1, 1, 2][r.gen_range(0..4)];
      let parts: Vec<&str> = (0..np).map(|_| pick(&mut r, &NAMES)).collect();
      let direct = r.gen_bool(0.6);
      let op = if direct { DIRECT_OPS[r.gen_range(0..3)] } else { PUBLIC_OPS[r.gen_range(0..6)] };
      list.push(json!({"op":op,"dom":r.gen_range(0..6),"topic":pick(&mut r, &NAMES),"parts": if direct { json!(parts) } else { json!([]) }}));
    }
    let mut sp = blank("dec");
    sp.q = json!({"list": list});
    if has_windows(&doc) {
      // explicit instants for the grant lookup: one second either side of every bound, the instants the digits of a
      // bound name when its designator is dropped / applied the wrong way round, some others
      let mut times: Vec<i64> = vec![0, -1, 1];
      for g in arr(&doc["grants"]) {
        for name in ["nb", "na"] {
          if let Some(d) = g[name]["d"].as_i64() {
            let off = if s(&g[name]["zk"]) == "off" { 60 * g[name]["zm"].as_i64().unwrap_or(0) } else { 0 };
            let at = d - off;
            times.extend([at - 1, at + 1, d - 1, d + 1, d + off - 1, d + off + 1]);
            if name == "nb" {
              times.push(at);
            }
          }
        }
      }
      for _ in 0..6 {
        times.push(900 * r.gen_range(-90i64..=90) + r.gen_range(-1i64..=1));
      }
      times.sort();
      times.dedup();
      sp.q["times"] = json!(times);
      let refs = fixed_refs();
      sp.tref = if r.gen_bool(0.6) { 1 } else { refs[r.gen_range(0..refs.len())] };
    }
    sp.doc = doc;
    sp.subj = if r.gen_bool(0.8) { "S1".into() } else { "S2".into() };
    sp.style = r.gen_range(0..9);
    v.push(sp);
  }
  // signature clause: committed fixtures, every byte position
  if !fixdir.is_empty() {
    let meta: Value = serde_json::from_slice(&std::fs::read(format!("{fixdir}/fixtures.json")).expect("fixtures.json")).expect("fixtures.json");
    let order: Vec<String> = arr(&meta["_order"]).iter().map(|x| s(x).to_string()).collect();
    let perms: Vec<&String> = order.iter().filter(|n| meta[n.as_str()].get("grants").is_some()).collect();
    let govs: Vec<&String> = order.iter().filter(|n| meta[n.as_str()].get("gov").is_some()).collect();
    let thorough = tier == "thorough";
    let mut targets: Vec<(String, String, String)> = vec![];
    for (i, p) in perms.iter().enumerate() {
      targets.push((p.to_string(), govs[i % govs.len()].to_string(), "perm".into()));
    }
    for (i, g) in govs.iter().enumerate() {
      targets.push((perms[i % perms.len()].to_string(), g.to_string(), "gov".into()));
    }
    for (ti, (p, g, target)) in targets.iter().enumerate() {
      let mut sp = blank("sig");
      sp.fixdir = fixdir.into();
      sp.perm = p.clone();
      sp.gov = g.clone();
      sp.target = target.clone();
      sp.alts = json!({"mode":"special"});
      v.push(sp.clone());
      // quick: full byte sweep of the first permissions and the first governance fixture with two
      // xor masks; thorough: every fixture, all eight bit flips + delete / duplicate / overwrite
      let first_of_kind = ti == 0 || ti == perms.len();
      if !thorough && !first_of_kind {
        continue;
      }
      let name = if target == "gov" { g } else { p };
      let len = std::fs::metadata(format!("{fixdir}/{name}.p7s")).map(|m| m.len() as usize).unwrap_or(0);
      let chunk = if thorough { 150 } else { 400 };
      let mut from = 0;
      while from < len {
        let mut c = sp.clone();
        c.alts = if thorough {
          json!({"mode":"bytes","from":from,"to":from+chunk,"xors":[1,2,4,8,16,32,64,128],"structural":true,"every":4})
        } else {
          json!({"mode":"bytes","from":from,"to":from+chunk,"xors":[1,32],"structural":false,"every":1})
        };
        v.push(c);
        from += chunk;
      }
    }
    // ---- forged containers beyond the bound of the model (strengthening round)
    let ftargets = forge_targets(&meta, thorough);
    let un_orig: serde_json::Map<String, Value> = UFIELDS.iter().map(|f| (f.to_string(), json!("orig"))).collect();
    let base = |by: &str, content: &str, md: &str| json!({"content":content,"by":by,"of":"T","md":md,"rest":"orig","sig":"T","un":un_orig,"co":[]});
    // 1. an edited container x EVERY octet of its SignedData blob: (a) content nobody signed, (b) the same with
    //    the messageDigest attribute rewritten to it, (c) untouched content under the signature of another key
    let mut sweeps = vec![base("CA", "E", "T"), base("CA", "E", "E"), base("foreign", "T", "T")];
    if thorough {
      // (d) co-signed: the participant's own signature over the edited content + the CA's genuine SignerInfo of the target
      let mut b = base("identity", "E", "E");
      b["of"] = json!("E");
      b["sig"] = json!("E");
      b["co"] = json!([{"by":"CA","of":"T","md":"T","rest":"orig","sig":"T"}]);
      sweeps.push(b);
    }
    for (p, g, target, other) in &ftargets {
      for b in &sweeps {
        let chunk = 125;
        let mut from = 0;
        while from < if arr(&b["co"]).is_empty() { 1000 } else { 1750 } {
          let mut sp = blank("forge");
          sp.fixdir = fixdir.into();
          (sp.perm, sp.gov, sp.target, sp.other) = (p.clone(), g.clone(), target.clone(), other.clone());
          sp.blob = b.clone();
          sp.ca = "CA".into();
          sp.fmode = if thorough {
            json!({"mode":"der_sweep","from":from,"to":from+chunk,"xors":[1,2,4,8,16,32,64,128]})
          } else {
            json!({"mode":"der_sweep","from":from,"to":from+chunk,"xors":[1,32]})
          };
          v.push(sp);
          from += chunk;
        }
        // ... and x every octet of the MIME text around the two bodies
        let mut sp = blank("forge");
        sp.fixdir = fixdir.into();
        (sp.perm, sp.gov, sp.target, sp.other) = (p.clone(), g.clone(), target.clone(), other.clone());
        sp.blob = b.clone();
        sp.ca = "CA".into();
        sp.fmode = if thorough { json!({"mode":"mime_sweep","xors":[1,2,4,8,16,32,64,128]}) } else { json!({"mode":"mime_sweep","xors":[1,32]}) };
        v.push(sp);
      }
    }
    // 2. seeded containers with up to 5 cooperating edits, random concrete values, random content edits, byte noise
    let all_targets = forge_targets(&meta, true);
    let n_rand = if thorough { runs / 3 } else { runs };
    for _ in 0..n_rand {
      let (b, ca) = rnd_container(&mut r);
      let (p, g, target, other) = all_targets[r.gen_range(0..all_targets.len())].clone();
      let mut sp = blank("forge");
      sp.fixdir = fixdir.into();
      (sp.perm, sp.gov, sp.target, sp.other) = (p, g, target, other);
      sp.blob = b;
      sp.ca = ca;
      sp.fmode = json!({"mode":"rand","n":8,"seed":r.gen_range(0..u32::MAX)});
      v.push(sp);
    }
  }
  v
}

pub fn main(mode: &str, opt: &HashMap<String, String>) -> i32 {
  // the crate logs every refused document at error level; keep stderr quiet
  match mode {
    "replay" => {
      let mut specs: Vec<ARunSpec> = util::read_jsonl(&opt["in"]);
      if let Some(fd) = opt.get("fixtures") {
        for sp in specs.iter_mut() {
          if sp.kind == "sig" || sp.kind == "forge" {
            sp.fixdir = fd.clone();
          }
        }
        // a container enumerated by TLC names no fixture: build it on every target of the tier
        let meta: Value = serde_json::from_slice(&std::fs::read(format!("{fd}/fixtures.json")).expect("fixtures.json")).expect("fixtures.json");
        let targets = forge_targets(&meta, opt.get("tier").map(|s| s.as_str()) == Some("thorough"));
        let targets_co = forge_targets(&meta, false); // co-signed containers (4 realisations each): first permissions + first governance fixture
        let thorough = opt.get("tier").map(|s| s.as_str()) == Some("thorough");
        let mut expanded = vec![];
        let mut n_window_docs = 0usize;
        for sp in specs {
          if sp.kind == "dec" && sp.tref == 0 && sp.fixdir.is_empty() && has_windows(&sp.doc) {
            // a document with validity windows enumerated by TLC names no reference instant: the wall clock (the
            // public entrances decide at the real clock) and fixed dates (quick: one, thorough: three)
            let mut c = sp.clone();
            c.tref = 1;
            expanded.push(c);
            n_window_docs += 1;
            for (i, t) in fixed_refs().iter().enumerate() {
              if thorough || i == n_window_docs % 3 {
                let mut c = sp.clone();
                c.tref = *t;
                c.style = i as u32 + 1;
                expanded.push(c);
              }
            }
          } else if sp.kind == "forge" && sp.perm.is_empty() {
            for (p, g, target, other) in if arr(&sp.blob["co"]).is_empty() { &targets } else { &targets_co } {
              let mut c = sp.clone();
              (c.perm, c.gov, c.target, c.other) = (p.clone(), g.clone(), target.clone(), other.clone());
              expanded.push(c);
            }
          } else {
            expanded.push(sp);
          }
        }
        specs = expanded;
      }
      util::run_parallel(opt, specs, run_one)
    }
    "random" => {
      let specs = random_specs(
        util::get(opt, "seed", 1),
        util::get(opt, "runs", 100),
        util::get(opt, "events", 40),
        opt.get("tier").map(|s| s.as_str()).unwrap_or("quick"),
        opt.get("fixtures").map(|s| s.as_str()).unwrap_or(""),
      );
      util::run_parallel(opt, specs, run_one)
    }
    "render" => {
      let meta: Value = serde_json::from_slice(&std::fs::read(&opt["in"]).expect("read --in")).expect("json");
      let out = &opt["out"];
      std::fs::create_dir_all(out).unwrap();
      for name in arr(&meta["_order"]) {
        let name = s(name);
        let d = &meta[name];
        let xml = if d.get("grants").is_some() { render_permissions(d, 0) } else { render_governance(d, 0) };
        std::fs::write(format!("{out}/{name}.xml"), xml).unwrap();
        // the edited content that the participant's identity key signed (<name>.E.identity.p7s)
        std::fs::write(format!("{out}/{name}.E.xml"), inverted_document(d).0).unwrap();
      }
      0
    }
    _ => {
      eprintln!("access driver: unknown mode {mode}");
      2
    }
  }
}
