//! `access` driver (property C18): renders abstract permissions / governance documents (as
//! enumerated by TLC from spec/AccessControl.tla, or seeded random ones over a larger alphabet) as
//! real XML, loads them through the real parsers of the crate and asks the real decision code
//! (`check_create_*`, `check_remote_*`, `check_entity`) every query of the run's query universe;
//! and, for the signature clause, feeds committed signed fixtures and byte-level alterations of
//! them into the real S/MIME verification and `validate_local_permissions`.
//!
//! modes:  replay --in specs.jsonl | random --seed --runs --events [--tier --fixtures DIR]
//!         render --in fixtures.json --out DIR   (writes the XML that was signed once; not used by checks)
use std::collections::HashMap;

use rand::{rngs::StdRng, Rng, SeedableRng};
use rustdds::verif::access_rig::AccessRig;
use serde::{Deserialize, Serialize};
use serde_json::{json, Value};

use crate::util;

#[derive(Serialize, Deserialize, Clone, Debug)]
pub struct ARunSpec {
  pub kind: String, // "dec" | "sig"
  // ---- dec
  #[serde(default)]
  pub doc: Value, // {grants:[..], gov:[..]}
  #[serde(default)]
  pub subj: String, // "S1" | "S2"
  #[serde(default)]
  pub q: Value, // {doms:[..], topics:[..], parts:[[..],..]}  (product) or {list:[{op,dom,topic,parts}]}
  #[serde(default)]
  pub style: u32, // rendering style (time zone notation, white space)
  // ---- sig
  #[serde(default)]
  pub fixdir: String,
  #[serde(default)]
  pub perm: String, // permissions fixture name
  #[serde(default)]
  pub gov: String, // governance fixture name
  #[serde(default)]
  pub target: String, // "perm" | "gov": which blob is altered
  #[serde(default)]
  pub alts: Value, // {mode:"bytes", from, to, xors:[..], del:bool, ins:bool} | {mode:"special"}
}

pub const S1: &str = "CN=participant1_common_name,O=Example Organization";
pub const S2: &str = "CN=participant2_common_name,O=Example Organization";

fn subject_dn(s: &str) -> &str {
  match s {
    "S1" => S1,
    "S2" => S2,
    other => other,
  }
}

// ------------------------------------------------------------------ rendering
fn s(v: &Value) -> &str {
  v.as_str().unwrap_or("")
}
fn arr(v: &Value) -> &[Value] {
  v.as_array().map(|a| a.as_slice()).unwrap_or(&[])
}

fn render_time(which: &str, style: u32) -> String {
  let base = match which {
    "past1" => "2001-01-01T00:00:00",
    "past2" => "2002-01-01T00:00:00",
    "fut1" => "2998-01-01T00:00:00",
    _ => "2999-01-01T00:00:00",
  };
  match style % 3 {
    0 => base.to_string(),
    1 => format!("{base}Z"),
    _ => format!("{base}+00:00"),
  }
}

fn render_criteria(tag: &str, crits: &[Value], out: &mut String) {
  for c in crits {
    out.push_str(&format!("        <{tag}>\n          <topics>\n"));
    for t in arr(&c["topics"]) {
      out.push_str(&format!("            <topic>{}</topic>\n", s(t)));
    }
    out.push_str("          </topics>\n");
    if !arr(&c["parts"]).is_empty() {
      out.push_str("          <partitions>\n");
      for p in arr(&c["parts"]) {
        out.push_str(&format!("            <partition>{}</partition>\n", s(p)));
      }
      out.push_str("          </partitions>\n");
    }
    out.push_str(&format!("        </{tag}>\n"));
  }
}

fn render_domains(doms: &[Value], out: &mut String) {
  out.push_str("        <domains>\n");
  for d in doms {
    let (a, b) = (d["a"].as_i64().unwrap_or(0), d["b"].as_i64().unwrap_or(0));
    match s(&d["k"]) {
      "id" => out.push_str(&format!("          <id>{a}</id>\n")),
      "range" => out.push_str(&format!("          <id_range><min>{a}</min><max>{b}</max></id_range>\n")),
      "min" => out.push_str(&format!("          <id_range><min>{a}</min></id_range>\n")),
      _ => out.push_str(&format!("          <id_range><max>{b}</max></id_range>\n")),
    }
  }
  out.push_str("        </domains>\n");
}

pub fn render_permissions(doc: &Value, style: u32) -> String {
  let mut o = String::new();
  o.push_str("<?xml version=\"1.0\" encoding=\"UTF-8\"?>\n<dds xmlns:xsi=\"http://www.w3.org/2001/XMLSchema-instance\" xsi:noNamespaceSchemaLocation=\"http://www.omg.org/spec/DDS-Security/20170901/omg_shared_ca_permissions.xsd\">\n  <permissions>\n");
  for (i, g) in arr(&doc["grants"]).iter().enumerate() {
    o.push_str(&format!("    <grant name=\"g{i}\">\n      <subject_name>{}</subject_name>\n", subject_dn(s(&g["subj"]))));
    let (nb, na) = match s(&g["val"]) {
      "valid" => ("past1", "fut2"),
      "expired" => ("past1", "past2"),
      _ => ("fut1", "fut2"),
    };
    o.push_str(&format!(
      "      <validity>\n        <not_before>{}</not_before>\n        <not_after>{}</not_after>\n      </validity>\n",
      render_time(nb, style),
      render_time(na, style)
    ));
    for r in arr(&g["rules"]) {
      let tag = if r["allow"].as_bool().unwrap_or(false) { "allow_rule" } else { "deny_rule" };
      o.push_str(&format!("      <{tag}>\n"));
      render_domains(arr(&r["doms"]), &mut o);
      render_criteria("publish", arr(&r["pub"]), &mut o);
      render_criteria("subscribe", arr(&r["sub"]), &mut o);
      render_criteria("relay", arr(&r["relay"]), &mut o);
      o.push_str(&format!("      </{tag}>\n"));
    }
    o.push_str(&format!("      <default>{}</default>\n    </grant>\n", s(&g["def"])));
  }
  o.push_str("  </permissions>\n</dds>\n");
  o
}

pub fn render_governance(doc: &Value, style: u32) -> String {
  let b = |v: &Value| {
    let t = v.as_bool().unwrap_or(true);
    match (style % 3, t) {
      (0, true) => "true",
      (0, false) => "false",
      (1, true) => "TRUE",
      (1, false) => "FALSE",
      (_, true) => "1",
      (_, false) => "0",
    }
  };
  let mut o = String::new();
  o.push_str("<?xml version=\"1.0\" encoding=\"UTF-8\"?>\n<dds xmlns:xsi=\"http://www.w3.org/2001/XMLSchema-instance\" xsi:noNamespaceSchemaLocation=\"http://www.omg.org/spec/DDS-SECURITY/20170901/omg_shared_ca_governance.xsd\">\n  <domain_access_rules>\n    <domain_rule>\n      <domains>\n        <id_range><min>0</min><max>230</max></id_range>\n      </domains>\n      <allow_unauthenticated_participants>false</allow_unauthenticated_participants>\n      <enable_join_access_control>true</enable_join_access_control>\n      <discovery_protection_kind>NONE</discovery_protection_kind>\n      <liveliness_protection_kind>NONE</liveliness_protection_kind>\n      <rtps_protection_kind>NONE</rtps_protection_kind>\n      <topic_access_rules>\n");
  for r in arr(&doc["gov"]) {
    o.push_str(&format!(
      "        <topic_rule>\n          <topic_expression>{}</topic_expression>\n          <enable_discovery_protection>false</enable_discovery_protection>\n          <enable_liveliness_protection>false</enable_liveliness_protection>\n          <enable_read_access_control>{}</enable_read_access_control>\n          <enable_write_access_control>{}</enable_write_access_control>\n          <metadata_protection_kind>NONE</metadata_protection_kind>\n          <data_protection_kind>NONE</data_protection_kind>\n        </topic_rule>\n",
      s(&r["expr"]),
      b(&r["read"]),
      b(&r["write"])
    ));
  }
  o.push_str("      </topic_access_rules>\n    </domain_rule>\n  </domain_access_rules>\n</dds>\n");
  o
}

// ------------------------------------------------------------------ queries
const DIRECT_OPS: [&str; 3] = ["entity_writer", "entity_reader", "entity_topic"];
const PUBLIC_OPS: [&str; 6] = ["create_writer", "create_reader", "create_topic", "remote_writer", "remote_reader", "remote_topic"];

fn queries(q: &Value) -> Vec<(String, u16, String, Vec<String>)> {
  let mut out = vec![];
  if let Some(list) = q.get("list").and_then(|l| l.as_array()) {
    for e in list {
      out.push((
        s(&e["op"]).to_string(),
        e["dom"].as_u64().unwrap_or(0) as u16,
        s(&e["topic"]).to_string(),
        arr(&e["parts"]).iter().map(|p| s(p).to_string()).collect(),
      ));
    }
    return out;
  }
  for d in arr(&q["doms"]) {
    let d = d.as_u64().unwrap_or(0) as u16;
    for t in arr(&q["topics"]) {
      for op in PUBLIC_OPS {
        out.push((op.to_string(), d, s(t).to_string(), vec![]));
      }
      for p in arr(&q["parts"]) {
        let parts: Vec<String> = arr(p).iter().map(|x| s(x).to_string()).collect();
        for op in DIRECT_OPS {
          out.push((op.to_string(), d, s(t).to_string(), parts.clone()));
        }
      }
    }
  }
  out
}

fn log_checks(rig: &AccessRig, handle: Option<u32>, q: &Value, ev: &mut Vec<Value>) {
  for (op, dom, topic, parts) in queries(q) {
    let (raw, _detail) = match handle {
      Some(h) => rig.check(h, &op, dom, &topic, &parts),
      None => ("no_handle", String::new()),
    };
    let out = if raw == "allow" { "allow" } else { "deny" };
    ev.push(json!({"ev":"Check","op":op,"dom":dom,"topic":topic,"parts":parts,"out":out,"raw":raw}));
  }
}

fn run_dec(k: usize, sp: &ARunSpec, ev: &mut Vec<Value>) {
  ev.push(json!({"ev":"Reset","run":k,"kind":"dec","doc":sp.doc,"subj":sp.subj}));
  let pxml = render_permissions(&sp.doc, sp.style);
  let gxml = render_governance(&sp.doc, sp.style / 3);
  let mut rig = AccessRig::new();
  let inst = rig.install_unsigned(subject_dn(&sp.subj), &pxml, &gxml, 0);
  let handle = match &inst {
    Ok((h, g)) => {
      ev.push(json!({"ev":"Install","ok":true,"has_grant":g,"err":""}));
      Some(*h)
    }
    Err(e) => {
      ev.push(json!({"ev":"Install","ok":false,"has_grant":false,"err":e.chars().take(200).collect::<String>()}));
      None
    }
  };
  log_checks(&rig, handle, &sp.q, ev);
}

// ------------------------------------------------------------------ signature clause
fn canonical(xml: &[u8]) -> Vec<u8> {
  // what `openssl smime -sign -text` signs: the text/plain MIME entity with CRLF line ends
  let mut o = b"Content-Type: text/plain\r\n\r\n".to_vec();
  let mut prev = 0u8;
  for &b in xml {
    if b == b'\n' && prev != b'\r' {
      o.push(b'\r');
    }
    o.push(b);
    prev = b;
  }
  o
}

struct Fix {
  dir: String,
}
impl Fix {
  fn read(&self, name: &str) -> Vec<u8> {
    std::fs::read(format!("{}/{}", self.dir, name)).unwrap_or_else(|e| panic!("fixture {}/{name}: {e}", self.dir))
  }
  fn path(&self, name: &str) -> String {
    format!("{}/{}", self.dir, name)
  }
}

fn split_parts(blob: &[u8]) -> Option<(usize, usize)> {
  // (start of 2nd boundary line, end of blob): positions to splice signature parts between fixtures
  let text = String::from_utf8_lossy(blob);
  let bstart = text.find("boundary=\"")? + 10;
  let bend = bstart + text[bstart..].find('"')?;
  let boundary = format!("--{}", &text[bstart..bend]);
  let first = text.find(&boundary)?;
  let second = first + boundary.len() + text[first + boundary.len()..].find(&boundary)?;
  Some((second, blob.len()))
}

#[allow(clippy::too_many_arguments)]
fn verify_event(
  alt: Value,
  blob: &[u8],
  ca_pem: &[u8],
  signer: &str,
  ca: &str,
  signed_content: &[u8],
  pristine: bool,
  ev: &mut Vec<Value>,
) -> bool {
  let r = AccessRig::verify_blob(blob, ca_pem);
  let (out, same) = match &r {
    Ok(c) => ("accepted", c.as_slice() == signed_content),
    Err(e) if e == "panic" => ("panic", false),
    Err(_) => ("refused", false),
  };
  ev.push(json!({"ev":"Verify","alt":alt,"signer":signer,"ca":ca,"out":out,"same":same,"pristine":pristine}));
  out == "accepted"
}

/// full validate_local_permissions with (possibly altered) blobs, then the decisions
#[allow(clippy::too_many_arguments)]
fn validate_event(k: usize, tag: &str, fx: &Fix, perm_blob: &[u8], gov_blob: &[u8], ca_file: &str, q: Option<&Value>, alt: Value, ev: &mut Vec<Value>) {
  let tmp = std::env::temp_dir().join(format!("vh_access_{}_{k}_{tag}", std::process::id()));
  std::fs::create_dir_all(&tmp).unwrap();
  let pp = tmp.join("p.p7s");
  let gp = tmp.join("g.p7s");
  std::fs::write(&pp, perm_blob).unwrap();
  std::fs::write(&gp, gov_blob).unwrap();
  let mut rig = AccessRig::new();
  let r = rig.validate_local(&fx.path(ca_file), gp.to_str().unwrap(), pp.to_str().unwrap(), &fx.path("identity_cert.pem"), 0);
  let _ = std::fs::remove_dir_all(&tmp);
  match r {
    Ok(h) => {
      ev.push(json!({"ev":"Validate","alt":alt,"ok":true,"has_grant":rig.has_grant(h),"err":""}));
      if let Some(q) = q {
        log_checks(&rig, Some(h), q, ev);
      }
    }
    Err(e) => ev.push(json!({"ev":"Validate","alt":alt,"ok":false,"has_grant":false,"err":e.chars().take(160).collect::<String>()})),
  }
}

fn run_sig(k: usize, sp: &ARunSpec, ev: &mut Vec<Value>) {
  let fx = Fix { dir: sp.fixdir.clone() };
  let meta: Value = serde_json::from_slice(&fx.read("fixtures.json")).expect("fixtures.json");
  let doc = json!({"grants": meta[&sp.perm]["grants"], "gov": meta[&sp.gov]["gov"]});
  ev.push(json!({"ev":"Reset","run":k,"kind":"sig","doc":doc,"subj":"S1","perm":sp.perm,"gov":sp.gov,"target":sp.target}));
  let own_ca = fx.read("permissions_ca.cert.pem");
  let foreign_ca = fx.read("foreign_ca.cert.pem");
  let perm_blob = fx.read(&format!("{}.p7s", sp.perm));
  let gov_blob = fx.read(&format!("{}.p7s", sp.gov));
  let tname = if sp.target == "gov" { &sp.gov } else { &sp.perm };
  let blob = if sp.target == "gov" { gov_blob.clone() } else { perm_blob.clone() };
  let content = canonical(&fx.read(&format!("{tname}.xml")));
  let q = json!({"doms":[0,1],"topics":["A","AB","B"],"parts":[[], ["A"]]});
  let with = |alt_blob: &[u8]| -> (Vec<u8>, Vec<u8>) {
    if sp.target == "gov" {
      (perm_blob.clone(), alt_blob.to_vec())
    } else {
      (alt_blob.to_vec(), gov_blob.clone())
    }
  };
  match s(&sp.alts["mode"]) {
    "special" => {
      // pristine: accepted with exactly the signed content, and decisions as the document says
      verify_event(json!({"k":"pristine"}), &blob, &own_ca, "own", "own", &content, true, ev);
      validate_event(k, "pr", &fx, &perm_blob, &gov_blob, "permissions_ca.cert.pem", Some(&q), json!({"k":"pristine"}), ev);
      // configured CA is another one
      verify_event(json!({"k":"other_ca_configured"}), &blob, &foreign_ca, "own", "foreign", &content, false, ev);
      validate_event(k, "fc", &fx, &perm_blob, &gov_blob, "foreign_ca.cert.pem", Some(&q), json!({"k":"other_ca_configured"}), ev);
      // the same document signed by a foreign CA / by the participant's own identity key
      for (suffix, signer) in [("foreign", "foreign"), ("identity", "identity")] {
        let b = fx.read(&format!("{tname}.{suffix}.p7s"));
        verify_event(json!({"k":"signed_by","who":signer}), &b, &own_ca, signer, "own", &content, false, ev);
        let (p, g) = with(&b);
        validate_event(k, suffix, &fx, &p, &g, "permissions_ca.cert.pem", Some(&q), json!({"k":"signed_by","who":signer}), ev);
        if signer == "foreign" {
          verify_event(json!({"k":"signed_by_and_configured","who":signer}), &b, &foreign_ca, "foreign", "foreign", &content, true, ev);
        }
      }
      // a valid signature of the right CA over OTHER content: signature part of every other fixture of
      // the same kind spliced under this content
      for other in arr(&meta["_order"]) {
        let other = s(other);
        if other == tname || meta[other].get("grants").is_some() != meta[tname.as_str()].get("grants").is_some() {
          continue;
        }
        let ob = fx.read(&format!("{other}.p7s"));
        if let (Some((cut_t, _)), Some((cut_o, end_o))) = (split_parts(&blob), split_parts(&ob)) {
          // boundaries differ per file: rewrite the other's boundary to ours
          let text_t = String::from_utf8_lossy(&blob).to_string();
          let text_o = String::from_utf8_lossy(&ob).to_string();
          let bnd = |t: &str| {
            let a = t.find("boundary=\"").unwrap() + 10;
            t[a..a + t[a..].find('"').unwrap()].to_string()
          };
          let sigpart = text_o[cut_o..end_o].replace(&bnd(&text_o), &bnd(&text_t));
          let mut spliced = blob[..cut_t].to_vec();
          spliced.extend_from_slice(sigpart.as_bytes());
          let other_content = canonical(&fx.read(&format!("{other}.xml")));
          // accepted would mean: content of `tname` returned under a signature made over `other`
          verify_event(json!({"k":"splice","sig_of":other}), &spliced, &own_ca, "own", "own", &other_content, false, ev);
          let (p, g) = with(&spliced);
          validate_event(k, "sp", &fx, &p, &g, "permissions_ca.cert.pem", Some(&q), json!({"k":"splice","sig_of":other}), ev);
        }
      }
      // truncations
      for cut in [0usize, 1, blob.len() / 4, blob.len() / 2, blob.len() * 3 / 4, blob.len() - 40, blob.len() - 1] {
        let tb = &blob[..cut.min(blob.len())];
        verify_event(json!({"k":"truncate","at":cut}), tb, &own_ca, "own", "own", &content, false, ev);
        let (p, g) = with(tb);
        validate_event(k, "tr", &fx, &p, &g, "permissions_ca.cert.pem", Some(&q), json!({"k":"truncate","at":cut}), ev);
      }
    }
    _ => {
      let from = sp.alts["from"].as_u64().unwrap_or(0) as usize;
      let to = (sp.alts["to"].as_u64().unwrap_or(0) as usize).min(blob.len());
      let xors: Vec<u8> = arr(&sp.alts["xors"]).iter().map(|x| x.as_u64().unwrap_or(1) as u8).collect();
      let structural = sp.alts["structural"].as_bool().unwrap_or(false);
      let every = sp.alts["every"].as_u64().unwrap_or(1).max(1) as usize;
      let mut n_acc = 0usize;
      let qmini = json!({"doms":[0],"topics":["A","B"],"parts":[["A"]]});
      for pos in from..to {
        let mut alts: Vec<(Value, Vec<u8>)> = vec![];
        for x in &xors {
          let mut b = blob.clone();
          b[pos] ^= x;
          alts.push((json!({"k":"xor","pos":pos,"x":x}), b));
        }
        if structural {
          let mut b = blob.clone();
          b.remove(pos);
          alts.push((json!({"k":"del","pos":pos}), b));
          let mut b = blob.clone();
          b.insert(pos, blob[pos]);
          alts.push((json!({"k":"dup","pos":pos}), b));
          let mut b = blob.clone();
          b[pos] = if blob[pos] == b' ' { b'x' } else { b' ' };
          alts.push((json!({"k":"set","pos":pos}), b));
        }
        for (alt, b) in alts {
          // 1. the verification mechanism itself; 2. the public entry point with the same blob (its
          // verdict must not be more lenient); decisions are queried for every `every`-th accepted one
          let accepted = verify_event(alt.clone(), &b, &own_ca, "own", "own", &content, false, ev);
          let (p, g) = with(&b);
          let do_checks = accepted && n_acc % every == 0;
          if accepted {
            n_acc += 1;
          }
          validate_event(k, "alt", &fx, &p, &g, "permissions_ca.cert.pem", if do_checks { Some(&qmini) } else { None }, alt, ev);
        }
      }
    }
  }
}

pub fn run_one(k: usize, sp: &ARunSpec, ev: &mut Vec<Value>) -> Vec<Vec<u8>> {
  match sp.kind.as_str() {
    "sig" => run_sig(k, sp, ev),
    _ => run_dec(k, sp, ev),
  }
  vec![]
}

// ------------------------------------------------------------------ random documents
const NAMES: [&str; 6] = ["A", "AB", "B", "BA", "ABB", "C"];
const PATS: [&str; 12] = ["A", "A*", "*", "?B", "[AB]", "AB", "*B", "A?", "[!A]", "??", "A*B", "[A-B]*"];

fn pick<'a>(r: &mut StdRng, xs: &[&'a str]) -> &'a str {
  xs[r.gen_range(0..xs.len())]
}

fn rnd_crit(r: &mut StdRng) -> Value {
  let nt = if r.gen_bool(0.7) { 1 } else { 2 };
  let np = [0, 0, 1, 1, 2][r.gen_range(0..5)];
  let topics: Vec<&str> = (0..nt).map(|_| pick(r, &PATS)).collect();
  let parts: Vec<&str> = (0..np).map(|_| pick(r, &PATS)).collect();
  json!({"topics":topics,"parts":parts})
}

fn rnd_dom(r: &mut StdRng) -> Value {
  let a = r.gen_range(0..5);
  let b = r.gen_range(0..5);
  match r.gen_range(0..5) {
    0 | 1 => json!({"k":"id","a":a,"b":0}),
    2 => json!({"k":"range","a":a,"b":b}),
    3 => json!({"k":"min","a":a,"b":0}),
    _ => json!({"k":"max","a":0,"b":b}),
  }
}

fn rnd_rule(r: &mut StdRng) -> Value {
  let nd = if r.gen_bool(0.6) { 1 } else { 2 };
  let doms: Vec<Value> = (0..nd).map(|_| if r.gen_bool(0.4) { json!({"k":"min","a":0,"b":0}) } else { rnd_dom(r) }).collect();
  let mut lists = vec![];
  for _ in 0..3 {
    let n = [0, 1, 1, 2][r.gen_range(0..4)];
    lists.push((0..n).map(|_| rnd_crit(r)).collect::<Vec<Value>>());
  }
  json!({"allow": r.gen_bool(0.5), "doms": doms, "pub": lists[0], "sub": lists[1], "relay": if r.gen_bool(0.5) { json!([]) } else { json!(lists[2]) }})
}

fn rnd_doc(r: &mut StdRng) -> Value {
  let ng = r.gen_range(1..=3);
  let grants: Vec<Value> = (0..ng)
    .map(|_| {
      let nr = r.gen_range(1..=3);
      let rules: Vec<Value> = (0..nr).map(|_| rnd_rule(r)).collect();
      let val = ["valid", "valid", "valid", "expired", "future"][r.gen_range(0..5)];
      json!({"subj": if r.gen_bool(0.7) {"S1"} else {"S2"},
             "val": val,
             "def": if r.gen_bool(0.5) {"ALLOW"} else {"DENY"},
             "rules": rules})
    })
    .collect();
  let ngov = r.gen_range(1..=3); // the schema demands at least one topic rule
  let gov: Vec<Value> = (0..ngov).map(|_| json!({"expr": pick(r, &PATS), "read": r.gen_bool(0.6), "write": r.gen_bool(0.6)})).collect();
  json!({"grants": grants, "gov": gov})
}

pub fn random_specs(seed: u64, runs: usize, events: usize, tier: &str, fixdir: &str) -> Vec<ARunSpec> {
  let mut r = StdRng::seed_from_u64(seed ^ 0xacce55);
  let mut v = vec![];
  let blank = |kind: &str| ARunSpec { kind: kind.into(), doc: Value::Null, subj: String::new(), q: Value::Null, style: 0, fixdir: String::new(), perm: String::new(), gov: String::new(), target: String::new(), alts: Value::Null };
  for _ in 0..runs {
    let doc = rnd_doc(&mut r);
    let mut list = vec![];
    for _ in 0..events {
      let np = [0, 1, 1, 2][r.gen_range(0..4)];
      let parts: Vec<&str> = (0..np).map(|_| pick(&mut r, &NAMES)).collect();
      let direct = r.gen_bool(0.6);
      let op = if direct { DIRECT_OPS[r.gen_range(0..3)] } else { PUBLIC_OPS[r.gen_range(0..6)] };
      list.push(json!({"op":op,"dom":r.gen_range(0..6),"topic":pick(&mut r, &NAMES),"parts": if direct { json!(parts) } else { json!([]) }}));
    }
    let mut sp = blank("dec");
    sp.doc = doc;
    sp.subj = if r.gen_bool(0.8) { "S1".into() } else { "S2".into() };
    sp.q = json!({"list": list});
    sp.style = r.gen_range(0..9);
    v.push(sp);
  }
  // signature clause: committed fixtures, every byte position
  if !fixdir.is_empty() {
    let meta: Value = serde_json::from_slice(&std::fs::read(format!("{fixdir}/fixtures.json")).expect("fixtures.json")).expect("fixtures.json");
    let order: Vec<String> = arr(&meta["_order"]).iter().map(|x| s(x).to_string()).collect();
    let perms: Vec<&String> = order.iter().filter(|n| meta[n.as_str()].get("grants").is_some()).collect();
    let govs: Vec<&String> = order.iter().filter(|n| meta[n.as_str()].get("gov").is_some()).collect();
    let thorough = tier == "thorough";
    let mut targets: Vec<(String, String, String)> = vec![];
    for (i, p) in perms.iter().enumerate() {
      targets.push((p.to_string(), govs[i % govs.len()].to_string(), "perm".into()));
    }
    for (i, g) in govs.iter().enumerate() {
      targets.push((perms[i % perms.len()].to_string(), g.to_string(), "gov".into()));
    }
    for (ti, (p, g, target)) in targets.iter().enumerate() {
      let mut sp = blank("sig");
      sp.fixdir = fixdir.into();
      sp.perm = p.clone();
      sp.gov = g.clone();
      sp.target = target.clone();
      sp.alts = json!({"mode":"special"});
      v.push(sp.clone());
      // quick: full byte sweep of the first permissions and the first governance fixture with two
      // xor masks; thorough: every fixture, all eight bit flips + delete / duplicate / overwrite
      let first_of_kind = ti == 0 || ti == perms.len();
      if !thorough && !first_of_kind {
        continue;
      }
      let name = if target == "gov" { g } else { p };
      let len = std::fs::metadata(format!("{fixdir}/{name}.p7s")).map(|m| m.len() as usize).unwrap_or(0);
      let chunk = if thorough { 150 } else { 400 };
      let mut from = 0;
      while from < len {
        let mut c = sp.clone();
        c.alts = if thorough {
          json!({"mode":"bytes","from":from,"to":from+chunk,"xors":[1,2,4,8,16,32,64,128],"structural":true,"every":4})
        } else {
          json!({"mode":"bytes","from":from,"to":from+chunk,"xors":[1,32],"structural":false,"every":1})
        };
        v.push(c);
        from += chunk;
      }
    }
  }
  v
}

pub fn main(mode: &str, opt: &HashMap<String, String>) -> i32 {
  // the crate logs every refused document at error level; keep stderr quiet
  match mode {
    "replay" => {
      let mut specs: Vec<ARunSpec> = util::read_jsonl(&opt["in"]);
      if let Some(fd) = opt.get("fixtures") {
        for sp in specs.iter_mut() {
          if sp.kind == "sig" {
            sp.fixdir = fd.clone();
          }
        }
      }
      util::run_parallel(opt, specs, run_one)
    }
    "random" => {
      let specs = random_specs(
        util::get(opt, "seed", 1),
        util::get(opt, "runs", 100),
        util::get(opt, "events", 40),
        opt.get("tier").map(|s| s.as_str()).unwrap_or("quick"),
        opt.get("fixtures").map(|s| s.as_str()).unwrap_or(""),
      );
      util::run_parallel(opt, specs, run_one)
    }
    "render" => {
      let meta: Value = serde_json::from_slice(&std::fs::read(&opt["in"]).expect("read --in")).expect("json");
      let out = &opt["out"];
      std::fs::create_dir_all(out).unwrap();
      for name in arr(&meta["_order"]) {
        let name = s(name);
        let d = &meta[name];
        let xml = if d.get("grants").is_some() { render_permissions(d, 0) } else { render_governance(d, 0) };
        std::fs::write(format!("{out}/{name}.xml"), xml).unwrap();
      }
      0
    }
    _ => {
      eprintln!("access driver: unknown mode {mode}");
      2
    }
  }
}
