//! `wire` driver
use std::collections::HashMap;

pub fn main(_mode: &str, _opt: &HashMap<String, String>) -> i32 {
    eprintln!("wire driver: not implemented");
    2
}
