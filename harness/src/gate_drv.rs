//! `gate` driver (C17): datagrams described abstractly (by TLC behaviours of SecGate.tla or by the
//! seeded random generator) are built with wire.rs, protected -- where the description says so --
//! with the REAL plugin's own encode operations, fed to the real MessageReceiver with real
//! SecurityPlugins (GateRig) and the deliveries observed at the readers' topic caches / writer
//! proxies and at the acknack channel are logged as ndjson for Trace_SecGate.tla.
//!
//! A run also has a matching configuration `xm` (pairs (d, w): the local reader of topic d is additionally
//! matched to a writer of a second remote participant -- source "peer2" -- that carries the EntityId of the
//! peer's writer of topic w), so that writer submessages without reader id have several candidate readers
//! with different protection requirements.  It is chosen by TLC (MC_SecGate_*x.cfg) / the random generator,
//! built by GateRig::new_with_matches and logged in the Reset line.
//!
//! Two more dimensions (strengthening round 3):
//!  * the SHAPE of a DATA / DATAFRAG submessage (`form`): "D" serialized data, "K" serialized key (dispose /
//!    unregister), "Q" no payload, inline QoS with key hash + status info, "DK" both flags (invalid), "0" nothing;
//!  * the DOMAIN rule of the governance document: besides rtps_protection_kind the discovery_ and
//!    liveliness_protection_kind, which decide the submessage protection of the builtin secure endpoints
//!    (destinations pmsec = DCPSParticipantMessageSecure, pubsec / subsec / psec = the secure discovery topics).
//!    A governance id is "N" | "S" | "E" (rtps kind, discovery = liveliness = ENCRYPT: governance_rtps<k>.p7s) or three
//!    letters <rtps><discovery><liveliness> (governance_<id>.p7s).

use std::collections::HashMap;

use rand::{rngs::StdRng, Rng, SeedableRng};
use rustdds::verif::gate_rig::{GateRig, PEER2_PREFIX};
use serde::{Deserialize, Serialize};
use serde_json::{json, Value};

use crate::util;
use crate::wire::{self, NumSet, Param, Sub};

fn d_none() -> String {
    "na".into()
}

/// inner submessage of a secure-submessage triple
#[derive(Clone, Debug, Serialize, Deserialize)]
pub struct WrapSpec {
    pub kind: String,
    pub dst: String,
    pub wr: String,
    #[serde(default = "d_none")]
    pub pay: String,
    /// topic whose endpoint keys protect the submessage
    pub key: String,
    /// shape of a DATA / DATAFRAG submessage: D | K | Q | DK | 0 (see build_ent); "na" = default ("D")
    #[serde(default = "d_none")]
    pub form: String,
}

/// one wire position
#[derive(Clone, Debug, Serialize, Deserialize)]
pub struct El {
    /// ent | P | B | F | idst | isrc | its
    pub t: String,
    #[serde(default = "d_none")]
    pub kind: String,
    #[serde(default = "d_none")]
    pub dst: String,
    #[serde(default = "d_none")]
    pub wr: String,
    #[serde(default = "d_none")]
    pub pay: String,
    /// 1-based index into wraps (P/B/F)
    #[serde(default)]
    pub w: usize,
    /// idst: self|other|unknown, isrc: peer|peer2|foreign
    #[serde(default = "d_none")]
    pub who: String,
    /// shape of a DATA / DATAFRAG submessage: D | K | Q | DK | 0 (see build_ent); "na" = default ("D")
    #[serde(default = "d_none")]
    pub form: String,
}

#[derive(Clone, Debug, Serialize, Deserialize)]
pub struct MsgSpec {
    /// only in the flat form dumped by TLC (one message per line)
    #[serde(default, skip_serializing_if = "Option::is_none")]
    pub gov: Option<String>,
    /// matching configuration (flat form only, see RunSpec::xm)
    #[serde(default, skip_serializing_if = "Option::is_none")]
    pub xm: Option<Vec<(String, String)>>,
    /// plain | srtps | srtps_bad | shift
    pub first: String,
    /// peer | peer2 (second remote participant, no key material) | foreign
    pub src: String,
    #[serde(default)]
    pub wraps: Vec<WrapSpec>,
    pub els: Vec<El>,
}

#[derive(Clone, Debug, Serialize, Deserialize)]
pub struct RunSpec {
    pub gov: String,
    /// matching configuration of the run: pairs (d, w) -- the local reader of topic d is additionally matched
    /// to a writer of the second remote participant that has the EntityId of the peer's writer of topic w
    #[serde(default)]
    pub xm: Vec<(String, String)>,
    pub msgs: Vec<MsgSpec>,
}

pub const DESTS: [&str; 14] = ["NN", "EN", "NE", "EE", "SN", "NS", "spdp", "stateless", "volatile", "sedp", "pmsec", "pubsec", "subsec", "psec"];

const PID_KEY_HASH: u16 = 0x0070;
const PID_STATUS_INFO: u16 = 0x0071;

/// (rtps, discovery, liveliness) protection kinds ("N" | "S" | "E") the governance document `gov` INTENDS
fn gov_kinds(gov: &str) -> (String, String, String) {
    let c: Vec<String> = gov.chars().map(|c| c.to_string()).collect();
    if c.len() == 3 {
        (c[0].clone(), c[1].clone(), c[2].clone())
    } else {
        (gov.to_string(), "E".into(), "E".into())
    }
}

fn gov_file(gov: &str) -> String {
    if gov.len() == 3 {
        format!("governance_{gov}.p7s")
    } else {
        format!("governance_rtps{gov}.p7s")
    }
}

/// the shape actually put on the wire for a requested form
fn eff_form(kind: &str, form: &str) -> &'static str {
    match (kind, form) {
        ("DATA", "K") | ("FRAG", "K") => "K",
        ("DATA", "Q") => "Q",
        ("DATA", "DK") => "DK",
        ("DATA", "0") => "0",
        ("DATA", _) | ("FRAG", _) => "D",
        _ => "na",
    }
}
const FOREIGN: [u8; 12] = [9; 12];
const OTHER: [u8; 12] = [5; 12];

fn ep_index(name: &str) -> Option<usize> {
    DESTS.iter().position(|d| *d == name)
}

fn fixtures_dir() -> String {
    std::env::var("VERIF_GATE_FIXTURES").unwrap_or_else(|_| {
        let exe = std::env::current_exe().unwrap();
        // <verif>/harness/target-sec/debug/vh -> <verif>/fixtures/gate
        let p = exe.parent().unwrap().parent().unwrap().parent().unwrap().parent().unwrap().join("fixtures").join("gate");
        p.to_string_lossy().to_string()
    })
}

struct Exec {
    rig: GateRig,
    next_id: i64,
}

impl Exec {
    fn reader_eid(&self, name: &str) -> [u8; 4] {
        match ep_index(name) {
            Some(i) => self.rig.eps[i].reader,
            None => [0, 0, 0, 0],
        }
    }
    fn writer_eid(&self, name: &str) -> [u8; 4] {
        match ep_index(name) {
            Some(i) => self.rig.eps[i].writer,
            None => [0, 0, 0, 0],
        }
    }

    /// plain entity submessage; returns (bytes, effective pay)
    fn build_ent(&self, id: i64, kind: &str, dst: &str, wr: &str, pay: &str, form: &str) -> (Vec<u8>, String) {
        let mut eff_pay = "na".to_string();
        let form = eff_form(kind, form);
        let dispose = || Param { pid: PID_STATUS_INFO, value: vec![0, 0, 0, 1] };
        let mut both_flags = false;
        let sub = match kind {
            // no serialized payload at all: the instance is named by the key hash in the inline QoS ("Q") / nothing ("0")
            "DATA" if form == "Q" || form == "0" => {
                let inline_qos = if form == "Q" {
                    Some(vec![Param { pid: PID_KEY_HASH, value: wire::vkey_hash((id % 3) as u32).to_vec() }, dispose()])
                } else {
                    None
                };
                Sub::Data { reader: self.reader_eid(dst), writer: self.writer_eid(wr), sn: id, inline_qos, payload: None, key_flag: false }
            }
            "DATA" | "FRAG" => {
                // "K": the serialized payload is the serialized KEY (dispose / unregister)
                let plain = if form == "K" { wire::vkey_payload((id % 3) as u32) } else { wire::vsample_payload((id % 3) as u32, id as u32, &[id as u8; 8]) };
                let inline_qos = if form == "K" { Some(vec![dispose()]) } else { None };
                both_flags = form == "DK";
                let mut payload = plain.clone();
                eff_pay = "plain".into();
                let key_name = match pay {
                    "enc" => Some(wr.to_string()),
                    // encoded, but with the key of a different payload-protected topic
                    "encx" => Some(if wr == "NE" { "EE".to_string() } else { "NE".to_string() }),
                    _ => None,
                };
                if let Some(k) = key_name {
                    if let Some(ki) = ep_index(&k) {
                        if let Ok(enc) = self.rig.encode_payload(&plain, ki) {
                            payload = enc;
                            while payload.len() % 4 != 0 {
                                payload.push(0);
                            }
                            eff_pay = pay.to_string();
                        }
                    }
                }
                if kind == "DATA" {
                    Sub::Data { reader: self.reader_eid(dst), writer: self.writer_eid(wr), sn: id, inline_qos, payload: Some(payload), key_flag: form == "K" }
                } else {
                    let n = payload.len();
                    Sub::DataFrag {
                        reader: self.reader_eid(dst),
                        writer: self.writer_eid(wr),
                        sn: id,
                        frag_start: 1,
                        frags_in_sub: 1,
                        frag_size: n as u16,
                        sample_size: n as u32,
                        inline_qos,
                        payload,
                        key_flag: form == "K",
                    }
                }
            }
            "HB" => Sub::Heartbeat { reader: self.reader_eid(dst), writer: self.writer_eid(wr), first: 1, last: 0, count: id as i32, final_flag: true, liveliness: false },
            "GAP" => Sub::Gap { reader: self.reader_eid(dst), writer: self.writer_eid(wr), start: id, list: NumSet::empty(id + 1) },
            // ACKNACK: dst names the local WRITER, wr the sending reader
            _ => Sub::AckNack { reader: self.reader_eid(wr), writer: self.writer_eid(dst), set: NumSet::empty(1), count: id as i32, final_flag: true },
        };
        let mut bytes = wire::encode_sub(&sub, true);
        if both_flags {
            bytes[1] |= 0x0c; // D and K flag together (RTPS 9.4.5.3.1: invalid combination)
        }
        (bytes, eff_pay)
    }
}

fn run_msg(x: &mut Exec, m: &MsgSpec, gov: &str, ev: &mut Vec<Value>) -> bool {
    let own = x.rig.own_prefix;
    let src_prefix = match m.src.as_str() {
        "peer" => own,
        "peer2" => PEER2_PREFIX,
        _ => FOREIGN,
    };
    let header = wire::encode_header(&src_prefix);

    // ---- wraps
    struct Wrap {
        id: i64,
        parts: Option<Vec<Vec<u8>>>,
        plain: Vec<u8>,
        log: Value,
    }
    let mut wraps: Vec<Wrap> = vec![];
    for w in &m.wraps {
        let id = x.next_id;
        x.next_id += 1;
        let (plain, eff_pay) = x.build_ent(id, &w.kind, &w.dst, &w.wr, &w.pay, &w.form);
        let mut dg = wire::encode_header(&own);
        dg.extend_from_slice(&plain);
        let parts = ep_index(&w.key).and_then(|ki| x.rig.wrap_submessage(&dg, ki, w.kind == "ACK").ok());
        // 0x30 = SEC_BODY: the submessage is hidden; otherwise (SIGN kinds) it is readable on the wire
        let opaque = parts.as_ref().map(|p| p[1].first() == Some(&0x30)).unwrap_or(true);
        let log = json!({"id": id, "kind": w.kind, "dst": w.dst, "wr": w.wr, "pay": eff_pay, "form": eff_form(&w.kind, &w.form), "opaque": opaque, "key": if parts.is_some() { w.key.clone() } else { "none".to_string() }});
        wraps.push(Wrap { id, parts, plain, log });
    }

    // ---- elements
    let mut body: Vec<u8> = vec![];
    let mut els_log: Vec<Value> = vec![];
    // ids observable as sequence numbers (DATA, DATAFRAG, GAP) / as heartbeat counts
    let mut ids: Vec<i64> = vec![];
    let mut hb_ids: Vec<i64> = vec![];
    let is_sn = |k: &str| k == "DATA" || k == "FRAG" || k == "GAP";
    for (w, ws) in wraps.iter().zip(m.wraps.iter()) {
        if ws.kind == "HB" {
            hb_ids.push(w.id);
        } else if is_sn(&ws.kind) {
            ids.push(w.id);
        }
    }
    let blank = |t: &str| json!({"t": t, "id": 0, "kind": "na", "dst": "na", "wr": "na", "pay": "na", "form": "na", "w": 0, "who": "na"});
    for e in &m.els {
        match e.t.as_str() {
            "ent" => {
                let id = x.next_id;
                x.next_id += 1;
                let (b, eff_pay) = x.build_ent(id, &e.kind, &e.dst, &e.wr, &e.pay, &e.form);
                body.extend_from_slice(&b);
                if e.kind == "HB" {
                    hb_ids.push(id);
                } else if is_sn(&e.kind) {
                    ids.push(id);
                }
                els_log.push(json!({"t": "ent", "id": id, "kind": e.kind, "dst": e.dst, "wr": e.wr, "pay": eff_pay, "form": eff_form(&e.kind, &e.form), "w": 0, "who": "na"}));
            }
            "P" | "B" | "F" => {
                let pi = match e.t.as_str() {
                    "P" => 0,
                    "B" => 1,
                    _ => 2,
                };
                if e.w >= 1 && e.w <= wraps.len() {
                    let w = &wraps[e.w - 1];
                    match &w.parts {
                        Some(p) => {
                            body.extend_from_slice(&p[pi]);
                            let mut l = blank(&e.t);
                            l["w"] = json!(e.w);
                            els_log.push(l);
                        }
                        None => {
                            // the plugin declined to protect (topic not submessage protected): the body is
                            // the plain submessage, prefix and postfix do not exist
                            if pi == 1 {
                                body.extend_from_slice(&w.plain);
                                let mut l = w.log.clone();
                                l["t"] = json!("ent");
                                l["w"] = json!(0);
                                l["who"] = json!("na");
                                l.as_object_mut().unwrap().remove("key");
                                l.as_object_mut().unwrap().remove("opaque");
                                els_log.push(l);
                            }
                        }
                    }
                }
            }
            "idst" => {
                let p = match e.who.as_str() {
                    "self" => own,
                    "other" => OTHER,
                    _ => [0u8; 12],
                };
                body.extend_from_slice(&wire::encode_sub(&Sub::InfoDst { prefix: p }, true));
                let mut l = blank("idst");
                l["who"] = json!(e.who);
                els_log.push(l);
            }
            "isrc" => {
                let p = match e.who.as_str() {
                    "peer" => own,
                    "peer2" => PEER2_PREFIX,
                    _ => FOREIGN,
                };
                body.extend_from_slice(&wire::encode_sub(&Sub::InfoSrc { version: [2, 4], vendor: [1, 0x12], prefix: p }, true));
                let mut l = blank("isrc");
                l["who"] = json!(e.who);
                els_log.push(l);
            }
            _ => {
                body.extend_from_slice(&wire::encode_sub(&Sub::InfoTs { ts: Some((1000, 0)) }, true));
                els_log.push(blank("its"));
            }
        }
    }
    let mut plain_dg = header.clone();
    plain_dg.extend_from_slice(&body);

    // ---- message level protection
    let mut first = "plain".to_string();
    let mut datagram = plain_dg.clone();
    if m.first != "plain" && m.src == "peer" {
        if let Ok(enc) = x.rig.wrap_message(&plain_dg) {
            if enc.len() > 20 && enc[20] == 0x33 {
                match m.first.as_str() {
                    "srtps" => {
                        first = "srtps".into();
                        datagram = enc;
                    }
                    "srtps_bad" => {
                        first = "srtps_bad".into();
                        datagram = enc;
                        let n = datagram.len();
                        datagram[n - 6] ^= 0x40; // inside the common MAC of the SRTPS postfix
                    }
                    _ => {
                        // the protected message does not START with the SRTPS prefix (7.3.6.6.3: invalid)
                        first = "shift".into();
                        let mut d = header.clone();
                        d.extend_from_slice(&wire::encode_sub(&Sub::InfoTs { ts: Some((1000, 0)) }, true));
                        d.extend_from_slice(&enc[20..]);
                        datagram = d;
                        let mut l = vec![blank("its"), blank("X")];
                        if gov_kinds(gov).0 == "S" {
                            l.extend(els_log.iter().cloned());
                        } else {
                            l.push(blank("X"));
                        }
                        l.push(blank("X"));
                        els_log = l;
                    }
                }
            }
        }
    }

    // ---- the real code
    let before_hb: Vec<Vec<i32>> = (0..DESTS.len()).map(|i| x.rig.hb_counts(i)).collect();
    let rig = &mut x.rig;
    let res = std::panic::catch_unwind(std::panic::AssertUnwindSafe(|| rig.inject(&datagram)));
    let panic = res.err().map(|e| {
        e.downcast_ref::<String>().cloned().or_else(|| e.downcast_ref::<&str>().map(|s| s.to_string())).unwrap_or_else(|| "panic".into())
    });
    let mut delivered: Vec<Value> = vec![];
    if panic.is_none() {
        for (i, d) in DESTS.iter().enumerate() {
            for sn in x.rig.delivered_sns(i, &ids) {
                delivered.push(json!([sn, d]));
            }
            let after = x.rig.hb_counts(i);
            for (k, c) in after.iter().enumerate() {
                let b = before_hb[i].get(k).copied().unwrap_or(0);
                if *c != b && hb_ids.contains(&(*c as i64)) {
                    delivered.push(json!([*c as i64, d]));
                }
            }
        }
        for (_p, weid, count) in x.rig.drain_acknack_channel() {
            let name = x.rig.eps.iter().find(|e| e.writer == weid).map(|e| e.name).unwrap_or("unknown-writer");
            delivered.push(json!([count as i64, name]));
        }
    }
    ev.push(json!({
        "ev": "Msg", "first": first, "src": m.src,
        "wraps": wraps.iter().map(|w| w.log.clone()).collect::<Vec<_>>(),
        "els": els_log, "delivered": delivered, "panic": panic.clone().unwrap_or_default(), "bytes": datagram.len(),
    }));
    panic.is_none()
}

pub fn run_one(run: usize, spec: &RunSpec, ev: &mut Vec<Value>) -> Vec<Vec<u8>> {
    let gov_file = gov_file(&spec.gov);
    let (rtps_k, disc_k, live_k) = gov_kinds(&spec.gov);
    // the matching configuration in canonical form (known topics only, sorted, no duplicates)
    let mut xm: Vec<(String, String)> = spec.xm.iter().filter(|(d, w)| ep_index(d).is_some() && ep_index(w).is_some() && d != "stateless").cloned().collect();
    xm.sort();
    xm.dedup();
    let extra: Vec<(usize, usize)> = xm.iter().map(|(d, w)| (ep_index(d).unwrap(), ep_index(w).unwrap())).collect();
    let rig = match GateRig::new_with_matches(&fixtures_dir(), &gov_file, &extra) {
        Ok(r) => r,
        Err(e) => {
            eprintln!("gate rig construction failed: {e}");
            std::process::exit(2);
        }
    };
    let facts: Vec<Value> = rig
        .eps
        .iter()
        .zip(rig.facts.iter())
        .map(|(e, f)| json!({"name": e.name, "rsub": f.reader_sub_protected, "rpay": f.reader_payload_protected, "wsub": f.writer_sub_protected, "errs": f.setup_errors}))
        .collect();
    let xm_log: Vec<Value> = xm.iter().map(|(d, w)| json!([d, w])).collect();
    ev.push(json!({"ev": "Reset", "run": run, "gov": spec.gov, "rtps": rtps_k != "N", "disc": disc_k, "live": live_k, "xm": xm_log, "dbg": {"rtps_protected": rig.rtps_protected, "facts": facts, "setup_errors": rig.setup_errors}}));
    let mut x = Exec { rig, next_id: 1 };
    for m in &spec.msgs {
        if !run_msg(&mut x, m, &spec.gov, ev) {
            break; // the code under test panicked: the run ends here (the panic is in the trace)
        }
    }
    vec![]
}

/// TLC dumps one message per line (with its governance and matching configuration); group them into runs.
fn group(flat: Vec<MsgSpec>, per_run: usize) -> Vec<RunSpec> {
    let mut by: Vec<((String, Vec<(String, String)>), Vec<MsgSpec>)> = vec![];
    for mut m in flat {
        let g = m.gov.take().unwrap_or_else(|| "E".into());
        let mut xm = m.xm.take().unwrap_or_default();
        xm.sort();
        xm.dedup();
        let key = (g, xm);
        match by.iter_mut().find(|x| x.0 == key) {
            Some(x) => x.1.push(m),
            None => by.push((key, vec![m])),
        }
    }
    let mut out = vec![];
    for ((g, xm), ms) in by {
        for c in ms.chunks(per_run) {
            out.push(RunSpec { gov: g.clone(), xm: xm.clone(), msgs: c.to_vec() });
        }
    }
    out
}

fn pick<'a>(rng: &mut StdRng, xs: &[&'a str]) -> &'a str {
    xs[rng.gen_range(0..xs.len())]
}

/// readers / writer ids that take part in random matching configurations (EntityId order of the readers)
const FAN: [&str; 7] = ["NN", "EN", "NE", "sedp", "EE", "SN", "NS"];

fn random_xm(rng: &mut StdRng) -> Vec<(String, String)> {
    let mut xm: Vec<(String, String)> = vec![];
    match rng.gen_range(0..10) {
        // every reader matched to its peer writer only
        0..=2 => {}
        // a few pairs
        3..=6 => {
            for _ in 0..rng.gen_range(1..=4) {
                xm.push((pick(rng, &FAN).to_string(), pick(rng, &FAN).to_string()));
            }
        }
        // a rotation: two candidate readers for every writer id
        7..=8 => {
            let k = rng.gen_range(1..FAN.len());
            for i in 0..FAN.len() {
                xm.push((FAN[i].to_string(), FAN[(i + k) % FAN.len()].to_string()));
            }
        }
        // everything
        _ => {
            for d in FAN {
                for w in FAN {
                    xm.push((d.to_string(), w.to_string()));
                }
            }
        }
    }
    xm.sort();
    xm.dedup();
    xm
}

/// shape of a DATA / DATAFRAG submessage
fn random_form(rng: &mut StdRng, kind: &str) -> String {
    match kind {
        "DATA" => pick(rng, &["D", "D", "D", "D", "D", "K", "K", "Q", "Q", "DK", "0", "D"]).to_string(),
        "FRAG" => pick(rng, &["D", "D", "D", "K"]).to_string(),
        _ => "na".to_string(),
    }
}

/// governance documents of the random runs: the three with discovery = liveliness = ENCRYPT and the 16 others
const GOVS3: [&str; 16] = ["NNN", "NNS", "NNE", "NSN", "NSS", "NSE", "NEN", "NES", "ENN", "ENS", "ENE", "ESN", "ESS", "ESE", "EEN", "EES"];
/// topics whose endpoint keys are used for protected submessages (whether they ARE submessage protected depends on
/// the governance document; where not, the plugin declines and the submessage goes out plain)
const WRAP_KEYS: [&str; 8] = ["EN", "EE", "SN", "volatile", "pmsec", "pubsec", "subsec", "psec"];

fn random_ent(rng: &mut StdRng, xm: &[(String, String)]) -> (String, String, String, String) {
    let kind = pick(rng, &["DATA", "DATA", "FRAG", "HB", "GAP", "ACK"]);
    // a matched pair of the configuration: named reader / no reader id, writer id of the other topic
    if kind != "ACK" && !xm.is_empty() && rng.gen_range(0..4) == 0 {
        let (d, w) = &xm[rng.gen_range(0..xm.len())];
        let dst = if rng.gen_range(0..2) == 0 { "UNKNOWN".to_string() } else { d.clone() };
        let pay = if kind == "DATA" || kind == "FRAG" { pick(rng, &["plain", "plain", "plain", "enc"]) } else { "na" };
        return (kind.into(), dst, w.clone(), pay.into());
    }
    let wr = pick(rng, &DESTS);
    let dst = match rng.gen_range(0..10) {
        0..=5 => wr,
        6..=7 => {
            if kind == "ACK" {
                wr
            } else {
                "UNKNOWN"
            }
        }
        _ => pick(rng, &DESTS),
    };
    let pay = if kind == "DATA" || kind == "FRAG" { pick(rng, &["plain", "plain", "enc", "encx"]) } else { "na" };
    (kind.into(), dst.into(), wr.into(), pay.into())
}

pub fn random_specs(seed: u64, runs: usize, events: usize) -> Vec<RunSpec> {
    let mut out = vec![];
    for r in 0..runs {
        let mut rng = StdRng::seed_from_u64(seed.wrapping_mul(1_000_003).wrapping_add(r as u64));
        let gov = if rng.gen_range(0..2) == 0 { pick(&mut rng, &["N", "S", "E", "E"]).to_string() } else { pick(&mut rng, &GOVS3).to_string() };
        let xm = random_xm(&mut rng);
        let mut msgs = vec![];
        for _ in 0..events {
            let nw = rng.gen_range(0..3);
            let mut wraps = vec![];
            for _ in 0..nw {
                let (kind, dst, wr, pay) = random_ent(&mut rng, &xm);
                let key = match rng.gen_range(0..10) {
                    0..=5 if WRAP_KEYS.contains(&wr.as_str()) => wr.clone(),
                    _ => pick(&mut rng, &WRAP_KEYS).to_string(),
                };
                let form = random_form(&mut rng, &kind);
                wraps.push(WrapSpec { kind, dst, wr, pay, key, form });
            }
            let mut els: Vec<El> = vec![];
            let blank = |t: &str| El { t: t.into(), kind: "na".into(), dst: "na".into(), wr: "na".into(), pay: "na".into(), w: 0, who: "na".into(), form: "na".into() };
            let n = rng.gen_range(1..=6);
            while els.len() < n {
                match rng.gen_range(0..20) {
                    0..=8 => {
                        let (kind, dst, wr, pay) = random_ent(&mut rng, &xm);
                        let form = random_form(&mut rng, &kind);
                        els.push(El { t: "ent".into(), kind, dst, wr, pay, w: 0, who: "na".into(), form });
                    }
                    9..=13 if nw > 0 => {
                        // a correct triple
                        let w = rng.gen_range(1..=nw);
                        for t in ["P", "B", "F"] {
                            let mut e = blank(t);
                            e.w = w;
                            els.push(e);
                        }
                    }
                    14..=16 if nw > 0 => {
                        // a single part, out of sequence
                        let mut e = blank(pick(&mut rng, &["P", "B", "F"]));
                        e.w = rng.gen_range(1..=nw);
                        els.push(e);
                    }
                    17 => {
                        let mut e = blank("idst");
                        e.who = pick(&mut rng, &["self", "self", "other", "unknown"]).into();
                        els.push(e);
                    }
                    18 => {
                        let mut e = blank("isrc");
                        e.who = pick(&mut rng, &["peer", "foreign", "peer2"]).into();
                        els.push(e);
                    }
                    _ => els.push(blank("its")),
                }
            }
            let first = pick(&mut rng, &["plain", "plain", "plain", "srtps", "srtps", "srtps_bad", "shift"]).to_string();
            let src = if xm.is_empty() {
                pick(&mut rng, &["peer", "peer", "peer", "foreign"]).to_string()
            } else {
                pick(&mut rng, &["peer", "peer", "peer", "peer2", "peer2", "foreign"]).to_string()
            };
            msgs.push(MsgSpec { gov: None, xm: None, first, src, wraps, els });
        }
        out.push(RunSpec { gov, xm, msgs });
    }
    out
}

pub fn main(mode: &str, opt: &HashMap<String, String>) -> i32 {
    // the code under test logs rejected traffic with error!(); no logger is installed, nothing to do
    match mode {
        "random" => {
            let specs = random_specs(util::get(opt, "seed", 1), util::get(opt, "runs", 100), util::get(opt, "events", 40));
            util::run_parallel(opt, specs, run_one)
        }
        "replay" => {
            let raw: Vec<Value> = util::read_jsonl(&opt["in"]);
            let mut runs: Vec<RunSpec> = vec![];
            let mut flat: Vec<MsgSpec> = vec![];
            for v in raw {
                if v.get("msgs").is_some() {
                    runs.push(serde_json::from_value(v).expect("run spec"));
                } else {
                    flat.push(serde_json::from_value(v).expect("message spec"));
                }
            }
            runs.extend(group(flat, util::get(opt, "per-run", 40)));
            util::run_parallel(opt, runs, run_one)
        }
        _ => {
            eprintln!("gate driver: unknown mode {mode}");
            2
        }
    }
}
