//! `disc` driver (C11, C12): discovery event sequences applied to the real DiscoveryDB (virtual
//! clock) + real DPEventLoop handlers + real local Writer/Reader (DiscRig); after every event the
//! matched sets, status events and tables are logged for Trace_Discovery.tla.
//! Endpoints (must agree with spec/Trace_Discovery.cfg and MC_Discovery_*.cfg):
//!   e  owner kind    topic QoS
//!   1  p1    reader  T     compatible      2  p1 writer T compatible    3  p1 reader T incompatible
//!   4  p2    reader  T     compatible      5  p2 writer T compatible    6  p2 writer other-topic
//!   7  p1    writer  T     compatible, other values (shorter max_blocking_time, stronger durability)
//!   8  p1    reader  T     compatible, other values (longer max_blocking_time, finite deadline and latency budget)

use std::collections::HashMap;

use rand::{rngs::StdRng, Rng, SeedableRng};
use rustdds::policy::*;
use rustdds::verif::disc_rig::DiscRig;
use rustdds::{Duration, QosPolicies, QosPolicyBuilder};
use serde::{Deserialize, Serialize};
use serde_json::{json, Value};

use crate::util;

#[derive(Clone, Debug, Serialize, Deserialize)]
#[serde(tag = "a")]
pub enum DAct {
    Tick { dt: u64 },
    /// lease in ms, -1 = none announced.
    /// defer (all events that notify the event loop): Discovery has updated the DiscoveryDB and sent its notification, but
    /// the event loop (another thread) handles it only later, when the DB may already be ahead; notifications are handled
    /// in the order sent.  The tables are observed at once, matched sets and status events when the notification is handled.
    Spdp {
        p: u8,
        lease: i64,
        #[serde(default)]
        defer: bool,
    },
    /// a life sign of participant p.  wire: as a datagram of its SPDP writer through the real MessageReceiver and one turn
    /// of the event loop / Discovery (otherwise DiscoveryDB::participant_is_alive directly); explicit: the DATA names the
    /// SPDP reader (unicast style) or ENTITYID_UNKNOWN (multicast style); same: the writer repeats its last sequence number
    /// (a stateless SPDP writer announcing unchanged data) or uses the next one
    Alive {
        p: u8,
        #[serde(default)]
        wire: bool,
        #[serde(default)]
        explicit: bool,
        #[serde(default)]
        same: bool,
    },
    // ---- C06 on the event-loop plumbing (not part of Discovery.tla): the local writer serves a well-behaved reader while
    // ---- another peer sends ACKNACKs of the hostile catalogue
    Write,
    Turn,
    /// datagram(s) of a writer-side hostile class from a third participant
    HostileAck { cls: String },
    /// remote reader e acknowledges everything before `base`
    Ack { e: u8, base: i64 },
    /// the local writer must have registered that acknowledgment
    CheckAck { e: u8, expected: i64 },
    Cleanup {
        #[serde(default)]
        defer: bool,
    },
    DisposeP {
        p: u8,
        #[serde(default)]
        defer: bool,
    },
    /// c: the QoS announced this time is compatible with the local endpoint (None: the class of the endpoint table)
    Announce {
        e: u8,
        #[serde(default)]
        c: Option<bool>,
        #[serde(default)]
        defer: bool,
    },
    /// the application creates its DataWriter ("w") / DataReader ("r") now (runs with `late`)
    CreateLocal { side: String },
    DisposeE {
        e: u8,
        #[serde(default)]
        defer: bool,
    },
    /// the event loop catches up
    Flush,
}

#[derive(Clone, Debug, Serialize, Deserialize)]
pub struct DRunSpec {
    pub acts: Vec<DAct>,
    /// the local writer and reader do not exist until a CreateLocal action
    #[serde(default)]
    pub late: bool,
}

const NE: u8 = 8;
const OWNER: [u8; 9] = [0, 1, 1, 1, 2, 2, 2, 1, 1];
const IS_READER: [bool; 9] = [false, true, false, true, true, false, false, false, true];
const ON_TOPIC: [bool; 9] = [false, true, true, true, true, true, false, true, true];
const COMPAT: [bool; 9] = [false, true, true, false, true, true, true, true, true];

fn prefix(p: u8) -> [u8; 12] {
    [0x30 + p; 12]
}
fn eguid(e: u8) -> [u8; 16] {
    let mut g = [0u8; 16];
    g[0..12].copy_from_slice(&prefix(OWNER[e as usize]));
    g[14] = e;
    g[15] = if IS_READER[e as usize] { 0x07 } else { 0x02 };
    g
}
fn e_of(g: &[u8; 16]) -> i64 {
    g[14] as i64
}
fn p_of(p: &[u8; 12]) -> i64 {
    (p[0] as i64) - 0x30
}

fn local_qos() -> QosPolicies {
    QosPolicyBuilder::new().reliability(Reliability::Reliable { max_blocking_time: Duration::from_millis(100) }).durability(Durability::Volatile).build()
}
/// QoS of remote endpoint e: compatible = same as local; incompatible reader requests TransientLocal
/// durability from our Volatile writer; incompatible writer offers BestEffort to our Reliable reader
fn remote_qos(e: u8, c: bool) -> QosPolicies {
    if !c {
        // incompatible: a reader that requests TransientLocal from our Volatile writer, a writer that offers BestEffort to
        // our Reliable reader (for the endpoints whose announcements may change: the other values change as well)
        return if IS_READER[e as usize] {
            QosPolicyBuilder::new().reliability(Reliability::Reliable { max_blocking_time: Duration::from_millis(100) }).durability(Durability::TransientLocal).build()
        } else {
            QosPolicyBuilder::new().reliability(Reliability::BestEffort).durability(Durability::Volatile).build()
        };
    }
    if e == 7 {
        // offers more than the local reader asks for; max_blocking_time is not part of the request/offered rule
        QosPolicyBuilder::new()
            .reliability(Reliability::Reliable { max_blocking_time: Duration::from_millis(10) })
            .durability(Durability::TransientLocal)
            .deadline(Deadline(Duration::from_millis(500)))
            .build()
    } else if e == 8 {
        // asks for less than the local writer offers
        QosPolicyBuilder::new()
            .reliability(Reliability::Reliable { max_blocking_time: Duration::from_secs(1) })
            .durability(Durability::Volatile)
            .latency_budget(LatencyBudget { duration: Duration::from_secs(5) })
            .build()
    } else {
        local_qos()
    }
}

/// tables of the DiscoveryDB (Discovery side, at once)
fn observe_tables(rig: &mut DiscRig) -> Value {
    let v = rig.view();
    let mut ext: Vec<i64> = v.ext_readers.iter().chain(v.ext_writers.iter()).map(e_of).collect();
    ext.sort();
    let mut att: Vec<i64> = v.attic_readers.iter().chain(v.attic_writers.iter()).map(e_of).collect();
    att.sort();
    json!({
        "parts": v.participants.iter().map(p_of).filter(|p| *p >= 1 && *p <= 9).collect::<Vec<_>>(),
        "ext": ext, "att": att,
    })
}

/// matched sets and status events (event-loop side, when the notification has been handled)
fn observe_matching(rig: &mut DiscRig) -> Value {
    let v = rig.view();
    let ws: Vec<Value> = rig.drain_writer_status().into_iter().map(|(k, g, cur, chg, tot)| json!({"k":k,"e":e_of(&g),"cur":cur,"chg":chg,"tot":tot})).collect();
    let rs: Vec<Value> = rig.drain_reader_status().into_iter().map(|(k, g, cur, chg, tot)| json!({"k":k,"e":e_of(&g),"cur":cur,"chg":chg,"tot":tot})).collect();
    json!({
        "wm": v.writer_matched.iter().map(e_of).collect::<Vec<_>>(),
        "rm": v.reader_matched.iter().map(e_of).collect::<Vec<_>>(),
        "ws": ws, "rs": rs,
    })
}

#[allow(dead_code)]
fn observe(rig: &mut DiscRig) -> Value {
    let v = rig.view();
    let ws: Vec<Value> = rig.drain_writer_status().into_iter().map(|(k, g, cur, chg, tot)| json!({"k":k,"e":e_of(&g),"cur":cur,"chg":chg,"tot":tot})).collect();
    let rs: Vec<Value> = rig.drain_reader_status().into_iter().map(|(k, g, cur, chg, tot)| json!({"k":k,"e":e_of(&g),"cur":cur,"chg":chg,"tot":tot})).collect();
    let mut ext: Vec<i64> = v.ext_readers.iter().chain(v.ext_writers.iter()).map(e_of).collect();
    ext.sort();
    let mut att: Vec<i64> = v.attic_readers.iter().chain(v.attic_writers.iter()).map(e_of).collect();
    att.sort();
    json!({
        "wm": v.writer_matched.iter().map(e_of).collect::<Vec<_>>(),
        "rm": v.reader_matched.iter().map(e_of).collect::<Vec<_>>(),
        "ws": ws, "rs": rs,
        "parts": v.participants.iter().map(p_of).filter(|p| *p >= 1 && *p <= 9).collect::<Vec<_>>(),
        "ext": ext, "att": att,
    })
}

fn merge(mut ev: Value, obs: Value) -> Value {
    for (k, v) in obs.as_object().unwrap() {
        ev[k] = v.clone();
    }
    ev
}

/// the event loop handles everything that is waiting, oldest first; each handled notification completes its event line
fn flush(rig: &mut DiscRig, waiting: &mut std::collections::VecDeque<Value>, out: &mut Vec<Value>) {
    while let Some(ev) = waiting.pop_front() {
        rig.deliver_next();
        let m = observe_matching(rig);
        out.push(merge(ev, m));
    }
}

pub fn run_one(run_no: usize, spec: &DRunSpec, out: &mut Vec<Value>) -> Vec<Vec<u8>> {
    let q = local_qos();
    let mut rig = if spec.late { DiscRig::new_late(&q, &q) } else { DiscRig::new(&q, &q) };
    rig.defer = true; // the driver decides when the event loop runs
    let mut waiting: std::collections::VecDeque<Value> = Default::default();
    let mut spdp_sn: HashMap<u8, i64> = HashMap::new();
    let mut ack_count = 0i32;
    out.push(json!({"ev":"Reset","run":run_no,"late":spec.late}));
    // an event whose notification is deferred: line (with the tables as they are now) waits for the event loop
    macro_rules! notified {
        ($ev:expr, $defer:expr) => {{
            let t = observe_tables(&mut rig);
            waiting.push_back(merge($ev, t));
            if !$defer {
                flush(&mut rig, &mut waiting, out);
            }
        }};
    }
    for a in &spec.acts {
        match a {
            DAct::Tick { dt } => {
                rig.advance_clock_ms(*dt);
                // (no notification; the line may overtake waiting ones: the abstract clock only matters to Cleanup, whose
                // verdict is taken on the Discovery side at once)
                flush(&mut rig, &mut waiting, out);
                out.push(json!({"ev":"Tick","dt":dt}));
            }
            DAct::Spdp { p, lease, defer } => {
                let _ = rig.spdp(prefix(*p), if *lease < 0 { None } else { Some(*lease) });
                notified!(json!({"ev":"Spdp","p":p,"lease":lease}), *defer);
            }
            DAct::Alive { p, wire, explicit, same } => {
                flush(&mut rig, &mut waiting, out);
                if *wire {
                    let sn = spdp_sn.entry(*p).or_insert(0i64);
                    if !*same || *sn == 0 {
                        *sn += 1;
                    }
                    let reader = if *explicit { [0, 1, 0, 0xc7] } else { [0, 0, 0, 0] };
                    // PL_CDR_LE, nothing but the sentinel: the Reader does not look inside
                    let payload = vec![0, 3, 0, 0, 1, 0, 0, 0];
                    let dg = crate::wire::encode(&prefix(*p), &[crate::wire::Sub::Data { reader, writer: [0, 1, 0, 0xc2], sn: *sn, inline_qos: None, payload: Some(payload), key_flag: false }]);
                    rig.receive(&dg);
                    rig.turn();
                } else {
                    rig.alive(prefix(*p));
                }
                let t = observe_tables(&mut rig);
                let m = observe_matching(&mut rig);
                out.push(merge(merge(json!({"ev":"Alive","p":p}), t), m));
            }
            DAct::Cleanup { defer } => {
                let lost = rig.cleanup();
                notified!(json!({"ev":"Cleanup","lost": lost.iter().map(|x| p_of(&x.0)).collect::<Vec<_>>(), "detail": lost.iter().map(|x| json!([p_of(&x.0), x.1, x.2])).collect::<Vec<_>>()}), *defer);
            }
            DAct::DisposeP { p, defer } => {
                rig.dispose_participant(prefix(*p));
                notified!(json!({"ev":"DisposeP","p":p}), *defer);
            }
            DAct::Announce { e, c, defer } => {
                let topic = if ON_TOPIC[*e as usize] { "T" } else { "other" };
                let c = c.unwrap_or(COMPAT[*e as usize]);
                if IS_READER[*e as usize] {
                    rig.announce_reader(eguid(*e), topic, &remote_qos(*e, c));
                } else {
                    rig.announce_writer(eguid(*e), topic, &remote_qos(*e, c));
                }
                notified!(json!({"ev":"Announce","e":e,"c":c}), *defer);
            }
            DAct::CreateLocal { side } => {
                // the application's call reaches the event loop through its own channel, after what is already waiting
                flush(&mut rig, &mut waiting, out);
                if side == "w" {
                    rig.create_local_writer();
                } else {
                    rig.create_local_reader();
                }
                let t = observe_tables(&mut rig);
                let m = observe_matching(&mut rig);
                out.push(merge(merge(json!({"ev":"CreateLocal","side":side}), t), m));
            }
            DAct::DisposeE { e, defer } => {
                if IS_READER[*e as usize] {
                    rig.dispose_reader(eguid(*e));
                } else {
                    rig.dispose_writer(eguid(*e));
                }
                notified!(json!({"ev":"DisposeE","e":e}), *defer);
            }
            DAct::Flush => flush(&mut rig, &mut waiting, out),
            DAct::Write => {
                rig.write_sample();
                out.push(json!({"ev":"Write"}));
            }
            DAct::Turn => {
                let n = rig.turn();
                out.push(json!({"ev":"Turn","n":n}));
            }
            DAct::HostileAck { cls } => {
                let ctx = crate::hostile::Ctx { src_prefix: [0xAA; 12], writer_eid: rig.writer_eid, reader_eid: [0, 0, 9, 7], front: 3, count: 700 };
                let dgs = crate::hostile::writer_datagrams(cls, &ctx);
                for d in &dgs {
                    rig.receive(d);
                }
                out.push(json!({"ev":"HostileAck","cls":cls,"n":dgs.len()}));
            }
            DAct::Ack { e, base } => {
                let g = eguid(*e);
                let mut pfx = [0u8; 12];
                pfx.copy_from_slice(&g[0..12]);
                ack_count += 1;
                let dg = crate::wire::encode(&pfx, &[crate::wire::Sub::AckNack { reader: [g[12], g[13], g[14], g[15]], writer: rig.writer_eid, set: crate::wire::NumSet::empty(*base), count: ack_count, final_flag: true }]);
                rig.receive(&dg);
                out.push(json!({"ev":"Ack","e":e,"base":base}));
            }
            DAct::CheckAck { e, expected } => {
                let (present, acked) = rig.writer_proxy_of(eguid(*e));
                out.push(json!({"ev":"AckServed","e":e,"present":present,"acked":acked,"expected":expected}));
            }
        }
    }
    flush(&mut rig, &mut waiting, out);
    vec![]
}

/// leases never on a tick boundary: ticks are multiples of 100 ms, leases end in 50
const LEASES: [i64; 8] = [550, 1150, 1550, 2550, 3550, 10_550, 100_550, -1];

pub fn random_run(rng: &mut StdRng, n: usize) -> DRunSpec {
    let mut acts = vec![];
    // the generator mirrors the lease rule so that it only announces endpoints of participants that are present
    let mut known = [false; 3];
    let mut last = [0i64; 3];
    let mut lease = [60_000i64; 3];
    let mut now = 0i64;
    // one run in three creates its local endpoints late: have[0] writer, have[1] reader
    let late = rng.gen_range(0..3) == 0;
    let mut have = [!late, !late];
    let mut lastc = [true, true];
    // (the last QoS announced by 7 / 8 stays the one in force once the local endpoint exists)
    for _ in 0..n {
        let p = rng.gen_range(1..=2u8);
        if late && rng.gen_range(0..12) == 0 {
            let i = rng.gen_range(0..2);
            if !have[i] {
                have[i] = true;
                acts.push(DAct::CreateLocal { side: ["w", "r"][i].into() });
                continue;
            }
        }
        match rng.gen_range(0..100) {
            0..=19 => {
                let l = LEASES[rng.gen_range(0..LEASES.len())];
                acts.push(DAct::Spdp { p, lease: l, defer: rng.gen_bool(0.3) });
                known[p as usize] = true;
                last[p as usize] = now;
                lease[p as usize] = if l < 0 { 60_000 } else { l };
            }
            20..=29 => {
                acts.push(DAct::Alive { p, wire: rng.gen_bool(0.6), explicit: rng.gen_bool(0.5), same: rng.gen_bool(0.5) });
                if known[p as usize] {
                    last[p as usize] = now;
                }
            }
            30..=49 => {
                let dt = [300u64, 400, 700, 1000, 1000, 2000, 4000, 11_000, 61_000, 101_000][rng.gen_range(0..10)];
                acts.push(DAct::Tick { dt });
                now += dt as i64;
            }
            50..=64 => {
                acts.push(DAct::Cleanup { defer: rng.gen_bool(0.3) });
                for q in 1..=2 {
                    if known[q] && now - last[q] > lease[q] {
                        known[q] = false;
                    }
                }
            }
            65..=69 => {
                acts.push(DAct::DisposeP { p, defer: rng.gen_bool(0.4) });
                known[p as usize] = false;
            }
            70..=89 => {
                let e = rng.gen_range(1..=NE);
                let o = OWNER[e as usize] as usize;
                // usually the participant is present (SPDP first); one time in five its SPDP has not been heard yet
                if !known[o] && rng.gen_range(0..5) != 0 {
                    let l = LEASES[rng.gen_range(0..LEASES.len())];
                    acts.push(DAct::Spdp { p: o as u8, lease: l, defer: rng.gen_bool(0.3) });
                    known[o] = true;
                    last[o] = now;
                    lease[o] = if l < 0 { 60_000 } else { l };
                }
                // 7 and 8 may change their QoS from one announcement to the next while the local endpoint they concern does
                // not exist; afterwards they stay with what they announced last
                let c = if e == 7 || e == 8 {
                    let i = (e - 7) as usize;
                    if !have[1 - i] {
                        lastc[i] = rng.gen_bool(0.6);
                    }
                    Some(lastc[i])
                } else {
                    None
                };
                acts.push(DAct::Announce { e, c, defer: rng.gen_bool(0.3) });
            }
            _ => acts.push(DAct::DisposeE { e: rng.gen_range(1..=NE), defer: rng.gen_bool(0.3) }),
        }
    }
    DRunSpec { acts, late }
}

/// C06: every writer-side hostile class (and bursts of them) between the writes and acknowledgments of a well-behaved pair
pub fn hostile_runs(seed: u64, runs: usize) -> Vec<DRunSpec> {
    let mut rng = StdRng::seed_from_u64(seed ^ 0xC06E);
    let classes = crate::hostile::writer_classes();
    (0..runs)
        .map(|k| {
            let cls = classes[k % classes.len()].to_string();
            let mut acts = vec![DAct::Spdp { p: 1, lease: 100_550, defer: false }, DAct::Announce { e: 1, c: None, defer: false }, DAct::Write, DAct::Turn];
            if rng.gen_bool(0.5) {
                acts.push(DAct::Ack { e: 1, base: 1 });
                acts.push(DAct::Turn);
            }
            acts.push(DAct::HostileAck { cls: cls.clone() });
            if rng.gen_bool(0.3) {
                acts.push(DAct::HostileAck { cls });
            }
            for _ in 0..rng.gen_range(0..3) {
                acts.push(DAct::Turn);
            }
            acts.push(DAct::Write);
            acts.push(DAct::Turn);
            acts.push(DAct::Ack { e: 1, base: 3 });
            acts.extend([DAct::Turn, DAct::Turn, DAct::Turn]);
            acts.push(DAct::CheckAck { e: 1, expected: 3 });
            DRunSpec { acts, late: false }
        })
        .collect()
}

pub fn main(mode: &str, opt: &HashMap<String, String>) -> i32 {
    match mode {
        "hostile" => util::run_parallel(opt, hostile_runs(util::get(opt, "seed", 1u64), util::get(opt, "runs", 60)), run_one),
        "replay" => util::run_parallel(opt, util::read_jsonl::<DRunSpec>(&opt["in"]), run_one),
        "random" => {
            let mut rng = StdRng::seed_from_u64(util::get(opt, "seed", 1u64) ^ 0xC11);
            let n: usize = util::get(opt, "runs", 100);
            let ev: usize = util::get(opt, "events", 30);
            let specs: Vec<DRunSpec> = (0..n).map(|_| random_run(&mut rng, ev)).collect();
            util::run_parallel(opt, specs, run_one)
        }
        _ => 2,
    }
}
