//! `sched` driver (C13): two real threads of the crate's code under the cooperative scheduler of
//! `rustdds::verif::sched`.  A schedule dumped by TLC from Wakeup.tla (sequence of thread ids) is
//! followed step by step (one step = run the chosen thread to its next yield point); afterwards
//! the producer side is run to idle and the application side as long as it is runnable.  The
//! verdict looks only at observable facts at the end: is the application parked, was its waker
//! invoked / is its mio source readable, how many samples / completions did it get.

use std::collections::HashMap;
use std::future::Future;
use std::pin::Pin;
use std::sync::atomic::{AtomicBool, AtomicUsize, Ordering};
use std::sync::{mpsc, Arc, Mutex};
use std::task::{Context, Poll};

use futures::stream::Stream;
use futures::task::ArcWake;
use rustdds::policy::*;
use rustdds::verif::reader_rig::{ReaderCfg, ReaderRig};
use rustdds::verif::sched::{self, Sched, Step};
use rustdds::verif::writer_rig::WriterRig;
use rustdds::verif::VSample;
use rustdds::{Duration, QosPolicyBuilder, ReadCondition};
use serde::{Deserialize, Serialize};
use serde_json::{json, Value};

use crate::reader_drv::{writer_eid, writer_guid, writer_prefix};
use crate::util;
use crate::wire::{self, Sub};

#[derive(Clone, Debug, Serialize, Deserialize)]
pub struct SRunSpec {
    pub scenario: String,
    pub n: usize,
    /// "nkstream" / "nkbare": kind of the i-th item, "V" value | "D" dispose
    #[serde(default)]
    pub kinds: Vec<String>,
    /// reader scenarios: "D" DATA in order, "O" DATA out of order (one number is skipped and stays missing), "H" a
    /// HEARTBEAT whose first number lies beyond the missing one (releases what was held back); empty = n x "D"
    #[serde(default)]
    pub script: Vec<String>,
    /// "awaitq": reliable readers matched to the writer (0 | 1); n = writes queued before the wait is first polled
    #[serde(default)]
    pub readers: usize,
    pub sched: Vec<usize>,
}

struct Flag {
    woken: AtomicBool,
    count: AtomicUsize,
}
impl ArcWake for Flag {
    fn wake_by_ref(a: &Arc<Self>) {
        a.woken.store(true, Ordering::SeqCst);
        a.count.fetch_add(1, Ordering::SeqCst);
    }
}

/// A `Waker` for the same recording `Flag` whose `clone()` is a yield point ("wc") of the cooperative scheduler.  Polling
/// code registers interest by cloning the waker of its `Context`; stopping there lets the other thread act between
/// whatever the code looked at before and the moment the waker is in place, wherever that is in the code.
mod yielding_waker {
    use super::Flag;
    use futures::task::ArcWake;
    use std::sync::Arc;
    use std::task::{RawWaker, RawWakerVTable, Waker};

    unsafe fn clone(p: *const ()) -> RawWaker {
        rustdds::verif::sched::yp("wc");
        Arc::increment_strong_count(p as *const Flag);
        RawWaker::new(p, &VTABLE)
    }
    unsafe fn wake(p: *const ()) {
        let a = Arc::from_raw(p as *const Flag);
        ArcWake::wake_by_ref(&a);
    }
    unsafe fn wake_by_ref(p: *const ()) {
        let a = std::mem::ManuallyDrop::new(Arc::from_raw(p as *const Flag));
        ArcWake::wake_by_ref(&a);
    }
    unsafe fn drop(p: *const ()) {
        Arc::decrement_strong_count(p as *const Flag);
    }
    static VTABLE: RawWakerVTable = RawWakerVTable::new(clone, wake, wake_by_ref, drop);

    pub fn new(flag: Arc<Flag>) -> Waker {
        unsafe { Waker::from_raw(RawWaker::new(Arc::into_raw(flag) as *const (), &VTABLE)) }
    }
}

#[derive(Default)]
struct Shared {
    /// "awaitq": a reliable matched reader has not acknowledged everything that was written
    owed: AtomicBool,
    stop: AtomicBool,
    inserted: AtomicUsize,
    delivered: AtomicUsize,
    completed: AtomicUsize,
    /// the application is at its park point and the last readiness check said "nothing"
    idle_polls: AtomicUsize,
    log: Mutex<Vec<Value>>,
}

const CAP: usize = 16;

/// number of samples available to the consumer after the whole script
pub fn script_total(script: &[String]) -> usize {
    // (a "D" while a lower number is still missing is held back like an "O")
    let (mut avail, mut held, mut missing) = (0, 0, false);
    for k in script {
        match k.as_str() {
            "D" if !missing => avail += 1,
            "D" | "O" => {
                missing = true;
                held += 1;
            }
            _ => {
                avail += held;
                held = 0;
                missing = false;
            }
        }
    }
    avail
}

fn producer_reader(s: Arc<Sched>, sh: Arc<Shared>, script: Vec<String>, tx: mpsc::Sender<rustdds::with_key::DataReader<VSample>>) {
    let mut rig = ReaderRig::new(&[ReaderCfg { reliable: true, history_depth: None, max_samples: Some(100_000) }]);
    rig.match_writer(0, writer_guid(1), true, 24_001);
    let reader_eid = rig.slots[0].entity_id;
    tx.send(rig.slots[0].detach_datareader()).unwrap();
    sched::enter(0, s);
    let mut i = 0;
    // next sequence number to use; `missing`: a number that was skipped and has not been declared unavailable yet
    let (mut next_sn, mut missing, mut avail, mut held, mut hb_count) = (1i64, None::<i64>, 0usize, 0usize, 0i32);
    loop {
        sched::yp("r_inject");
        if sh.stop.load(Ordering::SeqCst) {
            break;
        }
        if i < script.len() {
            let kind = script[i].as_str();
            i += 1;
            let data = |sn: i64| wire::encode(&writer_prefix(1), &[Sub::Data { reader: reader_eid, writer: writer_eid(1), sn, inline_qos: None, payload: Some(wire::vsample_payload(1, sn as u32, &[1, 2, 3])), key_flag: false }]);
            match kind {
                "D" if missing.is_none() => {
                    avail += 1;
                    sh.inserted.store(avail, Ordering::SeqCst);
                    let _ = rig.inject(&data(next_sn));
                    next_sn += 1;
                }
                "D" | "O" => {
                    // something is (or now goes) missing below: this sample is cached and held back
                    if missing.is_none() {
                        missing = Some(next_sn);
                        next_sn += 1;
                    }
                    held += 1;
                    let _ = rig.inject(&data(next_sn));
                    next_sn += 1;
                }
                _ => {
                    // HEARTBEAT: everything below `first` that was not received does not exist any more
                    hb_count += 1;
                    let first = missing.map(|m| m + 1).unwrap_or(1);
                    avail += held;
                    held = 0;
                    missing = None;
                    sh.inserted.store(avail, Ordering::SeqCst);
                    let dg = wire::encode(&writer_prefix(1), &[Sub::Heartbeat { reader: reader_eid, writer: writer_eid(1), first, last: next_sn - 1, count: hb_count, final_flag: false, liveliness: false }]);
                    let _ = rig.inject(&dg);
                }
            }
        }
    }
    sched::leave();
}

/// receive thread feeding a reader on the un-keyed topic: values and disposes (DATA with the key flag and an empty
/// key, as other implementations send on un-keyed topics when a writer is deleted)
fn producer_reader_nk(s: Arc<Sched>, sh: Arc<Shared>, kinds: Vec<String>, tx: mpsc::Sender<rustdds::no_key::DataReader<VSample>>) {
    let mut rig = ReaderRig::new(&[ReaderCfg { reliable: true, history_depth: None, max_samples: Some(100_000) }]);
    let (dr, reader_eid) = rig.add_no_key_reader(true);
    rig.match_writer_to(reader_eid, writer_guid(1), true, 24_002);
    tx.send(dr).unwrap();
    sched::enter(0, s);
    let mut i = 0;
    loop {
        sched::yp("r_inject");
        if sh.stop.load(Ordering::SeqCst) {
            break;
        }
        if i < kinds.len() {
            i += 1;
            sh.inserted.store(i, Ordering::SeqCst);
            let sn = i as i64;
            let sub = if kinds[i - 1] == "V" {
                Sub::Data { reader: reader_eid, writer: writer_eid(1), sn, inline_qos: None, payload: Some(wire::vsample_payload(1, sn as u32, &[1, 2, 3])), key_flag: false }
            } else {
                Sub::Data { reader: reader_eid, writer: writer_eid(1), sn, inline_qos: None, payload: Some(vec![0, 1, 0, 0]), key_flag: true }
            };
            let _ = rig.inject(&wire::encode(&writer_prefix(1), &[sub]));
        }
    }
    sched::leave();
}

fn app_nkstream(s: Arc<Sched>, sh: Arc<Shared>, flag: Arc<Flag>, rx: mpsc::Receiver<rustdds::no_key::DataReader<VSample>>, bare: bool) {
    let dr = rx.recv().unwrap();
    let (mut bare_stream, mut full_stream) = if bare { (Some(dr.async_bare_sample_stream()), None) } else { (None, Some(dr.async_sample_stream())) };
    let waker = futures::task::waker(flag.clone());
    let mut cx = Context::from_waker(&waker);
    sched::enter(1, s);
    'outer: loop {
        sched::yp("a_poll");
        if sh.stop.load(Ordering::SeqCst) {
            break;
        }
        let r = match (&mut bare_stream, &mut full_stream) {
            (Some(st), _) => Pin::new(st).poll_next(&mut cx).map(|o| o.map(|r| r.is_ok())),
            (_, Some(st)) => Pin::new(st).poll_next(&mut cx).map(|o| o.map(|r| r.is_ok())),
            _ => Poll::Ready(None),
        };
        match r {
            Poll::Ready(Some(true)) => {
                sh.delivered.fetch_add(1, Ordering::SeqCst);
            }
            Poll::Ready(_) => {}
            Poll::Pending => {
                if !park(&sh, &flag, "a_parked") {
                    break 'outer;
                }
            }
        }
    }
    sched::leave();
}

fn producer_writer(s: Arc<Sched>, sh: Arc<Shared>, tx: mpsc::Sender<rustdds::with_key::DataWriter<VSample>>) {
    let qos = QosPolicyBuilder::new().reliability(Reliability::Reliable { max_blocking_time: Duration::from_secs(3600) }).history(History::KeepAll).build();
    let (mut rig, dw) = WriterRig::new_with_datawriter(&qos, crate::writer_drv::WRITER_GUID);
    tx.send(dw).unwrap();
    // the event loop runs process_writer_command only after an (edge-triggered) readiness event of the command channel
    let _ = rig.command_ready();
    sched::enter(0, s);
    loop {
        sched::yp("w_pop");
        if sh.stop.load(Ordering::SeqCst) {
            break;
        }
        if rig.command_ready() {
            let _ = rig.process_commands();
        }
    }
    sched::leave();
}

/// "awaitq": the Writer behind a command queue that the application has already filled with `n` writes; `readers`
/// reliable readers are matched and acknowledge everything once the Writer has worked off all the writes and the event
/// loop is idle.
fn producer_writer_q(s: Arc<Sched>, sh: Arc<Shared>, n: usize, readers: usize, tx: mpsc::Sender<rustdds::with_key::DataWriter<VSample>>) {
    use crate::writer_drv::{reader_guid, PORT0, WRITER_GUID};
    let qos = QosPolicyBuilder::new().reliability(Reliability::Reliable { max_blocking_time: Duration::from_secs(3600) }).history(History::KeepAll).build();
    let (mut rig, dw) = WriterRig::new_with_datawriter(&qos, WRITER_GUID);
    if readers > 0 {
        rig.match_reader(reader_guid(1), true, PORT0 + 1);
    }
    // register with the (edge-triggered) poll before anything is sent
    let _ = rig.command_ready();
    tx.send(dw).unwrap();
    sched::enter(0, s);
    let mut ack_count = 0;
    loop {
        sched::yp("w_pop");
        if sh.stop.load(Ordering::SeqCst) {
            break;
        }
        if rig.command_ready() {
            let _ = rig.process_commands();
        } else if sh.owed.load(Ordering::SeqCst) && rig.history_sns().len() >= n {
            // ACKNACK base = last + 1 from the matched reader, through the real receive path
            let g = reader_guid(1);
            let mut prefix = [0u8; 12];
            prefix.copy_from_slice(&g[0..12]);
            ack_count += 1;
            let dg = wire::encode(&prefix, &[Sub::AckNack { reader: [g[12], g[13], g[14], g[15]], writer: [WRITER_GUID[12], WRITER_GUID[13], WRITER_GUID[14], WRITER_GUID[15]], set: wire::NumSet::empty(n as i64 + 1), count: ack_count, final_flag: true }]);
            sh.owed.store(false, Ordering::SeqCst);
            let _ = rig.receive(&dg);
        }
    }
    sched::leave();
}

fn app_awaitq(s: Arc<Sched>, sh: Arc<Shared>, flag: Arc<Flag>, rx: mpsc::Receiver<rustdds::with_key::DataWriter<VSample>>, n: usize) {
    let dw = rx.recv().unwrap();
    // the burst of writes the event loop has not picked up yet
    for i in 0..n.min(CAP) {
        let _ = dw.write(VSample { key: 1, id: i as u32, body: vec![7] }, None);
    }
    let waker = yielding_waker::new(flag.clone());
    let mut cx = Context::from_waker(&waker);
    sched::enter(1, s);
    {
        let mut fut: Pin<Box<dyn Future<Output = _> + '_>> = Box::pin(dw.async_wait_for_acknowledgments());
        let mut label = "e_poll";
        'outer: loop {
            sched::yp(label);
            if sh.stop.load(Ordering::SeqCst) {
                break;
            }
            match fut.as_mut().poll(&mut cx) {
                Poll::Ready(r) => {
                    // only "yes, acknowledged" counts as the completion the property talks about
                    if matches!(r, Ok(true)) {
                        sh.completed.fetch_add(1, Ordering::SeqCst);
                    }
                    break;
                }
                Poll::Pending => {
                    if !park(&sh, &flag, "e_parked") {
                        break 'outer;
                    }
                    label = "e_repoll";
                }
            }
        }
    }
    while !sh.stop.load(Ordering::SeqCst) {
        sched::yp("e_done");
    }
    sched::leave();
}

fn park(sh: &Shared, flag: &Flag, label: &'static str) -> bool {
    // returns false when told to stop
    loop {
        sched::yp(label);
        if sh.stop.load(Ordering::SeqCst) {
            return false;
        }
        if flag.woken.swap(false, Ordering::SeqCst) {
            return true;
        }
        // scheduled although not woken: stay parked
    }
}

fn app_stream(s: Arc<Sched>, sh: Arc<Shared>, flag: Arc<Flag>, rx: mpsc::Receiver<rustdds::with_key::DataReader<VSample>>) {
    let dr = rx.recv().unwrap();
    let mut stream = dr.async_bare_sample_stream();
    let waker = futures::task::waker(flag.clone());
    let mut cx = Context::from_waker(&waker);
    sched::enter(1, s);
    'outer: loop {
        sched::yp("a_poll");
        if sh.stop.load(Ordering::SeqCst) {
            break;
        }
        match Pin::new(&mut stream).poll_next(&mut cx) {
            Poll::Ready(Some(Ok(_))) => {
                sh.delivered.fetch_add(1, Ordering::SeqCst);
            }
            Poll::Ready(_) => {}
            Poll::Pending => {
                if !park(&sh, &flag, "a_parked") {
                    break 'outer;
                }
            }
        }
    }
    sched::leave();
}

fn app_mio(s: Arc<Sched>, sh: Arc<Shared>, rx: mpsc::Receiver<rustdds::with_key::DataReader<VSample>>, v8: bool) {
    let mut dr = rx.recv().unwrap();
    let poll6 = mio_06::Poll::new().unwrap();
    let mut poll8 = mio_08::Poll::new().unwrap();
    if v8 {
        poll8.registry().register(&mut dr, mio_08::Token(0), mio_08::Interest::READABLE).unwrap();
    } else {
        poll6.register(&dr, mio_06::Token(0), mio_06::Ready::readable(), mio_06::PollOpt::edge()).unwrap();
    }
    // the synchronous take() has a second yield point, in front of its drain of the notifications
    sched::enable("d0");
    sched::enter(1, s);
    'outer: loop {
        sched::yp("c_wait");
        if sh.stop.load(Ordering::SeqCst) {
            break;
        }
        let ready = if v8 {
            let mut ev = mio_08::Events::with_capacity(4);
            poll8.poll(&mut ev, Some(std::time::Duration::from_millis(0))).unwrap();
            !ev.is_empty()
        } else {
            let mut ev = mio_06::Events::with_capacity(4);
            poll6.poll(&mut ev, Some(std::time::Duration::from_millis(0))).unwrap();
            !ev.is_empty()
        };
        if !ready {
            sh.idle_polls.fetch_add(1, Ordering::SeqCst);
            continue;
        }
        sh.idle_polls.store(0, Ordering::SeqCst);
        // documented pattern: take until empty
        // (take() itself stops at its two yield points: "d0" in front of the drain of the notifications, "t1" in front
        // of the fill from the topic cache)
        loop {
            if sh.stop.load(Ordering::SeqCst) {
                break 'outer;
            }
            let got = dr.take(100, ReadCondition::any()).map(|v| v.len()).unwrap_or(0);
            sh.delivered.fetch_add(got, Ordering::SeqCst);
            if got == 0 {
                break;
            }
        }
    }
    sched::leave();
}

fn app_awrite(s: Arc<Sched>, sh: Arc<Shared>, flag: Arc<Flag>, rx: mpsc::Receiver<rustdds::with_key::DataWriter<VSample>>, n: usize) {
    let dw = rx.recv().unwrap();
    let waker = futures::task::waker(flag.clone());
    let mut cx = Context::from_waker(&waker);
    sched::enter(1, s);
    'outer: for i in 0..(CAP + n) {
        let mut fut: Pin<Box<dyn Future<Output = _> + '_>> = Box::pin(dw.async_write(VSample { key: 1, id: i as u32, body: vec![1] }, None));
        loop {
            sched::yp("aw_poll");
            if sh.stop.load(Ordering::SeqCst) {
                break 'outer;
            }
            match fut.as_mut().poll(&mut cx) {
                Poll::Ready(_) => {
                    sh.completed.fetch_add(1, Ordering::SeqCst);
                    break;
                }
                Poll::Pending => {
                    if !park(&sh, &flag, "aw_parked") {
                        break 'outer;
                    }
                }
            }
        }
    }
    // all writes done (or stopped): idle until told to stop
    while !sh.stop.load(Ordering::SeqCst) {
        sched::yp("aw_done");
    }
    sched::leave();
}

fn app_await(s: Arc<Sched>, sh: Arc<Shared>, flag: Arc<Flag>, rx: mpsc::Receiver<rustdds::with_key::DataWriter<VSample>>) {
    let dw = rx.recv().unwrap();
    let waker = futures::task::waker(flag.clone());
    let mut cx = Context::from_waker(&waker);
    sched::enter(1, s);
    {
        let mut fut: Pin<Box<dyn Future<Output = _> + '_>> = Box::pin(dw.async_wait_for_acknowledgments());
        let mut label = "e_poll";
        'outer: loop {
            sched::yp(label);
            if sh.stop.load(Ordering::SeqCst) {
                break;
            }
            match fut.as_mut().poll(&mut cx) {
                Poll::Ready(_) => {
                    sh.completed.fetch_add(1, Ordering::SeqCst);
                    break;
                }
                Poll::Pending => {
                    if !park(&sh, &flag, "e_parked") {
                        break 'outer;
                    }
                    label = "e_repoll";
                }
            }
        }
    }
    while !sh.stop.load(Ordering::SeqCst) {
        sched::yp("e_done");
    }
    sched::leave();
}

/// C20 at the public synchronous API: DataWriter::wait_for_acknowledgments on one thread, the
/// Writer (event loop side) on this thread.  variant (= spec.n):
///   0 command queue full at the call (16 unprocessed writes), reliable reader has acknowledged nothing
///   1 wait registered, reader never acknowledges                      -> must time out with false
///   2 wait registered, reader acknowledges everything before timeout  -> must return true
///   3 a second wait replaces the first one; nothing acknowledged      -> the first must not report success
///   4 no reader matched                                               -> must return true promptly
fn run_syncwait(run_no: usize, spec: &SRunSpec, out: &mut Vec<Value>) {
    use crate::writer_drv::{reader_guid, PORT0, WRITER_GUID};
    let variant = spec.n;
    let qos = QosPolicyBuilder::new().reliability(Reliability::Reliable { max_blocking_time: Duration::from_secs(3600) }).history(History::KeepAll).build();
    let (mut rig, dw) = WriterRig::new_with_datawriter(&qos, WRITER_GUID);
    out.push(json!({"ev":"Reset","run":run_no,"scenario":"syncwait","n":variant}));
    if variant != 4 {
        rig.match_reader(reader_guid(1), true, PORT0 + 1);
    }
    let dw = Arc::new(dw);
    let writes = if variant == 0 { 16 } else { 3 };
    for i in 0..writes {
        let _ = dw.write(VSample { key: 1, id: i as u32, body: vec![7] }, None);
        if variant != 0 {
            let _ = rig.process_commands();
        }
    }
    let wait = |dw: Arc<rustdds::with_key::DataWriter<VSample>>, ms: i64| std::thread::spawn(move || dw.wait_for_acknowledgments(std::time::Duration::from_millis(ms as u64)).unwrap_or(false));
    let h1 = wait(dw.clone(), 400);
    std::thread::sleep(std::time::Duration::from_millis(60));
    let _ = rig.process_commands();
    let mut all_acked = variant == 4;
    let mut h2 = None;
    match variant {
        2 => {
            // ACKNACK base = last + 1 from the matched reader, through the real receive path
            let g = reader_guid(1);
            let mut prefix = [0u8; 12];
            prefix.copy_from_slice(&g[0..12]);
            let dg = wire::encode(&prefix, &[Sub::AckNack { reader: [g[12], g[13], g[14], g[15]], writer: [WRITER_GUID[12], WRITER_GUID[13], WRITER_GUID[14], WRITER_GUID[15]], set: wire::NumSet::empty(writes as i64 + 1), count: 1, final_flag: true }]);
            let _ = rig.receive(&dg);
            all_acked = true;
        }
        3 => {
            h2 = Some(wait(dw.clone(), 200));
            std::thread::sleep(std::time::Duration::from_millis(60));
            let _ = rig.process_commands();
        }
        _ => {}
    }
    let r1 = h1.join().unwrap_or(false);
    out.push(json!({"ev":"SyncWait","variant":variant,"result":r1,"all_acked":all_acked,"which":1}));
    if let Some(h) = h2 {
        let r2 = h.join().unwrap_or(false);
        out.push(json!({"ev":"SyncWait","variant":variant,"result":r2,"all_acked":false,"which":2}));
    }
}

pub fn run_one(run_no: usize, spec: &SRunSpec, out: &mut Vec<Value>) -> Vec<Vec<u8>> {
    if spec.scenario == "syncwait" {
        run_syncwait(run_no, spec, out);
        return vec![];
    }
    let s = Sched::new();
    let sh = Arc::new(Shared::default());
    let flag = Arc::new(Flag { woken: AtomicBool::new(false), count: AtomicUsize::new(0) });
    let reader = matches!(spec.scenario.as_str(), "stream" | "mio6" | "mio8" | "nkstream" | "nkbare");
    let nk = matches!(spec.scenario.as_str(), "nkstream" | "nkbare");
    let script: Vec<String> = if spec.script.is_empty() { vec!["D".to_string(); spec.n] } else { spec.script.clone() };
    let n = if nk { spec.kinds.len() } else if reader { script_total(&script) } else { spec.n };
    let vals = spec.kinds.iter().filter(|k| k.as_str() == "V").count();
    let (h0, h1) = if nk {
        let (tx, rx) = mpsc::channel();
        let (s0, sh0, kinds) = (s.clone(), sh.clone(), spec.kinds.clone());
        let h0 = std::thread::spawn(move || producer_reader_nk(s0, sh0, kinds, tx));
        let (s1, sh1, f1, bare) = (s.clone(), sh.clone(), flag.clone(), spec.scenario == "nkbare");
        let h1 = std::thread::spawn(move || app_nkstream(s1, sh1, f1, rx, bare));
        (h0, h1)
    } else if reader {
        let (tx, rx) = mpsc::channel();
        let (s0, sh0) = (s.clone(), sh.clone());
        let h0 = std::thread::spawn(move || producer_reader(s0, sh0, script, tx));
        let (s1, sh1, f1, sc) = (s.clone(), sh.clone(), flag.clone(), spec.scenario.clone());
        let h1 = std::thread::spawn(move || match sc.as_str() {
            "stream" => app_stream(s1, sh1, f1, rx),
            "mio6" => app_mio(s1, sh1, rx, false),
            _ => app_mio(s1, sh1, rx, true),
        });
        (h0, h1)
    } else {
        let (tx, rx) = mpsc::channel();
        let (s0, sh0) = (s.clone(), sh.clone());
        let (s1, sh1, f1, sc) = (s.clone(), sh.clone(), flag.clone(), spec.scenario.clone());
        let h0 = if spec.scenario == "awaitq" {
            sh.owed.store(spec.readers > 0 && n > 0, Ordering::SeqCst);
            let readers = spec.readers;
            std::thread::spawn(move || producer_writer_q(s0, sh0, n, readers, tx))
        } else {
            std::thread::spawn(move || producer_writer(s0, sh0, tx))
        };
        let h1 = std::thread::spawn(move || match sc.as_str() {
            "awrite" => app_awrite(s1, sh1, f1, rx, n),
            "awaitq" => app_awaitq(s1, sh1, f1, rx, n),
            _ => app_await(s1, sh1, f1, rx),
        });
        (h0, h1)
    };
    // wait until both threads sit at "start"
    let t0 = std::time::Instant::now();
    while (s.where_is(0) != Some("start") || s.where_is(1) != Some("start")) && t0.elapsed().as_secs() < 10 {
        std::thread::sleep(std::time::Duration::from_micros(200));
    }
    out.push(json!({"ev":"Reset","run":run_no,"scenario":spec.scenario,"n":n}));
    let mut hung = false;
    let parked_label = |l: Option<&'static str>| matches!(l, Some("a_parked") | Some("aw_parked") | Some("e_parked"));
    let mut do_step = |id: usize, out: &mut Vec<Value>, hung: &mut bool| -> Option<&'static str> {
        // a parked application thread is runnable only if its waker was invoked
        if id == 1 && parked_label(s.where_is(1)) && !flag.woken.load(Ordering::SeqCst) {
            out.push(json!({"ev":"Skip","t":id,"why":"parked, not woken"}));
            return s.where_is(1);
        }
        match s.step(id) {
            Step::At(l) => {
                out.push(json!({"ev":"Step","t":id,"at":l,"ins":sh.inserted.load(Ordering::SeqCst),"del":sh.delivered.load(Ordering::SeqCst),"done":sh.completed.load(Ordering::SeqCst),"wakes":flag.count.load(Ordering::SeqCst),"owed":sh.owed.load(Ordering::SeqCst)}));
                Some(l)
            }
            Step::Done => None,
            Step::Hung => {
                *hung = true;
                out.push(json!({"ev":"Hung","t":id}));
                None
            }
        }
    };
    // bring both threads from "start" to their first yield point: that is where the model's program counters begin
    do_step(0, out, &mut hung);
    do_step(1, out, &mut hung);
    for &t in &spec.sched {
        if hung {
            break;
        }
        do_step(t, out, &mut hung);
    }
    // quiescence: producer to idle, application as long as it is runnable
    let target_done = match spec.scenario.as_str() {
        "awrite" => CAP + n,
        "await" | "awaitq" => 1,
        _ => 0,
    };
    let mut rounds = 0;
    while !hung && rounds < 600 {
        rounds += 1;
        let mut progress = false;
        // producer
        let before = (sh.inserted.load(Ordering::SeqCst), s.where_is(0));
        let owed_before = sh.owed.load(Ordering::SeqCst);
        let l0 = do_step(0, out, &mut hung);
        let producer_idle = if reader { l0 == Some("r_inject") && sh.inserted.load(Ordering::SeqCst) >= n && before.1 == Some("r_inject") && before.0 >= n } else { l0 == Some("w_pop") && before.1 == Some("w_pop") && !(owed_before || sh.owed.load(Ordering::SeqCst)) };
        if !producer_idle {
            progress = true;
            // the consumer gets fresh readiness checks after the producer's last action
            sh.idle_polls.store(0, Ordering::SeqCst);
        }
        // application
        let l1 = s.where_is(1);
        let runnable = match l1 {
            Some("a_parked") | Some("aw_parked") | Some("e_parked") => flag.woken.load(Ordering::SeqCst),
            Some("aw_done") | Some("e_done") => false,
            Some("c_wait") => sh.idle_polls.load(Ordering::SeqCst) < 2 || !producer_idle,
            _ => true,
        };
        if runnable {
            do_step(1, out, &mut hung);
            progress = true;
        }
        if !progress {
            break;
        }
    }
    let l1 = s.where_is(1);
    out.push(json!({"ev":"End","scenario":spec.scenario,"hung":hung,"app_at":l1.unwrap_or("running"),"woken":flag.woken.load(Ordering::SeqCst),
        "ins":sh.inserted.load(Ordering::SeqCst),"del":sh.delivered.load(Ordering::SeqCst),"done":sh.completed.load(Ordering::SeqCst),"target":target_done,"n":n,"vals":vals,"wakes":flag.count.load(Ordering::SeqCst),"owed":sh.owed.load(Ordering::SeqCst)}));
    // teardown
    sh.stop.store(true, Ordering::SeqCst);
    if !hung {
        for _ in 0..50 {
            let a = s.step(0);
            flag.woken.store(true, Ordering::SeqCst);
            let b = s.step(1);
            if a == Step::Done && b == Step::Done {
                break;
            }
        }
        let _ = h0.join();
        let _ = h1.join();
    }
    vec![]
}

pub fn main(mode: &str, opt: &HashMap<String, String>) -> i32 {
    match mode {
        "replay" => util::run_parallel(opt, util::read_jsonl::<SRunSpec>(&opt["in"]), run_one),
        "random" => {
            use rand::{rngs::StdRng, Rng, SeedableRng};
            let mut rng = StdRng::seed_from_u64(util::get(opt, "seed", 1u64) ^ 0xC13);
            let n: usize = util::get(opt, "runs", 100);
            let len: usize = util::get(opt, "events", 60);
            let scen = ["stream", "mio6", "mio8", "awrite", "await", "nkstream", "nkbare", "awaitq"];
            let specs: Vec<SRunSpec> = (0..n)
                .map(|k| {
                    let sc = scen[k % scen.len()];
                    let nn = if sc == "await" { 1 } else { rng.gen_range(1..=4) };
                    // writes queued before the wait: none, a few, one slot left, queue full
                    let (nn, readers) = if sc == "awaitq" { ([0, 1, 3, CAP - 1, CAP, CAP][rng.gen_range(0..6)], rng.gen_range(0..2usize)) } else { (nn, 0) };
                    let l = if sc == "awrite" { len + 40 } else { len };
                    // long random schedules, biased in bursts so that both sides get stretches of steps
                    let mut sched = vec![];
                    while sched.len() < l {
                        let t = rng.gen_range(0..2);
                        // "awaitq": now and then the writer thread works off the whole queue in one stretch
                        let burst = if sc == "awaitq" && t == 0 && rng.gen_bool(0.3) { rng.gen_range(4..=2 * CAP + 4) } else { rng.gen_range(1..4) };
                        for _ in 0..burst {
                            sched.push(t);
                        }
                    }
                    let kinds: Vec<String> = if sc.starts_with("nk") { (0..rng.gen_range(2..=5)).map(|_| if rng.gen_bool(0.5) { "V".to_string() } else { "D".to_string() }).collect() } else { vec![] };
                    let nn = if kinds.is_empty() { nn } else { kinds.len() };
                    let script: Vec<String> = if matches!(sc, "stream" | "mio6" | "mio8") && rng.gen_bool(0.5) { (0..rng.gen_range(2..=5)).map(|_| ["D", "O", "H"][rng.gen_range(0..3)].to_string()).collect() } else { vec![] };
                    SRunSpec { scenario: sc.into(), n: nn, kinds, script, readers, sched }
                })
                .collect();
            util::run_parallel(opt, specs, run_one)
        }
        "syncwait" => {
            let specs: Vec<SRunSpec> = (0..util::get(opt, "runs", 10usize)).map(|k| SRunSpec { scenario: "syncwait".into(), n: k % 5, kinds: vec![], script: vec![], readers: 0, sched: vec![] }).collect();
            util::run_parallel(opt, specs, run_one)
        }
        _ => 2,
    }
}
