//! Catalogue of hostile datagrams (C06): well-framed RTPS messages whose fields take boundary /
//! extreme / inconsistent values relative to the victim's protocol state, and mangled framings.
//! Every class is built by the independent codec or by byte surgery on a valid datagram.

use crate::wire::{self, NumSet, Param, Sub};

pub const BIG31: i64 = 1 << 31;
pub const BIG62: i64 = 1 << 62;

/// all reader-side classes (datagrams sent to a Reader by a writer-like peer)
pub fn reader_classes() -> Vec<&'static str> {
    vec![
        "hb_last_2e31", "hb_last_2e62", "hb_first_last_2e62", "hb_zero", "hb_negative", "hb_min_max", "hb_first_gt_last",
        "hb_last_far", "hb_count_min", "hb_count_max",
        "gap_range_2e31", "gap_range_2e62", "gap_start_zero", "gap_start_negative", "gap_base_max", "gap_bits_256_far",
        "gap_base_below_start", "gap_numbits_300",
        "data_sn_zero", "data_sn_negative", "data_sn_2e62", "data_sn_max", "data_flags_dk", "data_no_flags_payload",
        "data_flag_no_payload", "data_otiq_huge", "data_otiq_small", "data_inlineqos_len_huge", "data_inlineqos_no_sentinel",
        "data_payload_1byte", "data_unknown_encaps", "data_keyhash_short", "data_garbage_cdr", "data_cdr_len_huge",
        "frag_start_zero", "frag_start_gt_total", "frag_start_huge", "frag_count_zero", "frag_count_65535", "frag_size_zero",
        "frag_size_inconsistent", "frag_sample_size_zero", "frag_sample_lt_fragsize", "frag_sample_size_64m", "frag_sample_size_4g",
        "frag_payload_short", "frag_payload_long", "frag_many_open",
        "mangle_truncate_all", "mangle_otnh_zero", "mangle_otnh_small", "mangle_otnh_large", "mangle_magic", "mangle_version",
        "mangle_kind_unknown", "mangle_empty_body", "mangle_header_only", "mangle_short",
        // sequences: a first datagram prepares the state in which the second one is expensive
        "seq_data_far_hb_wide", "seq_data_far_hb_window", "seq_frag_far_hb_wide", "seq_gap_far_hb_wide", "seq_hb_wide_data_far_hb_wide",
        "seq_data_far_gap_wide", "seq_two_far_data_hb_between",
        // the datagram as such (meaningful on the socket path; harmless when injected directly)
        "sock_empty", "sock_one_byte", "sock_max_size", "sock_burst_64", "sock_empty_between_valid",
        // submessages the MessageReceiver interprets itself, whoever sent them: element counts and short bodies
        "interp_info_reply_count_max", "interp_info_reply_count_huge", "interp_info_reply_mcast_count_huge", "interp_info_reply_ip4",
        "interp_short_bodies", "interp_info_src_dst_ts_then_data", "interp_info_reply_redirect",
    ]
}

/// writer-side classes (datagrams sent to a Writer by a reader-like peer)
pub fn writer_classes() -> Vec<&'static str> {
    vec![
        "ack_base_zero_bits", "ack_base_negative", "ack_base_2e62", "ack_base_max", "ack_bits_256_far", "ack_numbits_300",
        "ack_count_min", "ack_request_unwritten", "nackfrag_huge", "nackfrag_zero", "ack_truncated", "ack_unknown_writer",
        "seq_ack_far_then_low", "seq_ack_low_bits_then_far",
        // several ACKNACKs in one datagram (they queue up behind each other on their way to the writers)
        "ack_unknown_writer_burst", "ack_unknown_known_mixed",
    ]
}

pub struct Ctx {
    pub src_prefix: [u8; 12],
    pub writer_eid: [u8; 4],
    pub reader_eid: [u8; 4],
    /// highest sequence number this peer has used so far
    pub front: i64,
    pub count: i32,
}

fn data(ctx: &Ctx, sn: i64, payload: Option<Vec<u8>>, inline_qos: Option<Vec<Param>>, key_flag: bool) -> Sub {
    Sub::Data { reader: ctx.reader_eid, writer: ctx.writer_eid, sn, inline_qos, payload, key_flag }
}

fn frag(ctx: &Ctx, sn: i64, frag_start: u32, frags_in_sub: u16, frag_size: u16, sample_size: u32, payload: Vec<u8>) -> Sub {
    Sub::DataFrag { reader: ctx.reader_eid, writer: ctx.writer_eid, sn, frag_start, frags_in_sub, frag_size, sample_size, inline_qos: None, payload, key_flag: false }
}

fn good_payload(sn: i64) -> Vec<u8> {
    wire::vsample_payload((sn % 3) as u32, 77_000 + sn as u32, &[1, 2, 3, 4, 5])
}

/// patch octetsToNextHeader of the first submessage
fn set_otnh(mut dg: Vec<u8>, v: u16) -> Vec<u8> {
    if dg.len() >= 24 {
        let b = v.to_le_bytes();
        dg[22] = b[0];
        dg[23] = b[1];
    }
    dg
}

/// Returns the datagrams of a class (most classes: one).
/// "geom:" classes come from spec/FragAssembly.tla: sequences (';') of DATAFRAG headers (',') written
/// dataSize.fragmentSize.startingNum.fragmentsInSubmessage.payloadLength.sn; every sequence uses sequence numbers of its own
fn geom_datagrams(code: &str, ctx: &Ctx) -> Vec<Vec<u8>> {
    let mut out = vec![];
    for (k, seq) in code.split(';').enumerate() {
        for h in seq.split(',') {
            let v: Vec<i64> = h.split('.').filter_map(|x| x.parse().ok()).collect();
            if v.len() != 6 {
                continue;
            }
            let sn = ctx.front + 10 + 4 * k as i64 + v[5];
            out.push(wire::encode(&ctx.src_prefix, &[frag(ctx, sn, v[2] as u32, v[3] as u16, v[1] as u16, v[0] as u32, vec![7; v[4] as usize])]));
        }
    }
    out
}

pub fn reader_datagrams(cls: &str, ctx: &Ctx) -> Vec<Vec<u8>> {
    if let Some(code) = cls.strip_prefix("geom:") {
        return geom_datagrams(code, ctx);
    }
    let p = &ctx.src_prefix;
    let hb = |first: i64, last: i64, count: i32| wire::encode(p, &[Sub::Heartbeat { reader: ctx.reader_eid, writer: ctx.writer_eid, first, last, count, final_flag: false, liveliness: false }]);
    let gap = |start: i64, list: NumSet| wire::encode(p, &[Sub::Gap { reader: ctx.reader_eid, writer: ctx.writer_eid, start, list }]);
    let n = ctx.front + 1;
    let c = ctx.count;
    match cls {
        "hb_last_2e31" => vec![hb(1, BIG31, c)],
        "hb_last_2e62" => vec![hb(1, BIG62, c)],
        "hb_first_last_2e62" => vec![hb(BIG62, BIG62 + 5, c)],
        "hb_zero" => vec![hb(0, 0, c)],
        "hb_negative" => vec![hb(-1, -5, c)],
        "hb_min_max" => vec![hb(i64::MIN, i64::MAX, c)],
        "hb_first_gt_last" => vec![hb(n + 5, n, c)],
        "hb_last_far" => vec![hb(1, n + 1_000_000, c)],
        "hb_count_min" => vec![hb(1, n, i32::MIN)],
        "hb_count_max" => vec![hb(1, n, i32::MAX), hb(1, n + 1, i32::MAX)],
        "gap_range_2e31" => vec![gap(n + 1, NumSet::empty(n + 1 + BIG31))],
        "gap_range_2e62" => vec![gap(n + 1, NumSet::empty(BIG62))],
        "gap_start_zero" => vec![gap(0, NumSet::empty(n + 2))],
        "gap_start_negative" => vec![gap(-5, NumSet::empty(3))],
        "gap_base_max" => vec![gap(n, NumSet { base: i64::MAX - 3, num_bits: 256, words: vec![0xffff_ffff; 8] })],
        "gap_bits_256_far" => vec![gap(n + 2, NumSet { base: n + 100_000, num_bits: 256, words: vec![0xffff_ffff; 8] })],
        "gap_base_below_start" => vec![gap(n + 10, NumSet { base: n, num_bits: 8, words: vec![0xff00_0000] })],
        "gap_numbits_300" => vec![gap(n, NumSet { base: n + 1, num_bits: 300, words: vec![0xffff_ffff; 10] })],
        "data_sn_zero" => vec![wire::encode(p, &[data(ctx, 0, Some(good_payload(0)), None, false)])],
        "data_sn_negative" => vec![wire::encode(p, &[data(ctx, -7, Some(good_payload(1)), None, false)])],
        "data_sn_2e62" => vec![wire::encode(p, &[data(ctx, BIG62, Some(good_payload(2)), None, false)])],
        "data_sn_max" => vec![wire::encode(p, &[data(ctx, i64::MAX, Some(good_payload(2)), None, false)])],
        "data_flags_dk" => {
            let mut d = wire::encode(p, &[data(ctx, n, Some(good_payload(n)), None, false)]);
            d[21] |= 0x0c;
            vec![d]
        }
        "data_no_flags_payload" => {
            let mut d = wire::encode(p, &[data(ctx, n, Some(good_payload(n)), None, false)]);
            d[21] &= !0x0c;
            vec![d]
        }
        "data_flag_no_payload" => {
            let mut d = wire::encode(p, &[data(ctx, n, None, None, false)]);
            d[21] |= 0x04;
            vec![d]
        }
        "data_otiq_huge" => {
            let mut d = wire::encode(p, &[data(ctx, n, Some(good_payload(n)), None, false)]);
            d[26] = 0xff;
            d[27] = 0xff;
            vec![d]
        }
        "data_otiq_small" => {
            let mut d = wire::encode(p, &[data(ctx, n, Some(good_payload(n)), None, false)]);
            d[26] = 0x02;
            d[27] = 0x00;
            vec![d]
        }
        "data_inlineqos_len_huge" => {
            let mut d = wire::encode(p, &[data(ctx, n, Some(good_payload(n)), Some(vec![Param { pid: 0x0071, value: vec![0, 0, 0, 1] }]), false)]);
            // parameter length field of the first parameter: header 20 + submsg hdr 4 + 20 body = offset 44 pid, 46 len
            d[46] = 0xf0;
            d[47] = 0xff;
            vec![d]
        }
        "data_inlineqos_no_sentinel" => {
            let full = wire::encode(p, &[data(ctx, n, None, Some(vec![Param { pid: 0x0071, value: vec![0, 0, 0, 1] }]), false)]);
            // cut the sentinel (last 4 bytes) and fix the length
            let mut d = full[..full.len() - 4].to_vec();
            let l = (d.len() - 24) as u16;
            d = set_otnh(d, l);
            vec![d]
        }
        "data_payload_1byte" => vec![wire::encode(p, &[data(ctx, n, Some(vec![0x00]), None, false)])],
        "data_unknown_encaps" => {
            let mut pl = good_payload(n);
            pl[0] = 0x77;
            pl[1] = 0x77;
            vec![wire::encode(p, &[data(ctx, n, Some(pl), None, false)])]
        }
        "data_keyhash_short" => vec![wire::encode(p, &[data(ctx, n, None, Some(vec![Param { pid: 0x0070, value: vec![1, 2, 3, 4] }]), false)])],
        "data_garbage_cdr" => vec![wire::encode(p, &[data(ctx, n, Some(vec![0, 1, 0, 0, 9, 9]), None, false)])],
        "data_cdr_len_huge" => {
            // sequence<octet> length 0xffffffff
            let mut pl = vec![0, 1, 0, 0];
            pl.extend_from_slice(&1u32.to_le_bytes());
            pl.extend_from_slice(&2u32.to_le_bytes());
            pl.extend_from_slice(&0xffff_ffffu32.to_le_bytes());
            pl.extend_from_slice(&[1, 2, 3, 4]);
            vec![wire::encode(p, &[data(ctx, n, Some(pl), None, false)])]
        }
        "frag_start_zero" => vec![wire::encode(p, &[frag(ctx, n, 0, 1, 16, 40, vec![7; 16])])],
        "frag_start_gt_total" => vec![wire::encode(p, &[frag(ctx, n, 9, 1, 16, 40, vec![7; 16])])],
        "frag_start_huge" => vec![wire::encode(p, &[frag(ctx, n, u32::MAX, 1, 16, 40, vec![7; 16])])],
        "frag_count_zero" => vec![wire::encode(p, &[frag(ctx, n, 1, 0, 16, 40, vec![])])],
        "frag_count_65535" => vec![wire::encode(p, &[frag(ctx, n, 2, 65535, 16, 40, vec![7; 16])])],
        "frag_size_zero" => vec![wire::encode(p, &[frag(ctx, n, 1, 1, 0, 40, vec![7; 16])])],
        "frag_size_inconsistent" => vec![
            wire::encode(p, &[frag(ctx, n, 1, 1, 16, 40, vec![7; 16])]),
            wire::encode(p, &[frag(ctx, n, 2, 1, 32, 40, vec![7; 8])]),
            wire::encode(p, &[frag(ctx, n + 1, 3, 1, 8, 20, vec![7; 4])]),
        ],
        "frag_sample_size_zero" => vec![wire::encode(p, &[frag(ctx, n, 1, 1, 16, 0, vec![7; 16])])],
        "frag_sample_lt_fragsize" => vec![wire::encode(p, &[frag(ctx, n, 1, 1, 64, 10, vec![7; 10])])],
        "frag_sample_size_64m" => vec![wire::encode(p, &[frag(ctx, n, 1, 1, 1024, 64 << 20, vec![7; 1024])])],
        "frag_sample_size_4g" => vec![wire::encode(p, &[frag(ctx, n, 1, 1, 1024, u32::MAX, vec![7; 1024])])],
        "frag_payload_short" => vec![wire::encode(p, &[frag(ctx, n, 1, 2, 16, 40, vec![7; 5])])],
        "frag_payload_long" => vec![wire::encode(p, &[frag(ctx, n, 1, 1, 16, 40, vec![7; 300])])],
        "frag_many_open" => (0..200).map(|i| wire::encode(p, &[frag(ctx, n + i, 1, 1, 1024, 60_000, vec![7; 1024])])).collect(),
        "mangle_truncate_all" => {
            let full = wire::encode(
                p,
                &[
                    Sub::InfoTs { ts: Some((5, 0)) },
                    data(ctx, n, Some(good_payload(n)), Some(vec![Param { pid: 0x0071, value: vec![0, 0, 0, 0] }]), false),
                    Sub::Heartbeat { reader: ctx.reader_eid, writer: ctx.writer_eid, first: 1, last: n, count: c, final_flag: false, liveliness: false },
                    Sub::Gap { reader: ctx.reader_eid, writer: ctx.writer_eid, start: n + 1, list: NumSet::from_set(n + 2, &[n + 3]) },
                ],
            );
            (0..full.len()).map(|k| full[..k].to_vec()).collect()
        }
        "mangle_otnh_zero" => vec![set_otnh(wire::encode(p, &[data(ctx, n, Some(good_payload(n)), None, false), Sub::InfoTs { ts: None }]), 0)],
        "mangle_otnh_small" => vec![set_otnh(wire::encode(p, &[data(ctx, n, Some(good_payload(n)), None, false)]), 4)],
        "mangle_otnh_large" => vec![set_otnh(wire::encode(p, &[data(ctx, n, Some(good_payload(n)), None, false)]), 60_000)],
        "mangle_magic" => {
            let mut d = wire::encode(p, &[data(ctx, n, Some(good_payload(n)), None, false)]);
            d[3] = b'X';
            let mut e = d.clone();
            e[0] = 0;
            vec![d, e]
        }
        "mangle_version" => {
            let mut d = wire::encode(p, &[data(ctx, n, Some(good_payload(n)), None, false)]);
            d[4] = 9;
            d[5] = 9;
            vec![d]
        }
        "mangle_kind_unknown" => vec![wire::encode(p, &[Sub::Other { kind: 0x55, flags: 1, body: vec![1, 2, 3, 4, 5, 6, 7, 8] }, Sub::Other { kind: 0x80, flags: 1, body: vec![] }])],
        "mangle_empty_body" => [0x06u8, 0x07, 0x08, 0x09, 0x0e, 0x12, 0x13, 0x15, 0x16].iter().map(|k| wire::encode(p, &[Sub::Other { kind: *k, flags: 1, body: vec![] }])).collect(),
        "mangle_header_only" => vec![wire::encode(p, &[])],
        "sock_empty" => vec![vec![], vec![]],
        "sock_one_byte" => vec![vec![b'R'], vec![0]],
        "sock_max_size" => {
            let mut d = wire::encode(p, &[Sub::Other { kind: 0x55, flags: 1, body: vec![0xAB; 60_000] }]);
            d.resize(65_507, 0xCD);
            vec![d.clone(), d]
        }
        "sock_burst_64" => (0..64).map(|i| wire::encode(p, &[Sub::Other { kind: 0x55, flags: 1, body: vec![i as u8; 8] }])).collect(),
        "sock_empty_between_valid" => vec![hb(1, n, c), vec![], hb(1, n, c + 1), vec![], vec![]],
        // a change far ahead is known, then the HEARTBEAT advertises everything up to it
        "seq_data_far_hb_wide" => {
            let far = n + (1i64 << 40);
            vec![wire::encode(p, &[data(ctx, far, Some(good_payload(3)), None, false)]), hb(1, far, c)]
        }
        "seq_data_far_hb_window" => {
            let far = n + 5_000_000;
            vec![wire::encode(p, &[data(ctx, far, Some(good_payload(3)), None, false)]), hb(n, far - 1, c), hb(far - 10, far + 10, c + 1)]
        }
        "seq_frag_far_hb_wide" => {
            let far = n + (1i64 << 40);
            vec![wire::encode(p, &[frag(ctx, far, 1, 1, 8, 24, vec![1; 8])]), hb(1, far, c)]
        }
        "seq_gap_far_hb_wide" => {
            let far = n + (1i64 << 40);
            vec![gap(far, NumSet::from_set(far + 1, &[far + 2])), hb(1, far + 3, c)]
        }
        "seq_hb_wide_data_far_hb_wide" => {
            let far = n + (1i64 << 40);
            vec![hb(1, far, c), wire::encode(p, &[data(ctx, far, Some(good_payload(3)), None, false)]), hb(1, far, c + 1), hb(far, far, c + 2)]
        }
        "seq_data_far_gap_wide" => {
            let far = n + (1i64 << 40);
            vec![wire::encode(p, &[data(ctx, far, Some(good_payload(3)), None, false)]), gap(n + 1, NumSet::from_set(n + 2, &[n + 3])), hb(n + 1, far, c)]
        }
        "seq_two_far_data_hb_between" => {
            let far = n + (1i64 << 40);
            vec![
                wire::encode(p, &[data(ctx, far, Some(good_payload(3)), None, false)]),
                wire::encode(p, &[data(ctx, far + (1i64 << 40), Some(good_payload(4)), None, false)]),
                hb(far, far + (1i64 << 40), c),
            ]
        }
        // INFO_REPLY: unicastLocatorList (count, then 24 octets per locator) [, multicastLocatorList]
        "interp_info_reply_count_max" => vec![wire::encode(p, &[Sub::Other { kind: 0x0f, flags: 1, body: u32::MAX.to_le_bytes().to_vec() }])],
        "interp_info_reply_count_huge" => {
            let mut with_one = 0xA357_0000u32.to_le_bytes().to_vec();
            with_one.extend_from_slice(&[0u8; 24]);
            vec![
                wire::encode(p, &[Sub::Other { kind: 0x0f, flags: 1, body: 0xA357_0000u32.to_le_bytes().to_vec() }]),
                wire::encode(p, &[Sub::Other { kind: 0x0f, flags: 1, body: with_one }]),
                wire::encode(p, &[Sub::Other { kind: 0x0f, flags: 0, body: 0x0FFF_FFFFu32.to_be_bytes().to_vec() }]),
            ]
        }
        "interp_info_reply_mcast_count_huge" => {
            // no unicast locator, multicast flag set, multicast count huge (with and without the 1-octet tag of finding X2)
            let mut a = 0u32.to_le_bytes().to_vec();
            a.extend_from_slice(&u32::MAX.to_le_bytes());
            let mut b = 0u32.to_le_bytes().to_vec();
            b.push(1);
            b.extend_from_slice(&u32::MAX.to_le_bytes());
            vec![wire::encode(p, &[Sub::Other { kind: 0x0f, flags: 3, body: a }]), wire::encode(p, &[Sub::Other { kind: 0x0f, flags: 3, body: b }])]
        }
        // a well-formed INFO_REPLY naming somebody else's address, alone in its datagram: it speaks about the submessages that
        // follow it in the SAME message, so it must not redirect the replies to anybody else's later datagrams
        "interp_info_reply_redirect" => {
            let mut loc = vec![];
            loc.extend_from_slice(&1u32.to_le_bytes()); // one locator
            loc.extend_from_slice(&1i32.to_le_bytes()); // LOCATOR_KIND_UDPv4
            loc.extend_from_slice(&39_999u32.to_le_bytes());
            loc.extend_from_slice(&[0, 0, 0, 0, 0, 0, 0, 0, 0, 0, 0, 0, 127, 0, 0, 1]);
            let mut tagged = loc.clone();
            tagged.push(0); // the framing this crate reads (finding X2): a 1-octet "no multicast list" tag
            vec![wire::encode(p, &[Sub::Other { kind: 0x0f, flags: 1, body: tagged }]), wire::encode(p, &[Sub::Other { kind: 0x0f, flags: 1, body: loc }])]
        }
        "interp_info_reply_ip4" => vec![
            wire::encode(p, &[Sub::Other { kind: 0x0d, flags: 1, body: vec![0xff; 8] }]),
            wire::encode(p, &[Sub::Other { kind: 0x0d, flags: 3, body: vec![0xff; 16] }]),
            wire::encode(p, &[Sub::Other { kind: 0x0d, flags: 3, body: vec![0xff; 3] }]),
        ],
        "interp_short_bodies" => {
            let mut v = vec![];
            for k in [0x01u8, 0x09, 0x0c, 0x0d, 0x0e, 0x0f] {
                for len in [0usize, 1, 3, 4, 7, 8, 11, 12, 16, 19, 20, 24, 28] {
                    for flags in [0u8, 1, 3] {
                        v.push(wire::encode(p, &[Sub::Other { kind: k, flags, body: vec![0xff; len] }]));
                    }
                }
            }
            v
        }
        // receiver state set by a stranger's INFO_* must not take a following well-formed submessage down with it
        "interp_info_src_dst_ts_then_data" => vec![wire::encode(
            p,
            &[
                Sub::Other { kind: 0x0c, flags: 1, body: vec![0xff; 20] },
                Sub::Other { kind: 0x0e, flags: 1, body: vec![0xff; 12] },
                Sub::Other { kind: 0x09, flags: 1, body: vec![0xff; 8] },
                data(ctx, n, Some(good_payload(n)), None, false),
                Sub::Heartbeat { reader: ctx.reader_eid, writer: ctx.writer_eid, first: 1, last: n, count: c, final_flag: false, liveliness: false },
            ],
        )],
        "mangle_short" => vec![b"RTPS".to_vec(), vec![], b"RTPS\x02\x04\x01\x12DDSPINGxxxx"[..16].to_vec(), vec![0xff; 19]],
        _ => vec![],
    }
}

pub fn writer_datagrams(cls: &str, ctx: &Ctx) -> Vec<Vec<u8>> {
    let p = &ctx.src_prefix;
    let ack = |set: NumSet, count: i32| wire::encode(p, &[Sub::AckNack { reader: ctx.reader_eid, writer: ctx.writer_eid, set, count, final_flag: true }]);
    let n = ctx.front;
    let c = ctx.count;
    match cls {
        "ack_base_zero_bits" => vec![ack(NumSet { base: 0, num_bits: 32, words: vec![0xffff_ffff] }, c)],
        "ack_base_negative" => vec![ack(NumSet { base: -100, num_bits: 64, words: vec![0xffff_ffff; 2] }, c)],
        "ack_base_2e62" => vec![ack(NumSet::empty(BIG62), c)],
        "ack_base_max" => vec![ack(NumSet { base: i64::MAX - 2, num_bits: 256, words: vec![0xffff_ffff; 8] }, c)],
        "ack_bits_256_far" => vec![ack(NumSet { base: n + 1000, num_bits: 256, words: vec![0xffff_ffff; 8] }, c)],
        "ack_numbits_300" => vec![ack(NumSet { base: 1, num_bits: 300, words: vec![0xffff_ffff; 10] }, c)],
        "ack_count_min" => vec![ack(NumSet::empty(1), i32::MIN), ack(NumSet::empty(1), i32::MAX)],
        "ack_request_unwritten" => vec![ack(NumSet::from_set(n + 1, &[n + 1, n + 2, n + 200]), c)],
        "nackfrag_huge" => vec![wire::encode(p, &[Sub::NackFrag { reader: ctx.reader_eid, writer: ctx.writer_eid, sn: 1, set: NumSet { base: 0xffff_ff00, num_bits: 256, words: vec![0xffff_ffff; 8] }, count: c }])],
        "nackfrag_zero" => vec![wire::encode(p, &[Sub::NackFrag { reader: ctx.reader_eid, writer: ctx.writer_eid, sn: 0, set: NumSet { base: 0, num_bits: 8, words: vec![0xff00_0000] }, count: c }])],
        "ack_truncated" => {
            let full = ack(NumSet::from_set(1, &[1, 2, 40]), c);
            (20..full.len()).map(|k| full[..k].to_vec()).collect()
        }
        "seq_ack_far_then_low" => vec![ack(NumSet::empty(n + (1i64 << 40)), c), ack(NumSet::from_set(1, &[1, 2, 3]), c + 1)],
        "seq_ack_low_bits_then_far" => vec![ack(NumSet { base: 1, num_bits: 256, words: vec![0xffff_ffff; 8] }, c), ack(NumSet::empty(n + (1i64 << 40)), c + 1), ack(NumSet { base: 1, num_bits: 256, words: vec![0xffff_ffff; 8] }, c + 2)],
        "ack_unknown_writer_burst" => {
            // as other implementations send for built-in writers this one does not have (e.g. entity id [0,3,0])
            let one = |c2: i32| Sub::AckNack { reader: [0, 3, 0, 0xc4], writer: [0, 3, 0, 0xc3], set: NumSet::empty(1), count: c2, final_flag: true };
            vec![wire::encode(p, &[one(c), one(c + 1), one(c + 2)]), wire::encode(p, &[one(c + 3), one(c + 4)])]
        }
        "ack_unknown_known_mixed" => {
            let unk = |c2: i32| Sub::AckNack { reader: ctx.reader_eid, writer: [9, 9, 9, 2], set: NumSet::empty(5), count: c2, final_flag: true };
            let known = |c2: i32| Sub::AckNack { reader: ctx.reader_eid, writer: ctx.writer_eid, set: NumSet::empty(1), count: c2, final_flag: true };
            vec![wire::encode(p, &[unk(c), known(c + 1), unk(c + 2), unk(c + 3), known(c + 4)])]
        }
        "ack_unknown_writer" => vec![wire::encode(p, &[Sub::AckNack { reader: ctx.reader_eid, writer: [9, 9, 9, 2], set: NumSet::empty(5), count: c, final_flag: true }])],
        _ => vec![],
    }
}
