//! `writer` driver (C04, C20): action lists executed against the real Writer (through the real
//! WriterCommand channel) with fake matched readers; every datagram is captured per destination,
//! decoded by the independent codec and logged for Trace_RtpsWriter.tla.

use std::collections::HashMap;

use rand::{rngs::StdRng, Rng, SeedableRng};
use rustdds::{policy::{Durability, Reliability}, Duration, QosPolicyBuilder};
use rustdds::verif::net::Sent;
use rustdds::verif::writer_rig::{WriterCfg, WriterRig};
use serde::{Deserialize, Serialize};
use serde_json::{json, Value};

use crate::wire::{self, Sub};

#[derive(Clone, Debug, Serialize, Deserialize)]
#[serde(tag = "a")]
pub enum WAct {
    /// rtl (from TLC): the reader requests TransientLocal.  rdur (driver): the concrete announcement,
    /// "tl" | "vol" | "unset" (durability left out, which means Volatile); empty = derive from rtl
    Match {
        r: u8,
        kind: String,
        #[serde(default)]
        rtl: bool,
        #[serde(default)]
        rdur: String,
    },
    Lose { r: u8 },
    /// single: 0 = for everyone, else the reader the sample is written for; big = fragmented
    /// ts: source timestamp the application gives: "" / "inc" increasing with every write, "same" the same for all,
    /// "dec" decreasing, "none" no timestamp
    Write {
        single: u8,
        big: bool,
        #[serde(default)]
        ts: String,
    },
    /// dst: "" no INFO_DST, "own" INFO_DST naming the writer's participant, "other" INFO_DST naming another participant
    /// (the ACKNACK is then not for this writer at all); nbits / dirty: shape of the bitmap (see reader driver)
    AckNack {
        r: u8,
        base: i64,
        set: Vec<i64>,
        #[serde(default)]
        dst: String,
        #[serde(default)]
        nbits: u32,
        #[serde(default)]
        dirty: bool,
    },
    HBTick,
    /// one firing of the SendRepairData timer of reader r
    Repair { r: u8 },
    /// fire the repair timers of reader r until none is armed
    RepairAll { r: u8 },
    Clean,
    Wait,
    /// hostile datagram(s) of a catalogue class from reader-like peer r
    Hostile { r: u8, cls: String },
}

#[derive(Clone, Debug, Serialize, Deserialize)]
pub struct WRunSpec {
    pub rel: bool,
    /// None = no durability policy, false = Volatile, true = TransientLocal
    pub tl: Option<bool>,
    /// -1 = no history policy, 0 = KeepAll, d>0 = KeepLast(d)
    pub hist: i32,
    pub frag: usize,
    pub acts: Vec<WAct>,
    /// readers 1 and 2 are endpoints of ONE remote participant: whatever arrives there with reader id UNKNOWN is handed to
    /// both of them by the receiving MessageReceiver (if both are matched with the writer)
    #[serde(default)]
    pub shared: bool,
}

pub const WRITER_GUID: [u8; 16] = [0xC1, 0xC1, 0xC1, 0xC1, 0xC1, 0xC1, 0xC1, 0xC1, 0xC1, 0xC1, 0xC1, 0xC1, 0, 0, 9, 0x02];
pub const PORT0: u16 = 21_000;

pub fn reader_guid(r: u8) -> [u8; 16] {
    let mut g = [0xD0 + r; 16];
    g[12] = 0;
    g[13] = 0;
    g[14] = r;
    g[15] = 0x07;
    g
}

pub fn value_of(sn: i64, big: bool, frag: usize) -> Vec<u8> {
    // CDR VSample without encapsulation header
    // fragmented samples: total payload sizes (with the 4-byte encapsulation header) around multiples of
    // the fragment size: exact multiple, one more, one less, and in between
    let body_len = if big {
        let total = [2 * frag, 2 * frag + 1, 3 * frag - 1, 3 * frag, 2 * frag + frag / 2, frag + 1, 4 * frag + 3][sn as usize % 7];
        total - 16
    } else {
        (sn as usize * 5) % 19
    };
    let body: Vec<u8> = (0..body_len).map(|i| (i as u64 * 17 + sn as u64 * 3 + 1) as u8).collect();
    wire::vsample_payload((sn % 3) as u32, 1000 + sn as u32, &body)[4..].to_vec()
}

pub struct WExec {
    pub rig: WriterRig,
    pub frag: usize,
    pub written: HashMap<i64, Vec<u8>>, // sn -> full payload incl. encapsulation header
    pub acknack_count: HashMap<u8, i32>,
    pub captured: Vec<Vec<u8>>,
    pub shared: bool,
    pub matched: std::collections::HashSet<u8>,
}

fn eq_up_to_padding(got: &[u8], want: &[u8]) -> bool {
    got.len() >= want.len() && got.len() < want.len() + 4 && got[..want.len()] == *want && got[want.len()..].iter().all(|b| *b == 0)
}

impl WExec {
    pub fn decode_sends(&mut self, sent: &[Sent]) -> Vec<Value> {
        let mut out = vec![];
        for s in sent {
            self.captured.push(s.bytes.clone());
            let port: u16 = s.dest.rsplit(':').next().and_then(|p| p.parse().ok()).unwrap_or(0);
            let to = if port > PORT0 && port < PORT0 + 10 { (port - PORT0) as i64 } else { 0 };
            let mut subs = vec![];
            // sample-carrying submessages that do not name their reader: the sibling endpoint receives them too
            let mut fan_out = vec![];
            match wire::decode(&s.bytes) {
                Err(e) => subs.push(json!({"k":"UNDECODABLE","err":e})),
                Ok(m) => {
                    for sub in m.subs {
                        let unnamed = matches!(&sub, Sub::Data { reader, .. } | Sub::DataFrag { reader, .. } if *reader == [0, 0, 0, 0]);
                        let before = subs.len();
                        match sub {
                            Sub::Data { sn, payload, .. } => {
                                let p = payload.unwrap_or_default();
                                let pid = if p.len() >= 12 { u32::from_le_bytes([p[8], p[9], p[10], p[11]]) as i64 } else { -1 };
                                let ok = self.written.get(&sn).map(|w| eq_up_to_padding(&p, w)).unwrap_or(false);
                                subs.push(json!({"k":"DATA","sn":sn,"pid":pid,"ok":ok}));
                            }
                            Sub::DataFrag { sn, frag_start, frags_in_sub, frag_size, sample_size, payload, .. } => {
                                let (ok, pid) = match self.written.get(&sn) {
                                    None => (false, -1),
                                    Some(w) => {
                                        let from = (frag_start as usize - 1) * frag_size as usize;
                                        let to = std::cmp::min(from + frags_in_sub as usize * frag_size as usize, w.len());
                                        let pid = u32::from_le_bytes([w[8], w[9], w[10], w[11]]) as i64;
                                        (from <= to && sample_size as usize == w.len() && frag_size as usize == self.frag && eq_up_to_padding(&payload, &w[from..to]), pid)
                                    }
                                };
                                subs.push(json!({"k":"FRAG","sn":sn,"pid":pid,"ok":ok,"fs":frag_start,"fc":frags_in_sub}));
                            }
                            Sub::Gap { start, list, .. } => {
                                let mut set: Vec<i64> = (start..list.base).collect();
                                set.extend(list.members());
                                set.sort();
                                set.dedup();
                                subs.push(json!({"k":"GAP","set":set,"start":start,"base":list.base}));
                            }
                            Sub::Heartbeat { first, last, count, final_flag, .. } => {
                                subs.push(json!({"k":"HB","first":first,"last":last,"count":count,"fin":final_flag}));
                            }
                            _ => {}
                        }
                        if unnamed && subs.len() > before {
                            fan_out.push(subs[before].clone());
                        }
                    }
                }
            }
            out.push(json!({"to":to,"subs":subs}));
            if self.shared && (to == 1 || to == 2) && !fan_out.is_empty() {
                let sibling = 3 - to;
                if self.matched.contains(&(sibling as u8)) && self.matched.contains(&(to as u8)) {
                    out.push(json!({"to":sibling,"subs":fan_out}));
                }
            }
        }
        out
    }

    fn common(&mut self, ev: Value, sent: &[Sent], out: &mut Vec<Value>) {
        let o = self.decode_sends(sent);
        let mut ev = ev;
        ev["out"] = json!(o);
        ev["hist"] = json!(self.rig.history_sns());
        ev["done"] = json!(self.rig.wait_completed());
        // which of the readers 1..3 the Writer holds a proxy for (C11: the matched set follows discovery, nothing else)
        let m = self.rig.matched_readers();
        ev["readers"] = json!((1..=3u8).filter(|r| m.contains(&reader_guid(*r))).collect::<Vec<u8>>());
        out.push(ev);
    }

    fn armed(&self, r: u8) -> (bool, bool) {
        let p = self.rig.proxy(reader_guid(r));
        (p.present && p.repair_mode, p.present && p.frags_requested)
    }

    pub fn step(&mut self, act: &WAct, out: &mut Vec<Value>) {
        match act {
            WAct::Match { r, kind, rtl, rdur } => {
                // both encodings of "no history wanted" are one abstract class; alternate between them
                let rdur: &str = if !rdur.is_empty() { rdur } else if *rtl { "tl" } else if (*r as usize + out.len()) % 2 == 0 { "vol" } else { "unset" };
                let mut b = QosPolicyBuilder::new().reliability(if kind == "rel" { Reliability::Reliable { max_blocking_time: Duration::from_millis(100) } } else { Reliability::BestEffort });
                match rdur {
                    "tl" => b = b.durability(Durability::TransientLocal),
                    "vol" => b = b.durability(Durability::Volatile),
                    _ => {}
                }
                self.rig.match_reader_with_qos(reader_guid(*r), &b.build(), PORT0 + *r as u16);
                if self.rig.proxy(reader_guid(*r)).present {
                    self.matched.insert(*r);
                }
                self.common(json!({"ev":"Match","r":r,"kind":kind,"rtl":rdur == "tl","rdur":rdur}), &[], out);
            }
            WAct::Lose { r } => {
                self.rig.lose_reader(reader_guid(*r));
                self.matched.remove(r);
                self.acknack_count.remove(r);
                self.common(json!({"ev":"Lose","r":r}), &[], out);
            }
            WAct::Write { single, big, ts } => {
                let sn_next = self.written.len() as i64 + 1;
                let value = value_of(sn_next, *big, self.frag);
                let mut full = vec![0x00, 0x01, 0x00, 0x00];
                full.extend_from_slice(&value);
                self.written.insert(sn_next, full);
                let (sn, sent) = self.rig.write(value, if *single == 0 { None } else { Some(reader_guid(*single)) }, match ts.as_str() {
                    "same" => Some(5000),
                    "dec" => Some(4000 - sn_next as u32),
                    "none" => None,
                    _ => Some(5000 + sn_next as u32),
                });
                assert_eq!(sn, sn_next);
                self.common(json!({"ev":"Write","pid":1000 + sn,"single":single}), &sent, out);
            }
            WAct::AckNack { r, base, set, dst, nbits, dirty } => {
                let c = self.acknack_count.entry(*r).or_insert(0);
                *c += 1;
                let count = *c;
                // built by the independent codec, parsed by the real message parser
                let members: Vec<i64> = set.iter().copied().filter(|s| *s >= *base && *s < *base + 256).collect();
                let g = reader_guid(*r);
                let mut prefix = [0u8; 12];
                prefix.copy_from_slice(&g[0..12]);
                let mut list = wire::NumSet::from_set(*base, &members);
                if *nbits > 0 {
                    list.num_bits = (list.num_bits + *nbits).min(256);
                    list.words.resize(((list.num_bits + 31) / 32) as usize, 0);
                }
                if *dirty && list.num_bits % 32 != 0 {
                    if let Some(last) = list.words.last_mut() {
                        *last |= u32::MAX >> (list.num_bits % 32);
                    }
                }
                let ack = Sub::AckNack { reader: [g[12], g[13], g[14], g[15]], writer: [WRITER_GUID[12], WRITER_GUID[13], WRITER_GUID[14], WRITER_GUID[15]], set: list, count, final_flag: true };
                let mut own = [0u8; 12];
                own.copy_from_slice(&WRITER_GUID[0..12]);
                let subs = match dst.as_str() {
                    "own" => vec![Sub::InfoDst { prefix: own }, ack],
                    // another participant, whose writer has the same entity id (entity ids repeat across participants)
                    "other" => vec![Sub::InfoDst { prefix: [0xD5; 12] }, ack],
                    _ => vec![ack],
                };
                let dg = wire::encode(&prefix, &subs);
                let sent = self.rig.receive(&dg);
                let set = &members;
                self.common(json!({"ev":"AckNack","r":r,"base":base,"set":set,"dst":dst}), &sent, out);
            }
            WAct::HBTick => {
                let sent = self.rig.heartbeat_tick();
                self.common(json!({"ev":"HBTick"}), &sent, out);
            }
            WAct::Repair { r } => {
                let sent = self.rig.fire_repair_data(reader_guid(*r));
                self.common(json!({"ev":"Repair","r":r}), &sent, out);
            }
            WAct::RepairAll { r } => {
                let mut n = 0;
                loop {
                    let (data, frags) = self.armed(*r);
                    if !(data || frags) || n >= 400 {
                        break;
                    }
                    if data {
                        let sent = self.rig.fire_repair_data(reader_guid(*r));
                        self.common(json!({"ev":"Repair","r":r}), &sent, out);
                    }
                    if self.armed(*r).1 {
                        let sent = self.rig.fire_repair_frags(reader_guid(*r));
                        self.common(json!({"ev":"RepairFrags","r":r}), &sent, out);
                    }
                    n += 1;
                }
                let (data, frags) = self.armed(*r);
                out.push(json!({"ev":"RepairDone","r":r,"quiescent": !(data || frags)}));
            }
            WAct::Clean => {
                self.rig.cache_clean();
                let h = self.rig.history_sns();
                let d = self.rig.wait_completed();
                out.push(json!({"ev":"Clean","hist":h,"done":d}));
            }
            WAct::Hostile { r, cls } => {
                let g = reader_guid(*r);
                let mut prefix = [0u8; 12];
                prefix.copy_from_slice(&g[0..12]);
                let ctx = crate::hostile::Ctx { src_prefix: prefix, writer_eid: [WRITER_GUID[12], WRITER_GUID[13], WRITER_GUID[14], WRITER_GUID[15]], reader_eid: [g[12], g[13], g[14], g[15]], front: self.written.len() as i64, count: 5000 };
                let dgs = crate::hostile::writer_datagrams(cls, &ctx);
                let total_len: usize = dgs.iter().map(|d| d.len()).sum();
                crate::util::live_event(&json!({"ev":"HostileBegin","cls":cls,"r":r,"_streamed":true}));
                let rig = &mut self.rig;
                let m = crate::measure::measure(|| {
                    for d in &dgs {
                        let _ = rig.receive(d);
                    }
                });
                // repair timers the hostile datagram armed, and cleaning: time/memory counted as well
                let m2 = crate::measure::measure(|| {
                    for _ in 0..50 {
                        let _ = rig.fire_repair_data(g);
                    }
                    rig.cache_clean();
                });
                out.push(json!({"ev":"Hostile","cls":cls,"r":r,"n":dgs.len(),"len":total_len,"panic":m.panic.is_some() || m2.panic.is_some(),"msg":m.panic.or(m2.panic).unwrap_or_default(),"us":(m.us + m2.us) as u64,"alloc":(m.alloc + m2.alloc) as u64,"died":"","hist":self.rig.history_sns(),"done":self.rig.wait_completed()}));
            }
            WAct::Wait => {
                self.rig.wait_for_acks();
                let d = self.rig.wait_completed();
                out.push(json!({"ev":"Wait","done":d}));
            }
        }
    }
}

pub fn depth_limit(hist: i32) -> i64 {
    match hist {
        -1 => 1,
        // KeepAll: no History depth forces anything out (the code's internal allowance of 32 acknowledged
        // samples is below this, so the bound clause is vacuous and the retain clause is strict)
        0 => 1_000_000,
        d => d as i64,
    }
}

pub fn run_one(run_no: usize, spec: &WRunSpec, out: &mut Vec<Value>) -> Vec<Vec<u8>> {
    let cfg = WriterCfg {
        reliable: spec.rel,
        history: match spec.hist {
            -1 => None,
            0 => Some(None),
            d => Some(Some(d)),
        },
        transient_local: spec.tl,
        frag_size: Some(spec.frag),
    };
    let rig = WriterRig::new(&cfg, WRITER_GUID);
    let mut ex = WExec { rig, frag: spec.frag, written: HashMap::new(), acknack_count: HashMap::new(), captured: vec![], shared: spec.shared, matched: Default::default() };
    out.push(json!({"ev":"Reset","run":run_no,"rel":spec.rel,"vol":spec.tl == Some(false),"depth":depth_limit(spec.hist)}));
    for a in &spec.acts {
        ex.step(a, out);
    }
    std::mem::take(&mut ex.captured)
}

pub fn random_run(rng: &mut StdRng, n_events: usize) -> WRunSpec {
    let rel = rng.gen_bool(0.85);
    let tl = match rng.gen_range(0..3) {
        0 => None,
        1 => Some(false),
        _ => Some(true),
    };
    let hist = match rng.gen_range(0..5) {
        0 => -1,
        1 => 0,
        2 => 1,
        3 => 2,
        _ => rng.gen_range(3..40),
    };
    let frag = 64;
    // how the application stamps its samples in this run
    let ts_shape = ["inc", "inc", "same", "dec", "none"][rng.gen_range(0..5)];
    let mut acts = vec![];
    let mut last = 0i64;
    let mut matched = [false; 4];
    let mut acked = [1i64; 4];
    let mut kinds = ["be"; 4];
    for _ in 0..n_events {
        let x = rng.gen_range(0..100);
        let r = rng.gen_range(1..=3u8);
        if x < 35 {
            let single = if rng.gen_bool(0.15) { rng.gen_range(1..=3u8) } else { 0 };
            acts.push(WAct::Write { single, big: rng.gen_bool(0.1), ts: ts_shape.to_string() });
            last += 1;
        } else if x < 45 {
            if matched[r as usize] && rng.gen_bool(0.5) {
                acts.push(WAct::Lose { r });
                matched[r as usize] = false;
            } else {
                // a (re-)announcement never changes the reliability of a matched reader
                if !matched[r as usize] {
                    kinds[r as usize] = if rel && rng.gen_bool(0.7) { "rel" } else { "be" };
                    acked[r as usize] = 1;
                }
                acts.push(WAct::Match { r, kind: kinds[r as usize].into(), rtl: false, rdur: ["unset", "vol", "tl"][rng.gen_range(0..3)].into() });
                matched[r as usize] = true;
            }
        } else if x < 70 {
            // acknack: mostly sensible (monotone base, requests above base), sometimes arbitrary
            let (base, set) = if rng.gen_bool(0.8) {
                let b = rng.gen_range(acked[r as usize]..=last + 1);
                acked[r as usize] = b;
                let mut set = vec![];
                for k in 0..rng.gen_range(0..4) {
                    let s = b + k + rng.gen_range(0..3) * (k + 1);
                    if s <= last + 1 && !set.contains(&s) && s < b + 256 {
                        set.push(s);
                    }
                }
                (b, set)
            } else {
                let b = rng.gen_range(0..=last + 3);
                let mut set = vec![];
                for _ in 0..rng.gen_range(0..4) {
                    let s = b + rng.gen_range(0..8);
                    if !set.contains(&s) {
                        set.push(s);
                    }
                }
                (b, set)
            };
            let dst = ["", "", "own", "other"][rng.gen_range(0..4)].to_string();
            acts.push(WAct::AckNack { r, base, set, dst, nbits: if rng.gen_bool(0.3) { rng.gen_range(1..4) } else { 0 }, dirty: rng.gen_bool(0.4) });
            if rng.gen_bool(0.7) {
                acts.push(WAct::RepairAll { r });
            }
        } else if x < 78 {
            acts.push(WAct::HBTick);
        } else if x < 84 {
            acts.push(WAct::Repair { r });
        } else if x < 94 {
            acts.push(WAct::Clean);
        } else {
            acts.push(WAct::Wait);
        }
    }
    for r in 1..=3u8 {
        acts.push(WAct::RepairAll { r });
    }
    acts.push(WAct::Clean);
    WRunSpec { rel, tl, hist, frag, acts, shared: rng.gen_bool(0.4) }
}

pub fn random_specs(seed: u64, runs: usize, events: usize) -> Vec<WRunSpec> {
    let mut rng = StdRng::seed_from_u64(seed ^ 0x5157);
    (0..runs).map(|_| random_run(&mut rng, events)).collect()
}

/// C06 on the writer: readers 1 and 2 behave, peer 3 (matched in half of the runs) sends a hostile
/// class; afterwards the valid readers are served and the history is cleaned as before.
pub fn hostile_specs(seed: u64, runs: usize) -> Vec<WRunSpec> {
    let mut rng = StdRng::seed_from_u64(seed ^ 0xC06C);
    let classes = crate::hostile::writer_classes();
    let mut out = vec![];
    for k in 0..runs {
        let cls = classes[k % classes.len()];
        let matched = (k / classes.len()) % 2 == 0;
        let mut acts = vec![WAct::Match { r: 1, kind: "rel".into(), rtl: false, rdur: "unset".into() }];
        if matched {
            acts.push(WAct::Match { r: 3, kind: "rel".into(), rtl: false, rdur: "unset".into() });
        }
        let n = rng.gen_range(1..8);
        for _ in 0..n {
            acts.push(WAct::Write { single: 0, big: rng.gen_bool(0.2), ts: String::new() });
        }
        acts.push(WAct::Hostile { r: 3, cls: cls.to_string() });
        if matched {
            acts.push(WAct::Lose { r: 3 });
        }
        for _ in 0..rng.gen_range(1..5) {
            acts.push(WAct::Write { single: 0, big: false, ts: String::new() });
        }
        let last = n as i64 + 4;
        acts.push(WAct::AckNack { r: 1, base: 1, set: vec![1, 2], dst: String::new(), nbits: 0, dirty: false });
        acts.push(WAct::RepairAll { r: 1 });
        acts.push(WAct::AckNack { r: 1, base: last + 1, set: vec![], dst: String::new(), nbits: 0, dirty: false });
        acts.push(WAct::Clean);
        acts.push(WAct::Wait);
        acts.push(WAct::HBTick);
        out.push(WRunSpec { rel: true, tl: Some(true), hist: 2, frag: 64, acts, shared: false });
    }
    out
}
