//! `link` driver (C02, C05): a real reliable Writer and a real reliable Reader/DataReader exchange
//! datagrams through a harness-owned network with content-addressed faults (drop / duplicate /
//! swap-with-next).  After the scripted phase, fault-free rounds {heartbeat tick; deliver
//! everything; fire armed repair timers; deliver everything} are run and the convergence state is
//! logged after every round for Trace_RtpsLink.tla.

use std::collections::{HashMap, VecDeque};

use rand::{rngs::StdRng, Rng, SeedableRng};
use rustdds::verif::net::Sent;
use rustdds::verif::reader_rig::{ReaderCfg, ReaderRig};
use rustdds::verif::writer_rig::{WriterCfg, WriterRig};
use rustdds::ReadCondition;
use serde::{Deserialize, Serialize};
use serde_json::{json, Value};

use crate::wire::{self, Sub};
use crate::writer_drv::{value_of, WRITER_GUID};

#[derive(Clone, Debug, Serialize, Deserialize, PartialEq, Eq, Hash)]
pub struct Addr {
    pub dir: String,  // "wr" writer->reader, "rw" reader->writer
    pub k: String,    // DATA FRAG HB GAP ACKNACK NACKFRAG
    pub sn: i64,      // DATA/FRAG/NACKFRAG: sn; HB: last; GAP: start; ACKNACK: base
    pub f: u32,       // FRAG: fragment number, else 0
    pub occ: u32,     // n-th datagram of this run with the same (dir,k,sn,f), from 1
}

#[derive(Clone, Debug, Serialize, Deserialize)]
pub struct Fault {
    pub at: Addr,
    pub what: String, // "drop" | "dup" | "swap"
}

#[derive(Clone, Debug, Serialize, Deserialize)]
#[serde(tag = "a")]
pub enum LAct {
    /// key: a key-only sample (dispose by serialized key; `big`: a key longer than the fragment size)
    Write {
        big: bool,
        #[serde(default)]
        key: bool,
        /// > 0: a sample of exactly that many fragments (needs big)
        #[serde(default)]
        nf: usize,
    },
    /// the network is down while n samples are written: every pushed datagram is lost.  From a model with window
    /// size `win` the size comes as q windows + r; it is replayed at the window size of the code (256).
    Outage {
        n: usize,
        #[serde(default)]
        q: usize,
        #[serde(default)]
        r: usize,
    },
    /// heartbeat tick, then deliver everything in flight (faults apply), fire repair timers, deliver
    Round,
    /// cache cleaning on the writer
    Clean,
    /// the reader side loses its proxy of the writer and re-creates it; the writer keeps its proxy of the reader
    Rematch,
}

#[derive(Clone, Debug, Serialize, Deserialize)]
pub struct LRunSpec {
    /// 0 = KeepAll, d = KeepLast(d)
    pub hist: i32,
    pub frag: usize,
    pub acts: Vec<LAct>,
    pub faults: Vec<Fault>,
    /// fault-free rounds appended after the script
    pub rounds_after: usize,
    /// samples written before the reader is matched; the reader does not request history, so it is owed a GAP for them
    #[serde(default)]
    pub pre: usize,
    /// window size (sequence numbers one ACKNACK can span) of the model that generated the run; 0 / 256 = as the code
    #[serde(default)]
    pub win: usize,
    /// a slow link: before the k-th datagram writer -> reader is delivered, delays[k] milliseconds pass on the virtual
    /// clock behind `Timestamp::now()` (the last entry goes on for ever; empty = no time passes at all)
    #[serde(default)]
    pub delays: Vec<u32>,
}

/// numbers one ACKNACK / GAP bitmap can span (RTPS 8.3.5.5)
pub const WIN: usize = 256;

impl LRunSpec {
    /// size of an outage on the real link
    fn outage_size(&self, n: usize, q: usize, r: usize) -> usize {
        if self.win == 0 || self.win == WIN {
            n
        } else {
            // r = win-1 is "one short of a full window"; small remainders stay what they are
            q * WIN + if r + 1 == self.win { WIN - 1 } else { r }
        }
    }

    /// (model sn range, real sn range) per act that writes, for fault addresses of a scaled run
    fn sn_map(&self) -> Vec<(i64, i64, i64, i64)> {
        let (mut m, mut r) = (self.pre as i64, self.pre as i64);
        let mut out = vec![(1, m, 1, r)];
        for a in &self.acts {
            match a {
                LAct::Write { .. } => {
                    out.push((m + 1, m + 1, r + 1, r + 1));
                    m += 1;
                    r += 1;
                }
                LAct::Outage { n, q, r: rem } => {
                    let real = self.outage_size(*n, *q, *rem) as i64;
                    out.push((m + 1, m + *n as i64, r + 1, r + real));
                    m += *n as i64;
                    r += real;
                }
                _ => {}
            }
        }
        out.push((m + 1, m + 1_000_000, r + 1, r + 1_000_000));
        out
    }

    fn real_sn(map: &[(i64, i64, i64, i64)], sn: i64) -> i64 {
        for (ml, mh, rl, rh) in map {
            if sn >= *ml && sn <= *mh {
                // nearer end of the range keeps its distance
                return if sn - ml <= mh - sn { rl + (sn - ml) } else { rh - (mh - sn) };
            }
        }
        sn
    }
}

struct Link {
    w: WriterRig,
    r: ReaderRig,
    reader_guid: [u8; 16],
    wr: VecDeque<Vec<u8>>,
    rw: VecDeque<Vec<u8>>,
    faults: Vec<Fault>,
    seen: HashMap<(String, String, i64, u32), u32>,
    written: HashMap<i64, Vec<u8>>,
    kinds: HashMap<i64, &'static str>,
    outage: bool,
    delays: Vec<u32>,
    n_wr: usize,
    now_ms: u64,
    nfrags: HashMap<i64, u32>,
    handed: Vec<i64>,
    bytes_bad: Vec<i64>,
    frag: usize,
    pre: i64,
    round_traffic: Vec<String>,
    round_faults: u32,
    captured: Vec<Vec<u8>>,
    log: Vec<Value>,
}

fn primary(dir: &str, bytes: &[u8]) -> (String, i64, u32) {
    match wire::decode(bytes) {
        Err(_) => ("UNDECODABLE".into(), 0, 0),
        Ok(m) => {
            let mut best: Option<(String, i64, u32)> = None;
            for s in &m.subs {
                let c = match s {
                    Sub::Data { sn, .. } => Some(("DATA".to_string(), *sn, 0)),
                    Sub::DataFrag { sn, frag_start, .. } => Some(("FRAG".to_string(), *sn, *frag_start)),
                    Sub::Gap { start, .. } => Some(("GAP".to_string(), *start, 0)),
                    Sub::Heartbeat { last, .. } => Some(("HB".to_string(), *last, 0)),
                    Sub::AckNack { set, .. } => Some(("ACKNACK".to_string(), set.base, 0)),
                    Sub::NackFrag { sn, .. } => Some(("NACKFRAG".to_string(), *sn, 0)),
                    _ => None,
                };
                if let Some(c) = c {
                    // DATA / FRAG dominate a piggy-backed GAP or HB
                    let rank = |k: &str| match k {
                        "DATA" | "FRAG" => 0,
                        "GAP" => 1,
                        "NACKFRAG" => 1,
                        _ => 2,
                    };
                    if best.as_ref().map(|b| rank(&c.0) < rank(&b.0)).unwrap_or(true) {
                        best = Some(c);
                    }
                }
            }
            let _ = dir;
            best.unwrap_or(("OTHER".into(), 0, 0))
        }
    }
}

impl Link {
    fn enqueue(&mut self, dir: &str, sent: Vec<Sent>) {
        for s in sent {
            self.captured.push(s.bytes.clone());
            if dir == "wr" {
                self.wr.push_back(s.bytes)
            } else {
                self.rw.push_back(s.bytes)
            }
        }
    }

    /// pops one datagram of direction `dir`, applies its fault, delivers it
    fn deliver_one(&mut self, dir: &str) {
        let q = if dir == "wr" { &mut self.wr } else { &mut self.rw };
        let bytes = match q.pop_front() {
            Some(b) => b,
            None => return,
        };
        let (k, sn, f) = primary(dir, &bytes);
        if dir == "wr" && !self.delays.is_empty() {
            let d = self.delays[std::cmp::min(self.n_wr, self.delays.len() - 1)];
            self.n_wr += 1;
            self.now_ms += d as u64;
            rustdds::verif::clock::advance_ts_local(std::time::Duration::from_millis(d as u64));
        }
        let key = (dir.to_string(), k.clone(), sn, f);
        let occ = {
            let e = self.seen.entry(key).or_insert(0);
            *e += 1;
            *e
        };
        let at = Addr { dir: dir.into(), k: k.clone(), sn, f, occ };
        let fate = if self.outage { "drop".to_string() } else { self.faults.iter().find(|x| x.at == at).map(|x| x.what.clone()).unwrap_or_else(|| "ok".into()) };
        self.round_traffic.push(format!("{dir}:{k}"));
        if fate != "ok" {
            self.round_faults += 1;
        }
        let (size, fsz, plen) = match wire::decode(&bytes).ok().and_then(|m| m.subs.into_iter().find_map(|s| match s {
            Sub::DataFrag { sample_size, frag_size, payload, .. } => Some((sample_size as i64, frag_size as i64, payload.len() as i64)),
            _ => None,
        })) {
            Some(x) => x,
            None => (0, 0, 0),
        };
        self.log.push(json!({"ev":"Dgram","dir":dir,"k":k,"sn":sn,"f":f,"occ":occ,"fate":fate,"size":size,"fsz":fsz,"plen":plen,"t":self.now_ms}));
        match fate.as_str() {
            "drop" => {}
            "swap" => {
                // deliver the next datagram of this direction first (if any), then this one
                let q = if dir == "wr" { &mut self.wr } else { &mut self.rw };
                if q.is_empty() {
                    self.hand_over(dir, &bytes);
                } else {
                    q.insert(1, bytes);
                }
            }
            "dup" => {
                self.hand_over(dir, &bytes);
                self.hand_over(dir, &bytes);
            }
            _ => self.hand_over(dir, &bytes),
        }
    }

    fn hand_over(&mut self, dir: &str, bytes: &[u8]) {
        if dir == "wr" {
            let out = self.r.inject(bytes);
            self.enqueue("rw", out);
        } else {
            let out = self.w.receive(bytes);
            self.enqueue("wr", out);
        }
    }

    fn deliver_all(&mut self) {
        let mut n = 0;
        while (!self.wr.is_empty() || !self.rw.is_empty()) && n < 5000 + 8 * self.written.len() {
            if !self.wr.is_empty() {
                self.deliver_one("wr");
            } else {
                self.deliver_one("rw");
            }
            n += 1;
        }
    }

    fn fire_timers(&mut self) {
        let mut n = 0;
        loop {
            let p = self.w.proxy(self.reader_guid);
            if !(p.present && (p.repair_mode || p.frags_requested)) || n > 300 + 2 * self.written.len() {
                break;
            }
            if p.repair_mode {
                let out = self.w.fire_repair_data(self.reader_guid);
                self.enqueue("wr", out);
            }
            if self.w.proxy(self.reader_guid).frags_requested {
                let out = self.w.fire_repair_frags(self.reader_guid);
                self.enqueue("wr", out);
            }
            n += 1;
        }
    }

    fn take(&mut self) {
        if let Ok(v) = self.r.slots[0].dr().take(100_000, ReadCondition::any()) {
            for ds in v {
                let sn: i64 = ds.sample_info().sample_identity().sequence_number.into();
                self.handed.push(sn);
                if let rustdds::with_key::Sample::Value(v) = ds.value() {
                    // exact bytes: re-encode and compare with what was written
                    let enc = wire::vsample_payload(v.key, v.id, &v.body);
                    if self.written.get(&sn) != Some(&enc) {
                        self.bytes_bad.push(sn);
                    }
                }
            }
        }
    }

    /// What the Reader put into its history cache (TopicCache), compared with what was given to the Writer: kind and
    /// bytes including the encapsulation header.  This is where a key-only sample keeps all of its bytes (the
    /// DataReader turns it into a key value).  An unfragmented DATA payload may carry up to 3 bytes of padding.
    fn check_cache(&mut self) {
        for (sn, kind, bytes) in self.r.cache_entries(0, WRITER_GUID) {
            let want = match self.written.get(&sn) {
                Some(w) => w,
                None => continue,
            };
            let want_kind = self.kinds.get(&sn).copied().unwrap_or("data");
            let fragmented = self.nfrags.get(&sn).copied().unwrap_or(0) > 0;
            let same = if fragmented {
                bytes == *want
            } else {
                bytes.len() >= want.len() && bytes.len() < want.len() + 4 && bytes[..want.len()] == want[..] && bytes[want.len()..].iter().all(|b| *b == 0)
            };
            if !(same && kind == want_kind) && !self.bytes_bad.contains(&sn) {
                self.bytes_bad.push(sn);
            }
        }
    }

    /// one application write (a value, or a dispose by key) through the real command channel; what the writer pushes is queued
    fn write(&mut self, big: bool, key: bool, pre: bool, nf_req: usize) {
        let sn = self.written.len() as i64 + 1;
        if nf_req > 1 && !key {
            // a value of exactly nf_req fragments (total size with header: a short last fragment)
            let total = nf_req * self.frag - (sn as usize % (self.frag / 2));
            let body: Vec<u8> = (0..total - 16).map(|i| (i as u64 * 17 + sn as u64 * 3 + 1) as u8).collect();
            let full = wire::vsample_payload((sn % 3) as u32, 1000 + sn as u32, &body);
            let (_sn, sent) = self.w.write(full[4..].to_vec(), None, Some(5000 + sn as u32));
            self.nfrags.insert(sn, nf_req as u32);
            self.kinds.insert(sn, "data");
            self.written.insert(sn, full);
            self.log.push(json!({"ev":"Write","sn":sn,"big":true,"key":false,"nfrags":nf_req,"lost":self.outage}));
            self.enqueue("wr", sent);
            self.deliver_all();
            return;
        }
        let (full, sent) = if key {
            let k = key_of(sn, big, self.frag);
            let mut full = vec![0, 1, 0, 0];
            full.extend_from_slice(&k);
            let (_sn, sent) = self.w.write_dispose(k, Some(5000 + sn as u32));
            (full, sent)
        } else {
            let value = value_of(sn, big, self.frag);
            let mut full = vec![0, 1, 0, 0];
            full.extend_from_slice(&value);
            let (_sn, sent) = self.w.write(value, None, Some(5000 + sn as u32));
            (full, sent)
        };
        let nf = if full.len() > self.frag && !pre { ((full.len() + self.frag - 1) / self.frag) as u32 } else { 0 };
        self.nfrags.insert(sn, nf);
        self.kinds.insert(sn, if key { "key" } else { "data" });
        self.written.insert(sn, full);
        if pre {
            self.log.push(json!({"ev":"Write","sn":sn,"big":false,"nfrags":0,"pre":true}));
        } else {
            self.log.push(json!({"ev":"Write","sn":sn,"big":big,"key":key,"nfrags":nf,"lost":self.outage}));
        }
        self.enqueue("wr", sent);
        self.deliver_all();
    }

    fn round(&mut self, scripted: bool) {
        self.round_traffic.clear();
        self.round_faults = 0;
        let hb = self.w.heartbeat_tick();
        let hb_sent = !hb.is_empty();
        self.enqueue("wr", hb);
        self.deliver_all();
        self.fire_timers();
        self.deliver_all();
        self.take();
        self.check_cache();
        let p = self.w.proxy(self.reader_guid);
        let (first, last) = self.w.first_last();
        let _ = first;
        let whist = self.w.history_sns();
        // what the reader is owed and has not been handed (samples from before the match are not owed)
        let pre = self.pre;
        let missing: Vec<i64> = whist.iter().copied().filter(|s| *s > pre && !self.handed.contains(s)).collect();
        let partial: Vec<i64> = vec![];
        let _ = partial;
        self.log.push(json!({
            "ev":"Round","scripted":scripted,"faults":self.round_faults,"traffic":self.round_traffic,"hb":hb_sent,
            "whist":whist,"last":last,"handed":self.handed,"missing":missing,"acked":p.all_acked_before,
            "unsent":p.unsent,"bytes_bad":self.bytes_bad,
        }));
    }
}

/// serialized key (without encapsulation header) of a key-only sample: the u32 key of VSample, and for a key that has
/// to be fragmented position-dependent bytes after it (what a key holding a long string looks like); total sizes
/// (with the header) around multiples of the fragment size, among them remainders of 1..4 bytes
pub fn key_of(sn: i64, big: bool, frag: usize) -> Vec<u8> {
    let mut k = ((sn % 3) as u32).to_le_bytes().to_vec();
    if big {
        let total = [2 * frag + 1, 2 * frag + 4, 3 * frag, 2 * frag + frag / 2, frag + 2, 3 * frag - 1, 4 * frag + 3, 2 * frag][sn as usize % 8];
        k.extend((0..total - 8).map(|i| (i as u64 * 13 + sn as u64 * 5 + 1) as u8));
    }
    k
}

pub fn run_one(run_no: usize, spec: &LRunSpec, out: &mut Vec<Value>) -> Vec<Vec<u8>> {
    let wcfg = WriterCfg { reliable: true, history: if spec.hist == 0 { Some(None) } else { Some(Some(spec.hist)) }, transient_local: Some(true), frag_size: Some(spec.frag) };
    let w = WriterRig::new(&wcfg, WRITER_GUID);
    let r = ReaderRig::new(&[ReaderCfg { reliable: true, history_depth: None, max_samples: Some(1_000_000) }]);
    let mut reader_guid = [0u8; 16];
    reader_guid[0..12].copy_from_slice(&r.own_prefix);
    reader_guid[12..16].copy_from_slice(&r.slots[0].entity_id);
    // fault addresses of a run generated at another window size: sequence numbers carried over to the real numbering
    let mut faults = spec.faults.clone();
    if spec.win != 0 && spec.win != WIN {
        let map = spec.sn_map();
        for f in faults.iter_mut() {
            f.at.sn = LRunSpec::real_sn(&map, f.at.sn);
        }
    }
    let mut l = Link {
        w, r, reader_guid, wr: VecDeque::new(), rw: VecDeque::new(), faults, seen: HashMap::new(),
        written: HashMap::new(), kinds: HashMap::new(), outage: false, delays: spec.delays.clone(), n_wr: 0, now_ms: 0, nfrags: HashMap::new(), handed: vec![], bytes_bad: vec![], frag: spec.frag, pre: 0,
        round_traffic: vec![], round_faults: 0, captured: vec![], log: vec![],
    };
    rustdds::verif::clock::reset_ts_local();
    l.log.push(json!({"ev":"Reset","run":run_no,"hist":spec.hist,"frag":spec.frag,"pre":spec.pre}));
    // the writer's life before the match: nobody to send to
    for _ in 0..spec.pre {
        l.write(false, false, true, 0);
    }
    l.pre = spec.pre as i64;
    l.w.match_reader(reader_guid, true, 21_001);
    l.r.match_writer(0, WRITER_GUID, true, 21_900);
    for a in &spec.acts {
        match a {
            LAct::Write { big, key, nf } => l.write(*big, *key, false, *nf),
            LAct::Outage { n, q, r } => {
                l.outage = true;
                for _ in 0..spec.outage_size(*n, *q, *r) {
                    l.write(false, false, false, 0);
                }
                l.outage = false;
            }
            LAct::Round => l.round(true),
            LAct::Clean => {
                l.w.cache_clean();
                l.log.push(json!({"ev":"Clean","whist":l.w.history_sns()}));
            }
            LAct::Rematch => {
                l.r.unmatch_writer(0, WRITER_GUID);
                l.r.match_writer(0, WRITER_GUID, true, 21_900);
                l.log.push(json!({"ev":"Rematch","handed":l.handed.len()}));
            }
        }
    }
    // "a bounded number of rounds": one more for every full window of numbers (see KB in RtpsLink.tla)
    for _ in 0..spec.rounds_after + l.written.len() / WIN {
        l.round(false);
    }
    rustdds::verif::clock::reset_ts_local();
    out.append(&mut l.log);
    std::mem::take(&mut l.captured)
}

pub fn random_run(rng: &mut StdRng, rng2: &mut StdRng, n_events: usize) -> LRunSpec {
    let frag = [64usize, 64, 48, 1024][rng.gen_range(0..4)];
    let hist = if rng.gen_bool(0.7) { 0 } else { rng.gen_range(1..6) };
    let mut acts = vec![];
    let mut faults = vec![];
    let mut sn = 0i64;
    for _ in 0..n_events {
        let x = rng.gen_range(0..100);
        if x < 60 {
            let big = rng.gen_bool(0.3);
            // (second generator: the key-only dimension was added later and leaves the other choices as they were)
            acts.push(LAct::Write { big, key: rng2.gen_bool(0.2), nf: 0 });
            sn += 1;
            // faults on the push of this sample
            if big {
                for f in 1..=5u32 {
                    if rng.gen_bool(0.25) {
                        let occs = rng.gen_range(1..=3);
                        for occ in 1..=occs {
                            faults.push(Fault { at: Addr { dir: "wr".into(), k: "FRAG".into(), sn, f, occ }, what: if rng.gen_bool(0.8) { "drop".into() } else { "dup".into() } });
                        }
                    }
                }
            } else if rng.gen_bool(0.3) {
                let occs = rng.gen_range(1..=2);
                for occ in 1..=occs {
                    faults.push(Fault { at: Addr { dir: "wr".into(), k: "DATA".into(), sn, f: 0, occ }, what: ["drop", "drop", "dup", "swap"][rng.gen_range(0..4)].into() });
                }
            }
            if rng.gen_bool(0.1) {
                faults.push(Fault { at: Addr { dir: "wr".into(), k: "HB".into(), sn, f: 0, occ: 1 }, what: "drop".into() });
            }
        } else if x < 90 {
            acts.push(LAct::Round);
            if rng.gen_bool(0.2) {
                faults.push(Fault { at: Addr { dir: "rw".into(), k: "ACKNACK".into(), sn: rng.gen_range(1..=sn + 1), f: 0, occ: rng.gen_range(1..3) }, what: "drop".into() });
            }
        } else if x < 97 {
            acts.push(LAct::Clean);
        } else {
            acts.push(LAct::Rematch);
        }
    }
    // a third of the runs: a late joiner that is not owed the first samples
    let pre = if rng.gen_bool(0.33) { rng.gen_range(1..5) } else { 0 };
    if pre > 0 {
        acts.retain(|a| !matches!(a, LAct::Rematch));
        // sequence numbers in the fault addresses refer to the samples written after the match
        for f in faults.iter_mut() {
            if f.at.k != "ACKNACK" {
                f.at.sn += pre as i64;
            }
        }
        // and the GAP the joiner is owed may be lost or duplicated as well
        if rng.gen_bool(0.5) {
            faults.push(Fault { at: Addr { dir: "wr".into(), k: "GAP".into(), sn: 1, f: 0, occ: rng.gen_range(1..3) }, what: if rng.gen_bool(0.7) { "drop".into() } else { "dup".into() } });
        }
    }
    LRunSpec { hist, frag, acts, faults, rounds_after: 7, pre, win: 0, delays: vec![] }
}

/// Long runs, far beyond the bound of the model: hundreds of samples, with loss patterns whose extent is around the
/// number of sequence numbers one ACKNACK can name (WIN = 256): an outage of about one, two or more windows, or two lost
/// samples (and some in between) exactly WIN-1 / WIN / WIN+1 apart.  Judged by the same convergence clause.
pub fn random_long_run(rng: &mut StdRng) -> LRunSpec {
    let frag = [64usize, 1024][rng.gen_range(0..2)];
    let mut acts = vec![];
    let mut faults = vec![];
    let mut sn = 0i64;
    let pre = if rng.gen_bool(0.25) { [3usize, 255, 256, 257, 300][rng.gen_range(0..5)] } else { 0 };
    let drop = |faults: &mut Vec<Fault>, k: &str, sn: i64, f: u32, occ: u32| faults.push(Fault { at: Addr { dir: "wr".into(), k: k.into(), sn, f, occ }, what: "drop".into() });
    // some samples get through first (and are acknowledged)
    for _ in 0..rng.gen_range(0..3) {
        acts.push(LAct::Write { big: rng.gen_bool(0.2), key: rng.gen_bool(0.2), nf: 0 });
        sn += 1;
    }
    if sn > 0 && rng.gen_bool(0.7) {
        acts.push(LAct::Round);
    }
    let around = |rng: &mut StdRng| -> usize {
        let w = [1usize, 1, 1, 2, 2, 3][rng.gen_range(0..6)] * WIN;
        (w as i64 + [-2i64, -1, 0, 0, 1, 2, 44][rng.gen_range(0..7)]) as usize
    };
    match rng.gen_range(0..3) {
        0 => {
            // outage
            let n = around(rng);
            acts.push(LAct::Outage { n, q: 0, r: 0 });
            sn += n as i64;
        }
        1 => {
            // the first and the last sample of a stretch are lost (and a few in between), the others arrive
            let n = around(rng);
            for i in 0..n {
                let big = rng.gen_bool(0.02);
                acts.push(LAct::Write { big, key: rng.gen_bool(0.05), nf: 0 });
                sn += 1;
                if i == 0 || i == n - 1 || rng.gen_bool(0.02) {
                    if big {
                        drop(&mut faults, "FRAG", sn + pre as i64, rng.gen_range(1..=2), 1);
                    } else {
                        drop(&mut faults, "DATA", sn + pre as i64, 0, 1);
                    }
                }
            }
        }
        _ => {
            // a long stretch with sparse random loss (every datagram of the push may be lost), in between a short outage
            let n = around(rng);
            let p = [0.01, 0.05, 0.3][rng.gen_range(0..3)];
            for i in 0..n {
                acts.push(LAct::Write { big: false, key: rng.gen_bool(0.05), nf: 0 });
                sn += 1;
                if rng.gen_bool(p) {
                    drop(&mut faults, "DATA", sn + pre as i64, 0, 1);
                }
                if i == n / 2 && rng.gen_bool(0.5) {
                    let m = rng.gen_range(1..40);
                    acts.push(LAct::Outage { n: m, q: 0, r: 0 });
                    sn += m as i64;
                }
            }
        }
    }
    // the reader side forgets the writer and has to ask for everything again, window by window
    if pre == 0 && rng.gen_bool(0.25) {
        if rng.gen_bool(0.5) {
            acts.push(LAct::Round);
        }
        acts.push(LAct::Rematch);
    }
    // repair rounds with some more loss
    for _ in 0..rng.gen_range(0..3) {
        acts.push(LAct::Round);
        if rng.gen_bool(0.4) {
            let at = rng.gen_range(1..=sn) + pre as i64;
            drop(&mut faults, "DATA", at, 0, 2);
        }
        if rng.gen_bool(0.3) {
            faults.push(Fault { at: Addr { dir: "rw".into(), k: "ACKNACK".into(), sn: rng.gen_range(1..=sn + 1) + pre as i64, f: 0, occ: rng.gen_range(1..3) }, what: "drop".into() });
        }
    }
    if rng.gen_bool(0.2) {
        acts.push(LAct::Clean);
    }
    LRunSpec { hist: 0, frag, acts, faults, rounds_after: 7, pre, win: 0, delays: vec![] }
}

/// A slow link: samples of 2..7 fragments whose datagrams arrive seconds apart (never 9 s or more between two
/// datagrams, so an assembly in progress is never stale), with some loss and duplication, so that assemblies live long.
pub fn random_slow_run(rng: &mut StdRng) -> LRunSpec {
    let frag = [64usize, 48][rng.gen_range(0..2)];
    let mut acts = vec![];
    let mut faults = vec![];
    let n = rng.gen_range(1..4);
    for sn in 1..=n {
        let nf = rng.gen_range(2..8usize);
        acts.push(LAct::Write { big: true, key: false, nf });
        for f in 1..=nf as u32 {
            if rng.gen_bool(0.1) {
                faults.push(Fault { at: Addr { dir: "wr".into(), k: "FRAG".into(), sn, f, occ: 1 }, what: if rng.gen_bool(0.6) { "drop".into() } else { "dup".into() } });
            }
        }
        if rng.gen_bool(0.3) {
            acts.push(LAct::Write { big: false, key: false, nf: 0 });
            break;
        }
    }
    let base = [500u32, 1500, 2500, 4000, 6000, 8500][rng.gen_range(0..6)];
    let delays: Vec<u32> = (0..rng.gen_range(1..12)).map(|_| if rng.gen_bool(0.7) { base } else { rng.gen_range(0..8900) }).collect();
    LRunSpec { hist: 0, frag, acts, faults, rounds_after: 7, pre: 0, win: 0, delays }
}

pub fn random_specs_opt(opt: &HashMap<String, String>) -> Vec<LRunSpec> {
    let mut specs = random_specs(crate::util::get(opt, "seed", 1), crate::util::get(opt, "runs", 100), crate::util::get(opt, "events", 30));
    // scenarios enumerated by TLC from another module (FragAging.tla), executed with the random runs
    if let Some(p) = opt.get("extra") {
        let extra: Vec<LRunSpec> = crate::util::read_jsonl(p);
        specs.extend(extra);
    }
    specs
}

pub fn random_specs(seed: u64, runs: usize, events: usize) -> Vec<LRunSpec> {
    let mut rng = StdRng::seed_from_u64(seed ^ 0x11AC);
    let mut rng2 = StdRng::seed_from_u64(seed ^ 0x4B45_59);
    let mut specs: Vec<LRunSpec> = (0..runs).map(|_| random_run(&mut rng, &mut rng2, events)).collect();
    // one long run per 16 ordinary ones (at least 8)
    let mut rng3 = StdRng::seed_from_u64(seed ^ 0x10_46);
    let n_long = std::cmp::max(8, runs / 16);
    let long: Vec<LRunSpec> = (0..n_long).map(|_| random_long_run(&mut rng3)).collect();
    // spread them over the worker threads
    let step = std::cmp::max(1, specs.len() / n_long);
    for (i, l) in long.into_iter().enumerate() {
        let at = std::cmp::min(specs.len(), i * step + i);
        specs.insert(at, l);
    }
    // slow links: one per 8 ordinary runs
    let mut rng4 = StdRng::seed_from_u64(seed ^ 0x5_10_77);
    for _ in 0..std::cmp::max(8, runs / 8) {
        specs.push(random_slow_run(&mut rng4));
    }
    specs
}
