//! `link` driver (C02, C05): a real reliable Writer and a real reliable Reader/DataReader exchange
//! datagrams through a harness-owned network with content-addressed faults (drop / duplicate /
//! swap-with-next).  After the scripted phase, fault-free rounds {heartbeat tick; deliver
//! everything; fire armed repair timers; deliver everything} are run and the convergence state is
//! logged after every round for Trace_RtpsLink.tla.

use std::collections::{HashMap, VecDeque};

use rand::{rngs::StdRng, Rng, SeedableRng};
use rustdds::verif::net::Sent;
use rustdds::verif::reader_rig::{ReaderCfg, ReaderRig};
use rustdds::verif::writer_rig::{WriterCfg, WriterRig};
use rustdds::ReadCondition;
use serde::{Deserialize, Serialize};
use serde_json::{json, Value};

use crate::wire::{self, Sub};
use crate::writer_drv::{value_of, WRITER_GUID};

#[derive(Clone, Debug, Serialize, Deserialize, PartialEq, Eq, Hash)]
pub struct Addr {
    pub dir: String,  // "wr" writer->reader, "rw" reader->writer
    pub k: String,    // DATA FRAG HB GAP ACKNACK NACKFRAG
    pub sn: i64,      // DATA/FRAG/NACKFRAG: sn; HB: last; GAP: start; ACKNACK: base
    pub f: u32,       // FRAG: fragment number, else 0
    pub occ: u32,     // n-th datagram of this run with the same (dir,k,sn,f), from 1
}

#[derive(Clone, Debug, Serialize, Deserialize)]
pub struct Fault {
    pub at: Addr,
    pub what: String, // "drop" | "dup" | "swap"
}

#[derive(Clone, Debug, Serialize, Deserialize)]
#[serde(tag = "a")]
pub enum LAct {
    Write { big: bool },
    /// heartbeat tick, then deliver everything in flight (faults apply), fire repair timers, deliver
    Round,
    /// cache cleaning on the writer
    Clean,
    /// the reader side loses its proxy of the writer and re-creates it; the writer keeps its proxy of the reader
    Rematch,
}

#[derive(Clone, Debug, Serialize, Deserialize)]
pub struct LRunSpec {
    /// 0 = KeepAll, d = KeepLast(d)
    pub hist: i32,
    pub frag: usize,
    pub acts: Vec<LAct>,
    pub faults: Vec<Fault>,
    /// fault-free rounds appended after the script
    pub rounds_after: usize,
    /// samples written before the reader is matched; the reader does not request history, so it is owed a GAP for them
    #[serde(default)]
    pub pre: usize,
}

struct Link {
    w: WriterRig,
    r: ReaderRig,
    reader_guid: [u8; 16],
    wr: VecDeque<Vec<u8>>,
    rw: VecDeque<Vec<u8>>,
    faults: Vec<Fault>,
    seen: HashMap<(String, String, i64, u32), u32>,
    written: HashMap<i64, Vec<u8>>,
    nfrags: HashMap<i64, u32>,
    handed: Vec<i64>,
    bytes_bad: Vec<i64>,
    frag: usize,
    pre: i64,
    round_traffic: Vec<String>,
    round_faults: u32,
    captured: Vec<Vec<u8>>,
    log: Vec<Value>,
}

fn primary(dir: &str, bytes: &[u8]) -> (String, i64, u32) {
    match wire::decode(bytes) {
        Err(_) => ("UNDECODABLE".into(), 0, 0),
        Ok(m) => {
            let mut best: Option<(String, i64, u32)> = None;
            for s in &m.subs {
                let c = match s {
                    Sub::Data { sn, .. } => Some(("DATA".to_string(), *sn, 0)),
                    Sub::DataFrag { sn, frag_start, .. } => Some(("FRAG".to_string(), *sn, *frag_start)),
                    Sub::Gap { start, .. } => Some(("GAP".to_string(), *start, 0)),
                    Sub::Heartbeat { last, .. } => Some(("HB".to_string(), *last, 0)),
                    Sub::AckNack { set, .. } => Some(("ACKNACK".to_string(), set.base, 0)),
                    Sub::NackFrag { sn, .. } => Some(("NACKFRAG".to_string(), *sn, 0)),
                    _ => None,
                };
                if let Some(c) = c {
                    // DATA / FRAG dominate a piggy-backed GAP or HB
                    let rank = |k: &str| match k {
                        "DATA" | "FRAG" => 0,
                        "GAP" => 1,
                        "NACKFRAG" => 1,
                        _ => 2,
                    };
                    if best.as_ref().map(|b| rank(&c.0) < rank(&b.0)).unwrap_or(true) {
                        best = Some(c);
                    }
                }
            }
            let _ = dir;
            best.unwrap_or(("OTHER".into(), 0, 0))
        }
    }
}

impl Link {
    fn enqueue(&mut self, dir: &str, sent: Vec<Sent>) {
        for s in sent {
            self.captured.push(s.bytes.clone());
            if dir == "wr" {
                self.wr.push_back(s.bytes)
            } else {
                self.rw.push_back(s.bytes)
            }
        }
    }

    /// pops one datagram of direction `dir`, applies its fault, delivers it
    fn deliver_one(&mut self, dir: &str) {
        let q = if dir == "wr" { &mut self.wr } else { &mut self.rw };
        let bytes = match q.pop_front() {
            Some(b) => b,
            None => return,
        };
        let (k, sn, f) = primary(dir, &bytes);
        let key = (dir.to_string(), k.clone(), sn, f);
        let occ = {
            let e = self.seen.entry(key).or_insert(0);
            *e += 1;
            *e
        };
        let at = Addr { dir: dir.into(), k: k.clone(), sn, f, occ };
        let fate = self.faults.iter().find(|x| x.at == at).map(|x| x.what.clone()).unwrap_or_else(|| "ok".into());
        self.round_traffic.push(format!("{dir}:{k}"));
        if fate != "ok" {
            self.round_faults += 1;
        }
        let (size, fsz, plen) = match wire::decode(&bytes).ok().and_then(|m| m.subs.into_iter().find_map(|s| match s {
            Sub::DataFrag { sample_size, frag_size, payload, .. } => Some((sample_size as i64, frag_size as i64, payload.len() as i64)),
            _ => None,
        })) {
            Some(x) => x,
            None => (0, 0, 0),
        };
        self.log.push(json!({"ev":"Dgram","dir":dir,"k":k,"sn":sn,"f":f,"occ":occ,"fate":fate,"size":size,"fsz":fsz,"plen":plen}));
        match fate.as_str() {
            "drop" => {}
            "swap" => {
                // deliver the next datagram of this direction first (if any), then this one
                let q = if dir == "wr" { &mut self.wr } else { &mut self.rw };
                if q.is_empty() {
                    self.hand_over(dir, &bytes);
                } else {
                    q.insert(1, bytes);
                }
            }
            "dup" => {
                self.hand_over(dir, &bytes);
                self.hand_over(dir, &bytes);
            }
            _ => self.hand_over(dir, &bytes),
        }
    }

    fn hand_over(&mut self, dir: &str, bytes: &[u8]) {
        if dir == "wr" {
            let out = self.r.inject(bytes);
            self.enqueue("rw", out);
        } else {
            let out = self.w.receive(bytes);
            self.enqueue("wr", out);
        }
    }

    fn deliver_all(&mut self) {
        let mut n = 0;
        while (!self.wr.is_empty() || !self.rw.is_empty()) && n < 5000 {
            if !self.wr.is_empty() {
                self.deliver_one("wr");
            } else {
                self.deliver_one("rw");
            }
            n += 1;
        }
    }

    fn fire_timers(&mut self) {
        let mut n = 0;
        loop {
            let p = self.w.proxy(self.reader_guid);
            if !(p.present && (p.repair_mode || p.frags_requested)) || n > 300 {
                break;
            }
            if p.repair_mode {
                let out = self.w.fire_repair_data(self.reader_guid);
                self.enqueue("wr", out);
            }
            if self.w.proxy(self.reader_guid).frags_requested {
                let out = self.w.fire_repair_frags(self.reader_guid);
                self.enqueue("wr", out);
            }
            n += 1;
        }
    }

    fn take(&mut self) {
        if let Ok(v) = self.r.slots[0].dr().take(100_000, ReadCondition::any()) {
            for ds in v {
                let sn: i64 = ds.sample_info().sample_identity().sequence_number.into();
                self.handed.push(sn);
                if let rustdds::with_key::Sample::Value(v) = ds.value() {
                    // exact bytes: re-encode and compare with what was written
                    let enc = wire::vsample_payload(v.key, v.id, &v.body);
                    if self.written.get(&sn) != Some(&enc) {
                        self.bytes_bad.push(sn);
                    }
                }
            }
        }
    }

    fn round(&mut self, scripted: bool) {
        self.round_traffic.clear();
        self.round_faults = 0;
        let hb = self.w.heartbeat_tick();
        let hb_sent = !hb.is_empty();
        self.enqueue("wr", hb);
        self.deliver_all();
        self.fire_timers();
        self.deliver_all();
        self.take();
        let p = self.w.proxy(self.reader_guid);
        let (first, last) = self.w.first_last();
        let _ = first;
        let whist = self.w.history_sns();
        // what the reader is owed and has not been handed (samples from before the match are not owed)
        let pre = self.pre;
        let missing: Vec<i64> = whist.iter().copied().filter(|s| *s > pre && !self.handed.contains(s)).collect();
        let partial: Vec<i64> = vec![];
        let _ = partial;
        self.log.push(json!({
            "ev":"Round","scripted":scripted,"faults":self.round_faults,"traffic":self.round_traffic,"hb":hb_sent,
            "whist":whist,"last":last,"handed":self.handed,"missing":missing,"acked":p.all_acked_before,
            "unsent":p.unsent,"bytes_bad":self.bytes_bad,
        }));
    }
}

pub fn run_one(run_no: usize, spec: &LRunSpec, out: &mut Vec<Value>) -> Vec<Vec<u8>> {
    let wcfg = WriterCfg { reliable: true, history: if spec.hist == 0 { Some(None) } else { Some(Some(spec.hist)) }, transient_local: Some(true), frag_size: Some(spec.frag) };
    let w = WriterRig::new(&wcfg, WRITER_GUID);
    let r = ReaderRig::new(&[ReaderCfg { reliable: true, history_depth: None, max_samples: Some(1_000_000) }]);
    let mut reader_guid = [0u8; 16];
    reader_guid[0..12].copy_from_slice(&r.own_prefix);
    reader_guid[12..16].copy_from_slice(&r.slots[0].entity_id);
    let mut l = Link {
        w, r, reader_guid, wr: VecDeque::new(), rw: VecDeque::new(), faults: spec.faults.clone(), seen: HashMap::new(),
        written: HashMap::new(), nfrags: HashMap::new(), handed: vec![], bytes_bad: vec![], frag: spec.frag, pre: 0,
        round_traffic: vec![], round_faults: 0, captured: vec![], log: vec![],
    };
    l.log.push(json!({"ev":"Reset","run":run_no,"hist":spec.hist,"frag":spec.frag,"pre":spec.pre}));
    // the writer's life before the match: nobody to send to
    for _ in 0..spec.pre {
        let sn = l.written.len() as i64 + 1;
        let value = value_of(sn, false, l.frag);
        let mut full = vec![0, 1, 0, 0];
        full.extend_from_slice(&value);
        l.nfrags.insert(sn, 0);
        l.written.insert(sn, full);
        let (_sn, sent) = l.w.write(value, None, Some(5000 + sn as u32));
        l.log.push(json!({"ev":"Write","sn":sn,"big":false,"nfrags":0,"pre":true}));
        l.enqueue("wr", sent);
        l.deliver_all();
    }
    l.pre = spec.pre as i64;
    l.w.match_reader(reader_guid, true, 21_001);
    l.r.match_writer(0, WRITER_GUID, true, 21_900);
    for a in &spec.acts {
        match a {
            LAct::Write { big } => {
                let sn = l.written.len() as i64 + 1;
                let value = value_of(sn, *big, l.frag);
                let mut full = vec![0, 1, 0, 0];
                full.extend_from_slice(&value);
                let nf = if full.len() > l.frag { ((full.len() + l.frag - 1) / l.frag) as u32 } else { 0 };
                l.nfrags.insert(sn, nf);
                l.written.insert(sn, full);
                let (_sn, sent) = l.w.write(value, None, Some(5000 + sn as u32));
                l.log.push(json!({"ev":"Write","sn":sn,"big":big,"nfrags":nf}));
                l.enqueue("wr", sent);
                l.deliver_all();
            }
            LAct::Round => l.round(true),
            LAct::Clean => {
                l.w.cache_clean();
                l.log.push(json!({"ev":"Clean","whist":l.w.history_sns()}));
            }
            LAct::Rematch => {
                l.r.unmatch_writer(0, WRITER_GUID);
                l.r.match_writer(0, WRITER_GUID, true, 21_900);
                l.log.push(json!({"ev":"Rematch","handed":l.handed.len()}));
            }
        }
    }
    for _ in 0..spec.rounds_after {
        l.round(false);
    }
    out.append(&mut l.log);
    std::mem::take(&mut l.captured)
}

pub fn random_run(rng: &mut StdRng, n_events: usize) -> LRunSpec {
    let frag = [64usize, 64, 48, 1024][rng.gen_range(0..4)];
    let hist = if rng.gen_bool(0.7) { 0 } else { rng.gen_range(1..6) };
    let mut acts = vec![];
    let mut faults = vec![];
    let mut sn = 0i64;
    for _ in 0..n_events {
        let x = rng.gen_range(0..100);
        if x < 60 {
            let big = rng.gen_bool(0.3);
            acts.push(LAct::Write { big });
            sn += 1;
            // faults on the push of this sample
            if big {
                for f in 1..=5u32 {
                    if rng.gen_bool(0.25) {
                        let occs = rng.gen_range(1..=3);
                        for occ in 1..=occs {
                            faults.push(Fault { at: Addr { dir: "wr".into(), k: "FRAG".into(), sn, f, occ }, what: if rng.gen_bool(0.8) { "drop".into() } else { "dup".into() } });
                        }
                    }
                }
            } else if rng.gen_bool(0.3) {
                let occs = rng.gen_range(1..=2);
                for occ in 1..=occs {
                    faults.push(Fault { at: Addr { dir: "wr".into(), k: "DATA".into(), sn, f: 0, occ }, what: ["drop", "drop", "dup", "swap"][rng.gen_range(0..4)].into() });
                }
            }
            if rng.gen_bool(0.1) {
                faults.push(Fault { at: Addr { dir: "wr".into(), k: "HB".into(), sn, f: 0, occ: 1 }, what: "drop".into() });
            }
        } else if x < 90 {
            acts.push(LAct::Round);
            if rng.gen_bool(0.2) {
                faults.push(Fault { at: Addr { dir: "rw".into(), k: "ACKNACK".into(), sn: rng.gen_range(1..=sn + 1), f: 0, occ: rng.gen_range(1..3) }, what: "drop".into() });
            }
        } else if x < 97 {
            acts.push(LAct::Clean);
        } else {
            acts.push(LAct::Rematch);
        }
    }
    // a third of the runs: a late joiner that is not owed the first samples
    let pre = if rng.gen_bool(0.33) { rng.gen_range(1..5) } else { 0 };
    if pre > 0 {
        acts.retain(|a| !matches!(a, LAct::Rematch));
        // sequence numbers in the fault addresses refer to the samples written after the match
        for f in faults.iter_mut() {
            if f.at.k != "ACKNACK" {
                f.at.sn += pre as i64;
            }
        }
        // and the GAP the joiner is owed may be lost or duplicated as well
        if rng.gen_bool(0.5) {
            faults.push(Fault { at: Addr { dir: "wr".into(), k: "GAP".into(), sn: 1, f: 0, occ: rng.gen_range(1..3) }, what: if rng.gen_bool(0.7) { "drop".into() } else { "dup".into() } });
        }
    }
    LRunSpec { hist, frag, acts, faults, rounds_after: 7, pre }
}

pub fn random_specs(seed: u64, runs: usize, events: usize) -> Vec<LRunSpec> {
    let mut rng = StdRng::seed_from_u64(seed ^ 0x11AC);
    (0..runs).map(|_| random_run(&mut rng, events)).collect()
}
