//! `crypto` driver (C16): action lists executed against 3 real `CryptographicBuiltin` instances
//! (rustdds::verif::crypto_rig).  A symbolic `Decode` with tamper class t is refined here by EVERY
//! byte (every bit for MACs) of the corresponding field of the serialized RTPS message; the
//! outcome classes of all these concrete decodes are counted in one trace event.
//!
//! Strengthening round: a key id is also overwritten with the id of ANOTHER existing key (classes
//! keyid_sib / _ent / _rs / _peer / _own / _zero of CryptoAbs.tla); the concrete ids come from the
//! rig's key inventory (`CryptoRig::key_ids`) and from the MAC entries on the wire.  A substitution
//! that would not change the bytes (same key material at both levels) is not an alteration: skipped.
//!
//! Second strengthening round: a plugin listed in `eps2` owns a SECOND endpoint (entity id p + 10,
//! `crypto_rig::EP2`) of the same kind and attributes, matched with the same remote endpoint.  At
//! the endpoint levels the q / d / r / members of `to` of an action are entity ids; every entity
//! decodes for itself (at submessage level: is the endpoint of THIS entity among the local endpoints
//! the one decode_submessage call of its participant releases the submessage to).
//!
//! modes:  replay --in specs.jsonl   (behaviours dumped by TLC from CryptoKeys.tla)
//!         random --seed --runs      (systematic sweep level x kind x OA x key length x direction x
//!                                    payload lengths 0..67, random registration orders / omissions /
//!                                    stray tokens, all receivers, all tamper classes)

use std::collections::HashMap;
use std::panic::{catch_unwind, AssertUnwindSafe};

use rand::{rngs::StdRng, seq::SliceRandom, Rng, SeedableRng};
use rustdds::verif::crypto_rig::{CryptoRig, Encoded, KeyIds, LocalCfg, Outcome, EP2};
use serde::{Deserialize, Serialize};
use serde_json::{json, Value};

use crate::util;

#[derive(Clone, Debug, Serialize, Deserialize)]
pub struct Cfg {
    pub lvl: String,  // payload | submsg | msg
    pub kind: String, // gmac | gcm
    pub oa: bool,
    pub k256: bool,
    pub dir: String, // w2r | r2w
    #[serde(default, skip_serializing_if = "Option::is_none")]
    pub other: Option<String>, // protection of the endpoint level not under test: same | none | diff
}

#[derive(Clone, Debug, Serialize, Deserialize, Default)]
pub struct Act {
    pub a: String,
    #[serde(default)]
    pub p: usize,
    #[serde(default)]
    pub q: usize,
    #[serde(default)]
    pub d: usize,
    #[serde(default)]
    pub r: usize,
    #[serde(default)]
    pub s: usize,
    #[serde(default)]
    pub c: usize,
    #[serde(default)]
    pub t: String,
    #[serde(default)]
    pub to: Vec<usize>,
    #[serde(default)]
    pub frame: String,
    #[serde(default)]
    pub al: bool,
    #[serde(default, skip_serializing_if = "Option::is_none")]
    pub len: Option<usize>,
    #[serde(default, skip_serializing_if = "Option::is_none")]
    pub expect: Option<String>,
}

#[derive(Clone, Debug, Serialize, Deserialize)]
pub struct RunSpec {
    pub cfg: Cfg,
    pub senders: Vec<usize>,
    /// plugins that own a second endpoint (entity id p + EP2)
    #[serde(default)]
    pub eps2: Vec<usize>,
    pub acts: Vec<Act>,
}

fn lvl_no(l: &str) -> u8 {
    match l {
        "payload" => 0,
        "submsg" => 1,
        _ => 2,
    }
}
fn frame_no(f: &str) -> u8 {
    match f {
        "data" => 0,
        "frag" => 1,
        _ => 2,
    }
}

fn local_cfg(cfg: &Cfg, senders: &[usize], p: usize, k: usize) -> LocalCfg {
    let kind = if cfg.kind == "gcm" { 2 } else { 1 };
    let other = cfg.other.clone().unwrap_or_else(|| ["same", "none", "diff"][k % 3].to_string());
    let okind = match other.as_str() {
        "same" => kind,
        "none" => 0,
        _ => 3 - kind,
    };
    let writer = senders.contains(&(p % EP2)) == (cfg.dir == "w2r");
    match cfg.lvl.as_str() {
        "msg" => LocalCfg { writer, rtps: kind, rtps_oa: cfg.oa, sub: okind, sub_oa: false, pay: okind, k256: cfg.k256 },
        "submsg" => LocalCfg { writer, rtps: 0, rtps_oa: false, sub: kind, sub_oa: cfg.oa, pay: okind, k256: cfg.k256 },
        _ => LocalCfg { writer, rtps: 0, rtps_oa: false, sub: okind, sub_oa: false, pay: kind, k256: cfg.k256 },
    }
}

/// concrete user payload length for an Encode of the model: `al` is honoured where alignment
/// matters (payload level, DATAFRAG), otherwise any length 0..67
fn pick_len(k: usize, c: usize, lvl: u8, frame: u8, al: bool) -> usize {
    let h = (k.wrapping_mul(2654435761usize).wrapping_add(c * 97)) >> 3;
    if lvl == 0 || frame == 1 {
        if al {
            4 * (h % 17)
        } else {
            (4 * (h % 17) + 1 + (h / 17) % 3).min(67)
        }
    } else {
        h % 68
    }
}

fn plain_bytes(k: usize, len: usize) -> Vec<u8> {
    (0..len).map(|i| (i as u64 * 31 + k as u64 * 7 + 13) as u8).collect()
}

// ------------------------------------------------------------------ layout of the encoded form
#[derive(Debug, Default, Clone)]
struct Layout {
    kind: (usize, usize),
    keyid: (usize, usize),
    session: (usize, usize),
    iv: (usize, usize),
    body: (usize, usize),
    cmac: (usize, usize),
    rcount: (usize, usize),
    /// receiver-specific MAC entries: start offsets (key id 4 bytes, mac 16 bytes)
    entries: Vec<usize>,
    /// offset of the postfix submessage header (submessage / message level)
    postfix: usize,
    ok: bool,
}

fn round4(n: usize) -> usize {
    (n + 3) & !3
}

fn layout(lvl: u8, frame: u8, e: &Encoded, gcm: bool) -> Layout {
    let w = &e.wire;
    let mut l = Layout::default();
    if lvl == 0 {
        if e.enc_len < 40 {
            return l;
        }
        let off = match frame {
            0 => w.len() - round4(e.enc_len),
            1 => w.len() - e.enc_len,
            _ => 0,
        };
        let end = off + e.enc_len;
        l.kind = (off, off + 4);
        l.keyid = (off + 4, off + 8);
        l.session = (off + 8, off + 12);
        l.iv = (off + 12, off + 20);
        l.body = (off + 20, end - 20);
        l.cmac = (end - 20, end - 4);
        l.rcount = (end - 4, end);
        l.ok = true;
        return l;
    }
    // walk the submessages
    let mut subs = vec![]; // (id, start, content_start, end)
    let mut o = 20;
    while o + 4 <= w.len() {
        let id = w[o];
        let le = w[o + 1] & 1 == 1;
        let mut n = if le { u16::from_le_bytes([w[o + 2], w[o + 3]]) } else { u16::from_be_bytes([w[o + 2], w[o + 3]]) } as usize;
        if n == 0 && id != 0x01 && id != 0x09 {
            n = w.len() - o - 4;
        }
        let end = (o + 4 + n).min(w.len());
        subs.push((id, o, o + 4, end));
        o = end;
    }
    let (pre_id, post_id) = if lvl == 1 { (0x31u8, 0x32u8) } else { (0x33u8, 0x34u8) };
    if subs.len() < 3 || subs[0].0 != pre_id || subs[subs.len() - 1].0 != post_id {
        return l;
    }
    let pc = subs[0].2;
    l.kind = (pc, pc + 4);
    l.keyid = (pc + 4, pc + 8);
    l.session = (pc + 8, pc + 12);
    l.iv = (pc + 12, pc + 20);
    let bstart = subs[0].3;
    let post = subs[subs.len() - 1];
    l.body = (if gcm { bstart + 4 } else { bstart }, post.1);
    l.postfix = post.1;
    l.cmac = (post.2, post.2 + 16);
    l.rcount = (post.2 + 16, post.2 + 20);
    let cnt = u32::from_be_bytes([w[post.2 + 16], w[post.2 + 17], w[post.2 + 18], w[post.2 + 19]]) as usize;
    for i in 0..cnt {
        l.entries.push(post.2 + 20 + 20 * i);
    }
    l.ok = post.2 + 20 + 20 * cnt == w.len();
    l
}

/// key ids of other existing keys, as candidates to overwrite the header key id with
#[derive(Debug, Default, Clone)]
struct KidCtx {
    sib: Option<[u8; 4]>,  // producer's key of the sibling endpoint level
    ent: Option<[u8; 4]>,  // producer's key of the other entity level
    rs: Option<[u8; 4]>,   // receiver-specific key the producer generated for the receiver at hand
    peer: Option<[u8; 4]>, // same-level key of a different sender
    own: Option<[u8; 4]>,  // same-level key of the receiver itself
}

fn slot_kid(k: &KeyIds, lvl: u8) -> Option<[u8; 4]> {
    match lvl {
        0 => k.pay,
        1 => k.sub,
        _ => k.part,
    }
}

fn hex4(b: &[u8]) -> String {
    b.iter().map(|x| format!("{x:02x}")).collect()
}

/// the concrete alterations that refine tamper class t: list of altered wires (+ a label)
fn alterations(t: &str, e: &Encoded, l: &Layout, mine: Option<usize>, alt: Option<&Encoded>, kids: &KidCtx) -> Vec<(Vec<u8>, (usize, u8))> {
    let w = &e.wire;
    let mut out = vec![];
    let bytes = |rg: (usize, usize), masks: &[u8], out: &mut Vec<(Vec<u8>, (usize, u8))>| {
        for o in rg.0..rg.1 {
            for m in masks {
                let mut x = w.clone();
                x[o] ^= *m;
                out.push((x, (o, *m)));
            }
        }
    };
    let bits = [1u8, 2, 4, 8, 16, 32, 64, 128];
    match t {
        "none" => out.push((w.clone(), (0, 0))),
        "kind" => {
            bytes(l.kind, &[0x01, 0xFF], &mut out);
            // every other well-formed transformation kind, including NONE
            let cur = w[l.kind.1 - 1];
            for v in 0u8..=4 {
                if v != cur {
                    let mut x = w.clone();
                    x[l.kind.1 - 1] = v;
                    out.push((x, (l.kind.1 - 1, v ^ cur)));
                }
            }
        }
        "keyid" => bytes(l.keyid, &[0x01, 0x80, 0xFF], &mut out),
        "keyid_sib" | "keyid_ent" | "keyid_rs" | "keyid_peer" | "keyid_own" | "keyid_zero" => {
            let v = match t {
                "keyid_sib" => kids.sib,
                "keyid_ent" => kids.ent,
                "keyid_rs" => kids.rs,
                "keyid_peer" => kids.peer,
                "keyid_own" => kids.own,
                _ => Some([0u8; 4]),
            };
            if let Some(v) = v {
                // only an id that differs from the one in the header is an alteration
                if l.keyid.1 == l.keyid.0 + 4 && w[l.keyid.0..l.keyid.1] != v {
                    let mut x = w.clone();
                    x[l.keyid.0..l.keyid.1].copy_from_slice(&v);
                    out.push((x, (l.keyid.0, 0x4B)));
                }
            }
        }
        "session" => bytes(l.session, &[0x01, 0x80, 0xFF], &mut out),
        "iv" => bytes(l.iv, &[0x01, 0x80, 0xFF], &mut out),
        "body" => bytes(l.body, &[0x01, 0x80, 0xFF], &mut out),
        "cmac" => bytes(l.cmac, &bits, &mut out),
        "rcount" => bytes(l.rcount, &[0x01, 0xFF], &mut out),
        "hdr" => bytes((4, 20), &[0x01, 0xFF], &mut out),
        "rmac_mine" => {
            if let Some(i) = mine {
                let s = l.entries[i];
                bytes((s + 4, s + 20), &bits, &mut out);
            }
        }
        "rkid_mine" => {
            if let Some(i) = mine {
                let s = l.entries[i];
                bytes((s, s + 4), &[0x01, 0x80, 0xFF], &mut out);
            }
        }
        "rkid_swap" => {
            // my entry and another receiver's entry exchange their key ids
            if let Some(i) = mine {
                let s = l.entries[i];
                for (j, o) in l.entries.iter().enumerate() {
                    if j != i && w[s..s + 4] != w[*o..*o + 4] {
                        let mut x = w.clone();
                        let (a, b) = (w[s..s + 4].to_vec(), w[*o..*o + 4].to_vec());
                        x[s..s + 4].copy_from_slice(&b);
                        x[*o..*o + 4].copy_from_slice(&a);
                        out.push((x, (s, j as u8)));
                    }
                }
            }
        }
        "drop_mine" => {
            if let Some(i) = mine {
                let s = l.entries[i];
                let mut x = w.clone();
                x.drain(s..s + 20);
                let cnt = l.entries.len() as u32 - 1;
                x[l.rcount.0..l.rcount.1].copy_from_slice(&cnt.to_be_bytes());
                // postfix submessage length (big-endian submessage: flag E = 0)
                let le = x[l.postfix + 1] & 1 == 1;
                let n = if le { u16::from_le_bytes([x[l.postfix + 2], x[l.postfix + 3]]) } else { u16::from_be_bytes([x[l.postfix + 2], x[l.postfix + 3]]) } - 20;
                let nb = if le { n.to_le_bytes() } else { n.to_be_bytes() };
                x[l.postfix + 2] = nb[0];
                x[l.postfix + 3] = nb[1];
                out.push((x, (s, 0)));
                // and: entry kept but moved under a zero key id
                let mut y = w.clone();
                y[s..s + 4].copy_from_slice(&[0, 0, 0, 0]);
                out.push((y, (s, 0xEE)));
            }
        }
        "swap_hdr" => {
            // a second, independent encoding of the same plaintext by the same sender: other IV
            if let Some(a) = alt {
                if a.wire.len() == w.len() {
                    let mut x = w.clone(); // crypto header of the other one
                    x[l.kind.0..l.iv.1].copy_from_slice(&a.wire[l.kind.0..l.iv.1]);
                    out.push((x, (l.kind.0, 1)));
                    let mut y = w.clone(); // common mac of the other one
                    y[l.cmac.0..l.cmac.1].copy_from_slice(&a.wire[l.cmac.0..l.cmac.1]);
                    out.push((y, (l.cmac.0, 2)));
                    let mut z = w.clone(); // body of the other one
                    z[l.body.0..l.body.1].copy_from_slice(&a.wire[l.body.0..l.body.1]);
                    if z != *w {
                        out.push((z, (l.body.0, 3)));
                    }
                }
            }
        }
        _ => {}
    }
    out
}

fn same_up_to_padding(got: &[u8], want: &[u8]) -> bool {
    got == want || (got.len() > want.len() && got.len() < want.len() + 4 && got[..want.len()] == *want && got[want.len()..].iter().all(|b| *b == 0))
}

struct Ct {
    enc: Encoded,
    p: usize,
    to: Vec<usize>,
    frame: u8,
    plain: Vec<u8>,
    sn: i64,
}

/// The crate keeps the endpoints registered for a remote participant in a `HashSet`; the order in
/// which decode_submessage walks the candidates therefore differs from one plugin instance to the
/// next (per-instance hash seed) and cannot be chosen from outside.  A run in which a participant
/// has several endpoints is executed on ORDER_REPS independently constructed sets of plugin
/// instances; a Decode line then aggregates the concrete decodes of all of them (counts added).
/// Every act pushes exactly one event, so the event lists of the repetitions have the same shape.
const ORDER_REPS: usize = 6;

pub fn run_one(k: usize, spec: &RunSpec, ev: &mut Vec<Value>) -> Vec<Vec<u8>> {
    let mut first: Vec<Value> = vec![];
    let captured = run_once(k, spec, &mut first);
    if !spec.eps2.is_empty() && spec.cfg.lvl == "submsg" {
        for _ in 1..ORDER_REPS {
            let mut more: Vec<Value> = vec![];
            run_once(k, spec, &mut more);
            if more.len() != first.len() {
                continue;
            }
            for (a, b) in first.iter_mut().zip(more.iter()) {
                if a["ev"] != "Decode" || b["ev"] != "Decode" || a["t"] != b["t"] || a["r"] != b["r"] {
                    continue;
                }
                for f in ["n", "same", "other", "nodata", "panic"] {
                    a[f] = json!(a[f].as_u64().unwrap_or(0) + b[f].as_u64().unwrap_or(0));
                }
                let had_bad = a["bad"].as_array().map(|x| !x.is_empty()).unwrap_or(false);
                if !had_bad && b["bad"].as_array().map(|x| !x.is_empty()).unwrap_or(false) {
                    a["bad"] = b["bad"].clone();
                    a["dbg"] = b["dbg"].clone();
                }
            }
        }
        if let Some(r) = first.first_mut() {
            r["instances"] = json!(ORDER_REPS);
        }
    }
    ev.extend(first);
    captured
}

fn run_once(k: usize, spec: &RunSpec, ev: &mut Vec<Value>) -> Vec<Vec<u8>> {
    // index 0 unused: plugins are numbered 1..3 as in the model; second endpoints are entities 11..13
    let mut rig = CryptoRig::new(EP2 + 4);
    let lvl = lvl_no(&spec.cfg.lvl);
    let gcm = spec.cfg.kind == "gcm";
    let mut held: HashMap<(usize, usize), usize> = HashMap::new();
    let mut cts: HashMap<usize, Ct> = HashMap::new();
    let mut captured = vec![];
    let mut cfgv = serde_json::to_value(&spec.cfg).unwrap();
    cfgv["senders"] = json!(spec.senders);
    cfgv["eps2"] = json!(spec.eps2);
    ev.push(json!({"ev":"Reset","run":k,"cfg":cfgv}));
    let guarded = |f: &mut dyn FnMut() -> Result<(), String>| -> (bool, String) {
        match catch_unwind(AssertUnwindSafe(|| f())) {
            Ok(Ok(())) => (true, String::new()),
            Ok(Err(e)) => (false, e.chars().take(120).collect()),
            Err(_) => (false, "PANIC".into()),
        }
    };
    for a in &spec.acts {
        match a.a.as_str() {
            "RegLocal" => {
                let c = local_cfg(&spec.cfg, &spec.senders, a.p, k);
                let (ok, why) = guarded(&mut || rig.reg_local(a.p, c.clone()));
                // ... and its second endpoint, if it has one
                let (ok2, why2) = if spec.eps2.contains(&a.p) && lvl != 2 { guarded(&mut || rig.reg_local_second(a.p + EP2)) } else { (true, String::new()) };
                ev.push(json!({"ev":"RegLocal","p":a.p,"writer":c.writer,"ok":ok,"why":why,"ok2":ok2,"why2":why2}));
            }
            "MatchPart" => {
                let (ok, why) = guarded(&mut || rig.match_part(a.p, a.q));
                ev.push(json!({"ev":"MatchPart","p":a.p,"q":a.q,"ok":ok,"why":why}));
            }
            "MatchEp" => {
                let (ok, why) = guarded(&mut || rig.match_ep_ent(a.p, a.q));
                ev.push(json!({"ev":"MatchEp","p":a.p,"q":a.q,"ok":ok,"why":why}));
            }
            "Tokens" => {
                let epl = a.t == "ep";
                let (ok, why) = guarded(&mut || rig.send_tokens_ent(epl, a.p, a.q, a.d));
                if ok && (epl == (lvl != 2)) {
                    held.entry((a.d, a.p)).or_insert(a.q);
                }
                ev.push(json!({"ev":"Tokens","t":a.t,"p":a.p,"q":a.q,"d":a.d,"ok":ok,"why":why}));
            }
            "Encode" => {
                let frame = frame_no(&a.frame);
                let len = a.len.unwrap_or_else(|| pick_len(k, a.c, lvl, frame, a.al));
                // a DATAFRAG of an empty sample does not exist
                let len = if frame == 1 && len == 0 { 4 } else { len };
                let plain = plain_bytes(k, len);
                let sn = 1 + (k % 1000) as i64;
                let r = catch_unwind(AssertUnwindSafe(|| rig.encode(lvl, a.p, &a.to, &plain, frame, sn)));
                match r {
                    Ok(Ok(enc)) => {
                        ev.push(json!({"ev":"Encode","c":a.c,"p":a.p,"to":a.to,"frame":a.frame,"al":len % 4 == 0,"len":len,
                                       "enc_len":enc.enc_len,"wire_len":enc.wire.len(),"transformed":enc.transformed,"ok":true,"why":""}));
                        captured.push(enc.wire.clone());
                        cts.insert(a.c, Ct { enc, p: a.p, to: a.to.clone(), frame, plain, sn });
                    }
                    Ok(Err(e)) => {
                        ev.push(json!({"ev":"Encode","c":a.c,"p":a.p,"to":a.to,"frame":a.frame,"al":len % 4 == 0,"len":len,
                                       "enc_len":0,"wire_len":0,"transformed":false,"ok":false,"why":e.chars().take(120).collect::<String>()}));
                    }
                    Err(_) => {
                        ev.push(json!({"ev":"Encode","c":a.c,"p":a.p,"to":a.to,"frame":a.frame,"al":len % 4 == 0,"len":len,
                                       "enc_len":0,"wire_len":0,"transformed":false,"ok":false,"why":"PANIC"}));
                    }
                }
            }
            "Decode" => {
                let Some(ct) = cts.get(&a.c) else {
                    ev.push(json!({"ev":"Skip","why":"no such ciphertext"}));
                    continue;
                };
                let l = layout(lvl, ct.frame, &ct.enc, gcm);
                if !l.ok && a.t != "none" {
                    ev.push(json!({"ev":"Skip","why":"encoded form has not the expected layout"}));
                    continue;
                }
                let mine = held.get(&(a.r, a.s)).and_then(|h| ct.to.iter().position(|x| x == h)).filter(|i| *i < l.entries.len());
                let alt = if a.t == "swap_hdr" {
                    catch_unwind(AssertUnwindSafe(|| rig.encode(lvl, ct.p, &ct.to, &ct.plain, ct.frame, ct.sn))).ok().and_then(|r| r.ok())
                } else {
                    None
                };
                // the other key ids that exist in the system (inventory of the rig + MAC entries on the wire)
                let mut kids = KidCtx::default();
                if a.t.starts_with("keyid_") && l.ok {
                    let kp = rig.key_ids_ent(ct.p);
                    kids.sib = match lvl {
                        0 => kp.sub,
                        1 => kp.pay,
                        _ => None,
                    };
                    kids.ent = if lvl == 2 { kp.sub } else { kp.part };
                    kids.rs = mine.map(|i| {
                        let s = l.entries[i];
                        [ct.enc.wire[s], ct.enc.wire[s + 1], ct.enc.wire[s + 2], ct.enc.wire[s + 3]]
                    });
                    let peer = if a.s != ct.p { Some(a.s) } else { spec.senders.iter().copied().find(|x| *x != ct.p) };
                    kids.peer = peer.and_then(|q| slot_kid(&rig.key_ids_ent(q), lvl));
                    kids.own = slot_kid(&rig.key_ids_ent(a.r), lvl);
                }
                let alts = alterations(&a.t, &ct.enc, &l, mine, alt.as_ref(), &kids);
                let kid_dbg = if a.t.starts_with("keyid_") && l.ok && l.keyid.1 <= ct.enc.wire.len() {
                    format!(" kid:{}->{}", hex4(&ct.enc.wire[l.keyid.0..l.keyid.1]),
                            alts.first().map(|(w, _)| hex4(&w[l.keyid.0..l.keyid.1])).unwrap_or_else(|| "n/a".into()))
                } else {
                    String::new()
                };
                let (mut same, mut other, mut nodata, mut panic) = (0, 0, 0, 0);
                let mut bad: Vec<Value> = vec![];
                let mut why: HashMap<String, usize> = HashMap::new();
                for (w, lab) in &alts {
                    match catch_unwind(AssertUnwindSafe(|| rig.decode_ent(lvl, a.r, a.s, w, ct.frame))) {
                        Ok(Outcome::Plain(b)) => {
                            if same_up_to_padding(&b, &ct.enc.reference) {
                                same += 1;
                            } else {
                                other += 1;
                            }
                            if bad.len() < 3 {
                                bad.push(json!([lab.0, lab.1]));
                            }
                        }
                        Ok(Outcome::NoData(c)) => {
                            nodata += 1;
                            *why.entry(c).or_insert(0) += 1;
                        }
                        Err(_) => {
                            panic += 1;
                        }
                    }
                }
                ev.push(json!({"ev":"Decode","r":a.r,"s":a.s,"c":a.c,"t":a.t,"n":alts.len(),"same":same,"other":other,
                               "nodata":nodata,"panic":panic,"bad":bad,
                               "dbg":format!("{:?} model:{}{}", { let mut w: Vec<_> = why.into_iter().collect(); w.sort(); w }, a.expect.clone().unwrap_or_default(), kid_dbg)}));
            }
            _ => {
                ev.push(json!({"ev":"Skip","why":"unknown action"}));
            }
        }
    }
    captured
}

// ------------------------------------------------------------------ random / sweep generation
fn combos() -> Vec<(String, String, bool, bool, String)> {
    let mut v = vec![];
    for kind in ["gmac", "gcm"] {
        for k256 in [false, true] {
            v.push(("payload".to_string(), kind.to_string(), false, k256, "w2r".to_string()));
            for oa in [false, true] {
                v.push(("msg".to_string(), kind.to_string(), oa, k256, "w2r".to_string()));
                for dir in ["w2r", "r2w"] {
                    v.push(("submsg".to_string(), kind.to_string(), oa, k256, dir.to_string()));
                }
            }
        }
    }
    v
}

fn act(a: &str) -> Act {
    Act { a: a.to_string(), ..Default::default() }
}

pub fn random_specs(seed: u64, runs: usize, _events: usize) -> Vec<RunSpec> {
    let cb = combos();
    let mut out = vec![];
    for i in 0..runs {
        let mut rng = StdRng::seed_from_u64(seed.wrapping_mul(1_000_003).wrapping_add(i as u64));
        let (lvl, kind, oa, k256, dir) = cb[i % cb.len()].clone();
        let len = (i / cb.len()) % 68;
        let other = ["same", "none", "diff"][rng.gen_range(0..3)].to_string();
        let senders: Vec<usize> = if rng.gen_bool(0.7) { vec![1] } else { vec![1, 3] };
        let receivers: Vec<usize> = (1..=3).filter(|p| !senders.contains(p)).collect();
        let is_msg = lvl == "msg";
        // second endpoints (endpoint levels only): receiver entities = first endpoints + second ones
        let eps2: Vec<usize> = if !is_msg && rng.gen_bool(0.4) {
            let mut v: Vec<usize> = receivers.iter().copied().filter(|_| rng.gen_bool(0.6)).collect();
            if v.is_empty() {
                v.push(*receivers.choose(&mut rng).unwrap());
            }
            v
        } else {
            vec![]
        };
        let mut rents: Vec<usize> = receivers.clone();
        rents.extend(eps2.iter().map(|r| r + EP2));
        // all registration calls, in a random order that respects what each call needs
        let mut pending: Vec<Act> = vec![];
        for p in 1..=3 {
            pending.push(Act { p, ..act("RegLocal") });
        }
        for s in &senders {
            for r in &rents {
                for (p, q) in [(*s, *r), (*r, *s)] {
                    if *r < EP2 {
                        pending.push(Act { p, q, ..act("MatchPart") });
                    }
                    if !is_msg {
                        pending.push(Act { p, q, ..act("MatchEp") });
                    }
                }
                // tokens of the level under test from the sender; in the other direction too (harmless)
                let t = if is_msg { "part" } else { "ep" };
                let d = if rng.gen_bool(0.12) { *rents.choose(&mut rng).unwrap() } else { *r };
                pending.push(Act { t: t.to_string(), p: *s, q: *r, d, ..act("Tokens") });
                if rng.gen_bool(0.3) {
                    pending.push(Act { t: t.to_string(), p: *r, q: *s, d: *s, ..act("Tokens") });
                }
            }
        }
        // omissions
        if rng.gen_bool(0.3) {
            let j = rng.gen_range(0..pending.len());
            pending.remove(j);
        }
        pending.shuffle(&mut rng);
        // stable "topological" pass: repeatedly take the first act whose prerequisites were issued
        let mut acts: Vec<Act> = vec![];
        let mut issued: Vec<(String, usize, usize)> = vec![];
        let has = |iss: &Vec<(String, usize, usize)>, a: &str, p: usize, q: usize| iss.iter().any(|x| x.0 == a && x.1 == p && x.2 == q);
        let mut progress = true;
        while progress && !pending.is_empty() {
            progress = false;
            let mut j = 0;
            while j < pending.len() {
                let a = &pending[j];
                let ready = match a.a.as_str() {
                    "RegLocal" => true,
                    "MatchPart" => has(&issued, "RegLocal", a.p, 0),
                    "MatchEp" => has(&issued, "MatchPart", a.p % EP2, a.q % EP2),
                    _ => {
                        let m = if is_msg { "MatchPart" } else { "MatchEp" };
                        has(&issued, m, a.p, a.q) && has(&issued, m, a.d, a.p)
                    }
                };
                if ready {
                    let a = pending.remove(j);
                    issued.push((a.a.clone(), a.p, if a.a == "RegLocal" { 0 } else { a.q }));
                    acts.push(a);
                    progress = true;
                } else {
                    j += 1;
                }
            }
        }
        // whatever could not be ordered (an omitted prerequisite) is attempted anyway: the rig refuses
        acts.append(&mut pending);
        // encode
        let p = *senders.choose(&mut rng).unwrap();
        // with second endpoints: more often a strict subset of the receiving entities
        let p_to = if eps2.is_empty() { 0.7 } else { 0.5 };
        let mut to: Vec<usize> = rents.iter().copied().filter(|_| rng.gen_bool(p_to)).collect();
        if lvl == "payload" {
            to.clear();
        } else if to.is_empty() {
            to.push(*rents.choose(&mut rng).unwrap());
        }
        let frame = if dir == "r2w" {
            "data"
        } else if lvl == "payload" {
            ["data", "frag", "raw"][rng.gen_range(0..3)]
        } else {
            ["data", "frag"][rng.gen_range(0..2)]
        };
        acts.push(Act { c: 1, p, to: to.clone(), frame: frame.to_string(), al: len % 4 == 0, len: Some(len), ..act("Encode") });
        // decode: everybody else, for every claimed sender, every tamper class
        let mut classes = vec!["none", "kind", "keyid", "session", "iv", "body", "cmac", "swap_hdr",
                               "keyid_sib", "keyid_ent", "keyid_peer", "keyid_own", "keyid_zero"];
        if lvl == "payload" {
            classes.push("rcount");
        }
        if is_msg {
            classes.push("hdr");
        }
        if oa && lvl != "payload" {
            classes.extend(["rmac_mine", "rkid_mine", "drop_mine", "rkid_swap", "keyid_rs"]);
        }
        let mut decs: Vec<usize> = (1..=3usize).collect();
        decs.extend(eps2.iter().map(|r| r + EP2));
        for r in decs {
            if r % EP2 == p {
                continue;
            }
            for s in &senders {
                if *s == r % EP2 {
                    continue;
                }
                for t in &classes {
                    acts.push(Act { r, s: *s, c: 1, t: t.to_string(), ..act("Decode") });
                }
            }
        }
        out.push(RunSpec { cfg: Cfg { lvl, kind, oa, k256, dir, other: Some(other) }, senders, eps2, acts });
    }
    out
}

pub fn main(mode: &str, opt: &HashMap<String, String>) -> i32 {
    // decode failures are logged by the crate through `log`; panics of the code under test are data
    std::panic::set_hook(Box::new(|_| {}));
    match mode {
        "random" => {
            let specs = random_specs(util::get(opt, "seed", 1), util::get(opt, "runs", 100), util::get(opt, "events", 0));
            util::run_parallel(opt, specs, run_one)
        }
        "replay" => {
            let mut specs: Vec<RunSpec> = util::read_jsonl(&opt["in"]);
            // resolve what the model leaves open (concrete payload length, protection of the other
            // endpoint level) from the run index NOW, so that the recorded spec replays identically
            for (k, s) in specs.iter_mut().enumerate() {
                if s.cfg.other.is_none() {
                    s.cfg.other = Some(["same", "none", "diff"][k % 3].to_string());
                }
                let lvl = lvl_no(&s.cfg.lvl);
                for a in s.acts.iter_mut().filter(|a| a.a == "Encode" && a.len.is_none()) {
                    a.len = Some(pick_len(k, a.c, lvl, frame_no(&a.frame), a.al));
                }
            }
            util::run_parallel(opt, specs, run_one)
        }
        _ => {
            eprintln!("crypto driver: unknown mode {mode}");
            2
        }
    }
}
