//! `reader` driver: abstract action lists (from TLC behaviours or from the seeded random generator)
//! are executed against the real MessageReceiver -> Reader -> TopicCache -> DataReader chain and
//! logged as ndjson events for Trace_RtpsReader.tla.

use rand::{rngs::StdRng, Rng, SeedableRng};
use rustdds::verif::reader_rig::{ReaderCfg, ReaderRig};
use rustdds::{ReadCondition};
use serde::{Deserialize, Serialize};
use serde_json::{json, Value};

use crate::wire::{self, NumSet, Sub};

pub const FRAG_SIZE: u16 = 32;
/// the peer that misbehaves in the hostile runs (matched or not); its own samples are not part of the trace
pub const HOSTILE_W: u8 = 3;

#[derive(Clone, Debug, Serialize, Deserialize)]
#[serde(tag = "a")]
pub enum RAct {
    Match { w: u8 },
    Unmatch { w: u8 },
    /// the event loop's pre-emptive ACKNACK timer fires
    PreTick,
    /// nots: the datagram carries no INFO_TS (the sample then has no source timestamp, whatever earlier datagrams said);
    /// hx: extra octets in the DATA submessage header (octetsToInlineQos = 16 + hx)
    Data {
        w: u8,
        sn: i64,
        #[serde(default)]
        nots: bool,
        #[serde(default)]
        hx: u8,
    },
    /// fragments fs..fs+fc-1 of a sample of `tot` fragments
    DataFrag { w: u8, sn: i64, fs: u32, fc: u16, tot: u32 },
    Heartbeat { w: u8, first: i64, last: i64, count: i32, fin: bool },
    /// nbits: extra in-range (zero) bits after the highest member; dirty: the padding bits of the last bitmap word
    /// beyond numBits are ones (RTPS leaves them undefined; they are not members)
    Gap {
        w: u8,
        start: i64,
        base: i64,
        set: Vec<i64>,
        #[serde(default)]
        nbits: u32,
        #[serde(default)]
        dirty: bool,
    },
    Take {
        max: usize,
        #[serde(default)]
        byinst: bool,
    },
    /// hostile datagram(s) of a catalogue class from peer `w` (see hostile.rs)
    Hostile { w: u8, cls: String },
}

#[derive(Clone, Debug, Serialize, Deserialize)]
pub struct RunSpec {
    pub reliable: bool,
    pub acts: Vec<RAct>,
    /// every datagram travels through a real loopback UDP socket and the real UDPListener before it reaches the
    /// MessageReceiver (one UDPListener::messages() call per readiness event, as DPEventLoop does)
    #[serde(default)]
    pub via_socket: bool,
}

pub fn writer_guid(w: u8) -> [u8; 16] {
    let mut g = [0xA0 + w; 16];
    g[12] = 0;
    g[13] = 0;
    g[14] = w;
    g[15] = 0x02; // user-defined writer, with key
    g
}
pub fn writer_prefix(w: u8) -> [u8; 12] {
    let g = writer_guid(w);
    let mut p = [0u8; 12];
    p.copy_from_slice(&g[0..12]);
    p
}
pub fn writer_eid(w: u8) -> [u8; 4] {
    let g = writer_guid(w);
    [g[12], g[13], g[14], g[15]]
}
pub fn writer_of_prefix(p: &[u8]) -> u8 {
    p[0].wrapping_sub(0xA0)
}

pub fn pid_of(w: u8, sn: i64) -> u32 {
    (w as u32) * 100_000 + (sn as u32 % 100_000)
}
pub fn ts_of(w: u8, sn: i64) -> u32 {
    1000 + (w as u32) * 10_000 + (sn as u32 % 10_000)
}

/// body bytes of the sample (w, sn): position dependent, length depends on sn
pub fn body_of(w: u8, sn: i64, len: usize) -> Vec<u8> {
    (0..len).map(|i| (i as u64 * 31 + sn as u64 * 7 + w as u64 * 13 + 5) as u8).collect()
}

/// full serialized payload (with encapsulation header) of an unfragmented sample
pub fn plain_payload(w: u8, sn: i64) -> Vec<u8> {
    let len = ((sn * 7 + w as i64) % 23) as usize;
    wire::vsample_payload((sn % 3) as u32, pid_of(w, sn), &body_of(w, sn, len))
}

/// full serialized payload of a sample that needs exactly `tot` fragments of FRAG_SIZE
pub fn frag_payload(w: u8, sn: i64, tot: u32) -> Vec<u8> {
    // header 4 + key 4 + id 4 + len 4 = 16 bytes, then body
    let total = (tot as usize - 1) * FRAG_SIZE as usize + 1 + ((sn as usize * 5 + w as usize) % (FRAG_SIZE as usize));
    let body_len = total - 16;
    wire::vsample_payload((sn % 3) as u32, pid_of(w, sn), &body_of(w, sn, body_len))
}

pub struct Exec {
    pub rig: ReaderRig,
    pub reliable: bool,
    pub reader_eid: [u8; 4],
    pub captured: Vec<Vec<u8>>, // every datagram the reader emitted (for the wire checks)
    pub hostile_front: i64,
    pub hostile_count: i32,
    pub ingress: Option<Ingress>,
    pub hostile_run: bool,
}

fn outputs_by_writer(sent: &[rustdds::verif::net::Sent], captured: &mut Vec<Vec<u8>>) -> Vec<(u8, Vec<Value>, Vec<Value>)> {
    // returns per writer: (w, acks, nfs)
    let mut out: Vec<(u8, Vec<Value>, Vec<Value>)> = vec![];
    for s in sent {
        captured.push(s.bytes.clone());
        let msg = match wire::decode(&s.bytes) {
            Ok(m) => m,
            Err(e) => {
                out.push((0, vec![json!({"undecodable": e})], vec![]));
                continue;
            }
        };
        let mut dst: Option<[u8; 12]> = None;
        for sub in &msg.subs {
            match sub {
                Sub::InfoDst { prefix } => dst = Some(*prefix),
                Sub::AckNack { writer, set, count, .. } => {
                    let w = dst.map(|p| writer_of_prefix(&p)).unwrap_or(writer[2]);
                    // every writer was matched with the unicast locator 127.0.0.1:(20000 + w): that is where its replies go
                    if (1..=9).contains(&w) && !s.dest.ends_with(&format!(":{}", 20_000 + w as u32)) {
                        out.push((100 + w, vec![json!({"misdirected": s.dest})], vec![]));
                    }
                    let rec = json!({"base": set.base, "set": set.members(), "count": count, "nbits": set.num_bits});
                    match out.iter_mut().find(|x| x.0 == w) {
                        Some(x) => x.1.push(rec),
                        None => out.push((w, vec![rec], vec![])),
                    }
                }
                Sub::NackFrag { writer, sn, set, count, .. } => {
                    let w = dst.map(|p| writer_of_prefix(&p)).unwrap_or(writer[2]);
                    let rec = json!({"sn": sn, "set": set.members(), "count": count});
                    match out.iter_mut().find(|x| x.0 == w) {
                        Some(x) => x.2.push(rec),
                        None => out.push((w, vec![], vec![rec])),
                    }
                }
                _ => {}
            }
        }
    }
    out
}

pub struct Ingress {
    listener: rustdds::verif::listener_rig::ListenerRig,
    sock: std::net::UdpSocket,
}

/// Hands datagrams to the reader: directly to the MessageReceiver, or over the socket.  Over the socket the
/// listener is drained once per datagram sent (plus retries while the kernel has not delivered yet), and every
/// message it returns goes to the MessageReceiver in order.
fn deliver(rig: &mut ReaderRig, ingress: &mut Option<Ingress>, dgs: &[Vec<u8>]) -> Vec<rustdds::verif::net::Sent> {
    let mut sent = vec![];
    match ingress {
        None => {
            for d in dgs {
                sent.extend(rig.inject(d));
            }
        }
        Some(ing) => {
            for d in dgs {
                if ing.sock.send_to(d, ("127.0.0.1", ing.listener.port)).is_err() {
                    continue; // not sendable as one UDP datagram
                }
                let mut got = 0;
                for attempt in 0..200 {
                    let msgs = ing.listener.drain();
                    got += msgs.len();
                    for m in msgs {
                        sent.extend(rig.inject(&m));
                    }
                    if got >= 1 {
                        break;
                    }
                    if attempt > 2 {
                        std::thread::sleep(std::time::Duration::from_micros(200));
                    }
                }
            }
        }
    }
    sent
}

impl Exec {
    pub fn with_socket(reliable: bool, run_no: usize) -> Self {
        let mut e = Self::new(reliable);
        let listener = rustdds::verif::listener_rig::ListenerRig::new(24_000 + (run_no % 400) as u16 * 10);
        let sock = std::net::UdpSocket::bind("127.0.0.1:0");
        if let (Some(listener), Ok(sock)) = (listener, sock) {
            e.ingress = Some(Ingress { listener, sock });
        }
        e
    }

    pub fn new(reliable: bool) -> Self {
        let rig = ReaderRig::new(&[ReaderCfg { reliable, history_depth: None, max_samples: Some(1_000_000) }]);
        let reader_eid = rig.slots[0].entity_id;
        Exec { rig, reliable, reader_eid, captured: vec![], hostile_front: 10, hostile_count: 1000, ingress: None, hostile_run: false }
    }

    fn inject(&mut self, w: u8, subs: &[Sub]) -> Vec<(u8, Vec<Value>, Vec<Value>)> {
        let bytes = wire::encode(&writer_prefix(w), subs);
        let sent = deliver(&mut self.rig, &mut self.ingress, &[bytes]);
        outputs_by_writer(&sent, &mut self.captured)
    }

    /// executes one action, appends the resulting trace events
    pub fn step(&mut self, act: &RAct, out: &mut Vec<Value>) {
        match act {
            RAct::Match { w } => {
                self.rig.match_writer(0, writer_guid(*w), self.reliable, 20_000 + *w as u16);
                out.push(json!({"ev":"Match","w":w}));
            }
            RAct::Unmatch { w } => {
                self.rig.unmatch_writer(0, writer_guid(*w));
                out.push(json!({"ev":"Unmatch","w":w}));
            }
            RAct::PreTick => {
                // whatever the readers send now is unprompted: judged like any other spontaneous ACKNACK / NACKFRAG
                let sent = self.rig.preemptive_acknack_tick();
                let o = outputs_by_writer(&sent, &mut self.captured);
                self.spont(o, out);
            }
            RAct::Data { w, sn, nots, hx } => {
                let data = Sub::Data { reader: self.reader_eid, writer: writer_eid(*w), sn: *sn, inline_qos: None, payload: Some(plain_payload(*w, *sn)), key_flag: false };
                let subs = if *nots { vec![data] } else { vec![Sub::InfoTs { ts: Some((ts_of(*w, *sn), 0)) }, data] };
                wire::DATA_HEADER_EXTRA.with(|x| x.set(*hx));
                let o = self.inject(*w, &subs);
                wire::DATA_HEADER_EXTRA.with(|x| x.set(0));
                out.push(json!({"ev":"Data","w":w,"sn":sn,"pid":pid_of(*w,*sn),"ts": if *nots { -1 } else { ts_of(*w,*sn) as i64 }}));
                self.spont(o, out);
            }
            RAct::DataFrag { w, sn, fs, fc, tot } => {
                let full = frag_payload(*w, *sn, *tot);
                let from = (*fs as usize - 1) * FRAG_SIZE as usize;
                let to = std::cmp::min(from + (*fc as usize) * FRAG_SIZE as usize, full.len());
                let subs = [
                    Sub::InfoTs { ts: Some((ts_of(*w, *sn), 0)) },
                    Sub::DataFrag {
                        reader: self.reader_eid,
                        writer: writer_eid(*w),
                        sn: *sn,
                        frag_start: *fs,
                        frags_in_sub: *fc,
                        frag_size: FRAG_SIZE,
                        sample_size: full.len() as u32,
                        inline_qos: None,
                        payload: full[from..to].to_vec(),
                        key_flag: false,
                    },
                ];
                let o = self.inject(*w, &subs);
                out.push(json!({"ev":"DataFrag","w":w,"sn":sn,"fs":fs,"fc":fc,"tot":tot,"pid":pid_of(*w,*sn),"ts":ts_of(*w,*sn)}));
                self.spont(o, out);
            }
            RAct::Heartbeat { w, first, last, count, fin } => {
                let subs = [Sub::Heartbeat { reader: self.reader_eid, writer: writer_eid(*w), first: *first, last: *last, count: *count, final_flag: *fin, liveliness: false }];
                let o = self.inject(*w, &subs);
                let mut acks = vec![];
                let mut nfs = vec![];
                let mut others = vec![];
                for (ow, a, n) in o {
                    if ow == *w {
                        acks = a;
                        nfs = n;
                    } else {
                        others.push((ow, a, n));
                    }
                }
                out.push(json!({"ev":"Heartbeat","w":w,"first":first,"last":last,"count":count,"final":fin,"acks":acks,"nfs":nfs}));
                self.spont(others, out);
            }
            RAct::Gap { w, start, base, set, nbits, dirty } => {
                let mut list = NumSet::from_set(*base, set);
                if *nbits > 0 {
                    list.num_bits = (list.num_bits + *nbits).min(256);
                    list.words.resize(((list.num_bits + 31) / 32) as usize, 0);
                }
                if *dirty && list.num_bits % 32 != 0 {
                    if let Some(last) = list.words.last_mut() {
                        *last |= u32::MAX >> (list.num_bits % 32);
                    }
                }
                let subs = [Sub::Gap { reader: self.reader_eid, writer: writer_eid(*w), start: *start, list }];
                let o = self.inject(*w, &subs);
                out.push(json!({"ev":"Gap","w":w,"start":start,"base":base,"set":set,"nbits":nbits,"dirty":dirty}));
                self.spont(o, out);
            }
            RAct::Hostile { w, cls } => {
                let ctx = crate::hostile::Ctx { src_prefix: writer_prefix(*w), writer_eid: writer_eid(*w), reader_eid: self.reader_eid, front: self.hostile_front, count: self.hostile_count };
                self.hostile_count += 3;
                self.hostile_front += 3;
                let dgs = crate::hostile::reader_datagrams(cls, &ctx);
                let total_len: usize = dgs.iter().map(|d| d.len()).sum();
                crate::util::live_event(&json!({"ev":"HostileBegin","cls":cls,"w":w,"_streamed":true}));
                let rig = &mut self.rig;
                let ingress = &mut self.ingress;
                let m = crate::measure::measure(|| {
                    let _ = deliver(rig, ingress, &dgs);
                });
                out.push(json!({"ev":"Hostile","cls":cls,"w":w,"n":dgs.len(),"len":total_len,"panic":m.panic.is_some(),"msg":m.panic.unwrap_or_default(),"us":m.us as u64,"alloc":m.alloc as u64,"died":"","sock":self.ingress.is_some()}));
            }
            RAct::Take { max, byinst } => {
                // byinst: the application accesses by instance (take_instance for every key in turn, everything available);
                // a reliable reader only, the union is what a plain take would have returned
                let byinst = *byinst && self.reliable;
                let hostile_run = self.hostile_run;
                let res: Result<Vec<rustdds::with_key::DataSample<rustdds::verif::VSample>>, String> = if byinst {
                    let mut all = vec![];
                    let mut err = None;
                    for k in 0..3u32 {
                        match self.rig.slots[0].dr().take_instance(100_000, ReadCondition::any(), Some(k), rustdds::with_key::SelectByKey::This) {
                            Ok(v) => all.extend(v),
                            Err(e) => err = Some(format!("{e:?}")),
                        }
                    }
                    match err {
                        Some(e) => Err(e),
                        None => Ok(all),
                    }
                } else {
                    self.rig.slots[0].dr().take(*max, ReadCondition::any()).map_err(|e| format!("{e:?}"))
                };
                match res {
                    Ok(v) => {
                        let got: Vec<Value> = v
                            .iter()
                            .filter(|ds| {
                                // what the hostile peer's own "samples" look like is not judged (runs with a hostile step only)
                                let g = rustdds::verif::reader_rig::guid_to_bytes(ds.sample_info().writer_guid());
                                !hostile_run || writer_of_prefix(&g[0..12]) != HOSTILE_W
                            })
                            .map(|ds| {
                                let info = ds.sample_info();
                                let g = rustdds::verif::reader_rig::guid_to_bytes(info.writer_guid());
                                let w = writer_of_prefix(&g[0..12]);
                                let sn: i64 = info.sample_identity().sequence_number.into();
                                let (pid, body_ok, key) = match ds.value() {
                                    rustdds::with_key::Sample::Value(v) => {
                                        // identity of the bytes: id field plus exact body comparison
                                        let expect_plain = {
                                            let len = ((sn * 7 + w as i64) % 23) as usize;
                                            body_of(w, sn, len)
                                        };
                                        let ok = v.body == expect_plain || {
                                            // fragmented variants: any tot in 2..=9
                                            (2..=9u32).any(|t| {
                                                let p = frag_payload(w, sn, t);
                                                p[16..] == v.body[..]
                                            })
                                        };
                                        (v.id as i64, ok && v.key == (sn % 3) as u32, v.key as i64)
                                    }
                                    rustdds::with_key::Sample::Dispose(k) => (-1, true, *k as i64),
                                };
                                let ts = info.source_timestamp().map(|t| (t.to_ticks() >> 32) as i64).unwrap_or(-1);
                                // a body that is not byte-identical is reported as a different payload id
                                json!({"w":w,"sn":sn,"pid": if body_ok {pid} else {-2},"ts":ts,"k":key})
                            })
                            .collect();
                        out.push(json!({"ev":"Take","max":max,"got":got,"holes":true,"byinst":byinst}));
                    }
                    Err(e) => {
                        out.push(json!({"ev":"TakeErr","max":max,"err":e}));
                    }
                }
            }
        }
    }

    fn spont(&mut self, o: Vec<(u8, Vec<Value>, Vec<Value>)>, out: &mut Vec<Value>) {
        for (w, a, n) in o {
            if w >= 100 {
                out.push(json!({"ev":"Misdirected","w":w - 100,"dest":a[0]["misdirected"]}));
                continue;
            }
            out.push(json!({"ev":"Spont","w":w,"acks":a,"nfs":n}));
        }
    }
}

pub fn run_one(run_no: usize, spec: &RunSpec, out: &mut Vec<Value>) -> Vec<Vec<u8>> {
    let mut ex = if spec.via_socket { Exec::with_socket(spec.reliable, run_no) } else { Exec::new(spec.reliable) };
    ex.hostile_run = spec.acts.iter().any(|a| matches!(a, RAct::Hostile { .. }));
    out.push(json!({"ev":"Reset","run":run_no,"reliable":spec.reliable}));
    for a in &spec.acts {
        ex.step(a, out);
    }
    std::mem::take(&mut ex.captured)
}

/// Seeded random behaviour far beyond the exhaustive bound: up to 3 writers, hundreds of sequence
/// numbers, windows wider than 256, loss, duplication, reordering, fragments, gaps.
pub fn random_run(rng: &mut StdRng, n_events: usize) -> RunSpec {
    let reliable = rng.gen_bool(0.9);
    let nw = rng.gen_range(1..=3u8);
    let big = rng.gen_bool(0.3); // sequence numbers jump by hundreds
    let mut acts = vec![];
    let mut front = vec![0i64; 4]; // highest sn "written" so far per writer
    let mut hbc = vec![0i32; 4];
    let mut fragmented: std::collections::HashMap<(u8, i64), u32> = Default::default();
    for w in 1..=nw {
        acts.push(RAct::Match { w });
    }
    for _ in 0..n_events {
        let w = rng.gen_range(1..=nw);
        let f = front[w as usize];
        if rng.gen_range(0..25) == 0 {
            acts.push(RAct::PreTick);
            continue;
        }
        let r = rng.gen_range(0..100);
        if r < 40 {
            // data: new (maybe skipping some = loss) or old (duplicate / late)
            let sn = if rng.gen_bool(0.6) {
                let skip = if big && rng.gen_bool(0.1) { rng.gen_range(200..400) } else if rng.gen_bool(0.3) { rng.gen_range(1..4) } else { 1 };
                f + skip
            } else {
                rng.gen_range(1..=std::cmp::max(1, f))
            };
            front[w as usize] = std::cmp::max(f, sn);
            let tot = *fragmented.entry((w, sn)).or_insert_with(|| if rng.gen_bool(0.25) { rng.gen_range(2..=5) } else { 0 });
            if tot == 0 {
                acts.push(RAct::Data { w, sn, nots: rng.gen_bool(0.15), hx: [0u8, 0, 0, 4, 8][rng.gen_range(0..5)] });
            } else {
                // some fragments of it, any order, maybe not all
                let mut fr: Vec<u32> = (1..=tot).collect();
                for i in (1..fr.len()).rev() {
                    fr.swap(i, rng.gen_range(0..=i));
                }
                let keep = rng.gen_range(1..=fr.len());
                for &x in &fr[..keep] {
                    // a DATAFRAG submessage may carry several consecutive fragments
                    let fc = if rng.gen_bool(0.3) { rng.gen_range(1..=(tot - x + 1)) as u16 } else { 1 };
                    acts.push(RAct::DataFrag { w, sn, fs: x, fc, tot });
                }
            }
        } else if r < 65 {
            let first = if rng.gen_bool(0.7) { 1 } else { rng.gen_range(0..=f + 2) };
            let last = if rng.gen_bool(0.8) { f } else { rng.gen_range(0..=f + 3) };
            let count = if rng.gen_bool(0.9) {
                hbc[w as usize] += 1;
                hbc[w as usize]
            } else {
                rng.gen_range(0..=hbc[w as usize])
            };
            acts.push(RAct::Heartbeat { w, first, last, count, fin: rng.gen_bool(0.5) });
        } else if r < 75 {
            let start = rng.gen_range(1..=f + 1);
            let base = start + rng.gen_range(0..3);
            let mut set = vec![];
            for k in 0..rng.gen_range(0..4) {
                let s = base + k * 2 + rng.gen_range(0..2);
                if !set.contains(&s) && s < base + 256 {
                    set.push(s);
                }
            }
            front[w as usize] = std::cmp::max(f, base - 1);
            acts.push(RAct::Gap { w, start, base, set, nbits: if rng.gen_bool(0.5) { rng.gen_range(1..4) } else { 0 }, dirty: rng.gen_bool(0.5) });
        } else if r < 76 {
            // a re-announcement of the matched writer: nothing may change
            acts.push(RAct::Match { w });
        } else if r < 77 {
            acts.push(RAct::Unmatch { w });
            acts.push(RAct::Match { w });
            hbc[w as usize] = 0;
        } else {
            let max = match rng.gen_range(0..3) {
                0 => 1,
                1 => rng.gen_range(2..5),
                _ => 10_000,
            };
            acts.push(RAct::Take { max, byinst: rng.gen_bool(0.25) });
        }
    }
    acts.push(RAct::Take { max: 10_000, byinst: false });
    RunSpec { reliable, acts, via_socket: false }
}

pub fn random_specs(seed: u64, runs: usize, events: usize) -> Vec<RunSpec> {
    let mut rng = StdRng::seed_from_u64(seed);
    (0..runs).map(|_| random_run(&mut rng, events)).collect()
}

/// C06: a well-behaved writer (1) talks to the reader while peer 3 (matched in half of the runs)
/// sends one hostile class at a random point; afterwards the valid traffic continues.
pub fn hostile_specs(seed: u64, runs: usize) -> Vec<RunSpec> {
    let mut rng = StdRng::seed_from_u64(seed ^ 0xC06);
    let classes = crate::hostile::reader_classes();
    let mut out = vec![];
    for k in 0..runs {
        let cls = classes[k % classes.len()];
        let matched = (k / classes.len()) % 2 == 0;
        let mut acts = vec![RAct::Match { w: 1 }];
        if matched {
            acts.push(RAct::Match { w: HOSTILE_W });
        }
        let pre = rng.gen_range(0..6);
        let mut sn = 0;
        let mut hb = 0;
        let mut valid = |acts: &mut Vec<RAct>, rng: &mut StdRng, n: usize| {
            for _ in 0..n {
                match rng.gen_range(0..4) {
                    0 | 1 => {
                        sn += if rng.gen_bool(0.2) { 2 } else { 1 };
                        acts.push(RAct::Data { w: 1, sn, nots: false, hx: 0 });
                    }
                    2 => {
                        hb += 1;
                        acts.push(RAct::Heartbeat { w: 1, first: 1, last: sn, count: hb, fin: false });
                    }
                    _ => acts.push(RAct::Take { max: 100, byinst: false }),
                }
            }
        };
        valid(&mut acts, &mut rng, pre);
        // the hostile peer may also have sent something valid-looking before
        if matched && rng.gen_bool(0.5) {
            acts.push(RAct::Data { w: HOSTILE_W, sn: 1, nots: false, hx: 0 });
            acts.push(RAct::DataFrag { w: HOSTILE_W, sn: 2, fs: 1, fc: 1, tot: 3 });
        }
        acts.push(RAct::Hostile { w: HOSTILE_W, cls: cls.to_string() });
        valid(&mut acts, &mut rng, 6);
        // everything of writer 1 must still arrive
        for s in 1..=sn {
            acts.push(RAct::Data { w: 1, sn: s, nots: false, hx: 0 });
        }
        acts.push(RAct::Take { max: 10_000, byinst: false });
        // the third and fourth round over the classes go through the socket and the UDPListener
        out.push(RunSpec { reliable: true, acts, via_socket: (k / (2 * classes.len())) % 2 == 1 });
    }
    out
}
