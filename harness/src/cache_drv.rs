//! `cache` driver (C08, C09): values, disposes and unintelligible changes arrive as real datagrams
//! (MessageReceiver -> Reader -> TopicCache); every read/take form of the real DataReader, its
//! async streams and the SimpleDataReader below it is called and its result logged for
//! Trace_SampleCache.tla.

use std::collections::HashMap;
use std::pin::Pin;
use std::task::{Context, Poll};

use futures::stream::Stream;
use rand::{rngs::StdRng, Rng, SeedableRng};
use rustdds::verif::reader_rig::{guid_to_bytes, ReaderCfg, ReaderRig};
use rustdds::verif::VSample;
use rustdds::with_key::{DataSample, Sample};
use rustdds::{ReadCondition, SelectByKey};
use serde::{Deserialize, Serialize};
use serde_json::{json, Value};

use crate::reader_drv::{writer_eid, writer_guid, writer_of_prefix, writer_prefix};
use crate::util;
use crate::wire::{self, Param, Sub};

#[derive(Clone, Debug, Serialize, Deserialize)]
#[serde(tag = "a")]
pub enum CAct {
    /// kind: V value, DK dispose by key, DH dispose by key hash (instance known), DHU dispose by key hash of an
    /// instance never seen, UD undecodable payload, UR unknown representation identifier
    /// hold: the datagram is lost on first transmission and arrives only after the writer's next change (a
    /// retransmission: lower sequence number received later); reliable readers only
    Arrive {
        w: u8,
        k: u32,
        kind: String,
        #[serde(default)]
        hold: bool,
    },
    /// form: take read take_next read_next iter into_iter take_inst read_inst stream_bare stream simple
    Call { form: String, max: usize, cond: String, inst: i64, dir: String },
    /// call `form` until it returns nothing twice in a row
    Drain { form: String },
}

#[derive(Clone, Debug, Serialize, Deserialize)]
pub struct CRunSpec {
    pub reliable: bool,
    /// 0 KeepAll, d KeepLast(d)
    pub depth: i32,
    /// "dr" DataReader forms, "bare_stream", "stream", "simple"
    pub mode: String,
    pub acts: Vec<CAct>,
}

enum Dr {
    Reader,
    Bare(rustdds::with_key::BareDataReaderStream<VSample>),
    Full(rustdds::with_key::DataReaderStream<VSample>),
    /// a DataReader of an un-keyed topic (a wrapper around the keyed one that never shows a dispose) and its two streams
    NkReader(rustdds::no_key::DataReader<VSample>),
    NkBare(rustdds::no_key::BareDataReaderStream<VSample>),
    NkFull(rustdds::no_key::DataReaderStream<VSample>),
}

struct CExec {
    rig: ReaderRig,
    dr: Dr,
    reader_eid: [u8; 4],
    next_sn: HashMap<u8, i64>,
    ids: HashMap<(u8, i64), i64>, // (w, sn) -> arrival id (1-based)
    arrivals: Vec<(u8, i64, u32, String)>,
    /// injected but not yet emitted to the trace: (w, sn, k, wire kind, payload tag)
    pending: Vec<(u8, i64, u32, String, i64)>,
    /// reception order: payload tag -> position in the order the datagrams were really injected
    rx_of_tag: HashMap<i64, i64>,
    next_rx: i64,
    tag2id: HashMap<i64, i64>,
    next_tag: i64,
    max_tag_emitted: i64,
    reliable: bool,
    /// datagrams held back per writer (see CAct::Arrive.hold)
    held: HashMap<u8, Vec<(i64, Vec<u8>)>>,
    /// runs with unintelligible changes: SampleInfo clauses are not judged (the fill stops at errors)
    info_checks: bool,
}

fn cond_of(c: &str) -> ReadCondition {
    if c == "any" {
        ReadCondition::any()
    } else {
        ReadCondition::not_read()
    }
}

impl CExec {
    fn info_rec(&self, ds_info: &rustdds::SampleInfo, key: u32, is_value: bool) -> Value {
        let g = guid_to_bytes(ds_info.writer_guid());
        let w = writer_of_prefix(&g[0..12]);
        let sn: i64 = ds_info.sample_identity().sequence_number.into();
        let id = self.ids.get(&(w, sn)).copied().unwrap_or(-1);
        json!({
            "id": id, "w": w, "sn": sn, "k": key, "kind": if is_value {"V"} else {"D"},
            "ss": if ds_info.sample_state() == rustdds::SampleState::Read {"R"} else {"N"},
            "vs": if ds_info.view_state() == rustdds::ViewState::New {"N"} else {"NN"},
            "is": match ds_info.instance_state() { rustdds::InstanceState::Alive => "A", rustdds::InstanceState::NotAliveDisposed => "D", _ => "NW" },
            "dg": ds_info.disposed_generation_count(), "ng": ds_info.no_writers_generation_count(),
        })
    }

    fn bare_rec(&mut self, s: Sample<&VSample, u32>) -> Value {
        match s {
            Sample::Value(v) => {
                let id = self.tag2id.get(&(v.id as i64)).copied().unwrap_or(-2);
                let (w, sn) = if id > 0 { (self.arrivals[id as usize - 1].0, self.arrivals[id as usize - 1].1) } else { (0, 0) };
                json!({"id": id, "w": w, "sn": sn, "k": v.key, "kind":"V","ss":"N","vs":"N","is":"A","dg":0,"ng":0})
            }
            // a bare dispose carries no identity: id -1, judged only as far as possible without it
            Sample::Dispose(k) => json!({"id": -1, "w": 0, "sn": 0, "k": k, "kind":"D","ss":"N","vs":"N","is":"A","dg":0,"ng":0}),
        }
    }

    fn full_vec(&self, v: &[DataSample<VSample>]) -> Vec<Value> {
        v.iter()
            .map(|ds| match ds.value() {
                Sample::Value(x) => self.info_rec(ds.sample_info(), x.key, true),
                Sample::Dispose(k) => self.info_rec(ds.sample_info(), *k, false),
            })
            .collect()
    }

    fn release_held(&mut self, w: Option<u8>) {
        let ws: Vec<u8> = match w {
            Some(w) => vec![w],
            None => self.held.keys().copied().collect(),
        };
        for w in ws {
            for (tag, dg) in self.held.remove(&w).unwrap_or_default() {
                self.next_rx += 1;
                self.rx_of_tag.insert(tag, self.next_rx);
                let _ = self.rig.inject(&dg);
            }
        }
    }

    fn arrive(&mut self, w: u8, k: u32, kind: &str, hold: bool, out: &mut Vec<Value>) {
        let sn = {
            let e = self.next_sn.entry(w).or_insert(0);
            *e += 1;
            *e
        };
        self.next_tag += 1;
        let id = self.next_tag; // tag carried in the payload
        self.pending.push((w, sn, k, kind.to_string(), id));
        let disposed = || Some(vec![wire::status_info_param(true, false)]);
        let sub = match kind {
            "V" => Sub::Data { reader: self.reader_eid, writer: writer_eid(w), sn, inline_qos: None, payload: Some(wire::vsample_payload(k, id as u32, &[id as u8; 3])), key_flag: false },
            "DK" => Sub::Data { reader: self.reader_eid, writer: writer_eid(w), sn, inline_qos: disposed(), payload: Some(wire::vkey_payload(k)), key_flag: true },
            "DH" | "DHU" => Sub::Data {
                reader: self.reader_eid,
                writer: writer_eid(w),
                sn,
                inline_qos: Some(vec![Param { pid: wire::PID_KEY_HASH, value: wire::vkey_hash(k).to_vec() }, wire::status_info_param(true, false)]),
                payload: None,
                key_flag: false,
            },
            "UD" => Sub::Data { reader: self.reader_eid, writer: writer_eid(w), sn, inline_qos: None, payload: Some(vec![0, 1, 0, 0, 9, 9]), key_flag: false },
            // DATA with the key flag and an empty key, as a writer that treats the topic as keyed sends when it disposes:
            // a change the reader of an un-keyed topic cannot turn into a sample
            "KD" => Sub::Data { reader: self.reader_eid, writer: writer_eid(w), sn, inline_qos: None, payload: Some(vec![0, 1, 0, 0]), key_flag: true },
            _ => {
                let mut p = wire::vsample_payload(k, id as u32, &[1, 2, 3]);
                p[0] = 0x77;
                p[1] = 0x77;
                Sub::Data { reader: self.reader_eid, writer: writer_eid(w), sn, inline_qos: None, payload: Some(p), key_flag: false }
            }
        };
        let dg = wire::encode(&writer_prefix(w), &[Sub::InfoTs { ts: Some((100 + id as u32, 0)) }, sub]);
        if hold && self.reliable {
            self.held.entry(w).or_default().push((id, dg));
        } else {
            self.next_rx += 1;
            self.rx_of_tag.insert(id, self.next_rx);
            let _ = self.rig.inject(&dg);
            self.release_held(Some(w));
        }
        let _ = out;
    }

    /// A reliable reader hands changes to the DataReader per writer (writers in GUID order, sequence
    /// numbers ascending; C01), a best-effort reader in reception order.  The trace lists the
    /// arrivals in that hand-over order, just before the call that fetches them.
    fn emit_pending(&mut self, out: &mut Vec<Value>) {
        let mut p = std::mem::take(&mut self.pending);
        if self.reliable {
            p.sort_by_key(|x| (x.0, x.1));
        }
        for (w, sn, k, kind, tag) in p {
            let id = self.arrivals.len() as i64 + 1;
            self.ids.insert((w, sn), id);
            self.tag2id.insert(tag, id);
            self.arrivals.push((w, sn, k, kind.clone()));
            let abs_kind = match kind.as_str() {
                "V" => "V",
                "DK" | "DH" => "D",
                _ => "X",
            };
            // handed over in reception order so far? (tags count injections)
            let rx = self.rx_of_tag.get(&tag).copied().unwrap_or(tag);
            let ord = rx > self.max_tag_emitted;
            self.max_tag_emitted = std::cmp::max(self.max_tag_emitted, rx);
            out.push(json!({"ev":"Arrive","w":w,"sn":sn,"k":k,"kind":abs_kind,"wire":kind,"id":id,"ord":ord}));
        }
    }

    /// performs one call; returns (res, out)
    fn call(&mut self, form: &str, max: usize, cond: &str, inst: i64, dir: &str) -> (String, Vec<Value>) {
        let key = if inst < 0 { None } else { Some(inst as u32) };
        let sel = if dir == "next" { SelectByKey::Next } else { SelectByKey::This };
        let mut cx = Context::from_waker(futures::task::noop_waker_ref());
        match &mut self.dr {
            Dr::Bare(s) => match Pin::new(s).poll_next(&mut cx) {
                Poll::Pending => ("pending".into(), vec![]),
                // the stream of a living reader reported its end: an ordinary consumer stops here for good
                Poll::Ready(None) => ("ended".into(), vec![]),
                Poll::Ready(Some(Err(_))) => ("err".into(), vec![]),
                Poll::Ready(Some(Ok(smp))) => {
                    let r = match &smp {
                        Sample::Value(v) => self.bare_rec(Sample::Value(v)),
                        Sample::Dispose(k) => self.bare_rec(Sample::Dispose(*k)),
                    };
                    ("ok".into(), vec![r])
                }
            },
            Dr::Full(s) => match Pin::new(s).poll_next(&mut cx) {
                Poll::Pending => ("pending".into(), vec![]),
                Poll::Ready(None) => ("ended".into(), vec![]),
                Poll::Ready(Some(Err(_))) => ("err".into(), vec![]),
                Poll::Ready(Some(Ok(ds))) => ("ok".into(), self.full_vec(&[ds])),
            },
            Dr::NkBare(s) => match Pin::new(s).poll_next(&mut cx) {
                Poll::Pending => ("pending".into(), vec![]),
                Poll::Ready(None) => ("ended".into(), vec![]),
                Poll::Ready(Some(Err(_))) => ("err".into(), vec![]),
                Poll::Ready(Some(Ok(v))) => ("ok".into(), vec![self.bare_rec(Sample::Value(&v))]),
            },
            Dr::NkFull(s) => match Pin::new(s).poll_next(&mut cx) {
                Poll::Pending => ("pending".into(), vec![]),
                Poll::Ready(None) => ("ended".into(), vec![]),
                Poll::Ready(Some(Err(_))) => ("err".into(), vec![]),
                Poll::Ready(Some(Ok(ds))) => ("ok".into(), vec![self.bare_rec(Sample::Value(ds.value()))]),
            },
            Dr::NkReader(_) => {
                let rc = if cond == "any" { ReadCondition::any() } else { ReadCondition::not_read() };
                // (the reader is taken out for the call: bare_rec needs the rest of self)
                let Dr::NkReader(mut dr) = std::mem::replace(&mut self.dr, Dr::Reader) else { unreachable!() };
                let r = match form {
                    "nk_take" => match dr.take(max, rc) {
                        Err(_) => ("err".to_string(), vec![]),
                        Ok(v) => ("ok".to_string(), v.iter().map(|ds| self.bare_rec(Sample::Value(ds.value()))).collect()),
                    },
                    "nk_read" => match dr.read(max, rc) {
                        Err(_) => ("err".to_string(), vec![]),
                        Ok(v) => ("ok".to_string(), v.iter().map(|ds| self.bare_rec(Sample::Value(*ds.value()))).collect()),
                    },
                    "nk_take_next" => match dr.take_next_sample() {
                        Err(_) => ("err".to_string(), vec![]),
                        Ok(None) => ("ok".to_string(), vec![]),
                        Ok(Some(ds)) => ("ok".to_string(), vec![self.bare_rec(Sample::Value(ds.value()))]),
                    },
                    _ => match dr.into_iterator() {
                        Err(_) => ("err".to_string(), vec![]),
                        Ok(it) => {
                            let vals: Vec<VSample> = it.take(max).collect();
                            ("ok".to_string(), vals.iter().map(|v| self.bare_rec(Sample::Value(v))).collect())
                        }
                    },
                };
                self.dr = Dr::NkReader(dr);
                r
            }
            Dr::Reader => {
                if form == "simple" {
                    let r = self.rig.slots[0].dr().verif_simple().try_take_one();
                    return match r {
                        Err(_) => ("err".into(), vec![]),
                        Ok(None) => ("ok".into(), vec![]),
                        Ok(Some(dcc)) => {
                            let (g, sn, sample) = dcc.verif_parts();
                            let w = writer_of_prefix(&g[0..12]);
                            let id = self.ids.get(&(w, sn)).copied().unwrap_or(-1);
                            let (k, kind) = match sample {
                                Sample::Value(v) => (v.key, "V"),
                                Sample::Dispose(k) => (k, "D"),
                            };
                            ("ok".into(), vec![json!({"id":id,"w":w,"sn":sn,"k":k,"kind":kind,"ss":"N","vs":"N","is":"A","dg":0,"ng":0})])
                        }
                    };
                }
                macro_rules! full {
                    ($e:expr) => {{
                        match $e {
                            Err(_) => ("err".to_string(), vec![]),
                            Ok(v) => {
                                let owned: Vec<Value> = v
                                    .iter()
                                    .map(|ds| match ds.value() {
                                        Sample::Value(x) => self.info_rec(ds.sample_info(), x.key, true),
                                        Sample::Dispose(k) => self.info_rec(ds.sample_info(), *k, false),
                                    })
                                    .collect();
                                ("ok".to_string(), owned)
                            }
                        }
                    }};
                }
                match form {
                    "take" => {
                        let r = self.rig.slots[0].dr().take(max, cond_of(cond));
                        full!(r)
                    }
                    "take_next" => {
                        let r = self.rig.slots[0].dr().take_next_sample().map(|o| o.into_iter().collect::<Vec<_>>());
                        full!(r)
                    }
                    "take_inst" => {
                        let r = self.rig.slots[0].dr().take_instance(max, cond_of(cond), key, sel);
                        full!(r)
                    }
                    "read" | "read_next" | "read_inst" => {
                        // results borrow the reader: convert inside
                        let r: Result<Vec<(rustdds::SampleInfo, u32, bool)>, ()> = {
                            let dr = self.rig.slots[0].dr();
                            let res = match form {
                                "read" => dr.read(max, cond_of(cond)),
                                "read_next" => dr.read_next_sample().map(|o| o.into_iter().collect::<Vec<_>>()),
                                _ => dr.read_instance(max, cond_of(cond), key, sel),
                            };
                            res.map(|v| {
                                v.iter()
                                    .map(|ds| match ds.value() {
                                        Sample::Value(x) => (ds.sample_info().clone(), x.key, true),
                                        Sample::Dispose(k) => (ds.sample_info().clone(), *k, false),
                                    })
                                    .collect()
                            })
                            .map_err(|_| ())
                        };
                        match r {
                            Err(_) => ("err".into(), vec![]),
                            Ok(v) => ("ok".into(), v.iter().map(|(i, k, isv)| self.info_rec(i, *k, *isv)).collect()),
                        }
                    }
                    "iter" => {
                        let r: Result<Vec<Sample<VSample, u32>>, ()> = {
                            let dr = self.rig.slots[0].dr();
                            dr.iterator().map(|it| it.map(|s| match s { Sample::Value(v) => Sample::Value(v.clone()), Sample::Dispose(k) => Sample::Dispose(k) }).collect()).map_err(|_| ())
                        };
                        match r {
                            Err(_) => ("err".into(), vec![]),
                            Ok(v) => ("ok".into(), v.iter().map(|s| match s { Sample::Value(x) => self.bare_rec(Sample::Value(x)), Sample::Dispose(k) => self.bare_rec(Sample::Dispose(*k)) }).collect()),
                        }
                    }
                    _ => {
                        // into_iter
                        let r: Result<Vec<Sample<VSample, u32>>, ()> = self.rig.slots[0].dr().into_iterator().map(|it| it.collect()).map_err(|_| ());
                        match r {
                            Err(_) => ("err".into(), vec![]),
                            Ok(v) => ("ok".into(), v.iter().map(|s| match s { Sample::Value(x) => self.bare_rec(Sample::Value(x)), Sample::Dispose(k) => self.bare_rec(Sample::Dispose(*k)) }).collect()),
                        }
                    }
                }
            }
        }
    }

    fn do_call(&mut self, form: &str, max: usize, cond: &str, inst: i64, dir: &str, out: &mut Vec<Value>) -> (String, usize) {
        // effective parameters of the forms that fix them
        let (max, cond) = match form {
            "take_next" | "read_next" | "stream_bare" | "stream" | "nk_stream" | "nk_stream_bare" | "nk_take_next" => (1, "notread"),
            "simple" => (1, "any"),
            "iter" | "into_iter" | "nk_into_iter" => (1_000_000, "notread"),
            _ => (max, cond),
        };
        self.release_held(None);
        self.emit_pending(out);
        util::live_event(&json!({"ev":"CallBegin","form":form,"_streamed":true}));
        let mut res = ("died".to_string(), vec![]);
        let m = crate::measure::measure(|| {
            res = self.call(form, max, cond, inst, dir);
        });
        if m.panic.is_some() {
            res = ("died".to_string(), vec![]);
        }
        let removing = matches!(form, "take" | "take_next" | "take_inst" | "into_iter" | "stream_bare" | "stream" | "simple" | "nk_take" | "nk_take_next" | "nk_into_iter" | "nk_stream" | "nk_stream_bare");
        let marking = matches!(form, "read" | "read_next" | "read_inst" | "iter" | "nk_read");
        let full = self.info_checks && matches!(form, "take" | "take_next" | "take_inst" | "read" | "read_next" | "read_inst" | "stream");
        let viewing = form != "simple" && !form.starts_with("nk_");
        let scope = if form.ends_with("_inst") { dir } else { "all" };
        let n = res.1.len();
        out.push(json!({"ev":"Call","form":form,"max":max,"cond":cond,"scope":scope,"inst":inst,"res":res.0,"out":res.1,
            "removing":removing,"marking":marking,"full":full,"viewing":viewing,"strict": form != "simple" || true, "panic": m.panic.unwrap_or_default()}));
        (res.0, n)
    }
}

pub fn run_one(run_no: usize, spec: &CRunSpec, out: &mut Vec<Value>) -> Vec<Vec<u8>> {
    let mut rig = ReaderRig::new(&[ReaderCfg { reliable: spec.reliable, history_depth: if spec.depth == 0 { None } else { Some(spec.depth) }, max_samples: Some(100_000) }]);
    for w in 1..=2u8 {
        rig.match_writer(0, writer_guid(w), spec.reliable, 23_000 + w as u16);
    }
    let mut reader_eid = rig.slots[0].entity_id;
    let mut nk = None;
    if spec.mode.starts_with("nk_") {
        let (dr, eid) = rig.add_no_key_reader(spec.reliable);
        for w in 1..=2u8 {
            rig.match_writer_to(eid, writer_guid(w), spec.reliable, 23_100 + w as u16);
        }
        reader_eid = eid;
        nk = Some(dr);
    }
    let dr = match spec.mode.as_str() {
        "nk_dr" => Dr::NkReader(nk.take().unwrap()),
        "nk_bare_stream" => Dr::NkBare(nk.take().unwrap().async_bare_sample_stream()),
        "nk_stream" => Dr::NkFull(nk.take().unwrap().async_sample_stream()),
        "bare_stream" => Dr::Bare(rig.slots[0].detach_datareader().async_bare_sample_stream()),
        "stream" => Dr::Full(rig.slots[0].detach_datareader().async_sample_stream()),
        _ => Dr::Reader,
    };
    let info_checks = !spec.mode.starts_with("nk_") && !spec.acts.iter().any(|a| matches!(a, CAct::Arrive { kind, .. } if kind == "UD" || kind == "UR" || kind == "DHU"));
    let mut ex = CExec { rig, dr, reader_eid, next_sn: HashMap::new(), ids: HashMap::new(), arrivals: vec![], pending: vec![], rx_of_tag: HashMap::new(), next_rx: 0, tag2id: HashMap::new(), next_tag: 0, max_tag_emitted: 0, reliable: spec.reliable, held: HashMap::new(), info_checks };
    out.push(json!({"ev":"Reset","run":run_no,"depth":spec.depth,"reliable":spec.reliable,"mode":spec.mode}));
    for a in &spec.acts {
        match a {
            CAct::Arrive { w, k, kind, hold } => ex.arrive(*w, *k, kind, *hold, out),
            CAct::Call { form, max, cond, inst, dir } => {
                ex.do_call(form, *max, cond, *inst, dir, out);
            }
            CAct::Drain { form } => {
                let mut empties = 0;
                let mut n = 0;
                let inst_form = form.ends_with("_inst");
                // instance forms see one instance per call: go round all instances
                let keys = [1i64, 2, 3, 9];
                // an un-keyed reader counts a dispose it cannot show against `max`: every skipped change may cost one call
                // that returns nothing ("skipped exactly once"), so nothing is there only after that many empty calls in a row
                let skipped = if form.starts_with("nk_") { spec.acts.iter().filter(|a| matches!(a, CAct::Arrive { kind, .. } if kind != "V")).count() } else { 0 };
                while empties < (if inst_form { 8 } else { 2 + skipped }) && n < 120 + skipped {
                    let inst = if inst_form { keys[n % keys.len()] } else { -1 };
                    let (res, cnt) = ex.do_call(form, 1000, "notread", inst, "this", out);
                    if res == "died" {
                        break;
                    }
                    if (res == "ok" || res == "pending" || res == "ended") && cnt == 0 {
                        empties += 1;
                    } else {
                        empties = 0;
                    }
                    n += 1;
                }
                ex.emit_pending(out);
                out.push(json!({"ev":"Drained"}));
            }
        }
    }
    vec![]
}

fn forms_of(mode: &str) -> Vec<&'static str> {
    match mode {
        "bare_stream" => vec!["stream_bare"],
        "stream" => vec!["stream"],
        "simple" => vec!["simple"],
        "nk_bare_stream" => vec!["nk_stream_bare"],
        "nk_stream" => vec!["nk_stream"],
        "nk_dr" => vec!["nk_take", "nk_read", "nk_take_next", "nk_into_iter"],
        _ => vec!["take", "read", "take_next", "read_next", "iter", "into_iter", "take_inst", "read_inst"],
    }
}

/// C08: only intelligible changes, DataReader forms mixed freely
pub fn random_c08(rng: &mut StdRng, n_events: usize) -> CRunSpec {
    let depth = [0, 0, 1, 2, 3][rng.gen_range(0..5)];
    let mode = ["dr", "dr", "dr", "stream", "bare_stream"][rng.gen_range(0..5)];
    let forms = forms_of(mode);
    let mut acts = vec![];
    let mut seen_keys: Vec<u32> = vec![];
    let mut creator = [1u8; 8];
    for _ in 0..n_events {
        if rng.gen_bool(0.55) {
            let k = rng.gen_range(1..=3u32);
            let mut w = rng.gen_range(1..=2u8);
            let kind = if !seen_keys.contains(&k) || rng.gen_bool(0.7) {
                "V"
            } else if rng.gen_bool(0.5) {
                "DK"
            } else {
                // by key hash: resolvable only if the reader processed a value of that instance before;
                // with per-writer hand-over that is certain only for the writer that created the instance
                w = creator[k as usize];
                "DH"
            };
            if !seen_keys.contains(&k) {
                seen_keys.push(k);
                creator[k as usize] = w;
            }
            acts.push(CAct::Arrive { w, k, kind: kind.into(), hold: rng.gen_bool(0.15) });
        } else {
            let form = forms[rng.gen_range(0..forms.len())];
            acts.push(CAct::Call {
                form: form.into(),
                max: [1, 2, 1000][rng.gen_range(0..3)],
                cond: if rng.gen_bool(0.5) { "any".into() } else { "notread".into() },
                inst: rng.gen_range(-1..=3),
                dir: if rng.gen_bool(0.5) { "this".into() } else { "next".into() },
            });
        }
    }
    CRunSpec { reliable: true, depth, mode: mode.into(), acts }
}

/// C09: unintelligible changes of every kind at random positions, one form per run, then drain
pub fn random_c09(rng: &mut StdRng, n_events: usize, k: usize) -> CRunSpec {
    let modes = ["dr", "dr", "dr", "dr", "dr", "dr", "dr", "dr", "stream", "bare_stream", "simple", "nk_dr", "nk_dr", "nk_stream", "nk_bare_stream"];
    let mode = modes[k % modes.len()];
    if mode.starts_with("nk_") {
        return random_c09_nk(rng, n_events, k, mode);
    }
    let forms = forms_of(mode);
    let form = forms[(k / modes.len()) % forms.len()];
    let reliable = (k / 3) % 4 != 0;
    let mut acts = vec![];
    let mut seen_keys: Vec<u32> = vec![];
    let mut creator = [1u8; 8];
    for _ in 0..n_events {
        let r = rng.gen_range(0..100);
        if r < 70 {
            let k = rng.gen_range(1..=3u32);
            let kind = if r < 35 || !seen_keys.contains(&k) {
                "V"
            } else if r < 42 {
                "DK"
            } else if r < 49 {
                "DH"
            } else {
                ["UD", "UR", "DHU"][rng.gen_range(0..3)]
            };
            let key = if kind == "DHU" { 9 } else { k };
            let mut w = rng.gen_range(1..=2u8);
            if kind == "DH" {
                w = creator[k as usize];
            }
            if kind == "V" && !seen_keys.contains(&k) {
                seen_keys.push(k);
                creator[k as usize] = w;
            }
            // dispose by hash is only "known" after a value of that key from the same reader was processed:
            // the driver keeps that deterministic by calling the form right after each first value of a key
            acts.push(CAct::Arrive { w, k: key, kind: kind.into(), hold: rng.gen_bool(0.1) });
        } else {
            acts.push(CAct::Call { form: form.into(), max: [1, 1000][rng.gen_range(0..2)], cond: "notread".into(), inst: -1, dir: "this".into() });
        }
    }
    acts.push(CAct::Drain { form: form.into() });
    CRunSpec { reliable, depth: 0, mode: mode.into(), acts }
}

/// C09 on an un-keyed topic: values, key-only DATA (a dispose the un-keyed reader cannot show) and undecodable payloads
fn random_c09_nk(rng: &mut StdRng, n_events: usize, k: usize, mode: &str) -> CRunSpec {
    let forms = forms_of(mode);
    let form = forms[(k / 15) % forms.len()];
    let mut acts = vec![];
    for _ in 0..n_events {
        let r = rng.gen_range(0..100);
        if r < 70 {
            let kind = if r < 40 { "V" } else if r < 58 { "KD" } else { ["UD", "UR"][rng.gen_range(0..2)] };
            acts.push(CAct::Arrive { w: rng.gen_range(1..=2u8), k: 1, kind: kind.into(), hold: rng.gen_bool(0.1) });
        } else {
            acts.push(CAct::Call { form: form.into(), max: [1, 1000][rng.gen_range(0..2)], cond: "notread".into(), inst: -1, dir: "this".into() });
        }
    }
    acts.push(CAct::Drain { form: form.into() });
    CRunSpec { reliable: (k / 3) % 4 != 0, depth: 0, mode: mode.into(), acts }
}

pub fn main(mode: &str, opt: &HashMap<String, String>) -> i32 {
    match mode {
        "replay" => util::run_parallel(opt, util::read_jsonl::<CRunSpec>(&opt["in"]), run_one),
        "random" => {
            let mut rng = StdRng::seed_from_u64(util::get(opt, "seed", 1u64) ^ 0xC08);
            let n: usize = util::get(opt, "runs", 100);
            let ev: usize = util::get(opt, "events", 30);
            let specs: Vec<CRunSpec> = (0..n).map(|_| random_c08(&mut rng, ev)).collect();
            util::run_parallel(opt, specs, run_one)
        }
        "gen-c09" => {
            let mut rng = StdRng::seed_from_u64(util::get(opt, "seed", 1u64) ^ 0xC09);
            let n: usize = util::get(opt, "runs", 100);
            let ev: usize = util::get(opt, "events", 24);
            let specs: Vec<CRunSpec> = (0..n).map(|k| random_c09(&mut rng, ev, k)).collect();
            util::write_jsonl(&opt["out"], &specs)
        }
        "guarded" => util::run_guarded(opt, util::read_jsonl::<CRunSpec>(&opt["in"]), run_one),
        _ => 2,
    }
}
