//! Independent, minimal RTPS 2.x wire codec (written from the RTPS specification, not from the
//! crate under test). Used to build datagrams that are injected into the real code and to decode
//! what the real code emits, so the oracle never relies on the crate's own (de)serialisers.

#![allow(dead_code)]

use serde::{Deserialize, Serialize};

pub const PAD: u8 = 0x01;
pub const ACKNACK: u8 = 0x06;
pub const HEARTBEAT: u8 = 0x07;
pub const GAP: u8 = 0x08;
pub const INFO_TS: u8 = 0x09;
pub const INFO_SRC: u8 = 0x0c;
pub const INFO_REPLY_IP4: u8 = 0x0d;
pub const INFO_DST: u8 = 0x0e;
pub const INFO_REPLY: u8 = 0x0f;
pub const NACK_FRAG: u8 = 0x12;
pub const HEARTBEAT_FRAG: u8 = 0x13;
pub const DATA: u8 = 0x15;
pub const DATA_FRAG: u8 = 0x16;

pub const PID_SENTINEL: u16 = 0x0001;
pub const PID_KEY_HASH: u16 = 0x0070;
pub const PID_STATUS_INFO: u16 = 0x0071;

#[derive(Clone, Debug, PartialEq, Eq, Serialize, Deserialize)]
pub struct Param {
    pub pid: u16,
    pub value: Vec<u8>,
}

#[derive(Clone, Debug, PartialEq, Eq, Serialize, Deserialize)]
pub struct NumSet {
    pub base: i64,
    pub num_bits: u32,
    pub words: Vec<u32>,
}

impl NumSet {
    pub fn empty(base: i64) -> Self {
        NumSet { base, num_bits: 0, words: vec![] }
    }
    /// canonical set: num_bits = max-base+1
    pub fn from_set(base: i64, members: &[i64]) -> Self {
        let mut num_bits = 0u32;
        for &m in members {
            assert!(m >= base && m < base + 256);
            num_bits = num_bits.max((m - base + 1) as u32);
        }
        let mut words = vec![0u32; ((num_bits + 31) / 32) as usize];
        for &m in members {
            let off = (m - base) as usize;
            words[off / 32] |= 1u32 << (31 - (off % 32));
        }
        NumSet { base, num_bits, words }
    }
    /// members per RTPS 9.4.2.6: bit i (MSB first) of the bitmap, i < num_bits
    pub fn members(&self) -> Vec<i64> {
        let mut out = vec![];
        for i in 0..self.num_bits as usize {
            let w = i / 32;
            if w < self.words.len() && (self.words[w] >> (31 - (i % 32))) & 1 == 1 {
                out.push(self.base + i as i64);
            }
        }
        out
    }
}

#[derive(Clone, Debug, PartialEq, Eq, Serialize, Deserialize)]
pub enum Sub {
    Data {
        reader: [u8; 4],
        writer: [u8; 4],
        sn: i64,
        inline_qos: Option<Vec<Param>>,
        /// payload bytes including the 4-byte encapsulation header
        payload: Option<Vec<u8>>,
        key_flag: bool,
    },
    DataFrag {
        reader: [u8; 4],
        writer: [u8; 4],
        sn: i64,
        frag_start: u32,
        frags_in_sub: u16,
        frag_size: u16,
        sample_size: u32,
        inline_qos: Option<Vec<Param>>,
        payload: Vec<u8>,
        key_flag: bool,
    },
    Heartbeat { reader: [u8; 4], writer: [u8; 4], first: i64, last: i64, count: i32, final_flag: bool, liveliness: bool },
    Gap { reader: [u8; 4], writer: [u8; 4], start: i64, list: NumSet },
    AckNack { reader: [u8; 4], writer: [u8; 4], set: NumSet, count: i32, final_flag: bool },
    NackFrag { reader: [u8; 4], writer: [u8; 4], sn: i64, set: NumSet, count: i32 },
    HeartbeatFrag { reader: [u8; 4], writer: [u8; 4], sn: i64, last_frag: u32, count: i32 },
    InfoTs { ts: Option<(u32, u32)> },
    InfoDst { prefix: [u8; 12] },
    InfoSrc { version: [u8; 2], vendor: [u8; 2], prefix: [u8; 12] },
    Pad { len: u16 },
    /// any other kind (incl. security submessages): kept opaque
    Other { kind: u8, flags: u8, body: Vec<u8> },
}

#[derive(Clone, Debug, PartialEq, Eq, Serialize, Deserialize)]
pub struct Msg {
    pub version: [u8; 2],
    pub vendor: [u8; 2],
    pub prefix: [u8; 12],
    pub subs: Vec<Sub>,
}

pub struct W {
    pub buf: Vec<u8>,
    pub le: bool,
}

impl W {
    fn u16(&mut self, v: u16) {
        if self.le { self.buf.extend_from_slice(&v.to_le_bytes()) } else { self.buf.extend_from_slice(&v.to_be_bytes()) }
    }
    fn u32(&mut self, v: u32) {
        if self.le { self.buf.extend_from_slice(&v.to_le_bytes()) } else { self.buf.extend_from_slice(&v.to_be_bytes()) }
    }
    fn i32(&mut self, v: i32) {
        self.u32(v as u32)
    }
    fn sn(&mut self, v: i64) {
        self.i32((v >> 32) as i32);
        self.u32(v as u32);
    }
    fn bytes(&mut self, b: &[u8]) {
        self.buf.extend_from_slice(b)
    }
    fn snset(&mut self, s: &NumSet) {
        self.sn(s.base);
        self.u32(s.num_bits);
        for w in &s.words {
            self.u32(*w);
        }
    }
    fn fnset(&mut self, s: &NumSet) {
        self.u32(s.base as u32);
        self.u32(s.num_bits);
        for w in &s.words {
            self.u32(*w);
        }
    }
    fn params(&mut self, ps: &[Param]) {
        for p in ps {
            self.u16(p.pid);
            let padded = (p.value.len() + 3) / 4 * 4;
            self.u16(padded as u16);
            self.bytes(&p.value);
            for _ in p.value.len()..padded {
                self.buf.push(0);
            }
        }
        self.u16(PID_SENTINEL);
        self.u16(0);
    }
}

thread_local! {
    /// extra octets (a multiple of 4) the encoder puts between the fixed part of the DATA header and the inline QoS / payload
    pub static DATA_HEADER_EXTRA: std::cell::Cell<u8> = const { std::cell::Cell::new(0) };
}

pub fn encode_sub(s: &Sub, le: bool) -> Vec<u8> {
    let mut w = W { buf: vec![], le };
    let e = if le { 1u8 } else { 0 };
    let (kind, flags) = match s {
        Sub::Data { reader, writer, sn, inline_qos, payload, key_flag } => {
            // octetsToInlineQos: 16, or more when the sender's (later) protocol version has a longer submessage header;
            // the extra octets are skipped by a conforming reader whether or not inline QoS follows (RTPS 2.5 9.4.5.4)
            let extra = DATA_HEADER_EXTRA.with(|x| x.get());
            w.u16(0);
            w.u16(16 + extra as u16);
            w.bytes(reader);
            w.bytes(writer);
            w.sn(*sn);
            for _ in 0..extra {
                w.buf.push(0xEE);
            }
            let mut f = e;
            if let Some(q) = inline_qos {
                f |= 0x02;
                w.params(q);
            }
            if let Some(p) = payload {
                f |= if *key_flag { 0x08 } else { 0x04 };
                w.bytes(p);
                while w.buf.len() % 4 != 0 {
                    w.buf.push(0);
                }
            }
            (DATA, f)
        }
        Sub::DataFrag { reader, writer, sn, frag_start, frags_in_sub, frag_size, sample_size, inline_qos, payload, key_flag } => {
            w.u16(0);
            w.u16(28);
            w.bytes(reader);
            w.bytes(writer);
            w.sn(*sn);
            w.u32(*frag_start);
            w.u16(*frags_in_sub);
            w.u16(*frag_size);
            w.u32(*sample_size);
            let mut f = e;
            if let Some(q) = inline_qos {
                f |= 0x02;
                w.params(q);
            }
            if *key_flag {
                f |= 0x04;
            }
            w.bytes(payload);
            while w.buf.len() % 4 != 0 {
                w.buf.push(0);
            }
            (DATA_FRAG, f)
        }
        Sub::Heartbeat { reader, writer, first, last, count, final_flag, liveliness } => {
            w.bytes(reader);
            w.bytes(writer);
            w.sn(*first);
            w.sn(*last);
            w.i32(*count);
            (HEARTBEAT, e | if *final_flag { 2 } else { 0 } | if *liveliness { 4 } else { 0 })
        }
        Sub::Gap { reader, writer, start, list } => {
            w.bytes(reader);
            w.bytes(writer);
            w.sn(*start);
            w.snset(list);
            (GAP, e)
        }
        Sub::AckNack { reader, writer, set, count, final_flag } => {
            w.bytes(reader);
            w.bytes(writer);
            w.snset(set);
            w.i32(*count);
            (ACKNACK, e | if *final_flag { 2 } else { 0 })
        }
        Sub::NackFrag { reader, writer, sn, set, count } => {
            w.bytes(reader);
            w.bytes(writer);
            w.sn(*sn);
            w.fnset(set);
            w.i32(*count);
            (NACK_FRAG, e)
        }
        Sub::HeartbeatFrag { reader, writer, sn, last_frag, count } => {
            w.bytes(reader);
            w.bytes(writer);
            w.sn(*sn);
            w.u32(*last_frag);
            w.i32(*count);
            (HEARTBEAT_FRAG, e)
        }
        Sub::InfoTs { ts } => match ts {
            Some((s, f)) => {
                w.u32(*s);
                w.u32(*f);
                (INFO_TS, e)
            }
            None => (INFO_TS, e | 2),
        },
        Sub::InfoDst { prefix } => {
            w.bytes(prefix);
            (INFO_DST, e)
        }
        Sub::InfoSrc { version, vendor, prefix } => {
            w.u32(0);
            w.bytes(version);
            w.bytes(vendor);
            w.bytes(prefix);
            (INFO_SRC, e)
        }
        Sub::Pad { len } => {
            for _ in 0..*len {
                w.buf.push(0);
            }
            (PAD, e)
        }
        Sub::Other { kind, flags, body } => {
            w.bytes(body);
            (*kind, *flags)
        }
    };
    let le = flags & 1 == 1;
    let mut out = vec![kind, flags];
    let l = w.buf.len() as u16;
    if le { out.extend_from_slice(&l.to_le_bytes()) } else { out.extend_from_slice(&l.to_be_bytes()) }
    out.extend_from_slice(&w.buf);
    out
}

pub fn encode_header(prefix: &[u8; 12]) -> Vec<u8> {
    let mut out = b"RTPS".to_vec();
    out.extend_from_slice(&[2, 4]);
    out.extend_from_slice(&[0x01, 0x12]);
    out.extend_from_slice(prefix);
    out
}

pub fn encode(prefix: &[u8; 12], subs: &[Sub]) -> Vec<u8> {
    let mut out = encode_header(prefix);
    for s in subs {
        out.extend_from_slice(&encode_sub(s, true));
    }
    out
}

pub fn encode_endian(prefix: &[u8; 12], subs: &[Sub], le: bool) -> Vec<u8> {
    let mut out = encode_header(prefix);
    for s in subs {
        out.extend_from_slice(&encode_sub(s, le));
    }
    out
}

pub struct R<'a> {
    pub b: &'a [u8],
    pub pos: usize,
    pub le: bool,
}

impl<'a> R<'a> {
    fn need(&self, n: usize) -> Result<(), String> {
        if self.pos + n > self.b.len() { Err(format!("short read at {} need {} have {}", self.pos, n, self.b.len())) } else { Ok(()) }
    }
    fn u8(&mut self) -> Result<u8, String> {
        self.need(1)?;
        let v = self.b[self.pos];
        self.pos += 1;
        Ok(v)
    }
    fn u16(&mut self) -> Result<u16, String> {
        self.need(2)?;
        let a = [self.b[self.pos], self.b[self.pos + 1]];
        self.pos += 2;
        Ok(if self.le { u16::from_le_bytes(a) } else { u16::from_be_bytes(a) })
    }
    fn u32(&mut self) -> Result<u32, String> {
        self.need(4)?;
        let mut a = [0u8; 4];
        a.copy_from_slice(&self.b[self.pos..self.pos + 4]);
        self.pos += 4;
        Ok(if self.le { u32::from_le_bytes(a) } else { u32::from_be_bytes(a) })
    }
    fn sn(&mut self) -> Result<i64, String> {
        let h = self.u32()? as i32;
        let l = self.u32()?;
        Ok(((h as i64) << 32) | l as i64)
    }
    fn arr<const N: usize>(&mut self) -> Result<[u8; N], String> {
        self.need(N)?;
        let mut a = [0u8; N];
        a.copy_from_slice(&self.b[self.pos..self.pos + N]);
        self.pos += N;
        Ok(a)
    }
    fn snset(&mut self) -> Result<NumSet, String> {
        let base = self.sn()?;
        let num_bits = self.u32()?;
        if num_bits > 256 {
            return Err(format!("numBits {num_bits} > 256"));
        }
        let mut words = vec![];
        for _ in 0..(num_bits + 31) / 32 {
            words.push(self.u32()?);
        }
        Ok(NumSet { base, num_bits, words })
    }
    fn fnset(&mut self) -> Result<NumSet, String> {
        let base = self.u32()? as i64;
        let num_bits = self.u32()?;
        if num_bits > 256 {
            return Err(format!("numBits {num_bits} > 256"));
        }
        let mut words = vec![];
        for _ in 0..(num_bits + 31) / 32 {
            words.push(self.u32()?);
        }
        Ok(NumSet { base, num_bits, words })
    }
    fn params(&mut self) -> Result<Vec<Param>, String> {
        let mut out = vec![];
        loop {
            let pid = self.u16()?;
            let len = self.u16()? as usize;
            if pid == PID_SENTINEL {
                break;
            }
            self.need(len)?;
            out.push(Param { pid, value: self.b[self.pos..self.pos + len].to_vec() });
            self.pos += len;
        }
        Ok(out)
    }
}

pub fn decode(bytes: &[u8]) -> Result<Msg, String> {
    if bytes.len() < 20 || &bytes[0..4] != b"RTPS" {
        return Err("bad header".into());
    }
    let mut msg = Msg { version: [bytes[4], bytes[5]], vendor: [bytes[6], bytes[7]], prefix: [0; 12], subs: vec![] };
    msg.prefix.copy_from_slice(&bytes[8..20]);
    let mut pos = 20;
    while pos < bytes.len() {
        if pos + 4 > bytes.len() {
            return Err("truncated submessage header".into());
        }
        let kind = bytes[pos];
        let flags = bytes[pos + 1];
        let le = flags & 1 == 1;
        let l = if le { u16::from_le_bytes([bytes[pos + 2], bytes[pos + 3]]) } else { u16::from_be_bytes([bytes[pos + 2], bytes[pos + 3]]) } as usize;
        let body_start = pos + 4;
        let body_end = if l == 0 && kind != PAD && kind != INFO_TS { bytes.len() } else { body_start + l };
        if body_end > bytes.len() {
            return Err(format!("submessage length {l} overruns message"));
        }
        let body = &bytes[body_start..body_end];
        let mut r = R { b: body, pos: 0, le };
        let sub = match kind {
            DATA => {
                let _extra = r.u16()?;
                let otiq = r.u16()? as usize;
                let reader = r.arr::<4>()?;
                let writer = r.arr::<4>()?;
                let sn = r.sn()?;
                // octetsToInlineQos counts from just after that field
                r.pos = 4 + otiq;
                r.need(0)?;
                let inline_qos = if flags & 0x02 != 0 { Some(r.params()?) } else { None };
                let has_payload = flags & 0x0c != 0;
                let payload = if has_payload { Some(body[r.pos..].to_vec()) } else { None };
                Sub::Data { reader, writer, sn, inline_qos, payload, key_flag: flags & 0x08 != 0 }
            }
            DATA_FRAG => {
                let _extra = r.u16()?;
                let otiq = r.u16()? as usize;
                let reader = r.arr::<4>()?;
                let writer = r.arr::<4>()?;
                let sn = r.sn()?;
                let frag_start = r.u32()?;
                let frags_in_sub = r.u16()?;
                let frag_size = r.u16()?;
                let sample_size = r.u32()?;
                r.pos = 4 + otiq;
                r.need(0)?;
                let inline_qos = if flags & 0x02 != 0 { Some(r.params()?) } else { None };
                let payload = body[r.pos..].to_vec();
                Sub::DataFrag { reader, writer, sn, frag_start, frags_in_sub, frag_size, sample_size, inline_qos, payload, key_flag: flags & 0x04 != 0 }
            }
            HEARTBEAT => Sub::Heartbeat {
                reader: r.arr()?,
                writer: r.arr()?,
                first: r.sn()?,
                last: r.sn()?,
                count: r.u32()? as i32,
                final_flag: flags & 2 != 0,
                liveliness: flags & 4 != 0,
            },
            GAP => Sub::Gap { reader: r.arr()?, writer: r.arr()?, start: r.sn()?, list: r.snset()? },
            ACKNACK => Sub::AckNack { reader: r.arr()?, writer: r.arr()?, set: r.snset()?, count: r.u32()? as i32, final_flag: flags & 2 != 0 },
            NACK_FRAG => Sub::NackFrag { reader: r.arr()?, writer: r.arr()?, sn: r.sn()?, set: r.fnset()?, count: r.u32()? as i32 },
            HEARTBEAT_FRAG => Sub::HeartbeatFrag { reader: r.arr()?, writer: r.arr()?, sn: r.sn()?, last_frag: r.u32()?, count: r.u32()? as i32 },
            INFO_TS => {
                if flags & 2 != 0 {
                    Sub::InfoTs { ts: None }
                } else {
                    Sub::InfoTs { ts: Some((r.u32()?, r.u32()?)) }
                }
            }
            INFO_DST => Sub::InfoDst { prefix: r.arr()? },
            INFO_SRC => {
                let _unused = r.u32()?;
                Sub::InfoSrc { version: r.arr()?, vendor: r.arr()?, prefix: r.arr()? }
            }
            PAD => Sub::Pad { len: l as u16 },
            _ => Sub::Other { kind, flags, body: body.to_vec() },
        };
        msg.subs.push(sub);
        pos = body_end;
    }
    Ok(msg)
}

/// CDR_LE encapsulated VSample {key:u32, id:u32, body: sequence<octet>}
pub fn vsample_payload(key: u32, id: u32, body: &[u8]) -> Vec<u8> {
    let mut p = vec![0x00, 0x01, 0x00, 0x00];
    p.extend_from_slice(&key.to_le_bytes());
    p.extend_from_slice(&id.to_le_bytes());
    p.extend_from_slice(&(body.len() as u32).to_le_bytes());
    p.extend_from_slice(body);
    p
}

/// CDR_LE encapsulated key (u32) for dispose-by-key
pub fn vkey_payload(key: u32) -> Vec<u8> {
    let mut p = vec![0x00, 0x01, 0x00, 0x00];
    p.extend_from_slice(&key.to_le_bytes());
    p
}

/// RTPS key hash of a u32 key: CDR big-endian key, zero padded to 16 bytes (9.6.3.8; key shorter than 16 bytes)
pub fn vkey_hash(key: u32) -> [u8; 16] {
    let mut h = [0u8; 16];
    h[0..4].copy_from_slice(&key.to_be_bytes());
    h
}

pub fn status_info_param(disposed: bool, unregistered: bool) -> Param {
    let mut v = 0u8;
    if disposed {
        v |= 1;
    }
    if unregistered {
        v |= 2;
    }
    Param { pid: PID_STATUS_INFO, value: vec![0, 0, 0, v] }
}

pub fn eid(b: [u8; 4]) -> [u8; 4] {
    b
}
