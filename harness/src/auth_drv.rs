//! `auth` driver (C19): two REAL `AuthenticationBuiltin` plugins with CA-issued fixture identities
//! run the three-message PKI-DH handshake; an attacker on the (plaintext) stateless channel delivers
//! copies, replays from an earlier session, reflections and altered / forged variants of the
//! messages at any point.  The driver dispatches every delivery to the plugin call that
//! `discovery/secure_discovery.rs` would make in the receiver's discovery-level state
//! (PendingRequestMessage -> begin_handshake_reply, PendingReplyMessage / PendingFinalMessage ->
//! process_handshake, otherwise no plugin call) and logs inputs, outcome class, emitted message
//! and what `get_shared_secret` hands out on both sides, for Trace_Handshake.tla.
//!
//! Message ids: 1/2/3 = request/reply/final emitted in this run, 11/12/13 = the same recorded from
//! an earlier complete handshake of the same identities (replay material).
//!
//! Every delivery can additionally REMOVE properties from the token (`strip`, after the alteration): the
//! properties whose inclusion the standard leaves to the sender (hash_c1, hash_c2, dh1 of a reply, dh1 / dh2
//! of a final) as the model enumerates them, or any property (`rm:<name>`).  The driver logs, as facts
//! from a property-by-property comparison with the message the token derives from, which properties
//! changed (`chg`) and which are gone (`rm`); Trace_Handshake.tla classifies the delivery from those.
//!
//! Strengthening round 3:
//! * `Lie` (a configuration act, takes effect before the parties discover each other): a party ANNOUNCES a
//!   participant GUID that differs from the one bound to its certificate in one byte (`pos`, bits `mask`):
//!   in the c.pdata it hands to begin_handshake_request / begin_handshake_reply and in the GUID prefix the peer
//!   passes to validate_remote_identity.  The Reset event logs, as facts, the byte positions in which announced
//!   and certificate-bound GUID differ (`gdA` / `gdB`); the judge derives bound / unbound from them.
//! * `via` of a delivery: "disc" (default) = the call secure_discovery.rs makes from its mirror of the state;
//!   "api" = dispatch by message kind at the plugin API: a token whose class id says Request goes to
//!   begin_handshake_reply in ANY state (only the plugin's own state guard protects a handshake in progress).

use std::{collections::HashMap, sync::OnceLock};

use rand::{rngs::StdRng, Rng, SeedableRng};
use rustdds::verif::auth_rig::{self, AuthRig, Tok, CLASS_FINAL, CLASS_REPLY, CLASS_REQ};
use serde::{Deserialize, Serialize};
use serde_json::{json, Value};

use crate::util;

#[derive(Clone, Debug, Serialize, Deserialize)]
pub struct Act {
    /// "Req" | "Dlv"
    pub a: String,
    #[serde(default)]
    pub to: String,
    #[serde(default)]
    pub mid: u32,
    /// "none" | "det" (driver picks a concrete detectable alteration) | concrete name, see `apply_alt`
    #[serde(default)]
    pub alt: String,
    #[serde(default)]
    pub pos: Option<usize>,
    #[serde(default)]
    pub mask: Option<u8>,
    /// properties removed from the token after the alteration
    #[serde(default)]
    pub strip: Vec<String>,
    /// "" | "disc" | "api", see module doc
    #[serde(default)]
    pub via: String,
}

fn yes() -> bool {
    true
}

#[derive(Clone, Debug, Serialize, Deserialize)]
pub struct ARunSpec {
    pub acts: Vec<Act>,
    #[serde(default)]
    pub seed: u64,
    /// finish with the genuine continuation (each outstanding genuine message delivered once)
    #[serde(default = "yes")]
    pub cont: bool,
}

struct Fx {
    ca: String,
    perm: Vec<u8>,
    /// identity of A (initiator, p2), B (replier, p1), third CA-issued identity, foreign-CA twins of A and B
    a: (String, String),
    b: (String, String),
    third: (String, String),
    fa: (String, String),
    fb: (String, String),
}

static FX: OnceLock<Fx> = OnceLock::new();
static SEED: OnceLock<u64> = OnceLock::new();

fn load_fx(dir: &str) -> Fx {
    let rd = |n: &str| std::fs::read_to_string(format!("{dir}/{n}")).unwrap_or_else(|e| panic!("fixture {dir}/{n}: {e}"));
    Fx {
        ca: rd("ca.cert.pem"),
        perm: rd("perm.txt").into_bytes(),
        a: (rd("p2.cert.pem"), rd("p2.key.pem")),
        b: (rd("p1.cert.pem"), rd("p1.key.pem")),
        third: (rd("p3.cert.pem"), rd("p3.key.pem")),
        fa: (rd("f2.cert.pem"), rd("f2.key.pem")),
        fb: (rd("f1.cert.pem"), rd("f1.key.pem")),
    }
}

const CAND_A: [u8; 16] = [0xA1, 2, 3, 4, 5, 6, 7, 8, 9, 10, 11, 12, 0, 0, 1, 0xC1];
const CAND_B: [u8; 16] = [0xB1, 2, 3, 4, 5, 6, 7, 8, 9, 10, 11, 12, 0, 0, 1, 0xC1];
const CAND_T: [u8; 16] = [0xC1, 2, 3, 4, 5, 6, 7, 8, 9, 10, 11, 12, 0, 0, 1, 0xC1];

const A: usize = 0;
const B: usize = 1;

fn pname(i: usize) -> &'static str {
    if i == A {
        "A"
    } else {
        "B"
    }
}

fn new_rig(fx: &Fx) -> AuthRig {
    let mut rig = AuthRig::new();
    let a = rig.add_party(&fx.ca, &fx.a.0, &fx.a.1, &fx.perm, CAND_A).expect("fixture identity A");
    let b = rig.add_party(&fx.ca, &fx.b.0, &fx.b.1, &fx.perm, CAND_B).expect("fixture identity B");
    assert!(a == A && b == B);
    rig
}

struct Old {
    req: Tok,
    reply: Tok,
    fin: Tok,
    third_guid: [u8; 16],
}

thread_local! {
    static OLD: std::cell::RefCell<Option<std::rc::Rc<Old>>> = const { std::cell::RefCell::new(None) };
}

/// messages of an earlier, complete, genuine handshake of the same two identities
fn old_session(fx: &Fx) -> std::rc::Rc<Old> {
    OLD.with(|o| {
        if let Some(x) = o.borrow().as_ref() {
            return x.clone();
        }
        let mut rig = new_rig(fx);
        rig.meet(A, B);
        rig.meet(B, A);
        let req = rig.begin_request(A, B).tok.expect("old session: request");
        let reply = rig.begin_reply(B, A, &req).tok.expect("old session: reply");
        let fin = rig.process(A, B, &reply).tok.expect("old session: final");
        let t = rig.add_party(&fx.ca, &fx.third.0, &fx.third.1, &fx.perm, CAND_T).expect("fixture identity third");
        let x = std::rc::Rc::new(Old { req, reply, fin, third_guid: rig.guid(t) });
        *o.borrow_mut() = Some(x.clone());
        x
    })
}

fn fields_of(kind: &str) -> &'static [&'static str] {
    match kind {
        "req" => &["c.id", "c.perm", "c.pdata", "c.dsign_algo", "c.kagree_algo", "hash_c1", "dh1", "challenge1"],
        "reply" => &["c.id", "c.perm", "c.pdata", "c.dsign_algo", "c.kagree_algo", "hash_c1", "dh1", "hash_c2", "dh2", "challenge1", "challenge2", "signature"],
        _ => &["hash_c1", "dh1", "hash_c2", "dh2", "challenge1", "challenge2", "signature"],
    }
}

/// symbolic (whole-field / forged) alterations applicable to a message kind
fn symbolic_of(kind: &str) -> &'static [&'static str] {
    match kind {
        "req" => &["class", "foreign_cert", "foreign_full", "third_unbound", "unbound_guid", "swap_algo", "trunc"],
        "reply" => &["class", "foreign_cert", "foreign_full", "third_unbound", "unbound_guid", "swap_algo", "trunc", "forge_final_foreign", "forge_final_third"],
        _ => &["class", "foreign_full", "third_unbound", "trunc"],
    }
}

fn kind_of(mid: u32) -> &'static str {
    match mid % 10 {
        1 => "req",
        2 => "reply",
        _ => "final",
    }
}

/// properties whose inclusion DDS Security 1.1 (Tables 49-51) leaves to the sender
fn optional_of(kind: &str) -> &'static [&'static str] {
    match kind {
        "req" => &["hash_c1"],
        "reply" => &["hash_c1", "hash_c2", "dh1"],
        _ => &["hash_c1", "hash_c2", "dh1", "dh2"],
    }
}

/// every alteration the receiver is able to notice although the properties in `strip` are removed afterwards:
/// all of them except bytes of dh1 / challenge1 of a request, alterations of a property that is removed anyway and,
/// for a request without hash_c1, the c.* properties nothing else protects
fn detectable(kind: &str, strip: &[String]) -> Vec<String> {
    let gone = |f: &str| strip.iter().any(|s| s == f);
    let unprotected = kind == "req" && gone("hash_c1");
    let mut v: Vec<String> = fields_of(kind)
        .iter()
        .filter(|f| !(kind == "req" && (**f == "dh1" || **f == "challenge1")))
        .filter(|f| !gone(f))
        .filter(|f| !(unprotected && ["c.perm", "c.pdata", "c.dsign_algo"].contains(*f)))
        .map(|f| format!("b:{f}"))
        .collect();
    v.extend(
        symbolic_of(kind)
            .iter()
            // trunc picks its property by position, swap_algo is caught by hash_c1 only
            .filter(|s| strip.is_empty() || (**s != "trunc" && !(unprotected && **s == "swap_algo")))
            .map(|s| s.to_string()),
    );
    // removal of a property the parsers require (everything but the two hashes)
    v.extend(fields_of(kind).iter().filter(|f| !f.starts_with("hash_c") && !gone(f)).map(|f| format!("rm:{f}")));
    v
}

/// Builds the delivered token.  `by_a`: the base message was emitted by A (decides which foreign twin
/// the attacker uses).  Returns None when the alteration does not apply.
fn apply_alt(fx: &Fx, old: &Old, base: &Tok, by_a: bool, alt: &str, pos: usize, mask: u8) -> Option<Tok> {
    let mut t = base.clone();
    let foreign = if by_a { &fx.fa } else { &fx.fb };
    let signed = t.class_id != CLASS_REQ;
    match alt {
        "none" => {}
        "class" => {
            t.class_id = if t.class_id == CLASS_REQ { CLASS_REPLY } else if t.class_id == CLASS_REPLY { CLASS_FINAL } else { CLASS_REQ }.to_string();
        }
        "foreign_cert" => {
            t.get("c.id")?;
            t.set("c.id", foreign.0.clone().into_bytes());
        }
        // the strongest forgery without the CA key: certificate of another CA with the same subject
        // (so the GUID binding holds), hashes and signature made consistent with the attacker's key
        "foreign_full" => {
            if t.get("c.id").is_some() {
                t.set("c.id", foreign.0.clone().into_bytes());
                auth_rig::fix_hash(&mut t);
            }
            if signed {
                auth_rig::resign(&mut t, &foreign.1).ok()?;
            }
        }
        // a CA-issued insider presents its own certificate for the victim's GUID
        "third_unbound" => {
            if t.get("c.id").is_some() {
                t.set("c.id", fx.third.0.clone().into_bytes());
                auth_rig::fix_hash(&mut t);
            }
            if signed {
                auth_rig::resign(&mut t, &fx.third.1).ok()?;
            }
        }
        // (outside the generated catalogue) insider substitutes itself consistently, own GUID
        "third_bound" => {
            t.get("c.id")?;
            t.set("c.id", fx.third.0.clone().into_bytes());
            t.set("c.pdata", auth_rig::pdata_for(old.third_guid));
            auth_rig::fix_hash(&mut t);
            if signed {
                auth_rig::resign(&mut t, &fx.third.1).ok()?;
            }
        }
        "unbound_guid" => {
            t.get("c.pdata")?;
            let mut g = [0x5Au8; 16];
            g[15] = 0xC1;
            t.set("c.pdata", auth_rig::pdata_for(g));
            auth_rig::fix_hash(&mut t);
        }
        "swap_algo" => {
            let v = t.get("c.kagree_algo")?.clone();
            let other: &[u8] = if v == b"ECDH+prime256v1-CEUM" { b"DH+MODP-2048-256" } else { b"ECDH+prime256v1-CEUM" };
            t.set("c.kagree_algo", other.to_vec());
        }
        "trunc" => {
            let f = fields_of(match t.class_id.as_str() {
                CLASS_REQ => "req",
                CLASS_REPLY => "reply",
                _ => "final",
            });
            let name = f[pos % f.len()];
            let mut v = t.get(name)?.clone();
            v.pop()?;
            t.set(name, v);
        }
        "forge_final_foreign" => {
            if t.class_id != CLASS_REPLY {
                return None;
            }
            // the reply was emitted by B; the attacker poses as A's foreign twin
            t = auth_rig::forge_final(base, &fx.fa.1).ok()?;
        }
        "forge_final_third" => {
            if t.class_id != CLASS_REPLY {
                return None;
            }
            t = auth_rig::forge_final(base, &fx.third.1).ok()?;
        }
        other if other.starts_with("rm:") => {
            let name = other.strip_prefix("rm:")?;
            t.get(name)?;
            t.remove(name);
        }
        other => {
            let name = other.strip_prefix("b:")?;
            let mut v = t.get(name)?.clone();
            if v.is_empty() {
                return None;
            }
            let i = pos % v.len();
            v[i] ^= if mask == 0 { 1 } else { mask };
            t.set(name, v);
        }
    }
    Some(t)
}

struct Run<'a> {
    fx: &'a Fx,
    old: std::rc::Rc<Old>,
    rig: AuthRig,
    /// discovery-level state per party, as secure_discovery.rs keeps it
    ds: [&'static str; 2],
    /// genuine messages emitted in this run: index 1,2,3
    emitted: [Option<Tok>; 4],
    secrets: Vec<Vec<u8>>,
    rng: StdRng,
}

impl<'a> Run<'a> {
    fn sec_id(&mut self, i: usize) -> usize {
        match self.rig.secret(i, 1 - i) {
            None => 0,
            Some(s) => match self.secrets.iter().position(|x| *x == s) {
                Some(p) => p + 1,
                None => {
                    self.secrets.push(s);
                    self.secrets.len()
                }
            },
        }
    }

    fn outputs(&mut self, e: &mut Value) {
        e["secA"] = json!(self.sec_id(A));
        e["secB"] = json!(self.sec_id(B));
        e["dbg"] = json!({"A": self.rig.state(A, B), "B": self.rig.state(B, A), "dsA": self.ds[A], "dsB": self.ds[B]});
    }

    fn req(&mut self, ev: &mut Vec<Value>) {
        if self.ds[A] != "ReqSend" {
            return;
        }
        let r = self.rig.begin_request(A, B);
        let acc = r.ok && r.outcome == "PendingHandshakeMessage" && r.tok.is_some();
        let mut e = json!({"ev":"Req","out": if acc {"acc"} else if r.outcome == "Panic" {"panic"} else {"rej"}, "emit": if acc {1} else {0}, "err": r.err});
        if acc {
            self.emitted[1] = r.tok;
            self.ds[A] = "Reply";
        }
        self.outputs(&mut e);
        ev.push(e);
    }

    fn base(&self, mid: u32) -> Option<Tok> {
        match mid {
            1..=3 => self.emitted[mid as usize].clone(),
            11 => Some(self.old.req.clone()),
            12 => Some(self.old.reply.clone()),
            13 => Some(self.old.fin.clone()),
            _ => None,
        }
    }

    fn dlv(&mut self, act: &Act, ev: &mut Vec<Value>) {
        let to = if act.to == "A" { A } else { B };
        let Some(base) = self.base(act.mid) else { return };
        let kind = kind_of(act.mid);
        let mut alt = act.alt.clone();
        if alt.is_empty() {
            alt = "none".into();
        }
        if alt == "det" {
            let c = detectable(kind, &act.strip);
            alt = c[self.rng.gen_range(0..c.len())].clone();
        }
        let pos = act.pos.unwrap_or_else(|| self.rng.gen_range(0..4096));
        let mask = act.mask.unwrap_or_else(|| 1u8 << self.rng.gen_range(0..8));
        let by_a = kind != "reply";
        let Some(mut msg) = apply_alt(self.fx, &self.old, &base, by_a, &alt, pos, mask) else { return };
        // an alteration that leaves the token unchanged is no alteration
        let alt = if msg == base { "none".to_string() } else { alt };
        for s in &act.strip {
            msg.remove(s);
        }
        // dispatch by message kind at the plugin API: whatever claims to be a request goes to begin_handshake_reply
        let call = if act.via == "api" && msg.class_id == CLASS_REQ {
            "begin_reply"
        } else {
            match self.ds[to] {
                "ReqMsg" => "begin_reply",
                "Reply" | "Final" => "process",
                _ => "none",
            }
        };
        let r = match call {
            "begin_reply" => Some(self.rig.begin_reply(to, 1 - to, &msg)),
            "process" => Some(self.rig.process(to, 1 - to, &msg)),
            _ => None,
        };
        let mut out = "ign";
        let mut emit = 0;
        let mut err = String::new();
        if let Some(r) = r {
            // diagnostic only (never in the verdict); the state guards print the whole state incl. the certificate
            err = r.err.chars().take(200).collect();
            // outcome classes exactly as secure_discovery.rs matches them
            let acc = match (call, self.ds[to]) {
                ("begin_reply", _) => r.ok && r.outcome == "PendingHandshakeMessage" && r.tok.is_some(),
                ("process", "Reply") => r.ok && r.outcome == "OkFinalMessage" && r.tok.is_some(),
                ("process", _) => r.ok && r.outcome == "Ok" && r.tok.is_none(),
                _ => false,
            };
            out = if acc {
                "acc"
            } else if r.outcome == "Panic" {
                "panic"
            } else {
                "rej"
            };
            if acc {
                match (call, self.ds[to]) {
                    ("begin_reply", _) => {
                        self.emitted[2] = r.tok;
                        emit = 2;
                        self.ds[to] = "Final";
                    }
                    ("process", "Reply") => {
                        self.emitted[3] = r.tok;
                        emit = 3;
                        self.ds[to] = "DoneS";
                    }
                    _ => self.ds[to] = "DoneR",
                }
            }
        }
        // which properties of the delivered token differ from the message it derives from (facts, not classes):
        // chg = value differs / property added / class id differs, rm = property no longer there
        let mut diff: Vec<String> = vec![];
        let mut chg: Vec<String> = vec![];
        let mut rm: Vec<String> = vec![];
        if msg.class_id != base.class_id {
            diff.push("class".into());
            chg.push("class".into());
        }
        for (n, v) in &base.props {
            match msg.get(n) {
                None => {
                    if !rm.contains(n) {
                        rm.push(n.clone());
                    }
                    diff.push(n.clone());
                }
                Some(x) if x != v => {
                    chg.push(n.clone());
                    diff.push(n.clone());
                }
                _ => {}
            }
        }
        for (n, _) in &msg.props {
            if base.get(n).is_none() {
                diff.push(format!("+{n}"));
                chg.push(format!("+{n}"));
            }
        }
        // property order / multiplicity is part of the token too
        if chg.is_empty() && rm.is_empty() && msg != base {
            chg.push("order".into());
        }
        let diff = diff.join(",");
        let mut e = json!({"ev":"Dlv","to":pname(to),"mid":act.mid,"k":kind,"alt":alt,"diff":diff,"chg":chg,"rm":rm,"pos":pos,"mask":mask,"via":if act.via == "api" {"api"} else {"disc"},"call":call,"out":out,"emit":emit,"err":err});
        self.outputs(&mut e);
        ev.push(e);
    }

    /// the genuine exchange carries on: every outstanding genuine message is delivered once
    fn continuation(&mut self, ev: &mut Vec<Value>) {
        self.req(ev);
        let d = |to: &str, mid: u32| Act { a: "Dlv".into(), to: to.into(), mid, alt: "none".into(), pos: Some(0), mask: Some(1), strip: vec![], via: String::new() };
        if self.emitted[1].is_some() && self.ds[B] != "DoneR" {
            // B waits for the request, or answered something else before: the genuine request (again)
            let answered_genuine = ev.iter().any(|e| e["ev"] == "Dlv" && e["to"] == "B" && e["mid"] == 1 && e["alt"] == "none" && e["out"] == "acc");
            if !answered_genuine {
                self.dlv(&d("B", 1), ev);
            }
        }
        if self.emitted[2].is_some() && self.ds[A] == "Reply" {
            self.dlv(&d("A", 2), ev);
        }
        if self.emitted[3].is_some() && self.ds[B] == "Final" {
            self.dlv(&d("B", 3), ev);
        }
    }
}

/// Party `who` announces its certificate-bound GUID with byte `pos` altered (bits `mask`; None: a seeded single
/// bit).  The roles follow from the order of the ANNOUNCED prefixes (validate_remote_identity), so only masks
/// that keep A below B are used; with none left the party stays honest.
fn apply_lie(rig: &mut AuthRig, who: usize, pos: usize, mask: Option<u8>, rng: &mut StdRng) {
    let bound = rig.guid(who);
    let other = rig.guid(1 - who);
    let pos = pos % 16;
    let first = rng.gen_range(0..8);
    let masks: Vec<u8> = match mask {
        Some(m) if m != 0 => vec![m],
        _ => (0..8).map(|b| 1u8 << ((first + b) % 8)).collect(),
    };
    for m in masks {
        let mut ann = bound;
        ann[pos] ^= m;
        let keeps_roles = if who == A { ann[..12] < other[..12] } else { other[..12] < ann[..12] };
        if keeps_roles {
            rig.announce_guid(who, ann);
            return;
        }
    }
}

fn hex(b: &[u8]) -> String {
    b.iter().map(|x| format!("{x:02x}")).collect()
}

pub fn run_one(k: usize, spec: &ARunSpec, ev: &mut Vec<Value>) -> Vec<Vec<u8>> {
    let fx = FX.get().expect("fixtures not loaded");
    let old = old_session(fx);
    let mut rig = new_rig(fx);
    let seed = *SEED.get().unwrap_or(&1);
    let mut rng = StdRng::seed_from_u64(seed ^ spec.seed ^ ((k as u64) << 20) ^ 0xC19);
    // configuration: what each party announces as its GUID (at most one lie per party, before discovery)
    let bound = [rig.guid(A), rig.guid(B)];
    let mut lied = [false, false];
    for act in spec.acts.iter().filter(|a| a.a == "Lie") {
        let who = if act.to == "A" { A } else { B };
        if !lied[who] {
            lied[who] = true;
            apply_lie(&mut rig, who, act.pos.unwrap_or(0), act.mask, &mut rng);
        }
    }
    let ann = [rig.guid(A), rig.guid(B)];
    // facts: byte positions in which the announced GUID differs from the certificate-bound one
    let gd = |p: usize| -> Vec<usize> { (0..16).filter(|i| ann[p][*i] != bound[p][*i]).collect() };
    let meet_a = rig.meet(A, B);
    let meet_b = rig.meet(B, A);
    ev.push(json!({"ev":"Reset","run":k,"meetA":meet_a,"meetB":meet_b,"gdA":gd(A),"gdB":gd(B),
                   "dbg":{"boundA":hex(&bound[A]),"annA":hex(&ann[A]),"boundB":hex(&bound[B]),"annB":hex(&ann[B])}}));
    let mut run = Run {
        fx,
        old,
        rig,
        ds: ["ReqSend", "ReqMsg"],
        emitted: [None, None, None, None],
        secrets: vec![],
        rng,
    };
    for act in &spec.acts {
        match act.a.as_str() {
            "Req" => run.req(ev),
            "Dlv" => run.dlv(act, ev),
            _ => {}
        }
    }
    if spec.cont {
        run.continuation(ev);
    }
    let mut e = json!({"ev":"End"});
    run.outputs(&mut e);
    ev.push(e);
    vec![]
}

fn dl(to: &str, mid: u32, alt: &str, pos: Option<usize>, mask: Option<u8>) -> Act {
    Act { a: "Dlv".into(), to: to.into(), mid, alt: alt.into(), pos, mask, strip: vec![], via: String::new() }
}

/// the same delivery handed to the plugin by message kind (a request always to begin_handshake_reply)
fn api(a: Act) -> Act {
    Act { via: "api".into(), ..a }
}

/// party `to` announces its GUID with byte `pos` altered
fn lie(to: &str, pos: usize, mask: Option<u8>) -> Act {
    Act { a: "Lie".into(), to: to.into(), mid: 0, alt: "none".into(), pos: Some(pos), mask, strip: vec![], via: String::new() }
}

/// the same delivery with properties removed
fn dls(to: &str, mid: u32, alt: &str, pos: Option<usize>, mask: Option<u8>, strip: &[&str]) -> Act {
    Act { strip: strip.iter().map(|s| s.to_string()).collect(), ..dl(to, mid, alt, pos, mask) }
}

fn rq() -> Act {
    Act { a: "Req".into(), to: "A".into(), mid: 0, alt: "none".into(), pos: None, mask: None, strip: vec![], via: String::new() }
}

/// all non-empty subsets of the sender-optional properties of a message kind
fn strips_of(kind: &str) -> Vec<Vec<&'static str>> {
    let o = optional_of(kind);
    (1u32..(1 << o.len())).map(|m| o.iter().enumerate().filter(|(i, _)| m & (1 << i) != 0).map(|(_, p)| *p).collect()).collect()
}

/// genuine prefix that brings the receiver of message `mid` into the state that waits for it
fn prefix_for(mid: u32) -> Vec<Act> {
    match mid {
        1 => vec![rq()],
        2 => vec![rq(), dl("B", 1, "none", None, None)],
        3 => vec![rq(), dl("B", 1, "none", None, None), dl("A", 2, "none", None, None)],
        // the whole exchange
        _ => vec![rq(), dl("B", 1, "none", None, None), dl("A", 2, "none", None, None), dl("B", 3, "none", None, None)],
    }
}

/// Systematic part: every byte of every field of each of the three messages (one single-bit
/// alteration per byte and run; `bits` > 1 repeats with other bits), every symbolic alteration, the
/// replays, injected where the receiver waits for exactly that message, followed by the genuine one.
fn sweep_specs(fx: &Fx, bits: usize, rng: &mut StdRng) -> Vec<ARunSpec> {
    let old = old_session(fx);
    let mut v = vec![];
    // plain genuine handshake
    v.push(ARunSpec { acts: vec![], seed: 0, cont: true });
    for mid in [1u32, 2, 3] {
        let kind = kind_of(mid);
        let to = if mid == 2 { "A" } else { "B" };
        let sample = match mid {
            1 => &old.req,
            2 => &old.reply,
            _ => &old.fin,
        };
        for f in fields_of(kind) {
            let len = sample.get(f).map(|x| x.len()).unwrap_or(0);
            for pos in 0..len {
                for _ in 0..bits {
                    let mut acts = prefix_for(mid);
                    acts.push(dl(to, mid, &format!("b:{f}"), Some(pos), Some(1u8 << rng.gen_range(0..8))));
                    v.push(ARunSpec { acts, seed: 0, cont: true });
                }
            }
        }
        for s in symbolic_of(kind) {
            for pos in 0..(if *s == "trunc" { fields_of(kind).len() } else { 1 }) {
                for target in ["A", "B"] {
                    let mut acts = prefix_for(mid);
                    acts.push(dl(target, mid, s, Some(pos), Some(1)));
                    v.push(ARunSpec { acts, seed: 0, cont: true });
                }
            }
        }
        // replays of the earlier session and of this session, reflections, at the point of `mid`
        for m2 in [1u32, 2, 3, 11, 12, 13] {
            for target in ["A", "B"] {
                let mut acts = prefix_for(mid);
                acts.push(dl(target, m2, "none", None, None));
                v.push(ARunSpec { acts, seed: 0, cont: true });
            }
        }
    }
    // ---- presence of properties (strengthening round) -------------------------------------------------
    for mid in [1u32, 2, 3] {
        let kind = kind_of(mid);
        let to = if mid == 2 { "A" } else { "B" };
        // removal of each single property (required ones: an alteration; sender-optional ones: an equivalent copy)
        for f in fields_of(kind) {
            for target in ["A", "B"] {
                let mut acts = prefix_for(mid);
                acts.push(dl(target, mid, &format!("rm:{f}"), None, None));
                v.push(ARunSpec { acts, seed: 0, cont: true });
            }
        }
        // every message of this and of the earlier session, minus every non-empty set of sender-optional
        // properties, at the point where `mid` is awaited, to either party
        for m2 in [1u32, 2, 3, 11, 12, 13] {
            for st in strips_of(kind_of(m2)) {
                for target in ["A", "B"] {
                    let mut acts = prefix_for(mid);
                    acts.push(dls(target, m2, "none", None, None, &st));
                    v.push(ARunSpec { acts, seed: 0, cont: true });
                }
            }
        }
        // every symbolic alteration and one byte of every property (every byte when bits > 1), with the
        // optional hashes (the properties the code really treats as optional) removed as well
        let hashes: Vec<&str> = optional_of(kind).iter().copied().filter(|p| p.starts_with("hash_c")).collect();
        for s in symbolic_of(kind) {
            for pos in 0..(if *s == "trunc" { fields_of(kind).len() } else { 1 }) {
                let mut acts = prefix_for(mid);
                acts.push(dls(to, mid, s, Some(pos), Some(1), &hashes));
                v.push(ARunSpec { acts, seed: 0, cont: true });
            }
        }
        let sample = match mid {
            1 => &old.req,
            2 => &old.reply,
            _ => &old.fin,
        };
        for base in [mid, mid + 10] {
            for f in fields_of(kind) {
                let len = sample.get(f).map(|x| x.len()).unwrap_or(0);
                if len == 0 {
                    continue;
                }
                let positions: Vec<usize> = if bits > 1 { (0..len).collect() } else { vec![rng.gen_range(0..len)] };
                for pos in positions {
                    let mut acts = prefix_for(mid);
                    acts.push(dls(to, base, &format!("b:{f}"), Some(pos), Some(1u8 << rng.gen_range(0..8)), &hashes));
                    v.push(ARunSpec { acts, seed: 0, cont: true });
                }
            }
        }
    }
    // ---- announced GUID (strengthening round 3): either party announces its certificate-bound GUID with one bit
    // of one byte flipped -- every bit of every byte -- and the plain exchange follows (continuation); the same
    // (one seeded bit per byte) with the optional hashes removed from the message that carries the GUID
    for who in ["A", "B"] {
        for pos in 0..16usize {
            for bit in 0..8 {
                v.push(ARunSpec { acts: vec![lie(who, pos, Some(1u8 << bit))], seed: 0, cont: true });
            }
            let mut acts = vec![lie(who, pos, None), rq()];
            if who == "A" {
                acts.push(dls("B", 1, "none", None, None, &["hash_c1"]));
            } else {
                acts.push(dl("B", 1, "none", None, None));
                acts.push(dls("A", 2, "none", None, None, &["hash_c1", "hash_c2"]));
            }
            v.push(ARunSpec { acts, seed: pos as u64, cont: true });
        }
    }
    // ---- dispatch by message kind: a request (this / the earlier session; unchanged, altered where the replier
    // cannot tell, detectably altered, without hash_c1) handed to begin_handshake_reply of either party at every
    // point of the exchange and after it
    for point in [1u32, 2, 3, 4] {
        for m2 in [1u32, 11] {
            for target in ["A", "B"] {
                for alt in ["none", "b:dh1", "b:challenge1", "det"] {
                    for st in [&[][..], &["hash_c1"][..]] {
                        let mut acts = prefix_for(point);
                        acts.push(api(dls(target, m2, alt, None, None, st)));
                        v.push(ARunSpec { acts, seed: v.len() as u64, cont: true });
                    }
                }
            }
        }
    }
    // composite forgeries: a foreign-CA / unbound insider initiator runs the whole exchange against B
    for (a1, a2) in [("foreign_full", "forge_final_foreign"), ("third_unbound", "forge_final_third"), ("foreign_cert", "forge_final_foreign")] {
        for base in [1u32, 11] {
            let mut acts = if base == 1 { vec![rq()] } else { vec![] };
            acts.push(dl("B", base, a1, None, None));
            acts.push(dl("B", 2, a2, None, None));
            v.push(ARunSpec { acts, seed: 0, cont: true });
        }
    }
    v
}

fn random_schedule(rng: &mut StdRng, events: usize) -> ARunSpec {
    let n = rng.gen_range(1..=events.max(1));
    let mut acts = vec![];
    // one run in eight: a party announces a GUID other than its bound one
    if rng.gen_range(0..8) == 0 {
        acts.push(lie(["A", "B"][rng.gen_range(0..2)], rng.gen_range(0..16), None));
    }
    for _ in 0..n {
        let r = rng.gen_range(0..100);
        if r < 12 {
            acts.push(rq());
            continue;
        }
        let mid = [1u32, 2, 3, 1, 2, 3, 11, 12, 13][rng.gen_range(0..9)];
        let kind = kind_of(mid);
        let natural = if mid % 10 == 2 { "A" } else { "B" };
        let to = if rng.gen_range(0..100) < 85 { natural } else if natural == "A" { "B" } else { "A" };
        let alt = match rng.gen_range(0..100) {
            0..=44 => "none".to_string(),
            45..=84 => "det".to_string(),
            _ if kind == "req" => ["b:dh1", "b:challenge1"][rng.gen_range(0..2)].to_string(),
            _ => "det".to_string(),
        };
        let mut act = dl(to, mid, &alt, None, None);
        // four requests in ten reach the plugin by message kind
        if kind == "req" && rng.gen_range(0..10) < 4 {
            act.via = "api".into();
        }
        // a third of the deliveries lose a random set of sender-optional properties
        if rng.gen_range(0..100) < 33 {
            act.strip = optional_of(kind).iter().filter(|_| rng.gen_range(0..100) < 50).map(|p| p.to_string()).collect();
        }
        acts.push(act);
    }
    ARunSpec { acts, seed: rng.gen(), cont: true }
}

pub fn random_specs(seed: u64, runs: usize, events: usize, bits: usize) -> Vec<ARunSpec> {
    let fx = FX.get().expect("fixtures not loaded");
    let mut rng = StdRng::seed_from_u64(seed ^ 0xA07);
    let mut v = sweep_specs(fx, bits, &mut rng);
    while v.len() < runs {
        v.push(random_schedule(&mut rng, events));
    }
    v
}

pub fn main(mode: &str, opt: &HashMap<String, String>) -> i32 {
    let dir = opt
        .get("fx")
        .cloned()
        .or_else(|| std::env::var("VERIF_FIXTURES_AUTH").ok())
        .unwrap_or_else(|| {
            // <verif>/harness/target-sec/debug/vh -> <verif>/fixtures/auth
            let exe = std::env::current_exe().unwrap();
            exe.ancestors().nth(4).unwrap().join("fixtures/auth").to_string_lossy().into_owned()
        });
    let _ = FX.set(load_fx(&dir));
    let _ = SEED.set(util::get(opt, "seed", 1));
    match mode {
        "replay" => {
            let specs: Vec<ARunSpec> = util::read_jsonl(&opt["in"]);
            util::run_parallel(opt, specs, run_one)
        }
        "random" => {
            let specs = random_specs(util::get(opt, "seed", 1), util::get(opt, "runs", 100), util::get(opt, "events", 8), util::get(opt, "bits", 1));
            util::run_parallel(opt, specs, run_one)
        }
        _ => {
            eprintln!("auth driver: unknown mode {mode}");
            2
        }
    }
}
