//! `qos` driver (C10): every case dumped by QosRxO.tla (offered / requested QoS as small-integer
//! records) is turned into real QosPolicies and judged three times by the real code:
//! QosPolicies::compliance_failure_wrt, Reader::update_writer_proxy, Writer::update_reader_proxy.

use std::collections::HashMap;

use rand::{rngs::StdRng, Rng, SeedableRng};
use rustdds::policy::*;
use rustdds::verif::reader_rig::ReaderRig;
use rustdds::verif::writer_rig::WriterRig;
use rustdds::{Duration, QosPolicies, QosPolicyBuilder, StatusEvented};
use serde::{Deserialize, Serialize};
use serde_json::{json, Value};

use crate::util;

#[derive(Clone, Debug, Serialize, Deserialize)]
pub struct Q {
    pub d: i32,
    pub ps: i32,
    pub pc: i32,
    pub po: i32,
    pub dl: i32,
    pub lb: i32,
    pub ow: i32,
    pub lk: i32,
    pub ll: i32,
    pub r: i32,
    pub o: i32,
}

#[derive(Clone, Debug, Serialize, Deserialize)]
pub struct Case {
    pub off: Q,
    pub req: Q,
}

fn dur(c: i32) -> Duration {
    match c {
        0 => Duration::ZERO,
        1 => Duration::from_nanos(1),
        2 => Duration::from_secs(1),
        _ => Duration::INFINITE,
    }
}

pub fn build(q: &Q) -> QosPolicies {
    let mut b = QosPolicyBuilder::new();
    if q.d >= 0 {
        b = b.durability([Durability::Volatile, Durability::TransientLocal, Durability::Transient, Durability::Persistent][q.d as usize]);
    }
    if q.ps >= 0 {
        b = b.presentation(Presentation {
            access_scope: [PresentationAccessScope::Instance, PresentationAccessScope::Topic, PresentationAccessScope::Group][q.ps as usize],
            coherent_access: q.pc == 1,
            ordered_access: q.po == 1,
        });
    }
    if q.dl >= 0 {
        b = b.deadline(Deadline(dur(q.dl)));
    }
    if q.lb >= 0 {
        b = b.latency_budget(LatencyBudget { duration: dur(q.lb) });
    }
    if q.ow >= 0 {
        b = b.ownership(match q.ow {
            0 => Ownership::Shared,
            3 => Ownership::Exclusive { strength: 0 },
            // 4: only the strength reaches the other side (run_one takes the kind out of the announcement)
            4 => Ownership::Exclusive { strength: 5 },
            s => Ownership::Exclusive { strength: s },
        });
    }
    if q.lk >= 0 {
        let lease_duration = dur(q.ll);
        b = b.liveliness(match q.lk {
            0 => Liveliness::Automatic { lease_duration },
            1 => Liveliness::ManualByParticipant { lease_duration },
            _ => Liveliness::ManualByTopic { lease_duration },
        });
    }
    if q.r >= 0 {
        b = b.reliability(match q.r {
            0 => Reliability::BestEffort,
            1 => Reliability::Reliable { max_blocking_time: Duration::from_millis(100) },
            2 => Reliability::Reliable { max_blocking_time: Duration::ZERO },
            _ => Reliability::Reliable { max_blocking_time: Duration::INFINITE },
        });
    }
    if q.o >= 0 {
        b = b.destination_order(if q.o == 1 { DestinationOrder::BySourceTimeStamp } else { DestinationOrder::ByReceptionTimestamp });
    }
    b.build()
}

const WG: [u8; 16] = [0xE1, 0xE1, 0xE1, 0xE1, 0xE1, 0xE1, 0xE1, 0xE1, 0xE1, 0xE1, 0xE1, 0xE1, 0, 0, 5, 0x02];
const RG: [u8; 16] = [0xE2, 0xE2, 0xE2, 0xE2, 0xE2, 0xE2, 0xE2, 0xE2, 0xE2, 0xE2, 0xE2, 0xE2, 0, 0, 6, 0x07];

pub fn run_one(run_no: usize, c: &Case, out: &mut Vec<Value>) -> Vec<Vec<u8>> {
    let off = build(&c.off);
    let req = build(&c.req);
    // each side learns the other's QoS from a serialised SEDP announcement (alternating byte order); ownership value 4: the
    // announcement carries PID_OWNERSHIP_STRENGTH but no PID_OWNERSHIP (0x001f)
    let le = run_no % 2 == 0;
    let drop_kind = |ow: i32| -> Vec<u16> { if ow == 4 { vec![0x001f] } else { vec![] } };
    let off_seen = rustdds::verif::wire_rig::qos_over_the_wire_dropping(&off, false, le, &drop_kind(c.off.ow));
    let req_seen = rustdds::verif::wire_rig::qos_over_the_wire_dropping(&req, true, le, &drop_kind(c.req.ow));
    let wire_ok = off_seen.is_ok() && req_seen.is_ok();
    let off_seen = off_seen.unwrap_or_else(|_| off.clone());
    let req_seen = req_seen.unwrap_or_else(|_| req.clone());
    // 1. the public function (on what each side has of the other where the announcement differs from the local object)
    let off_v = if c.off.ow == 4 { &off_seen } else { &off };
    let req_v = if c.req.ow == 4 { &req_seen } else { &req };
    let verdict = match off_v.compliance_failure_wrt(req_v) {
        None => "None".to_string(),
        Some(p) => format!("{p:?}"),
    };
    // 2. reader side: a reader with the requested QoS learns of a writer with the offered QoS
    let mut rr = ReaderRig::new_with_qos(&[req_v.clone()]);
    rr.match_writer_with_qos(0, WG, &off_seen, 22_001);
    let r_matched = rr.matched_writers(0).contains(&WG);
    let mut r_status = vec![];
    while let Some(s) = rr.slots[0].dr().try_recv_status() {
        r_status.push(match s {
            rustdds::DataReaderStatus::SubscriptionMatched { .. } => "Matched".to_string(),
            rustdds::DataReaderStatus::RequestedIncompatibleQos { last_policy_id, .. } => format!("{last_policy_id:?}"),
            other => format!("other:{other:?}"),
        });
    }
    // 3. writer side: a writer with the offered QoS learns of a reader with the requested QoS
    let mut wr = WriterRig::new_with_qos(off_v, None, WG);
    wr.match_reader_with_qos(RG, &req_seen, 22_002);
    let w_matched = wr.matched_readers().contains(&RG);
    let w_status: Vec<String> = wr.drain_status().into_iter().map(|(k, _, _, _)| if k == "PublicationMatched" { "Matched".to_string() } else { k.replace("OfferedIncompatibleQos:", "") }).collect();
    out.push(json!({"ev":"Reset","run":run_no}));
    out.push(json!({"ev":"Case","off":c.off,"req":c.req,"verdict":verdict,"r_matched":r_matched,"r_status":r_status,"w_matched":w_matched,"w_status":w_status,"wire_ok":wire_ok}));
    vec![]
}

fn rq(rng: &mut StdRng) -> Q {
    let lk = rng.gen_range(-1..3);
    let ps = rng.gen_range(-1..3);
    Q {
        d: rng.gen_range(-1..4),
        ps,
        pc: if ps < 0 { 0 } else { rng.gen_range(0..2) },
        po: if ps < 0 { 0 } else { rng.gen_range(0..2) },
        dl: rng.gen_range(-1..4),
        lb: rng.gen_range(-1..4),
        ow: rng.gen_range(-1..5),
        lk,
        ll: if lk < 0 { -1 } else { rng.gen_range(0..4) },
        r: rng.gen_range(-1..4),
        o: rng.gen_range(-1..2),
    }
}

pub fn main(mode: &str, opt: &HashMap<String, String>) -> i32 {
    match mode {
        "replay" => {
            let cases: Vec<Case> = util::read_jsonl(&opt["in"]);
            util::run_parallel(opt, cases, run_one)
        }
        "random" => {
            // the full product is 3*10^6+: sampled uniformly
            let mut rng = StdRng::seed_from_u64(util::get(opt, "seed", 1u64) ^ 0xC10);
            let n: usize = util::get(opt, "runs", 1000);
            let cases: Vec<Case> = (0..n).map(|_| Case { off: rq(&mut rng), req: rq(&mut rng) }).collect();
            util::run_parallel(opt, cases, run_one)
        }
        _ => 2,
    }
}
