//! Per-call measurements for C06: panic (catch_unwind), wall time, bytes allocated by the calling
//! thread (counting global allocator).

use std::alloc::{GlobalAlloc, Layout, System};
use std::cell::Cell;

pub struct Counting;

thread_local! {
    static ALLOCATED: Cell<usize> = const { Cell::new(0) };
}

unsafe impl GlobalAlloc for Counting {
    unsafe fn alloc(&self, l: Layout) -> *mut u8 {
        let _ = ALLOCATED.try_with(|a| a.set(a.get().wrapping_add(l.size())));
        System.alloc(l)
    }
    unsafe fn dealloc(&self, p: *mut u8, l: Layout) {
        System.dealloc(p, l)
    }
    unsafe fn alloc_zeroed(&self, l: Layout) -> *mut u8 {
        let _ = ALLOCATED.try_with(|a| a.set(a.get().wrapping_add(l.size())));
        System.alloc_zeroed(l)
    }
    unsafe fn realloc(&self, p: *mut u8, l: Layout, new_size: usize) -> *mut u8 {
        if new_size > l.size() {
            let _ = ALLOCATED.try_with(|a| a.set(a.get().wrapping_add(new_size - l.size())));
        }
        System.realloc(p, l, new_size)
    }
}

pub struct Measured {
    pub panic: Option<String>,
    pub us: u128,
    pub alloc: usize,
}

pub fn measure<F: FnOnce()>(f: F) -> Measured {
    // the default hook symbolises a backtrace (tens of MB allocated): keep panics quiet and cheap
    static HOOK: std::sync::Once = std::sync::Once::new();
    HOOK.call_once(|| std::panic::set_hook(Box::new(|_| {})));
    let before = ALLOCATED.with(|a| a.get());
    let t0 = std::time::Instant::now();
    let r = std::panic::catch_unwind(std::panic::AssertUnwindSafe(f));
    let us = t0.elapsed().as_micros();
    let after = ALLOCATED.with(|a| a.get());
    Measured {
        panic: r.err().map(|e| {
            if let Some(s) = e.downcast_ref::<String>() {
                s.clone()
            } else if let Some(s) = e.downcast_ref::<&str>() {
                s.to_string()
            } else {
                "panic".to_string()
            }
        }),
        us,
        alloc: after.wrapping_sub(before),
    }
}
