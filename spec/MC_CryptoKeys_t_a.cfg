SPECIFICATION Spec
CONSTANTS
  Senders = {1}
  Receivers = {2, 3}
  Levels = {"payload", "submsg", "msg"}
  Kinds = {"gmac", "gcm"}
  OAs = {TRUE, FALSE}
  K256s = {TRUE, FALSE}
  Dirs = {"w2r", "r2w"}
  Others = {"same", "none", "diff"}
  Astray = TRUE
  Eps2 = {}
  LooseList = FALSE
  GenS = 0
  LooseKid = FALSE
  GenK = 8
  GenC = 2
VIEW View
INVARIANT Inv_TamperedNeverDecodes
INVARIANT Inv_NoKeyNoData
INVARIANT Inv_ForeignKeyNoData
INVARIANT Inv_NoMacForMeNoData
INVARIANT Inv_AuthorisedDecodes
INVARIANT Inv_S10IsADeviation
INVARIANT Inv_KeyIdOfAnotherKeyNoData
ACTION_CONSTRAINT GenEdge
CHECK_DEADLOCK FALSE
