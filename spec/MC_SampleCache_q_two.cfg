SPECIFICATION Spec
CONSTANTS
  Keys = {1}
  Writers = {1, 2}
  Depth0 = 0
  MaxArr = 3
  MaxSteps = 6
  Forms = {"take", "read"}
  Kinds = {"V", "D"}
  Retransmit = FALSE
  NoKey = FALSE
  GenK = 10
CONSTRAINT Bound
VIEW View
INVARIANT SCInv_NoViolation
INVARIANT Inv_CacheIsAvailable
INVARIANT Inv_ReadFlags
INVARIANT Inv_InstanceState
INVARIANT Inv_NothingLostBehindBadChange
ACTION_CONSTRAINT GenEdge
CHECK_DEADLOCK FALSE
