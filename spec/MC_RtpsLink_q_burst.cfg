SPECIFICATION Spec
CONSTANTS
  Pre = 0
  NSamples = 1
  FragSNs = {}
  NF = 2
  MaxFaults = 1
  K = 3
  MaxRounds = 8
  MaxRematch = 1
  Win = 3
  Bursts = {2, 3, 4, 7}
  OutageAt = 1
  KeySNs = {}
  GenK = 3
VIEW View
INVARIANT Inv_Converge
INVARIANT Inv_Quiet
INVARIANT Inv_DevNeedsFragments
ACTION_CONSTRAINT GenEdge
CHECK_DEADLOCK FALSE
