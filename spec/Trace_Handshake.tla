------------------------- MODULE Trace_Handshake -------------------------
(***************************************************************************)
(* Trace validation for the `auth` driver (C19): each ndjson line is one   *)
(* plugin call on one of two real AuthenticationBuiltin instances (or a    *)
(* delivery that secure discovery would not hand to the plugin), with the  *)
(* observed outcome class, the emitted message and the secrets both sides  *)
(* hand out.  HandshakeAbs judges every step.  Known deviations (S7, S13,  *)
(* S14, see Handshake.tla) are reported as KNOWN only if the environment   *)
(* lists them (KNOWN_S7=1 ...); otherwise as VIOL.                         *)
(***************************************************************************)
EXTENDS HandshakeAbs, Json, IOUtils

Rec == ndJsonDeserialize(IOEnv.TRACE)
EnvIs1(n) == n \in DOMAIN IOEnv /\ IOEnv[n] = "1"
K == (IF EnvIs1("KNOWN_S7") THEN {"S7"} ELSE {}) \cup (IF EnvIs1("KNOWN_S13") THEN {"S13"} ELSE {})
     \cup (IF EnvIs1("KNOWN_S14") THEN {"S14"} ELSE {})

VARIABLES l, run
tvars == <<absVars, l, run>>

TraceInit == AbsInit /\ l = 1 /\ run = 0

S(e) == [A |-> e.secA, B |-> e.secB]
\* FACTS about the delivered token relative to the message it derives from (logged by the driver from a
\* property-by-property comparison): chg = properties whose value differs or that were added ("class" = class id),
\* rm = properties that were removed.  The judge classifies from these facts, never from the driver's label:
\*   nothing changed, nothing (or only sender-optional properties) removed  -> "none" (+ strip)
\*   dh1 changed only (whatever the attacker did to it)                      -> class "b:dh1" of the model
\*   nothing changed but a property the standard requires removed            -> "rm"
SetOf(q) == {q[i] : i \in 1..Len(q)}
Chg(e) == SetOf(e.chg)
Strip(e) == SetOf(e.rm)
OptOnly(e) == Strip(e) \subseteq OptProps(e.k)
Alt(e) == IF Chg(e) = {} THEN (IF OptOnly(e) THEN "none" ELSE "rm")
          ELSE IF Chg(e) = {"dh1"} /\ OptOnly(e) THEN "b:dh1"
          ELSE IF e.alt = "none" THEN "altered" ELSE e.alt

\* announced GUIDs: the driver logs, per party, the byte positions (0..15) in which the GUID the party announces
\* (c.pdata, SPDP) differs from the GUID bound to its certificate (gdA / gdB, facts); the class follows from
\* DDS Security 1.1 Table 52 (HandshakeAbs!LieClass: bytes 0..5 are the certificate-derived 48 bits)
Reset(e) ==
  /\ lie' = [p \in Parties |-> LieClass(SetOf(IF p = "A" THEN e.gdA ELSE e.gdB))]
  /\ ds' = [p \in Parties |-> IF p = "A" THEN "ReqSend" ELSE "ReqMsg"]
  /\ clean' = [p \in Parties |-> TRUE]
  /\ hurt' = [p \in Parties |-> FALSE]
  /\ accAlt' = [p \in Parties |-> "none"]
  /\ msgs' = OldMsgs
  /\ sec' = [p \in Parties |-> 0]
  /\ known' = {}
  \* validate_remote_identity must have put the lower GUID into the initiator role
  /\ viol' = IF e.meetA = "PendingHandshakeRequest" /\ e.meetB = "PendingHandshakeMessage" THEN {}
             ELSE {"C19_genuine_message_refused"}
  /\ run' = e.run

End(e) ==
  /\ sec' = S(e)
  /\ viol' = viol \cup SecViol(ds, clean, S(e))
  /\ UNCHANGED <<ds, clean, hurt, accAlt, msgs, lie, known, run>>

Step ==
  /\ l <= Len(Rec)
  /\ l' = l + 1
  /\ LET e == Rec[l] IN
     CASE e.ev = "Reset" -> Reset(e)
       [] e.ev = "Req"   -> AbsReq(K, e.out, e.emit, S(e)) /\ UNCHANGED run
       [] e.ev = "Dlv"   -> AbsDlv(K, e.to, e.mid, Alt(e), Strip(e), e.call, e.out, e.emit, S(e)) /\ UNCHANGED run
       [] e.ev = "End"   -> End(e)
  /\ (viol' # viol /\ viol' # {}) =>
        PrintT("VIOL line=" \o ToString(l) \o " run=" \o ToString(run') \o " clauses=" \o ToString(viol' \ viol))
  /\ (known' # known /\ known' # {}) =>
        PrintT("KNOWN line=" \o ToString(l) \o " run=" \o ToString(run') \o " clauses=" \o ToString(known' \ known))

TraceSpec == TraceInit /\ [][Step]_tvars

TraceAccepted ==
  LET d == TLCGet("stats").diameter IN
  IF d = Len(Rec) + 1 THEN PrintT("TRACE-OK events=" \o ToString(Len(Rec)))
  ELSE PrintT("TRACE-STUCK line=" \o ToString(d)) /\ PrintT(Rec[d]) /\ FALSE
==========================================================================
