\* announced-GUID dimension: either party announces a participant GUID that differs from the one bound to its
\* certificate in any one of its 16 bytes, combined with every schedule of <= 1 attacker delivery; replay dump
SPECIFICATION Spec
CONSTANTS
  MaxAtk = 1
  Fix = {}
  Known = {"S7", "S13", "S14"}
  Gen = TRUE
  StripProps = {"hash_c1", "hash_c2"}
  Weak = {}
  GuidBytes = {0, 1, 2, 3, 4, 5, 6, 7, 8, 9, 10, 11, 12, 13, 14, 15}
  Vias = {"disc", "api"}
VIEW View
INVARIANT Inv_NoViolation
INVARIANT Inv_SecretsAgree
ACTION_CONSTRAINT GenEdge
CHECK_DEADLOCK FALSE
