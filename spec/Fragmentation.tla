--------------------------- MODULE Fragmentation ---------------------------
(***************************************************************************)
(* Fragment geometry of RTPS 2.5 section 8.3.8.3.5 as used by C05: a        *)
(* sample of `size` bytes (encapsulation header included) is cut into       *)
(* NumFrags(size, fs) fragments of fs bytes, the last one shorter.          *)
(* TLC checks (MC_Fragmentation.cfg) that for every size and fragment size  *)
(* in the bound the fragment ranges partition 0..size-1 in order, i.e.      *)
(* reassembly by offset (f-1)*fs reproduces exactly the original bytes.     *)
(* Trace_RtpsLink.tla judges every DATAFRAG the real writer emits with      *)
(* these operators.                                                         *)
(***************************************************************************)
EXTENDS Integers, FiniteSets

NumFrags(size, fs) == (size \div fs) + (IF size % fs = 0 THEN 0 ELSE 1)
From(f, fs) == (f - 1) * fs
FragLen(size, fs, f) == IF f * fs <= size THEN fs ELSE size - From(f, fs)
Range(size, fs, f) == From(f, fs) .. (From(f, fs) + FragLen(size, fs, f) - 1)

CONSTANTS MaxFs, MaxMul
VARIABLE dummy
Init == dummy = 0
Next == UNCHANGED dummy

Sizes(fs) == (IF fs + 1 > 4 THEN fs + 1 ELSE 4) .. (MaxMul * fs + 3)   \* at least the 4-byte header
Partition(size, fs) ==
  LET n == NumFrags(size, fs) IN
  /\ n >= 2
  /\ UNION {Range(size, fs, f) : f \in 1..n} = 0..(size - 1)
  /\ \A f, g \in 1..n : f # g => Range(size, fs, f) \cap Range(size, fs, g) = {}
  /\ \A f \in 1..n : FragLen(size, fs, f) >= 1 /\ FragLen(size, fs, f) <= fs
  /\ \A f \in 1..(n - 1) : FragLen(size, fs, f) = fs
Inv_Partition == \A fs \in 1..MaxFs : \A size \in Sizes(fs) : Partition(size, fs)
\* the 4-byte encapsulation header lies in the first fragment(s): bytes 0..3 are covered in order
Inv_Header == \A fs \in 1..MaxFs : \A size \in Sizes(fs) :
                 \A b \in 0..3 : \E f \in 1..NumFrags(size, fs) : b \in Range(size, fs, f) /\ f = (b \div fs) + 1
=============================================================================
