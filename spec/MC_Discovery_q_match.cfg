SPECIFICATION Spec
CONSTANTS
  P = {1, 2}
  E = {1, 2, 3, 4, 5, 7, 8}
  Owner <- OwnerDef
  IsReader <- IsReaderDef
  OnTopic <- OnTopicDef
  Compatible <- CompatibleDef
  DefaultLease = 60000
  Late = FALSE
  Leases = {1100}
  Dts = {1000}
  MaxSteps = 8
  MaxTime = 3000
  GenK = 60
CONSTRAINT Bound
VIEW View
INVARIANT DInv_NoViolation
INVARIANT Inv_ParticipantsAgree
INVARIANT Inv_AtticOnlyOfAbsent
INVARIANT Inv_MatchedAreKnown
INVARIANT Inv_LifeSignsAgree
INVARIANT Inv_LocalAgree
INVARIANT Inv_AnnouncedAreKnown
ACTION_CONSTRAINT GenEdge
CHECK_DEADLOCK FALSE
