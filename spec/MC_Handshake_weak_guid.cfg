\* NON-VACUITY of the announced-GUID dimension (NOT part of the check; expected result: Inv_NoViolation is violated).
\* validate_remote_guid compares 5 of the 6 certificate-derived bytes: TLC finds Lie(p, 5) followed by the plain
\* exchange -> the peer completes, C19_guid_not_bound_to_certificate_authenticated.
SPECIFICATION Spec
CONSTANTS
  MaxAtk = 0
  Fix = {}
  Known = {"S7", "S13", "S14"}
  Gen = FALSE
  StripProps = {}
  Weak = {"guid@5bytes"}
  GuidBytes = {0, 1, 2, 3, 4, 5, 6, 7, 8, 9, 10, 11, 12, 13, 14, 15}
  Vias = {"disc"}
INVARIANT Inv_NoViolation
CHECK_DEADLOCK FALSE
