SPECIFICATION Spec
CONSTANTS
  Pre = 2
  NSamples = 2
  FragSNs = {}
  NF = 2
  MaxFaults = 2
  K = 3
  MaxRounds = 6
  MaxRematch = 0
  Win = 256
  Bursts = {}
  OutageAt = 0
  KeySNs = {}
  GenK = 3
VIEW View
INVARIANT Inv_Converge
INVARIANT Inv_Quiet
INVARIANT Inv_DevNeedsFragments
ACTION_CONSTRAINT GenEdge
CHECK_DEADLOCK FALSE
