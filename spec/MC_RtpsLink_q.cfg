SPECIFICATION Spec
CONSTANTS
  Pre = 0
  NSamples = 2
  FragSNs = {1}
  NF = 2
  MaxFaults = 3
  K = 3
  MaxRounds = 6
  GenK = 3
VIEW View
INVARIANT Inv_Converge
INVARIANT Inv_Quiet
INVARIANT Inv_DevNeedsFragments
ACTION_CONSTRAINT GenEdge
CHECK_DEADLOCK FALSE
