SPECIFICATION Spec
CONSTANTS
  Keys = {1, 2}
  Writers = {1}
  Depth0 = 0
  MaxArr = 4
  MaxSteps = 6
  Forms = {"take", "read", "take_next", "read_inst"}
  Kinds = {"V", "D", "X"}
  Retransmit = FALSE
  NoKey = FALSE
  GenK = 400
CONSTRAINT Bound
VIEW View
INVARIANT SCInv_NoViolation
INVARIANT Inv_CacheIsAvailable
INVARIANT Inv_ReadFlags
INVARIANT Inv_InstanceState
INVARIANT Inv_NothingLostBehindBadChange
ACTION_CONSTRAINT GenEdge
CHECK_DEADLOCK FALSE
