SPECIFICATION Spec
CONSTANTS
  Writers = {1}
  MaxSN = 3
  FragSNs = {2}
  MaxSteps = 4
  Reliable = FALSE
  HostileClasses = {}
  HostileMatched = FALSE
  GenK = 0
CONSTRAINT Bound
VIEW View
INVARIANT Inv_NoViolation
INVARIANT Inv_AckBaseIsLowestUnknown
CHECK_DEADLOCK FALSE
