SPECIFICATION Spec
CONSTANTS
  Pre = 0
  NSamples = 3
  FragSNs = {}
  NF = 2
  MaxFaults = 1
  K = 3
  MaxRounds = 6
  MaxRematch = 1
  Win = 256
  Bursts = {}
  OutageAt = 0
  KeySNs = {}
  GenK = 3
VIEW View
INVARIANT Inv_Converge
INVARIANT Inv_Quiet
INVARIANT Inv_DevNeedsFragments
ACTION_CONSTRAINT GenEdge
CHECK_DEADLOCK FALSE
