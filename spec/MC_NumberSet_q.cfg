SPECIFICATION Spec
CONSTANTS
  Offs = {0, 1, 30, 31, 32, 33, 63, 64, 254, 255, 256, 300}
  RawNb = {0, 1, 31, 32, 33, 255, 256}
  RawBits = {0, 1, 30, 31, 32, 33, 63, 254, 255}
  BSel = {0, 5}
  GenK = 4
INVARIANT Law
ACTION_CONSTRAINT GenEdge
CHECK_DEADLOCK FALSE
