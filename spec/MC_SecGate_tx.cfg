SPECIFICATION Spec
CONSTANTS
  MDests = {"NN", "EN", "NE", "EE", "SN", "NS", "sedp"}
  MKinds = {"DATA", "HB", "GAP"}
  MGovs = {"N", "S"}
  MaxLen = 3
  MXm = {1, 2, 3, 4, 5, 6, 7}
  MWraps = "unknown"
  MForms = {"D"}
  MSrcs = {"peer", "peer2"}
  GenK = 1
VIEW View
INVARIANT Inv_Protected
INVARIANT Inv_Flows
ACTION_CONSTRAINT GenEdge
CHECK_DEADLOCK FALSE
