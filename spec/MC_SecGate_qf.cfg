SPECIFICATION Spec
CONSTANTS
  MDests = {"NN", "NE", "EE"}
  MKinds = {"DATA", "FRAG"}
  MGovs = {"N", "E"}
  MaxLen = 3
  MXm = {0}
  MWraps = "all"
  MForms = {"D", "K", "Q", "DK", "0"}
  MSrcs = {"peer", "foreign"}
  GenK = 1
VIEW View
INVARIANT Inv_Protected
INVARIANT Inv_Flows
ACTION_CONSTRAINT GenEdge
CHECK_DEADLOCK FALSE
