SPECIFICATION Spec
CONSTANTS
  Keys = {1, 2}
  Writers = {1}
  Depth0 = 0
  MaxArr = 3
  MaxSteps = 5
  Forms = {"take", "read", "take_next"}
  Kinds = {"V", "X"}
  Retransmit = FALSE
  NoKey = FALSE
  GenK = 3
CONSTRAINT Bound
VIEW View
INVARIANT SCInv_NoViolation
INVARIANT Inv_CacheIsAvailable
INVARIANT Inv_ReadFlags
INVARIANT Inv_InstanceState
INVARIANT Inv_NothingLostBehindBadChange
ACTION_CONSTRAINT GenEdge
CHECK_DEADLOCK FALSE
