SPECIFICATION Spec
CONSTANTS
  MDests = {"NN", "EN", "NE", "EE"}
  MKinds = {"DATA", "HB"}
  MGovs = {"N", "E"}
  MaxLen = 4
  MXm = {1, 2, 3, 4}
  MWraps = "unknown"
  MForms = {"D"}
  MSrcs = {"peer", "peer2"}
  GenK = 1
VIEW View
INVARIANT Inv_Protected
INVARIANT Inv_Flows
ACTION_CONSTRAINT GenEdge
CHECK_DEADLOCK FALSE
