SPECIFICATION Spec
CONSTANTS
  Geoms <- GeomsWide
  Starts = {0, 1, 2, 4, 17}
  Counts = {0, 1, 3, 9}
  PayLens = {0, 4, 40}
  SNs = {0, 1}
  MaxMsgs = 3
  GenK = 300
VIEW View
INVARIANT Inv_InBounds
INVARIANT Inv_BitmapFits
ACTION_CONSTRAINT GenEdge
CHECK_DEADLOCK FALSE
