------------------------------- MODULE SecGate -------------------------------
(***************************************************************************)
(* C17 on the design: the per-datagram state machine of MessageReceiver    *)
(* under DDS Security (RecvStep in SecGateSem) is explored for EVERY       *)
(* sequence of up to MaxLen wire positions drawn from the alphabet below,  *)
(* for every governance / message-protection / source combination and      *)
(* every choice of the protected submessage the peer produced.             *)
(*                                                                         *)
(* Inv_Protected: whatever the receiver hands to an endpoint carried every *)
(*                protection the endpoint requires (Allowed), or the       *)
(*                endpoint is an exempt bootstrap endpoint.                *)
(* Inv_Flows    : what the property demands to flow was handed over.       *)
(*                                                                         *)
(* `m.els` is the history of the datagram so far; both clauses are         *)
(* evaluated in the step on the complete history and stored (protOK,       *)
(* flowOK), the VIEW hides the history, so the state space stays small     *)
(* while every (receiver state, next submessage) pair is explored.         *)
(* GenEdge dumps explored transitions as the datagrams that exercise them, *)
(* for replay into the real code.                                          *)
(*                                                                         *)
(* Matching configurations (m.xm, see SecGateSem): Init also chooses which *)
(* local readers are, besides their peer writer, matched to a writer of a  *)
(* second remote participant that carries the EntityId of ANOTHER topic's  *)
(* peer writer.  A writer submessage without reader id then fans out to    *)
(* several candidate readers with different protection requirements; the   *)
(* invariants demand the per-reader decision: no candidate that requires   *)
(* submessage protection gets the plaintext, every candidate that needs no *)
(* protection and is matched to the sender gets it.                        *)
(*                                                                         *)
(* Governance documents (MGovs, see GovKinds): besides the rtps kind the   *)
(* DOMAIN rule's discovery / liveliness protection kinds, which decide the *)
(* submessage protection of the builtin secure endpoints (pmsec, pubsec,   *)
(* subsec, psec).  Shapes of DATA / DATAFRAG (MForms, see SecGateSem):     *)
(* serialized data, serialized key, inline QoS only, both flags, nothing.  *)
(***************************************************************************)
EXTENDS SecGateSem, TLC, Json

CONSTANTS MDests,     \* destinations / topics used by the alphabet
          MKinds,     \* submessage kinds used by the alphabet
          MGovs,      \* governance documents: "N" (rtps NONE), "S" (SIGN), "E" (ENCRYPT) with discovery = liveliness =
                      \* ENCRYPT, or three letters <rtps><discovery><liveliness> (see GovKinds)
          MForms,     \* shapes of DATA submessages used by the alphabet (DATAFRAG: those of "D", "K")
          MaxLen,     \* wire positions per datagram
          MXm,        \* matching configurations, by index (see XmOf): 0 = every reader matched to its peer writer only
          MWraps,     \* "all": every addressing of the protected submessage; "unknown": only those without reader id
          MSrcs,      \* sources (RTPS header prefix): "peer", "peer2" (second participant), "foreign"
          GenK        \* 1: dump transitions as datagrams for replay (see GenEdge), 0: no dump

VARIABLES gov, m, st, lastDel, protOK, flowOK
vars == <<gov, m, st, lastDel, protOK, flowOK>>

\* The governance documents of fixtures/gate: (rtps, discovery, liveliness) protection kinds of the domain rule
GovKinds(g) ==
  LET K(r, d, l) == [rtps |-> r, disc |-> d, live |-> l] IN
  CASE g = "N" -> K("N", "E", "E") [] g = "S" -> K("S", "E", "E") [] g = "E" -> K("E", "E", "E")
    [] g = "NNN" -> K("N", "N", "N") [] g = "NNS" -> K("N", "N", "S") [] g = "NNE" -> K("N", "N", "E")
    [] g = "NSN" -> K("N", "S", "N") [] g = "NSS" -> K("N", "S", "S") [] g = "NSE" -> K("N", "S", "E")
    [] g = "NEN" -> K("N", "E", "N") [] g = "NES" -> K("N", "E", "S")
    [] g = "ENN" -> K("E", "N", "N") [] g = "ENS" -> K("E", "N", "S") [] g = "ENE" -> K("E", "N", "E")
    [] g = "ESN" -> K("E", "S", "N") [] g = "ESS" -> K("E", "S", "S") [] g = "ESE" -> K("E", "S", "E")
    [] g = "EEN" -> K("E", "E", "N") [] g = "EES" -> K("E", "E", "S")

El(t, kind, dst, wr, pay, form, w, who) ==
  [t |-> t, id |-> 0, kind |-> kind, dst |-> dst, wr |-> wr, pay |-> pay, form |-> form, w |-> w, who |-> who]

\* shapes of a submessage kind; payload variants of a shape
Forms(kind) == IF kind = "DATA" THEN MForms ELSE IF kind = "FRAG" THEN MForms \cap {"D", "K"} ELSE {"na"}
Pays(kind, wr, form) == IF IsData(kind) /\ form \in {"D", "K", "DK"}
                        THEN {"plain"} \cup (IF PayProt(wr) THEN {"enc"} ELSE {}) ELSE {"na"}
\* shapes of the submessage inside a protected one: data or key (the payload gate comes after the submessage is
\* decoded and is the same code as for plain submessages; the odd shapes are exercised as plain submessages)
WForms(kind) == IF IsData(kind) THEN (IF Forms(kind) \cap {"D", "K"} = {} THEN {"D"} ELSE Forms(kind) \cap {"D", "K"}) ELSE {"na"}
\* the body of a protected submessage is hidden (ENCRYPT kinds) or readable (SIGN kinds)
Opaque(g, key) == CASE key = "SN" -> FALSE
                    [] key = "pmsec" -> g.live = "E"
                    [] key \in DiscDests -> g.disc = "E"
                    [] OTHER -> TRUE

\* Matching configurations.  The readers that take part, in the order of their EntityIds (the order in
\* which the receiver walks its readers).  Rot(k) matches reader i additionally to the second
\* participant's writer that has the EntityId of topic i+k: for every writer id there are exactly two
\* candidate readers, and Rot(1) .. Rot(n-1) together contain every ordered pair of distinct topics once.
\* Full: every reader knows every writer id of the second participant (including the one of its own
\* topic: two remote participants whose writers on one topic share the EntityId).
FanOrder == <<"NN", "EN", "NE", "sedp", "EE", "SN", "NS">>
MFan == SelectSeq(FanOrder, LAMBDA d : d \in MDests)
NF   == Len(MFan)
Rot(k) == {<<MFan[i], MFan[((i - 1 + k) % NF) + 1]>> : i \in 1..NF}
XmOf(k) == IF k = 0 THEN {} ELSE IF k < NF THEN Rot(k) ELSE {<<MFan[i], MFan[j]>> : i \in 1..NF, j \in 1..NF}

PlainEls(xm) ==
  UNION {UNION {
     UNION {{El("ent", k, d, d, p, f, 0, "na") : p \in Pays(k, d, f)}
            \cup (IF k \in WriterKinds THEN {El("ent", k, "UNKNOWN", d, p, f, 0, "na") : p \in Pays(k, d, f)} ELSE {})
            : f \in Forms(k)}
     : d \in MDests} : k \in MKinds}
  \* named reader, writer id of another topic: the second participant's writer matched to that reader
  \cup UNION {UNION {{El("ent", k, x[1], x[2], p, f, 0, "na") : p \in Pays(k, x[2], f)} : f \in Forms(k)}
              : x \in {y \in xm : y[1] # y[2]}, k \in MKinds \cap WriterKinds}

\* what the peer protected with the endpoint keys of a submessage-protected topic: addressed to
\* the right reader, to UNKNOWN, to another protected reader, to an unprotected reader
WrapSpecs(g, xm) ==
  UNION {UNION {UNION {
     {[id |-> 0, kind |-> k, dst |-> dwf[1], wr |-> dwf[2], pay |-> p, form |-> dwf[3], key |-> key, opaque |-> Opaque(g, key)]
        : p \in Pays(k, key, dwf[3])}
        : dwf \in {<<dw[1], dw[2], f>> : f \in WForms(k), dw \in {z \in ({<<key, key>>, <<"NN", key>>, <<"NN", "NN">>}
                   \cup (IF k \in WriterKinds THEN {<<"UNKNOWN", key>>} ELSE {})
                   \* no reader id, writer id of another topic for which the key's reader is a candidate
                   \cup (IF k \in WriterKinds THEN {<<"UNKNOWN", x[2]>> : x \in {y \in xm : y[1] = key /\ y[2] # key}} ELSE {})
                   \* addressed to ANOTHER protected endpoint, also by that endpoint's matched writer
                   \cup UNION {{<<x, key>>, <<x, x>>} : x \in {y \in MDests : SubProt(g, y) /\ y # key /\ y # "volatile"}})
                  : MWraps = "all" \/ z[1] = "UNKNOWN"}}}
     : key \in {x \in MDests : SubProt(g, x)}} : k \in (MKinds \cap {"DATA", "ACK"})}

SecEls == {El(t, "na", "na", "na", "na", "na", w, "na") : t \in {"P", "B", "F"}, w \in {1, 2}}
IntEls == {El("idst", "na", "na", "na", "na", "na", 0, "other"), El("idst", "na", "na", "na", "na", "na", 0, "self")}
           \cup {El("isrc", "na", "na", "na", "na", "na", 0, s) : s \in (MSrcs \ {"peer"})}
\* (no protected submessage exists when the governance document protects none of the topics of MDests)
Alphabet(mm) == PlainEls(mm.xm) \cup (IF mm.wraps = <<>> THEN {} ELSE SecEls) \cup IntEls

Init ==
  /\ gov \in MGovs
  /\ \E first \in {"plain", "srtps"}, src \in MSrcs, k \in MXm :
     \E ws \in (IF WrapSpecs(GovKinds(gov), XmOf(k)) = {} THEN {NoEl} ELSE WrapSpecs(GovKinds(gov), XmOf(k))) :
       /\ (first = "srtps") => (GovKinds(gov).rtps # "N" /\ src = "peer")
       /\ (src = "peer2") => (k # 0)
       /\ m = [rtps |-> (GovKinds(gov).rtps # "N"), disc |-> GovKinds(gov).disc, live |-> GovKinds(gov).live,
               first |-> first, src |-> src, xm |-> XmOf(k),
               \* two instances of the same protected submessage: parts of different instances never
               \* decode together
               wraps |-> IF ws = NoEl THEN <<>> ELSE <<[ws EXCEPT !.id = 1], [ws EXCEPT !.id = 2]>>, els |-> <<>>]
  /\ st = St0(m)
  /\ lastDel = {}
  /\ protOK = TRUE /\ flowOK = TRUE

Next ==
  /\ Len(m.els) < MaxLen
  /\ \E a \in Alphabet(m) :
       LET e == [a EXCEPT !.id = IF a.t = "ent" THEN Len(m.els) + 3 ELSE 0]
           r == RecvStep(m, st, e)
       IN /\ m' = [m EXCEPT !.els = Append(@, e)]
          /\ st' = r.st
          /\ lastDel' = r.del
          \* the property, evaluated on the complete datagram so far, for this position
          /\ protOK' = \A p \in r.del : Allowed(m', p[1], p[2])
          /\ flowOK' = \A p \in MustFlow(m') : (e.t = "ent" /\ p[1] = e.id) => p \in r.del
  /\ UNCHANGED gov

Spec == Init /\ [][Next]_vars

\* The history m.els and the identifiers (positions) are not part of the view: what the receiver
\* does next and what the property says about it depend on the history only through `st` (a stored
\* prefix / body ARE the last one / two positions).
View == <<gov, m.rtps, m.first, m.src, m.xm, m.wraps, st.sec, st.pw, [st.pb EXCEPT !.id = 0], st.dstOK, st.src,
          protOK, flowOK, {p[2] : p \in lastDel}>>

Inv_Protected == protOK
Inv_Flows == flowOK

\* vacuity guards: "invariants" that must be VIOLATED (the situations are reachable); checked by hand,
\* see NOTES_gate.md
Reach_ProtectedDelivered == ~(\E p \in lastDel : SubProt(m, p[2]))
\* the governance / shape dimensions: a builtin secure endpoint gets a protected submessage / plaintext (its
\* domain-level kind is NONE); a serialized key / a dispose by key hash is handed to a reader; a plain serialized key
\* is withheld.  (Guards that look at m.els must be checked WITHOUT the VIEW -- it hides the history, TLC evaluates an
\* invariant only on the first state of a view class -- e.g. with MaxLen = 1.)
Reach_SecureBuiltinProtected == ~(\E p \in lastDel : p[2] \in DiscDests \cup {"pmsec"} /\ SubProt(m, p[2]))
Reach_SecureBuiltinPlain == ~(\E p \in lastDel : p[2] \in DiscDests \cup {"pmsec"} /\ ~SubProt(m, p[2]))
Reach_KeyDelivered == ~(lastDel # {} /\ Len(m.els) >= 1 /\ m.els[Len(m.els)].t = "ent" /\ m.els[Len(m.els)].form \in {"K", "Q"})
Reach_KeyBlocked == ~(lastDel = {} /\ Len(m.els) >= 1 /\ m.els[Len(m.els)].t = "ent" /\ m.els[Len(m.els)].form = "K"
                      /\ st.sec = "None" /\ st.dstOK /\ ~Special(m))
\* fan-out: one plain submessage without reader id is handed to a reader of another topic than the
\* sender's / is withheld from one candidate while handed to another
Reach_FanOutOtherTopic == ~(\E p \in lastDel : Len(m.els) >= 1 /\ m.els[Len(m.els)].t = "ent"
                                               /\ m.els[Len(m.els)].dst = "UNKNOWN" /\ p[2] # m.els[Len(m.els)].wr)
Reach_FanOutSplit == ~(Len(m.els) >= 1 /\ m.els[Len(m.els)].t = "ent" /\ m.els[Len(m.els)].dst = "UNKNOWN" /\ st.sec = "None"
                       /\ lastDel # {} /\ \E d \in Cand(m, m.els[Len(m.els)].wr) : d \notin {p[2] : p \in lastDel})
Reach_PlainBlocked == ~(Len(m.els) >= 1 /\ m.els[Len(m.els)].t = "ent" /\ lastDel = {})

\* Deterministic thinning of the dump: all transitions out of receiver states None and Prefix; out of
\* state Body (prefix + one stored submessage) all transitions when the stored submessage is the body
\* that belongs to the prefix, otherwise (the sequence can no longer decode) only those that try a
\* postfix and those that repeat the stored submessage.
\* With a matching configuration (m.xm # {}) the configuration can only matter where an entity
\* submessage is routed: all transitions out of state None, and the path to a decodable triple
\* (None -P-> Prefix -B-> Body -F->); the other transitions out of Prefix / Body do not depend on it and
\* are dumped by the configurations with m.xm = {}.  (TLC still checks the invariants on all of them.)
GenEdge == (GenK > 0) =>
             LET e == m'.els[Len(m'.els)] IN
             (IF m.xm = {}
              THEN \/ st.sec # "Body"
                   \/ (st.pb.t = "B" /\ st.pb.w = st.pw)
                   \/ e.t = "F"
                   \/ [e EXCEPT !.id = 0] = [st.pb EXCEPT !.id = 0]
              ELSE \/ st.sec = "None"
                   \/ (st.sec = "Prefix" /\ e.t = "B" /\ e.w = st.pw)
                   \/ (st.sec = "Body" /\ st.pb.t = "B" /\ st.pb.w = st.pw /\ e.t = "F")) =>
             PrintT("REPLAY " \o ToJson([gov |-> gov, xm |-> m'.xm, first |-> m'.first, src |-> m'.src, wraps |-> m'.wraps, els |-> m'.els]))
=============================================================================
