------------------------------- MODULE SecGate -------------------------------
(***************************************************************************)
(* C17 on the design: the per-datagram state machine of MessageReceiver    *)
(* under DDS Security (RecvStep in SecGateSem) is explored for EVERY       *)
(* sequence of up to MaxLen wire positions drawn from the alphabet below,  *)
(* for every governance / message-protection / source combination and      *)
(* every choice of the protected submessage the peer produced.             *)
(*                                                                         *)
(* Inv_Protected: whatever the receiver hands to an endpoint carried every *)
(*                protection the endpoint requires (Allowed), or the       *)
(*                endpoint is an exempt bootstrap endpoint.                *)
(* Inv_Flows    : what the property demands to flow was handed over.       *)
(*                                                                         *)
(* `m.els` is the history of the datagram so far; both clauses are         *)
(* evaluated in the step on the complete history and stored (protOK,       *)
(* flowOK), the VIEW hides the history, so the state space stays small     *)
(* while every (receiver state, next submessage) pair is explored.         *)
(* GenEdge dumps explored transitions as the datagrams that exercise them, *)
(* for replay into the real code.                                          *)
(***************************************************************************)
EXTENDS SecGateSem, TLC, Json

CONSTANTS MDests,     \* destinations / topics used by the alphabet
          MKinds,     \* submessage kinds used by the alphabet
          MGovs,      \* governance documents: "N" (rtps NONE), "S" (SIGN), "E" (ENCRYPT)
          MaxLen,     \* wire positions per datagram
          GenK        \* 1: dump transitions as datagrams for replay (see GenEdge), 0: no dump

VARIABLES gov, m, st, lastDel, protOK, flowOK
vars == <<gov, m, st, lastDel, protOK, flowOK>>

El(t, kind, dst, wr, pay, w, who) ==
  [t |-> t, id |-> 0, kind |-> kind, dst |-> dst, wr |-> wr, pay |-> pay, w |-> w, who |-> who]

Pays(kind, wr) == IF IsData(kind) THEN {"plain"} \cup (IF PayProt(wr) THEN {"enc"} ELSE {}) ELSE {"na"}

PlainEls ==
  UNION {UNION {
     {El("ent", k, d, d, p, 0, "na") : p \in Pays(k, d)}
     \cup (IF k \in WriterKinds THEN {El("ent", k, "UNKNOWN", d, p, 0, "na") : p \in Pays(k, d)} ELSE {})
     : d \in MDests} : k \in MKinds}

\* what the peer protected with the endpoint keys of a submessage-protected topic: addressed to
\* the right reader, to UNKNOWN, to another protected reader, to an unprotected reader
WrapSpecs ==
  UNION {UNION {
     {[id |-> 0, kind |-> k, dst |-> dw[1], wr |-> dw[2], pay |-> p, key |-> key, opaque |-> (key # "SN")]
        : dw \in ({<<key, key>>, <<"NN", key>>, <<"NN", "NN">>}
                   \cup (IF k \in WriterKinds THEN {<<"UNKNOWN", key>>} ELSE {})
                   \* addressed to ANOTHER protected endpoint, also by that endpoint's matched writer
                   \cup UNION {{<<x, key>>, <<x, x>>} : x \in {y \in MDests : SubProt(y) /\ y # key /\ y # "volatile"}}),
          p \in Pays(k, key)}
     : key \in {x \in MDests : SubProt(x)}} : k \in (MKinds \cap {"DATA", "ACK"})}

SecEls == {El(t, "na", "na", "na", "na", w, "na") : t \in {"P", "B", "F"}, w \in {1, 2}}
IntEls == {El("idst", "na", "na", "na", "na", 0, "other"), El("idst", "na", "na", "na", "na", 0, "self"),
           El("isrc", "na", "na", "na", "na", 0, "foreign")}
Alphabet == PlainEls \cup SecEls \cup IntEls

Init ==
  /\ gov \in MGovs
  /\ \E first \in {"plain", "srtps"}, src \in {"peer", "foreign"}, ws \in WrapSpecs :
       /\ (first = "srtps") => (gov # "N" /\ src = "peer")
       /\ m = [rtps |-> (gov # "N"), first |-> first, src |-> src,
               \* two instances of the same protected submessage: parts of different instances never
               \* decode together
               wraps |-> <<[ws EXCEPT !.id = 1], [ws EXCEPT !.id = 2]>>, els |-> <<>>]
  /\ st = St0(m)
  /\ lastDel = {}
  /\ protOK = TRUE /\ flowOK = TRUE

Next ==
  /\ Len(m.els) < MaxLen
  /\ \E a \in Alphabet :
       LET e == [a EXCEPT !.id = IF a.t = "ent" THEN Len(m.els) + 3 ELSE 0]
           r == RecvStep(m, st, e)
       IN /\ m' = [m EXCEPT !.els = Append(@, e)]
          /\ st' = r.st
          /\ lastDel' = r.del
          \* the property, evaluated on the complete datagram so far, for this position
          /\ protOK' = \A p \in r.del : Allowed(m', p[1], p[2])
          /\ flowOK' = \A p \in MustFlow(m') : (e.t = "ent" /\ p[1] = e.id) => p \in r.del
  /\ UNCHANGED gov

Spec == Init /\ [][Next]_vars

\* The history m.els and the identifiers (positions) are not part of the view: what the receiver
\* does next and what the property says about it depend on the history only through `st` (a stored
\* prefix / body ARE the last one / two positions).
View == <<gov, m.rtps, m.first, m.src, m.wraps, st.sec, st.pw, [st.pb EXCEPT !.id = 0], st.dstOK, st.srcPeer,
          protOK, flowOK, {p[2] : p \in lastDel}>>

Inv_Protected == protOK
Inv_Flows == flowOK

\* vacuity guards: "invariants" that must be VIOLATED (the situations are reachable); checked by hand,
\* see NOTES_gate.md
Reach_ProtectedDelivered == ~(\E p \in lastDel : SubProt(p[2]))
Reach_PlainBlocked == ~(Len(m.els) >= 1 /\ m.els[Len(m.els)].t = "ent" /\ lastDel = {})

\* Deterministic thinning of the dump: all transitions out of receiver states None and Prefix; out of
\* state Body (prefix + one stored submessage) all transitions when the stored submessage is the body
\* that belongs to the prefix, otherwise (the sequence can no longer decode) only those that try a
\* postfix and those that repeat the stored submessage.
GenEdge == (GenK > 0) =>
             LET e == m'.els[Len(m'.els)] IN
             (\/ st.sec # "Body"
              \/ (st.pb.t = "B" /\ st.pb.w = st.pw)
              \/ e.t = "F"
              \/ [e EXCEPT !.id = 0] = [st.pb EXCEPT !.id = 0]) =>
             PrintT("REPLAY " \o ToJson([gov |-> gov, first |-> m'.first, src |-> m'.src, wraps |-> m'.wraps, els |-> m'.els]))
=============================================================================
