------------------------ MODULE Trace_AccessControl ------------------------
(***************************************************************************)
(* Trace validation for the `access` driver (C18).  One run = one pair of  *)
(* abstract permissions / governance documents (Reset line) loaded into    *)
(* the real AccessControlBuiltin, followed by the access decisions the     *)
(* real code took (Check lines) and, for the signed fixtures, by the       *)
(* outcome of the real S/MIME verification of every altered blob (Verify)  *)
(* and of validate_local_permissions on the same blob (Validate).          *)
(* Every decision must be an outcome AccessDecision!Acceptable admits;     *)
(* a document is accepted only with a signature of the configured CA over  *)
(* exactly its content.                                                    *)
(* Forge / FVerify lines (strengthening round): a container assembled from *)
(* genuine material by cooperating edits (abstract description = the       *)
(* AccessDecision!fblob TLC enumerated or the seeded generator drew, plus  *)
(* the concrete bytes chosen for it and optional byte noise); acceptance   *)
(* is judged by AccessDecision!Admissible on the abstract container (which  *)
(* may carry several SignerInfos: field `co`).                             *)
(* Strengthening round 2: Reset carries `now` = the clock of the run in     *)
(* seconds relative to the reference instant the validity bounds of the    *)
(* documents were rendered against (0 when the reference is the wall       *)
(* clock); every decision / grant lookup of the run is judged at that      *)
(* instant.  GrantAt lines = the real find_grant at an explicit instant.   *)
(***************************************************************************)
EXTENDS AccessDecision, Json, IOUtils

Rec == ndJsonDeserialize(IOEnv.TRACE)

VARIABLES l, run, doc, subj, st, lastv, viol,
          forge,    \* the container under test since the last Forge line ([on |-> FALSE] otherwise)
          now       \* the clock of the run relative to the reference instant of its documents (seconds)
tvars == <<l, run, doc, subj, st, lastv, viol, forge, now>>

NoDoc == [grants |-> <<>>, gov |-> <<>>]
NoForge == [on |-> FALSE]
TraceInit == l = 1 /\ run = 0 /\ doc = NoDoc /\ subj = "" /\ st = "none" /\ lastv = "none" /\ viol = {} /\ forge = NoForge /\ now = 0

Query(e) == [op |-> e.op, dom |-> e.dom, topic |-> e.topic, parts |-> e.parts]

CheckViol(e) ==
  IF (e.out = "allow") \in Acceptable(doc, subj, Query(e), now) THEN {}
  ELSE IF e.out = "allow" THEN {"C18_access_granted_against_documents"}
  ELSE {"C18_access_refused_against_documents"}

GrantViol(e) ==
  IF e.ok /\ (e.has_grant # (GrantIdx(doc, subj, now) # 0)) THEN {"C18_valid_grant_lookup_wrong"} ELSE {}

\* the real find_grant at the explicit instant e.t (not judged at exactly the end of a window: left open)
GrantAtViol(e) ==
  IF e.ok /\ ~AtEndOfWindow(doc, subj, e.t) /\ (e.has_grant # (GrantIdx(doc, subj, e.t) # 0))
    THEN {"C18_valid_grant_lookup_wrong"} ELSE {}

VerifyViol(e) ==
  (IF e.out = "accepted" /\ ~(e.same /\ e.signer = e.ca)
     THEN {"C18_accepted_without_signature_of_configured_ca_over_its_content"} ELSE {})
  \cup (IF e.pristine /\ e.signer = e.ca /\ e.out # "accepted" THEN {"C18_validly_signed_document_refused"} ELSE {})

\* the container of the last Forge line is a genuinely signed document of the configured CA, byte for byte
ForgeGenuine == forge.on /\ forge.clean /\ FUntouched(forge.blob) /\ forge.blob.by = forge.ca
\* (byte noise cannot make an inadmissible container admissible: digests / signatures do not match by chance,
\*  and the driver never adds noise to a container that carries one of the one-bit edits md=junk / rest=alt / sig=junk)
ForgeAdmissible == forge.on /\ Admissible(forge.blob, forge.ca)

FVerifyViol(e) ==
  (IF e.out = "accepted" /\ ~(e.same /\ ForgeAdmissible)
     THEN {"C18_accepted_without_signature_of_configured_ca_over_its_content"} ELSE {})
  \cup (IF ForgeGenuine /\ e.out # "accepted" THEN {"C18_validly_signed_document_refused"} ELSE {})

ValidateViol(e) ==
  (IF e.ok /\ lastv # "accepted" THEN {"C18_validate_accepts_document_without_valid_signature"} ELSE {})
  \cup (IF ~e.ok /\ (e.alt.k = "pristine" \/ ForgeGenuine) THEN {"C18_validly_signed_document_refused"} ELSE {})
  \cup GrantViol(e)

Step ==
  /\ l <= Len(Rec)
  /\ l' = l + 1
  /\ LET e == Rec[l] IN
     CASE e.ev = "Reset" ->
            /\ run' = e.run /\ doc' = e.doc /\ subj' = e.subj /\ st' = "none" /\ lastv' = "none" /\ viol' = {}
            /\ forge' = NoForge /\ now' = e.now
       [] e.ev = "Install" ->
            /\ st' = IF e.ok THEN "ok" ELSE "failed"
            /\ viol' = viol \cup GrantViol(e)
            /\ UNCHANGED <<run, doc, subj, lastv, forge, now>>
       [] e.ev = "GrantAt" ->
            /\ viol' = viol \cup GrantAtViol(e)
            /\ UNCHANGED <<run, doc, subj, st, lastv, forge, now>>
       [] e.ev = "Check" ->
            /\ viol' = viol \cup CheckViol(e)
            /\ UNCHANGED <<run, doc, subj, st, lastv, forge, now>>
       [] e.ev = "Verify" ->
            /\ lastv' = IF e.out = "accepted" /\ e.same /\ e.signer = e.ca THEN "accepted" ELSE "refused"
            /\ viol' = viol \cup VerifyViol(e)
            /\ forge' = NoForge
            /\ UNCHANGED <<run, doc, subj, st, now>>
       [] e.ev = "Forge" ->   \* inputs: abstract container, configured CA, the document its signature VALUE was made for
            /\ forge' = [on |-> TRUE, blob |-> e.blob, ca |-> e.ca, clean |-> (Len(e.noise) = 0)]
            /\ doc' = e.doc /\ lastv' = "none"
            /\ UNCHANGED <<run, subj, st, viol, now>>
       [] e.ev = "FVerify" ->
            /\ lastv' = IF e.out = "accepted" /\ e.same /\ ForgeAdmissible THEN "accepted" ELSE "refused"
            /\ viol' = viol \cup FVerifyViol(e)
            /\ UNCHANGED <<run, doc, subj, st, forge, now>>
       [] e.ev = "Validate" ->
            /\ st' = IF e.ok THEN "ok" ELSE "failed"
            /\ viol' = viol \cup ValidateViol(e)
            /\ UNCHANGED <<run, doc, subj, lastv, forge, now>>
  /\ (viol' # viol /\ viol' # {}) =>
        PrintT("VIOL line=" \o ToString(l) \o " run=" \o ToString(run') \o " clauses=" \o ToString(viol' \ viol))

TraceSpec == TraceInit /\ [][Step]_tvars

TraceAccepted ==
  LET d == TLCGet("stats").diameter IN
  IF d = Len(Rec) + 1 THEN PrintT("TRACE-OK events=" \o ToString(Len(Rec)))
  ELSE PrintT("TRACE-STUCK line=" \o ToString(d)) /\ PrintT(Rec[d]) /\ FALSE
=============================================================================
