SPECIFICATION Spec
CONSTANTS
  QosChoices <- QosFull
  LateChoices = {"none"}
  ThirdChoices = {FALSE}
  DelChoices = {"R", "W"}
  BlackoutChoices = {0}
  PostChoices = {"W2", "R3"}
  MatchOnCreate = TRUE
  RematchFix = TRUE
  GenK = 30
INVARIANTS Inv_MatchedSound Inv_SeenOnlyOfKnown Inv_TypeOK
ACTION_CONSTRAINT GenEdge
CHECK_DEADLOCK FALSE
