--------------------------- MODULE Trace_SecGate ---------------------------
(***************************************************************************)
(* Trace validation for the `gate` driver (C17): a real MessageReceiver    *)
(* with real SecurityPlugins (builtin plugins, signed governance           *)
(* documents).  One line per datagram fed to handle_received_packet:       *)
(* its wire content in the vocabulary of SecGateSem (inputs, complete) and *)
(* what was observed to reach the readers' topic caches / writer proxies   *)
(* and the acknack channel (outputs: pairs <<submessage id, endpoint>>).   *)
(*                                                                         *)
(* Outputs are constrained exactly as far as the property goes:            *)
(*   every observed delivery is Allowed (carried all required protection   *)
(*   or the endpoint is an exempt bootstrap endpoint);                     *)
(*   every delivery in MustFlow was observed (unprotected topics keep      *)
(*   flowing).  Whether correctly protected traffic is delivered is not    *)
(*   part of C17 and left open.  A panic of the receiver is logged and     *)
(*   accepted (not this property).                                         *)
(***************************************************************************)
EXTENDS SecGateSem, TLC, Json, IOUtils

Rec == ndJsonDeserialize(IOEnv.TRACE)

\* xm: the matching configuration of the run (Reset line): pairs <<reader, writer id of topic>> that the rig
\* matched in addition (writers of the second remote participant), see SecGateSem
\* rtps, disc, live: what the DOMAIN rule of the run's governance document requires (Reset line): RTPS message
\* protection; the discovery / liveliness protection kinds "N" | "S" | "E" (submessage protection of the builtin
\* secure endpoints)
VARIABLES l, run, rtps, disc, live, xm, viol
tvars == <<l, run, rtps, disc, live, xm, viol>>

TraceInit == l = 1 /\ run = 0 /\ rtps = FALSE /\ disc = "E" /\ live = "E" /\ xm = {} /\ viol = {}

Msg(e) ==
  LET m   == [rtps |-> rtps, disc |-> disc, live |-> live, xm |-> xm, first |-> e.first, src |-> e.src, wraps |-> e.wraps, els |-> e.els]
      del == ToSet(e.delivered)
      hbSeen(p) == \E q \in del : q[2] = p[2] /\ q[1] >= p[1] /\ KnownId(m, q[1]) /\ ItemOf(m, q[1]).kind = "HB"
      flows(p)  == p \in del \/ (ItemOf(m, p[1]).kind = "HB" /\ hbSeen(p))
  IN
  {c \in {"C17_unknown_submessage_delivered"} : \E p \in del : ~KnownId(m, p[1])}
  \cup {c \in {"C17_rtps_unprotected_message_reached_endpoint"} :
          \E p \in del : KnownId(m, p[1]) /\ ~RtpsOk(m, p[2])}
  \cup {c \in {"C17_unprotected_submessage_reached_protected_endpoint"} :
          \E p \in del : KnownId(m, p[1]) /\ ~SubOk(m, p[1], p[2])}
  \cup {c \in {"C17_unprotected_payload_reached_protected_reader"} :
          \E p \in del : KnownId(m, p[1]) /\ ~PayOk(m, p[1], p[2])}
  \cup {c \in {"C17_unprotected_topic_traffic_blocked"} :
          e.panic = "" /\ \E p \in MustFlow(m) : ~flows(p)}

Step ==
  /\ l <= Len(Rec)
  /\ LET e == Rec[l] IN
       CASE e.ev = "Reset" -> /\ run' = e.run /\ rtps' = e.rtps /\ disc' = e.disc /\ live' = e.live
                              /\ xm' = ToSet(e.xm) /\ viol' = {}
         [] e.ev = "Msg"   -> /\ viol' = viol \cup Msg(e) /\ UNCHANGED <<run, rtps, disc, live, xm>>
  /\ l' = l + 1
  /\ (viol' # viol /\ viol' # {}) =>
        PrintT("VIOL line=" \o ToString(l) \o " run=" \o ToString(run') \o " clauses=" \o ToString(viol' \ viol))

TraceSpec == TraceInit /\ [][Step]_tvars

TraceAccepted ==
  LET d == TLCGet("stats").diameter IN
  IF d = Len(Rec) + 1 THEN PrintT("TRACE-OK events=" \o ToString(Len(Rec)))
  ELSE PrintT("TRACE-STUCK line=" \o ToString(d)) /\ PrintT(Rec[d]) /\ FALSE
==========================================================================
