--------------------------- MODULE Trace_QosRxO ---------------------------
(***************************************************************************)
(* Trace validation for the `qos` driver (C10): one Case line per pair of  *)
(* QoS sets with the three verdicts of the real code.  Oracle: Incompat of  *)
(* QosRxO.tla.                                                              *)
(***************************************************************************)
EXTENDS Integers, Sequences, FiniteSets, TLC, Json, IOUtils

Q == INSTANCE QosRxO WITH off <- 0, req <- 0, phase <- 0

Rec == ndJsonDeserialize(IOEnv.TRACE)
VARIABLES l, run, viol
tvars == <<l, run, viol>>
ToSet(s) == {s[i] : i \in DOMAIN s}
TraceInit == l = 1 /\ run = 0 /\ viol = {}

CaseViol(e) ==
  LET inc == Q!Incompat(e.off, e.req)
      rs == ToSet(e.r_status)
      ws == ToSet(e.w_status)
  IN   (IF (e.verdict = "None") # (inc = {}) THEN {"C10_verdict_differs_from_rxo_table"} ELSE {})
  \cup (IF e.verdict # "None" /\ e.verdict \notin inc THEN {"C10_reported_policy_is_compatible"} ELSE {})
  \cup (IF e.r_matched # (inc = {}) THEN {"C10_reader_side_match_differs"} ELSE {})
  \cup (IF e.w_matched # (inc = {}) THEN {"C10_writer_side_match_differs"} ELSE {})
  \cup (IF e.r_matched # e.w_matched THEN {"C10_sides_disagree"} ELSE {})
  \cup (IF inc # {} /\ ~(\E p \in rs : p \in inc) THEN {"C10_reader_side_no_truthful_incompatible_qos_event"} ELSE {})
  \cup (IF inc # {} /\ ~(\E p \in ws : p \in inc) THEN {"C10_writer_side_no_truthful_incompatible_qos_event"} ELSE {})
  \cup (IF inc = {} /\ ("Matched" \notin rs \/ "Matched" \notin ws) THEN {"C10_no_matched_event"} ELSE {})
  \* each side learnt the other's QoS from a serialised SEDP announcement
  \cup (IF ~e.wire_ok THEN {"C10_announced_qos_not_readable"} ELSE {})

Step ==
  /\ l <= Len(Rec)
  /\ l' = l + 1
  /\ LET e == Rec[l] IN
     CASE e.ev = "Reset" -> run' = e.run /\ viol' = {}
       [] e.ev = "Case" -> viol' = viol \cup CaseViol(e) /\ UNCHANGED run
  /\ (viol' # viol /\ viol' # {}) =>
        PrintT("VIOL line=" \o ToString(l) \o " run=" \o ToString(run') \o " clauses=" \o ToString(viol' \ viol))

TraceSpec == TraceInit /\ [][Step]_tvars
TraceAccepted ==
  LET d == TLCGet("stats").diameter IN
  IF d = Len(Rec) + 1 THEN PrintT("TRACE-OK events=" \o ToString(Len(Rec)))
  ELSE PrintT("TRACE-STUCK line=" \o ToString(d)) /\ PrintT(Rec[d]) /\ FALSE
=============================================================================
