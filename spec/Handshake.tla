----------------------------- MODULE Handshake -----------------------------
(***************************************************************************)
(* C19 -- implementation-shaped model of the builtin PKI-DH handshake as   *)
(* secure_discovery.rs drives it: one action per plugin call               *)
(*   Req           begin_handshake_request   (A: PendingRequestSend)       *)
(*   Dlv(to,m,alt) begin_handshake_reply     (to in PendingRequestMessage) *)
(*                 process_handshake         (to in PendingReply/Final)    *)
(*                 nothing                   (otherwise)                   *)
(* with a Dolev-Yao style attacker on the plaintext stateless channel: any *)
(* message emitted so far (or recorded from an earlier session, ids 11-13) *)
(* can be delivered to either party at any time, unchanged (replay,        *)
(* reordering, reflection) or altered.  Alterations are symbolic classes:  *)
(*   "det"          any alteration the receiver's checks catch (parse, CA, *)
(*                  GUID binding, hash_c1/2, challenge, DH echo, signature,*)
(*                  class id, foreign-CA certificate with fixed-up hashes  *)
(*                  and signature, ...) -- refined to concrete fields and  *)
(*                  bytes by the harness                                   *)
(*   "b:dh1", "b:challenge1"  on the REQUEST only: outside hash_c1 and     *)
(*                  unsigned, the replier cannot notice                    *)
(* The acceptance function transcribes authentication.rs; the three        *)
(* deviations from the property are named and can be switched off (Fix)    *)
(* to show that an implementation without them satisfies every clause:     *)
(*   S7   process_handshake swaps a dummy PendingRequestSend into the      *)
(*        state and returns early on any error -> state (DH key) lost      *)
(*   S13  a replier that answered a forged/altered request never accepts   *)
(*        another request (no restart)                                     *)
(*   S14  the initiator verifies the reply signature over the dh1 echoed   *)
(*        in the reply and never compares it with its own dh1              *)
(*                                                                         *)
(* Strengthening round: every delivery additionally REMOVES a set `strip`  *)
(* of properties whose inclusion the standard leaves to the sender         *)
(* (HandshakeAbs!OptProps), from fresh, recorded (ids 11-13) and altered   *)
(* messages alike -- an attacker on the plaintext channel can always do    *)
(* that, and none of these properties is signed as carried.  The           *)
(* acceptance function says which checks of authentication.rs are made     *)
(* only when the property is there (hash_c1 in begin_handshake_reply is    *)
(* the sole protection of c.perm / c.pdata / c.dsign_algo of the unsigned  *)
(* request: alteration class "b:c.perm") and which are unconditional       *)
(* (challenge1 of the reply, challenge1/2 + dh1/dh2 of the final, every    *)
(* signature -- computed over the receiver's OWN hashes).  `Weak` names    *)
(* checks that are (wrongly) made only in the presence of an optional      *)
(* property; MC_Handshake_weak.cfg shows that the judge then fires, i.e.   *)
(* the new dimension is not vacuous.                                       *)
(*                                                                         *)
(* Strengthening round 3, two more dimensions:                             *)
(*  Lie(p, i)   (a configuration, before anything else happens) party p    *)
(*              announces a participant GUID that differs from the one     *)
(*              bound to its certificate in byte i (i \in GuidBytes; which  *)
(*              bits: refined by the harness).  validate_remote_guid       *)
(*              compares bytes 0..5 (the 48 certificate-derived bits) of   *)
(*              the GUID in c.pdata of a request (begin_handshake_reply)   *)
(*              and of a reply (process_handshake).  Weak "guid@5bytes":   *)
(*              only bytes 0..4 are compared.                              *)
(*  via         how a delivery reaches the plugin: "disc" = the call       *)
(*              secure_discovery.rs makes from its own mirror of the       *)
(*              state; "api" = dispatch by message kind at the plugin API: *)
(*              a request goes to begin_handshake_reply in ANY state, so   *)
(*              only the plugin's own state guard (PendingRequestMessage)  *)
(*              protects a pending handshake.  B's stored DH2 / challenge2 *)
(*              belong to the LAST reply it built (`rg` counts them);      *)
(*              the final message carries those of the reply the initiator *)
(*              consumed (`built`).  Weak "final@begin_reply": the guard   *)
(*              also lets a request through while the final message is     *)
(*              awaited (the replier answers again).                       *)
(***************************************************************************)
EXTENDS HandshakeAbs, Json

CONSTANTS MaxAtk,   \* attacker deliveries per run
          Fix,      \* deviations repaired in this model instance
          Known,    \* deviations listed as known findings
          Gen,      \* TRUE: dump behaviours for replay
          StripProps, \* optional properties the attacker removes in this model instance
          Weak,     \* weakened checks: subset of {"ch1@reply", "guid@5bytes", "final@begin_reply"}
          GuidBytes, \* byte positions in which a party may announce a GUID other than its bound one ({}: nobody lies)
          Vias      \* dispatches explored: subset of {"disc", "api"}

VARIABLES alive,    \* the plugin still holds its handshake state (S7 destroys it)
          lieAt,    \* [p, i]: party p announces a GUID differing in byte i from its bound one (p = "none": nobody)
          rg,       \* number of replies B has built (its stored DH2 / challenge2 belong to the last one)
          built,    \* which of them the initiator consumed to build the final message (0: none yet)
          atk, trail
vars == <<absVars, alive, lieAt, rg, built, atk, trail>>

Init == AbsInit /\ alive = [p \in Parties |-> TRUE] /\ lieAt = [p |-> "none", i |-> 0] /\ rg = 0 /\ built = 0
        /\ atk = 0 /\ trail = <<>>

AltsFor(k) == IF k = "req" THEN {"none", "det", "b:dh1", "b:challenge1", "b:c.perm"} ELSE {"none", "det"}
StripsFor(k) == SUBSET (OptProps(k) \cap StripProps)

Call(to, mid, via) ==
  IF ds[to] = "ReqMsg" THEN "begin_reply"
  ELSE IF via = "api" /\ msgs[mid].k = "req" THEN "begin_reply"
  ELSE IF ds[to] = "Final" /\ "S13" \in Fix /\ msgs[mid].k = "req" THEN "begin_reply"
  ELSE IF ds[to] \in {"Reply", "Final"} THEN "process"
  ELSE "none"

\* "api" is a dispatch of its own only where it makes another call than "disc"
ViaApplies(to, mid, via) == via = "disc" \/ Call(to, mid, "api") # Call(to, mid, "disc")

\* validate_remote_guid on the GUID in c.pdata (request, reply of THIS session: the recorded ones were honest)
CheckedGuidBytes == IF "guid@5bytes" \in Weak THEN 0..4 ELSE CertBytes
GuidOK(mid) == ~(mid \in {1, 2} /\ msgs[mid].by = lieAt.p /\ lieAt.i \in CheckedGuidBytes)

\* transcription of the checks in authentication.rs
Accepts(to, mid, alt, strip, via) ==
  LET m == msgs[mid] c == Call(to, mid, via)
      \* types.rs extract_reply / extract_final insist on dh1 / dh2 (the standard calls them optional)
      parses == strip \cap {"dh1", "dh2"} = {}
  IN
  CASE c = "begin_reply" ->
         \* the plugin's own state guard: PendingRequestMessage only (an ideal replier restarts, Fix S13)
         /\ \/ ds[to] = "ReqMsg"
            \/ ds[to] = "Final" /\ ("S13" \in Fix \/ ("final@begin_reply" \in Weak /\ alive[to]))
         \* parse, CA, GUID binding, kagree; dh1 / challenge1 are taken as they come; an old request is
         \* self-consistent; hash_c1 is compared with Hash(C1 as received) ONLY IF PRESENT, and nothing
         \* else covers c.perm / c.pdata (beyond the GUID) / c.dsign_algo of the unsigned request
         /\ m.k = "req" /\ (alt \in {"none", "b:dh1", "b:challenge1"} \/ (alt = "b:c.perm" /\ "hash_c1" \in strip))
         /\ GuidOK(mid)
    [] c = "process" /\ ds[to] = "Reply" ->
         /\ alive[to] \/ "S7" \in Fix
         /\ m.k = "reply" /\ alt = "none" /\ parses /\ GuidOK(mid)
         \* hash_c1 / hash_c2 compared only if present, but the signature is verified over the initiator's
         \* own hash_c1 and the recomputed hash_c2: a reply built on an altered C1 never verifies
         /\ \/ /\ mid = 2
               \* challenge1 must be ours (unconditional); dh1 is not compared (S14)
               /\ m.ralt \in ({"none"} \cup (IF "S14" \in Fix THEN {} ELSE {"b:dh1"}))
            \* weakened: challenge1 compared only together with hash_c1 -> any reply B ever signed for this C1
            \/ "ch1@reply" \in Weak /\ "hash_c1" \in strip /\ m.by = "B" /\ m.ralt \in {"none", "old"}
    [] c = "process" /\ ds[to] = "Final" ->
         /\ alive[to] \/ "S7" \in Fix
         /\ m.k = "final" /\ alt = "none" /\ mid = 3 /\ parses
         \* dh1, dh2, challenge1/2 equal to what this replier stored (unconditional), hash_c1/2 if present,
         \* signature over the replier's own values
         /\ accAlt[to] = "none" /\ m.ralt = "none"
         \* DH2 / challenge2 stored by the replier are those of the reply the initiator consumed (an ideal
         \* replier keeps what it needs for every reply it has in flight)
         /\ "S13" \in Fix \/ built = rg
    [] OTHER -> FALSE

\* a configuration step: before anything else, party p announces a GUID differing in byte i from its bound one
Lie(p, i) ==
  /\ lieAt.p = "none" /\ atk = 0 /\ i \in GuidBytes
  /\ AbsLie(p, LieClass({i}))
  /\ lieAt' = [p |-> p, i |-> i]
  /\ trail' = IF Gen THEN Append(trail, [a |-> "Lie", to |-> p, mid |-> 0, alt |-> "none", strip |-> {}, via |-> "disc", pos |-> i]) ELSE trail
  /\ UNCHANGED <<alive, rg, built, atk>>

Req ==
  /\ ds["A"] = "ReqSend"
  /\ AbsReq(Known, "acc", 1, sec)
  /\ trail' = IF Gen THEN Append(trail, [a |-> "Req", to |-> "A", mid |-> 0, alt |-> "none", strip |-> {}, via |-> "disc"]) ELSE trail
  /\ UNCHANGED <<alive, lieAt, rg, built, atk>>

Dlv(to, mid, alt, strip, via) ==
  LET c   == Call(to, mid, via)
      acc == Accepts(to, mid, alt, strip, via)
      out == IF c = "none" THEN "ign" ELSE IF acc THEN "acc" ELSE "rej"
      emit == IF ~acc THEN 0 ELSE IF c = "begin_reply" THEN 2 ELSE IF ds[to] = "Reply" THEN 3 ELSE 0
      s2  == [sec EXCEPT ![to] = IF acc /\ c = "process" THEN 1 ELSE @]
      \* the natural next step of the exchange costs the attacker nothing (also when a party lies about its GUID)
      cost == IF InOrder(to, mid, alt, strip) THEN 0 ELSE 1
  IN
  /\ mid \in DOMAIN msgs /\ alt \in AltsFor(msgs[mid].k) /\ strip \in StripsFor(msgs[mid].k)
  /\ via \in Vias /\ ViaApplies(to, mid, via)
  /\ atk + cost <= MaxAtk
  /\ atk' = atk + cost
  /\ AbsDlv(Known, to, mid, alt, strip, c, out, emit, s2)
  /\ alive' = [alive EXCEPT ![to] = IF c = "process" /\ ~acc /\ "S7" \notin Fix THEN FALSE
                                     ELSE IF c = "begin_reply" /\ acc THEN TRUE ELSE @]
  /\ rg' = IF c = "begin_reply" /\ acc THEN rg + 1 ELSE rg
  /\ built' = IF c = "process" /\ acc /\ ds[to] = "Reply" THEN rg ELSE built
  /\ trail' = IF Gen THEN Append(trail, [a |-> "Dlv", to |-> to, mid |-> mid, alt |-> alt, strip |-> strip, via |-> via]) ELSE trail
  /\ UNCHANGED lieAt

Next == \/ Req
        \/ \E p \in Parties, i \in GuidBytes : Lie(p, i)
        \/ \E to \in Parties, mid \in {1, 2, 3, 11, 12, 13}, alt \in {"none", "det", "b:dh1", "b:challenge1", "b:c.perm"},
                 strip \in SUBSET AllOptProps, via \in {"disc", "api"} : Dlv(to, mid, alt, strip, via)

\* genuine progress: deliveries that cost the attacker nothing
Genuine == Req \/ \E to \in Parties, mid \in {1, 2, 3} : (Expected(to, mid, "none", {}) /\ Dlv(to, mid, "none", {}, "disc"))

Spec == Init /\ [][Next]_vars /\ WF_vars(Genuine)

View == <<absVars, alive, lieAt, rg, built, atk>>

Inv_NoViolation == viol = {}
\* deviations appear only when they are in the model
Inv_KnownOnlyIfPresent == \A c \in known : \E d \in Known \ Fix : TRUE
\* no secret without both certificates chaining to the CA, GUIDs bound, equal secrets: in the
\* symbolic model every completing party has consumed only messages that passed all checks
Inv_SecretsAgree == (sec["A"] # 0 /\ sec["B"] # 0) => sec["A"] = sec["B"]
\* vacuity guards, checked as "never" properties in a separate cfg would fail; reachability is
\* shown by the replayed behaviours themselves (both parties DoneS / DoneR with secrets)

\* liveness: once the attacker has spent its budget the genuine exchange completes -- unless a
\* named deviation was hit (known # {})
Live == <>((ds["A"] \in Done /\ ds["B"] \in Done /\ sec["A"] = sec["B"] /\ sec["A"] # 0) \/ known # {} \/ viol # {})

GenEdge == Gen => PrintT("REPLAY " \o ToJson([acts |-> trail']))
=============================================================================
