----------------------------- MODULE Handshake -----------------------------
(***************************************************************************)
(* C19 -- implementation-shaped model of the builtin PKI-DH handshake as   *)
(* secure_discovery.rs drives it: one action per plugin call               *)
(*   Req           begin_handshake_request   (A: PendingRequestSend)       *)
(*   Dlv(to,m,alt) begin_handshake_reply     (to in PendingRequestMessage) *)
(*                 process_handshake         (to in PendingReply/Final)    *)
(*                 nothing                   (otherwise)                   *)
(* with a Dolev-Yao style attacker on the plaintext stateless channel: any *)
(* message emitted so far (or recorded from an earlier session, ids 11-13) *)
(* can be delivered to either party at any time, unchanged (replay,        *)
(* reordering, reflection) or altered.  Alterations are symbolic classes:  *)
(*   "det"          any alteration the receiver's checks catch (parse, CA, *)
(*                  GUID binding, hash_c1/2, challenge, DH echo, signature,*)
(*                  class id, foreign-CA certificate with fixed-up hashes  *)
(*                  and signature, ...) -- refined to concrete fields and  *)
(*                  bytes by the harness                                   *)
(*   "b:dh1", "b:challenge1"  on the REQUEST only: outside hash_c1 and     *)
(*                  unsigned, the replier cannot notice                    *)
(* The acceptance function transcribes authentication.rs; the three        *)
(* deviations from the property are named and can be switched off (Fix)    *)
(* to show that an implementation without them satisfies every clause:     *)
(*   S7   process_handshake swaps a dummy PendingRequestSend into the      *)
(*        state and returns early on any error -> state (DH key) lost      *)
(*   S13  a replier that answered a forged/altered request never accepts   *)
(*        another request (no restart)                                     *)
(*   S14  the initiator verifies the reply signature over the dh1 echoed   *)
(*        in the reply and never compares it with its own dh1              *)
(*                                                                         *)
(* Strengthening round: every delivery additionally REMOVES a set `strip`  *)
(* of properties whose inclusion the standard leaves to the sender         *)
(* (HandshakeAbs!OptProps), from fresh, recorded (ids 11-13) and altered   *)
(* messages alike -- an attacker on the plaintext channel can always do    *)
(* that, and none of these properties is signed as carried.  The           *)
(* acceptance function says which checks of authentication.rs are made     *)
(* only when the property is there (hash_c1 in begin_handshake_reply is    *)
(* the sole protection of c.perm / c.pdata / c.dsign_algo of the unsigned  *)
(* request: alteration class "b:c.perm") and which are unconditional       *)
(* (challenge1 of the reply, challenge1/2 + dh1/dh2 of the final, every    *)
(* signature -- computed over the receiver's OWN hashes).  `Weak` names    *)
(* checks that are (wrongly) made only in the presence of an optional      *)
(* property; MC_Handshake_weak.cfg shows that the judge then fires, i.e.   *)
(* the new dimension is not vacuous.                                       *)
(***************************************************************************)
EXTENDS HandshakeAbs, Json

CONSTANTS MaxAtk,   \* attacker deliveries per run
          Fix,      \* deviations repaired in this model instance
          Known,    \* deviations listed as known findings
          Gen,      \* TRUE: dump behaviours for replay
          StripProps, \* optional properties the attacker removes in this model instance
          Weak      \* checks (wrongly) guarded by the presence of an optional property: subset of {"ch1@reply"}

VARIABLES alive,    \* the plugin still holds its handshake state (S7 destroys it)
          atk, trail
vars == <<absVars, alive, atk, trail>>

Init == AbsInit /\ alive = [p \in Parties |-> TRUE] /\ atk = 0 /\ trail = <<>>

AltsFor(k) == IF k = "req" THEN {"none", "det", "b:dh1", "b:challenge1", "b:c.perm"} ELSE {"none", "det"}
StripsFor(k) == SUBSET (OptProps(k) \cap StripProps)

Call(to, mid) ==
  IF ds[to] = "ReqMsg" THEN "begin_reply"
  ELSE IF ds[to] = "Final" /\ "S13" \in Fix /\ msgs[mid].k = "req" THEN "begin_reply"
  ELSE IF ds[to] \in {"Reply", "Final"} THEN "process"
  ELSE "none"

\* transcription of the checks in authentication.rs
Accepts(to, mid, alt, strip) ==
  LET m == msgs[mid] c == Call(to, mid)
      \* types.rs extract_reply / extract_final insist on dh1 / dh2 (the standard calls them optional)
      parses == strip \cap {"dh1", "dh2"} = {}
  IN
  CASE c = "begin_reply" ->
         \* parse, CA, GUID binding, kagree; dh1 / challenge1 are taken as they come; an old request is
         \* self-consistent; hash_c1 is compared with Hash(C1 as received) ONLY IF PRESENT, and nothing
         \* else covers c.perm / c.pdata (beyond the GUID) / c.dsign_algo of the unsigned request
         m.k = "req" /\ (alt \in {"none", "b:dh1", "b:challenge1"} \/ (alt = "b:c.perm" /\ "hash_c1" \in strip))
    [] c = "process" /\ ds[to] = "Reply" ->
         /\ alive[to] \/ "S7" \in Fix
         /\ m.k = "reply" /\ alt = "none" /\ parses
         \* hash_c1 / hash_c2 compared only if present, but the signature is verified over the initiator's
         \* own hash_c1 and the recomputed hash_c2: a reply built on an altered C1 never verifies
         /\ \/ /\ mid = 2
               \* challenge1 must be ours (unconditional); dh1 is not compared (S14)
               /\ m.ralt \in ({"none"} \cup (IF "S14" \in Fix THEN {} ELSE {"b:dh1"}))
            \* weakened: challenge1 compared only together with hash_c1 -> any reply B ever signed for this C1
            \/ "ch1@reply" \in Weak /\ "hash_c1" \in strip /\ m.by = "B" /\ m.ralt \in {"none", "old"}
    [] c = "process" /\ ds[to] = "Final" ->
         /\ alive[to] \/ "S7" \in Fix
         /\ m.k = "final" /\ alt = "none" /\ mid = 3 /\ parses
         \* dh1, dh2, challenge1/2 equal to what this replier stored (unconditional), hash_c1/2 if present,
         \* signature over the replier's own values
         /\ accAlt[to] = "none" /\ m.ralt = "none"
    [] OTHER -> FALSE

Req ==
  /\ ds["A"] = "ReqSend"
  /\ AbsReq(Known, "acc", 1, sec)
  /\ trail' = IF Gen THEN Append(trail, [a |-> "Req", to |-> "A", mid |-> 0, alt |-> "none", strip |-> {}]) ELSE trail
  /\ UNCHANGED <<alive, atk>>

Dlv(to, mid, alt, strip) ==
  LET c   == Call(to, mid)
      acc == Accepts(to, mid, alt, strip)
      out == IF c = "none" THEN "ign" ELSE IF acc THEN "acc" ELSE "rej"
      emit == IF ~acc THEN 0 ELSE IF c = "begin_reply" THEN 2 ELSE IF ds[to] = "Reply" THEN 3 ELSE 0
      s2  == [sec EXCEPT ![to] = IF acc /\ c = "process" THEN 1 ELSE @]
      cost == IF Expected(to, mid, alt, strip) THEN 0 ELSE 1
  IN
  /\ mid \in DOMAIN msgs /\ alt \in AltsFor(msgs[mid].k) /\ strip \in StripsFor(msgs[mid].k)
  /\ atk + cost <= MaxAtk
  /\ atk' = atk + cost
  /\ AbsDlv(Known, to, mid, alt, strip, c, out, emit, s2)
  /\ alive' = [alive EXCEPT ![to] = IF c = "process" /\ ~acc /\ "S7" \notin Fix THEN FALSE
                                     ELSE IF c = "begin_reply" /\ acc THEN TRUE ELSE @]
  /\ trail' = IF Gen THEN Append(trail, [a |-> "Dlv", to |-> to, mid |-> mid, alt |-> alt, strip |-> strip]) ELSE trail

Next == Req \/ \E to \in Parties, mid \in {1, 2, 3, 11, 12, 13}, alt \in {"none", "det", "b:dh1", "b:challenge1", "b:c.perm"},
                 strip \in SUBSET AllOptProps : Dlv(to, mid, alt, strip)

\* genuine progress: deliveries that cost the attacker nothing
Genuine == Req \/ \E to \in Parties, mid \in {1, 2, 3} : (Expected(to, mid, "none", {}) /\ Dlv(to, mid, "none", {}))

Spec == Init /\ [][Next]_vars /\ WF_vars(Genuine)

View == <<absVars, alive, atk>>

Inv_NoViolation == viol = {}
\* deviations appear only when they are in the model
Inv_KnownOnlyIfPresent == \A c \in known : \E d \in Known \ Fix : TRUE
\* no secret without both certificates chaining to the CA, GUIDs bound, equal secrets: in the
\* symbolic model every completing party has consumed only messages that passed all checks
Inv_SecretsAgree == (sec["A"] # 0 /\ sec["B"] # 0) => sec["A"] = sec["B"]
\* vacuity guards, checked as "never" properties in a separate cfg would fail; reachability is
\* shown by the replayed behaviours themselves (both parties DoneS / DoneR with secrets)

\* liveness: once the attacker has spent its budget the genuine exchange completes -- unless a
\* named deviation was hit (known # {})
Live == <>((ds["A"] \in Done /\ ds["B"] \in Done /\ sec["A"] = sec["B"] /\ sec["A"] # 0) \/ known # {} \/ viol # {})

GenEdge == Gen => PrintT("REPLAY " \o ToJson([acts |-> trail']))
=============================================================================
