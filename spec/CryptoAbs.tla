----------------------------- MODULE CryptoAbs -----------------------------
(***************************************************************************)
(* C16 - symbolic vocabulary shared by the model (CryptoKeys.tla) and the  *)
(* trace specification (Trace_CryptoKeys.tla).  No cryptography in here:   *)
(* key material is identified by who generated it and for whom.            *)
(*                                                                         *)
(*   plugin p        one CryptographicBuiltin instance = one participant   *)
(*                   with one endpoint (writer or reader)                  *)
(*   Common(p)       the key material p generated for the level under test *)
(*                   (participant key for "msg", endpoint key for "submsg" *)
(*                   and "payload")                                        *)
(*   RS(p,q)         receiver-specific key p generated when it registered  *)
(*                   q as matched remote entity (only with origin          *)
(*                   authentication)                                       *)
(*   token p->q      <<Common(p), RS(p,q)>>; dk[d][p] = q means: d stored, *)
(*                   as decode material for sender p, the token that p     *)
(*                   created for q (q = d unless the token went astray)    *)
(*   ciphertext c    [p, to, frame, al]: produced by p for the receiver    *)
(*                   list `to`; carries Common(p)'s key id, a fresh IV, a  *)
(*                   common MAC and one receiver-specific MAC under        *)
(*                   RS(p,q) for every q in `to` (message and submessage   *)
(*                   level with origin authentication only)                *)
(*   tamper class t  which field of the encoded form was altered           *)
(*                                                                         *)
(* Key inventory (strengthening round).  Every plugin owns SEVERAL key     *)
(* materials, each with its own key id:                                    *)
(*   <<p,"part",0>>  participant key (message level)                       *)
(*   <<p,"sub",0>>   endpoint key for submessages                          *)
(*   <<p,"pay",0>>   endpoint key for payloads - a key material of its own *)
(*                   only for a WRITER whose submessage and payload        *)
(*                   protection kinds differ (cfg.other # "same":          *)
(*                   KeyMaterial_AES_GCM_GMAC_seq::Two, two tokens);       *)
(*                   otherwise the "sub" material serves both (::One)      *)
(*   <<p,"rs",q>>    receiver-specific key p generated for q               *)
(* The key id in a CryptoHeader is NOT covered by any MAC: the lookup of   *)
(* the decode key is the only place where an altered key id is noticed.    *)
(* A key id can be altered to garbage ("keyid": bit flips) or to a value   *)
(* that IS the id of another key in the system (classes KidT below).       *)
(*                                                                         *)
(* Several endpoints per participant (second strengthening round).  A      *)
(* plugin may own a SECOND endpoint of the same kind and with the same     *)
(* attributes as its first one, matched with the same remote endpoints.    *)
(* ENTITY ids: the participant of plugin p and its first endpoint are      *)
(* written p, its second endpoint p + 10 (PluginOf / Ep2).  Everything     *)
(* below that speaks about a receiver (`r`, `held`, the members of c.to,   *)
(* the q of RS(p,q)) speaks about an ENTITY of the level under test:       *)
(* a participant at message level, an endpoint at submessage and payload   *)
(* level.  Every (sender, receiving entity) pair has a receiver-specific   *)
(* key of its own, so a submessage may carry a receiver-specific MAC for   *)
(* one endpoint of a participant and none for its sibling - although both  *)
(* hold the same sender key and the real decode_submessage is ONE call for *)
(* the whole receiving participant that answers with the list of local     *)
(* endpoints the submessage is released to.                                *)
(***************************************************************************)
EXTENDS Integers, Sequences, FiniteSets

P == {1, 2, 3}
\* entity ids: plugin p's participant and first endpoint = p, its second endpoint = p + 10
PluginOf(x) == x % 10
Ep2(p) == p + 10

\* key id overwritten with the id of ANOTHER existing key (or the reserved id 0):
\*   keyid_sib   the sender's key of the sibling endpoint level (submessage <-> payload)
\*   keyid_ent   the sender's key of the other entity level (endpoint <-> participant)
\*   keyid_rs    the receiver-specific key the sender generated for the receiver at hand
\*   keyid_peer  the same-level key of a different sender (the claimed one, if it is not the producer)
\*   keyid_own   the receiver's own key of that level
\*   keyid_zero  the reserved id 0
KidT == {"keyid_sib", "keyid_ent", "keyid_rs", "keyid_peer", "keyid_own", "keyid_zero"}

\* tamper classes.  Every class of MustReject alters protected bytes, key id, session id,
\* initialisation vector, common MAC, or the receiver-specific MAC of the receiver at hand.
\*   rkid_swap   the key ids of the receiver's MAC entry and of another receiver's entry exchanged
\*               (the entry labelled for the receiver at hand then carries somebody else's MAC)
MustReject == {"kind", "keyid", "session", "iv", "body", "cmac", "rcount",
               "rmac_mine", "rkid_mine", "drop_mine", "rkid_swap", "hdr", "swap_hdr"} \cup KidT
AllT == {"none"} \cup MustReject

IsMsg(cfg) == cfg.lvl = "msg"
\* receiver-specific MACs exist only above payload level and only with origin authentication
HasRS(cfg) == cfg.oa /\ cfg.lvl # "payload"

\* ---- key inventory ----
\* senders are writers in direction w2r, readers (ACKNACK) in direction r2w
IsWriter(cfg, snd, p) == (PluginOf(p) \in snd) = (cfg.dir = "w2r")
\* register_local_datawriter: kinds differ => Two key materials; readers and participants: One.
\* (at message level the endpoints get the same kind at both endpoint levels)
TwoKeys(cfg, snd, p) == cfg.lvl # "msg" /\ cfg.other # "same" /\ IsWriter(cfg, snd, p)
Slot(cfg) == CASE cfg.lvl = "msg" -> "part" [] cfg.lvl = "submsg" -> "sub" [] OTHER -> "pay"
SibSlot(cfg) == IF cfg.lvl = "submsg" THEN "pay" ELSE "sub"
EntSlot(cfg) == IF cfg.lvl = "msg" THEN "sub" ELSE "part"
\* the id of the key material p uses at `slot`
Kid(cfg, snd, p, slot) == IF slot = "part" THEN <<PluginOf(p), "part", 0>>
                          ELSE IF TwoKeys(cfg, snd, p) THEN <<p, slot, 0>>
                          ELSE <<p, "sub", 0>>
RsKid(p, q) == <<p, "rs", q>>
NoKid == <<0, "none", 0>>          \* a value that is no key's id
\* a sender different from the producer of c: the claimed sender if it is one, else any other sender (0: none)
PeerOf(snd, c, s) == IF s # c.p THEN s
                     ELSE IF snd \ {c.p} = {} THEN 0 ELSE CHOOSE x \in snd \ {c.p} : TRUE

\* the key id r finds in the header of c after alteration t
HeaderKid(cfg, snd, c, r, s, held, t) ==
  CASE t = "keyid"      -> NoKid
    [] t = "keyid_zero" -> NoKid
    [] t = "keyid_sib"  -> Kid(cfg, snd, c.p, SibSlot(cfg))
    [] t = "keyid_ent"  -> Kid(cfg, snd, c.p, EntSlot(cfg))
    [] t = "keyid_rs"   -> RsKid(c.p, held)
    [] t = "keyid_peer" -> Kid(cfg, snd, PeerOf(snd, c, s), Slot(cfg))
    [] t = "keyid_own"  -> Kid(cfg, snd, r, Slot(cfg))
    [] OTHER            -> Kid(cfg, snd, c.p, Slot(cfg))

\* Frame: DATA pads the payload to a multiple of 4 with zeros; on receipt padding and payload are
\* indistinguishable.  decode_serialized_payload cuts the footer off the END of what it is given.
\* Named deviation S10: a protected payload whose encoded length is not a multiple of 4 therefore
\* does not decode after having travelled in a DATA submessage.
DevS10(cfg, c) == cfg.lvl = "payload" /\ c.frame = "data" /\ ~c.al

\* which tamper classes make sense for ciphertext c when r (holding token-for `held`) decodes it
\* under the handle it has for s; loc = plugins that registered their local entities (their keys exist).
\* A substitution class applies only if the substituted id exists and differs from the original one.
Tampers(cfg, snd, loc, c, r, s, held) ==
  {"none", "kind", "keyid", "session", "iv", "body", "cmac", "swap_hdr", "keyid_zero", "keyid_ent"}
    \cup (IF cfg.lvl = "payload" THEN {"rcount"} ELSE {})
    \cup (IF cfg.lvl = "msg" THEN {"hdr"} ELSE {})
    \cup (IF HasRS(cfg) /\ held \in c.to THEN {"rmac_mine", "rkid_mine", "drop_mine", "keyid_rs"} ELSE {})
    \cup (IF HasRS(cfg) /\ held \in c.to /\ Cardinality(c.to) > 1 THEN {"rkid_swap"} ELSE {})
    \cup (IF TwoKeys(cfg, snd, c.p) THEN {"keyid_sib"} ELSE {})
    \cup (IF PeerOf(snd, c, s) \in loc THEN {"keyid_peer"} ELSE {})
    \cup (IF PluginOf(r) \in loc THEN {"keyid_own"} ELSE {})

(***************************************************************************)
(* The property, as a predicate: r, believing the bytes to come from s and *)
(* holding dk = "token s created for `held`" (0: none), must obtain the    *)
(* plaintext of c iff all of the following hold, and no data otherwise.    *)
(***************************************************************************)
HoldsKey(held) == held # 0
SameKeyMaterial(c, s) == c.p = s
MacForMe(cfg, c, held) == HasRS(cfg) => held \in c.to
Authorized(cfg, c, s, held, t) ==
  /\ t = "none"
  /\ HoldsKey(held)
  /\ SameKeyMaterial(c, s)
  /\ MacForMe(cfg, c, held)

(***************************************************************************)
(* Decision procedure transcribed from crypto_transform.rs (fn decode_..),  *)
(* cryptographic_builtin.rs (get_decode_key_material: lookup by handle,    *)
(* key material SELECTED BY SCOPE (submessage-or-message / payload), then  *)
(* filtered by header key id) and validate_receiver_specific_macs.rs.      *)
(* `epinfo`: r registered s's endpoint (decode_submessage walks            *)
(* participant_to_endpoint_info).  Result "plain" / "nodata".              *)
(* `loose` = TRUE is a deliberately wrong lookup (the header key id may be *)
(* ANY id of the sender's key materials under that handle) used only by    *)
(* MC_CryptoKeys_neg.cfg to show that the invariants notice this class.    *)
(* decode_submessage collects the decode materials of ALL local endpoints  *)
(* of the receiving participant that are matched with the sender and whose *)
(* key id is the one in the header (the candidates), validates the         *)
(* receiver-specific MAC once PER CANDIDATE and releases the submessage to *)
(* exactly those local endpoints whose candidate passed; the outcome for   *)
(* entity r is "plain" iff r is in that list.  So the decision for r uses  *)
(* r's own decode material only.  `sibok` = some OTHER endpoint of r's     *)
(* participant passes all checks on the same untouched bytes; it is used   *)
(* only with `looselist` = TRUE, a deliberately wrong release rule (once   *)
(* one candidate passed, the siblings are released unchecked), negative    *)
(* control MC_CryptoKeys_neg2.cfg.                                         *)
(***************************************************************************)
\* ids of all key materials r stores under the handle it has for s (the token sequence of s)
StoredKids(cfg, snd, s) == IF IsMsg(cfg) THEN {Kid(cfg, snd, s, "part")}
                           ELSE {Kid(cfg, snd, s, "sub"), Kid(cfg, snd, s, "pay")}
KidOk(loose, cfg, snd, c, r, s, held, t) ==
  LET hk == HeaderKid(cfg, snd, c, r, s, held, t) IN
  IF loose THEN hk \in StoredKids(cfg, snd, s)
  ELSE hk = Kid(cfg, snd, s, Slot(cfg))                 \* select(scope).sender_key_id = header key id
\* the MAC was made with the key of c.p selected by the level; it verifies only under that very key
CommonMacOk(c, s, t) == c.p = s /\ t \notin {"session", "iv", "body", "cmac", "swap_hdr"}
\* receiver-specific MAC is computed over the common MAC with the session key derived from the IV header
RsMacOk(cfg, c, s, held, t) ==
  IF ~HasRS(cfg) THEN TRUE                       \* key material has no receiver-specific key: nothing expected
  ELSE /\ c.p = s /\ held \in c.to               \* find_receiver_specific_mac by key id
       /\ t \notin {"rkid_mine", "drop_mine"}      \* ... entry still there under that id
       /\ t \notin {"rmac_mine", "rkid_swap", "session", "iv", "cmac", "swap_hdr"}  \* validate_mac(key, iv, common_mac, mac)

ImplDecode(loose, looselist, sibok, cfg, snd, c, r, s, held, epinfo, t) ==
  IF DevS10(cfg, c) THEN "nodata"                                      \* footer taken from the padded end
  ELSE IF t \in {"kind", "rcount", "hdr"} THEN "nodata"                 \* header / footer / InfoSource checks
  ELSE IF cfg.lvl = "submsg" /\ ~epinfo THEN "nodata"                  \* no registered entities for the sender
  ELSE IF held = 0 THEN "nodata"                                       \* no decode key material for the handle
  ELSE IF ~KidOk(loose, cfg, snd, c, r, s, held, t) THEN "nodata"      \* sender_key_id filter / KeysNotFound
  ELSE IF ~RsMacOk(cfg, c, s, held, t)                                 \* candidate filtered out of the list /
          /\ ~(looselist /\ sibok /\ cfg.lvl = "submsg" /\ t = "none") THEN "nodata"   \* ValidatingReceiverSpecificMACFailed
  ELSE IF ~CommonMacOk(c, s, t) THEN "nodata"                          \* validate_mac / decrypt
  ELSE "plain"
=============================================================================
