----------------------------- MODULE CryptoAbs -----------------------------
(***************************************************************************)
(* C16 - symbolic vocabulary shared by the model (CryptoKeys.tla) and the  *)
(* trace specification (Trace_CryptoKeys.tla).  No cryptography in here:   *)
(* key material is identified by who generated it and for whom.            *)
(*                                                                         *)
(*   plugin p        one CryptographicBuiltin instance = one participant   *)
(*                   with one endpoint (writer or reader)                  *)
(*   Common(p)       the key material p generated for the level under test *)
(*                   (participant key for "msg", endpoint key for "submsg" *)
(*                   and "payload")                                        *)
(*   RS(p,q)         receiver-specific key p generated when it registered  *)
(*                   q as matched remote entity (only with origin          *)
(*                   authentication)                                       *)
(*   token p->q      <<Common(p), RS(p,q)>>; dk[d][p] = q means: d stored, *)
(*                   as decode material for sender p, the token that p     *)
(*                   created for q (q = d unless the token went astray)    *)
(*   ciphertext c    [p, to, frame, al]: produced by p for the receiver    *)
(*                   list `to`; carries Common(p)'s key id, a fresh IV, a  *)
(*                   common MAC and one receiver-specific MAC under        *)
(*                   RS(p,q) for every q in `to` (message and submessage   *)
(*                   level with origin authentication only)                *)
(*   tamper class t  which field of the encoded form was altered           *)
(***************************************************************************)
EXTENDS Integers, Sequences, FiniteSets

P == {1, 2, 3}

\* tamper classes.  Every class of MustReject alters protected bytes, key id, session id,
\* initialisation vector, common MAC, or the receiver-specific MAC of the receiver at hand.
MustReject == {"kind", "keyid", "session", "iv", "body", "cmac", "rcount",
               "rmac_mine", "rkid_mine", "drop_mine", "hdr", "swap_hdr"}
AllT == {"none"} \cup MustReject

IsMsg(cfg) == cfg.lvl = "msg"
\* receiver-specific MACs exist only above payload level and only with origin authentication
HasRS(cfg) == cfg.oa /\ cfg.lvl # "payload"

\* Frame: DATA pads the payload to a multiple of 4 with zeros; on receipt padding and payload are
\* indistinguishable.  decode_serialized_payload cuts the footer off the END of what it is given.
\* Named deviation S10: a protected payload whose encoded length is not a multiple of 4 therefore
\* does not decode after having travelled in a DATA submessage.
DevS10(cfg, c) == cfg.lvl = "payload" /\ c.frame = "data" /\ ~c.al

\* which tamper classes make sense for ciphertext c when r (holding token-for `held`) decodes
Tampers(cfg, c, held) ==
  {"none", "kind", "keyid", "session", "iv", "body", "cmac", "swap_hdr"}
    \cup (IF cfg.lvl = "payload" THEN {"rcount"} ELSE {})
    \cup (IF cfg.lvl = "msg" THEN {"hdr"} ELSE {})
    \cup (IF HasRS(cfg) /\ held \in c.to THEN {"rmac_mine", "rkid_mine", "drop_mine"} ELSE {})

(***************************************************************************)
(* The property, as a predicate: r, believing the bytes to come from s and *)
(* holding dk = "token s created for `held`" (0: none), must obtain the    *)
(* plaintext of c iff all of the following hold, and no data otherwise.    *)
(***************************************************************************)
HoldsKey(held) == held # 0
SameKeyMaterial(c, s) == c.p = s
MacForMe(cfg, c, held) == HasRS(cfg) => held \in c.to
Authorized(cfg, c, s, held, t) ==
  /\ t = "none"
  /\ HoldsKey(held)
  /\ SameKeyMaterial(c, s)
  /\ MacForMe(cfg, c, held)

(***************************************************************************)
(* Decision procedure transcribed from crypto_transform.rs (fn decode_..),  *)
(* cryptographic_builtin.rs (get_decode_key_material: lookup by handle,    *)
(* filtered by header key id) and validate_receiver_specific_macs.rs.      *)
(* `epinfo`: r registered s's endpoint (decode_submessage walks            *)
(* participant_to_endpoint_info).  Result "plain" / "nodata".              *)
(***************************************************************************)
CommonMacOk(c, s, t) == c.p = s /\ t \notin {"session", "iv", "body", "cmac", "swap_hdr"}
\* receiver-specific MAC is computed over the common MAC with the session key derived from the IV header
RsMacOk(cfg, c, s, held, t) ==
  IF ~HasRS(cfg) THEN TRUE                       \* key material has no receiver-specific key: nothing expected
  ELSE /\ c.p = s /\ held \in c.to               \* find_receiver_specific_mac by key id
       /\ t \notin {"rkid_mine", "drop_mine"}      \* ... entry still there under that id
       /\ t \notin {"rmac_mine", "session", "iv", "cmac", "swap_hdr"}  \* validate_mac(key, iv, common_mac, mac)

ImplDecode(cfg, c, s, held, epinfo, t) ==
  IF DevS10(cfg, c) THEN "nodata"                                      \* footer taken from the padded end
  ELSE IF t \in {"kind", "rcount", "hdr"} THEN "nodata"                 \* header / footer / InfoSource checks
  ELSE IF cfg.lvl = "submsg" /\ ~epinfo THEN "nodata"                  \* no registered entities for the sender
  ELSE IF held = 0 THEN "nodata"                                       \* no decode key material for the handle
  ELSE IF ~(c.p = s /\ t # "keyid") THEN "nodata"                      \* sender_key_id filter / KeysNotFound
  ELSE IF ~RsMacOk(cfg, c, s, held, t) THEN "nodata"                   \* ValidatingReceiverSpecificMACFailed
  ELSE IF ~CommonMacOk(c, s, t) THEN "nodata"                          \* validate_mac / decrypt
  ELSE "plain"
=============================================================================
