SPECIFICATION Spec
CONSTANTS
  Scenario = "nkbare"
  N = 3
  Cap = 16
  Kinds <- KindsDDV
  Script <- ScriptNone
  GenK = 1
VIEW View
INVARIANT Inv_NoLostWake
ACTION_CONSTRAINT GenEdge
CHECK_DEADLOCK FALSE
