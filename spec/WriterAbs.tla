---------------------------- MODULE WriterAbs ----------------------------
(***************************************************************************)
(* Abstract state of one RTPS writer in the vocabulary of C04 and C20:     *)
(* what was written (payload identity, single-reader target), what is      *)
(* retained, who is matched, what each reliable reader acknowledged and    *)
(* requested, and the pending wait_for_acknowledgments.                    *)
(* Inputs (write, ACKNACK, match, loss, timer firings, wait) evolve the    *)
(* state deterministically.  Outputs (datagrams per destination, the       *)
(* retained set after cleaning, the completion signal of the wait) are     *)
(* observed and judged by exactly the clauses of the property statements;  *)
(* every broken clause is recorded in `viol`.  Used by RtpsWriter.tla      *)
(* (outputs computed by the implementation-shaped model) and by            *)
(* Trace_RtpsWriter.tla (outputs logged from the real Writer).             *)
(***************************************************************************)
EXTENDS Integers, Sequences, FiniteSets, TLC

CONSTANTS Readers       \* set of reader identifiers (positive integers)

VARIABLES
  relW,      \* writer is RELIABLE
  volW,      \* writer durability is VOLATILE (late joiners are not owed earlier samples)
  depthLim,  \* History depth / resource limit that bounds retention
  wr,        \* Seq of [pid, single]: wr[sn] = what was written with sequence number sn
  hist,      \* set of retained sequence numbers (observed)
  rd,        \* [Readers -> {"none","be","rel"}]
  ackLo,     \* [Readers -> Int] base of the latest ACKNACK of this match (1 = nothing yet)
  ackHi,     \* [Readers -> Int] highest base ever acknowledged in this match
  req,       \* [Readers -> SUBSET Int] requested and not yet answered
  pre,       \* [Readers -> Int] last sequence number that existed when the reader was matched
  wAct,      \* a wait_for_acknowledgments is pending
  wUntil,    \* last sequence number written before the wait
  wMay,      \* readers that, on the most generous reading, still have to acknowledge
  wMust,     \* readers that, on the strictest reading, still have to acknowledge
  viol

wabsVars == <<relW, volW, depthLim, wr, hist, rd, ackLo, ackHi, req, pre, wAct, wUntil, wMay, wMust, viol>>

LastSN == Len(wr)
WMin(S) == CHOOSE x \in S : \A y \in S : x <= y
WMax(S) == CHOOSE x \in S : \A y \in S : x >= y
RelReaders == {r \in Readers : rd[r] = "rel"}

WAbsInit(rel, vol, depth) ==
  /\ relW = rel /\ volW = vol /\ depthLim = depth
  /\ wr = <<>>
  /\ hist = {}
  /\ rd = [r \in Readers |-> "none"]
  /\ ackLo = [r \in Readers |-> 1]
  /\ ackHi = [r \in Readers |-> 1]
  /\ req = [r \in Readers |-> {}]
  /\ pre = [r \in Readers |-> 0]
  /\ wAct = FALSE /\ wUntil = 0 /\ wMay = {} /\ wMust = {}
  /\ viol = {}

(* ----------------------------------------------------- judging datagrams *)
\* One datagram = [to |-> reader (0 = unknown destination), subs |-> Seq of submessage records]
\* submessage records:  [k |-> "DATA", sn, pid, ok]   ok = bytes equal the written sample's bytes
\*                      [k |-> "FRAG", sn, pid, ok]
\*                      [k |-> "GAP",  set]            all sequence numbers the GAP covers
\*                      [k |-> "HB",   first, last]
\* wrN, histN: written samples / retained set at the time of sending.

GapLegit(r, g, wrN, histN) ==
     g \notin histN                                     \* no longer (or never) retrievable
  \/ g > Len(wrN)
  \/ (g >= 1 /\ g <= Len(wrN) /\ wrN[g].single # 0 /\ wrN[g].single # r)   \* written for someone else
  \/ (r \in Readers /\ g <= pre[r])                     \* volatile writer, reader joined later

SubViol(r, s, wrN, histN) ==
  IF s.k = "DATA" \/ s.k = "FRAG" THEN
       (IF s.sn < 1 \/ s.sn > Len(wrN) THEN {"C04_data_for_unwritten_sn"}
        ELSE   (IF ~s.ok \/ s.pid # wrN[s.sn].pid THEN {"C04_wrong_bytes"} ELSE {})
          \cup (IF wrN[s.sn].single # 0 /\ wrN[s.sn].single # r THEN {"C04_single_reader_leak"} ELSE {}))
  ELSE IF s.k = "GAP" THEN
       (IF \E g \in s.set : ~GapLegit(r, g, wrN, histN) THEN {"C04_gap_for_available_sample"} ELSE {})
  ELSE IF s.k = "HB" THEN
         (IF s.last # Len(wrN) THEN {"C04_hb_last"} ELSE {})
    \cup (IF s.first # (IF histN = {} THEN Len(wrN) + 1 ELSE WMin(histN)) THEN {"C04_hb_first"} ELSE {})
  ELSE {}

Answered(s) == IF s.k = "DATA" \/ s.k = "FRAG" THEN {s.sn} ELSE IF s.k = "GAP" THEN s.set ELSE {}

RECURSIVE SubsFold(_, _, _, _, _, _, _)
SubsFold(r, subs, i, wrN, histN, v, ans) ==
  IF i > Len(subs) THEN <<v, ans>>
  ELSE SubsFold(r, subs, i + 1, wrN, histN, v \cup SubViol(r, subs[i], wrN, histN), ans \cup Answered(subs[i]))

RECURSIVE SendsFold(_, _, _, _, _, _)
SendsFold(out, i, wrN, histN, v, rq) ==     \* rq: [Readers -> outstanding requests]
  IF i > Len(out) THEN <<v, rq>>
  ELSE LET r  == out[i].to
           sf == SubsFold(r, out[i].subs, 1, wrN, histN, {}, {})
       IN SendsFold(out, i + 1, wrN, histN, v \cup sf[1],
                    IF r \in Readers THEN [rq EXCEPT ![r] = @ \ sf[2]] ELSE rq)

(* ----------------------------------------------------- C20: the waiter *)
\* done = the completion signal has been observed (sticky).
WaitViol(done, may, must, act) ==
  IF ~act THEN {}
  ELSE   (IF done /\ may # {} THEN {"C20_success_without_acknowledgment"} ELSE {})
    \cup (IF ~done /\ must = {} THEN {"C20_not_completed_although_condition_holds"} ELSE {})

(* ---------------------------------------------------------------- events *)
\* every event: histN = retained set after the event, out = datagrams sent, done = waiter signal

AbsWrite(pid, single, histN, out, done) ==
  LET wrN == Append(wr, [pid |-> pid, single |-> single])
      sf  == SendsFold(out, 1, wrN, histN, {}, req)
  IN  /\ wr' = wrN
      /\ hist' = histN
      /\ req' = sf[2]
      /\ viol' = viol \cup sf[1] \cup WaitViol(done, wMay, wMust, wAct)
                      \cup (IF Len(wrN) \notin histN THEN {"C04_new_sample_not_retained"} ELSE {})
      /\ UNCHANGED <<relW, volW, depthLim, rd, ackLo, ackHi, pre, wAct, wUntil, wMay, wMust>>

AbsMatchR(r, kind, histN, out, done) ==
  LET compatible == ~(kind = "rel" /\ ~relW)
      fresh == compatible /\ rd[r] = "none"
      sf == SendsFold(out, 1, wr, histN, {}, req)
  IN  /\ rd' = [rd EXCEPT ![r] = IF fresh THEN kind ELSE @]     \* a re-announcement keeps the kind
      /\ ackLo' = [ackLo EXCEPT ![r] = IF fresh THEN 1 ELSE @]
      /\ ackHi' = [ackHi EXCEPT ![r] = IF fresh THEN 1 ELSE @]
      /\ req' = [sf[2] EXCEPT ![r] = IF fresh THEN {} ELSE @]
      /\ pre' = [pre EXCEPT ![r] = IF fresh THEN (IF volW THEN LastSN ELSE 0) ELSE @]
      /\ hist' = histN
      /\ viol' = viol \cup sf[1] \cup WaitViol(done, wMay, wMust, wAct)
      /\ UNCHANGED <<relW, volW, depthLim, wr, wAct, wUntil, wMay, wMust>>

AbsLose(r, histN, out, done) ==
  LET sf == SendsFold(out, 1, wr, histN, {}, req)
      may == wMay \ {r}
      must == wMust \ {r}
  IN  /\ rd' = [rd EXCEPT ![r] = "none"]
      /\ req' = [sf[2] EXCEPT ![r] = {}]
      /\ wMay' = may /\ wMust' = must
      /\ hist' = histN
      /\ viol' = viol \cup sf[1] \cup WaitViol(done, may, must, wAct)
      /\ UNCHANGED <<relW, volW, depthLim, wr, ackLo, ackHi, pre, wAct, wUntil>>

\* ACKNACK(base, set) from reader r.  Only a reliable writer with r matched as reliable reacts.
AbsAckNack(r, base, set, histN, out, done) ==
  LET live == relW /\ rd[r] = "rel"
      b    == IF base < 1 THEN 1 ELSE base
      hi   == IF live /\ b > ackHi[r] THEN b ELSE ackHi[r]
      \* a request creates an obligation only for numbers that were advertised (<= last) and that
      \* this reader has not acknowledged before (an ACKNACK cannot take an acknowledgment back)
      rq0  == IF live THEN [req EXCEPT ![r] = {s \in (@ \cup set) : s >= hi /\ s >= 1 /\ s <= LastSN}] ELSE req
      sf   == SendsFold(out, 1, wr, histN, {}, rq0)
      may  == IF live /\ hi > wUntil THEN wMay \ {r} ELSE wMay
      must == IF live /\ b > wUntil THEN wMust \ {r} ELSE wMust
  IN  /\ ackLo' = [ackLo EXCEPT ![r] = IF live THEN b ELSE @]
      /\ ackHi' = [ackHi EXCEPT ![r] = hi]
      /\ req' = sf[2]
      /\ wMay' = may /\ wMust' = must
      /\ hist' = histN
      /\ viol' = viol \cup sf[1] \cup WaitViol(done, may, must, wAct)
      /\ UNCHANGED <<relW, volW, depthLim, wr, rd, pre, wAct, wUntil>>

\* heartbeat tick, one firing of a repair timer: only outputs
AbsOutputs(histN, out, done) ==
  LET sf == SendsFold(out, 1, wr, histN, {}, req)
  IN  /\ req' = sf[2]
      /\ hist' = histN
      /\ viol' = viol \cup sf[1] \cup WaitViol(done, wMay, wMust, wAct)
      /\ UNCHANGED <<relW, volW, depthLim, wr, rd, ackLo, ackHi, pre, wAct, wUntil, wMay, wMust>>

\* the repair timers of reader r have been fired until none is armed
AbsRepairDone(r, quiescent) ==
  /\ viol' = viol \cup (IF rd[r] = "rel" /\ req[r] # {} THEN {"C04_request_unanswered"} ELSE {})
                  \cup (IF ~quiescent THEN {"C04_repair_never_ends"} ELSE {})
  /\ UNCHANGED <<relW, volW, depthLim, wr, hist, rd, ackLo, ackHi, req, pre, wAct, wUntil, wMay, wMust>>

\* cache cleaning: retained set goes from hist to histN
Unacked == {sn \in 1..LastSN : \E r \in RelReaders : ackLo[r] <= sn}
AllAckedEver(sn) == \A r \in RelReaders : ackHi[r] > sn
AbsClean(histN, done) ==
  LET removed == hist \ histN
      vRetain == IF \E sn \in removed : ~AllAckedEver(sn) /\ sn > LastSN - depthLim
                   THEN {"C04_removed_unacknowledged_sample_within_depth"} ELSE {}
      vBound  == IF Cardinality(histN) > depthLim + Cardinality(Unacked \cap histN)
                   THEN {"C04_retains_more_than_depth_plus_unacknowledged"} ELSE {}
      vGrow   == IF ~(histN \subseteq hist) THEN {"C04_cleaning_added_samples"} ELSE {}
  IN  /\ hist' = histN
      /\ viol' = viol \cup vRetain \cup vBound \cup vGrow \cup WaitViol(done, wMay, wMust, wAct)
      /\ UNCHANGED <<relW, volW, depthLim, wr, rd, ackLo, ackHi, req, pre, wAct, wUntil, wMay, wMust>>

\* wait_for_acknowledgments is called (a second call replaces the first)
AbsWait(done) ==
  LET may  == {r \in RelReaders : ackHi[r] <= LastSN}
      must == {r \in RelReaders : ackLo[r] <= LastSN}
  IN  /\ wAct' = TRUE
      /\ wUntil' = LastSN
      /\ wMay' = may /\ wMust' = must
      /\ viol' = viol \cup WaitViol(done, may, must, TRUE)
      /\ UNCHANGED <<relW, volW, depthLim, wr, hist, rd, ackLo, ackHi, req, pre>>

WInv_NoViolation == viol = {}
==========================================================================
