---------------------------- MODULE WriterAbs ----------------------------
(***************************************************************************)
(* Abstract state of one RTPS writer in the vocabulary of C04 and C20:     *)
(* what was written (payload identity, single-reader target), what is      *)
(* retained, who is matched, what each reliable reader acknowledged and    *)
(* requested, and the pending wait_for_acknowledgments.                    *)
(* Inputs (write, ACKNACK, match, loss, timer firings, wait) evolve the    *)
(* state deterministically.  Outputs (datagrams per destination, the       *)
(* retained set after cleaning, the completion signal of the wait) are     *)
(* observed and judged by exactly the clauses of the property statements;  *)
(* every broken clause is recorded in `viol`.  Used by RtpsWriter.tla      *)
(* (outputs computed by the implementation-shaped model) and by            *)
(* Trace_RtpsWriter.tla (outputs logged from the real Writer).             *)
(***************************************************************************)
EXTENDS Integers, Sequences, FiniteSets, TLC

CONSTANTS Readers       \* set of reader identifiers (positive integers)

VARIABLES
  relW,      \* writer is RELIABLE
  volW,      \* writer durability is EXPLICITLY Volatile (QosPolicies::is_volatile; a writer without a
             \* durability policy serves history like a TransientLocal one and passes RxO with any reader)
  depthLim,  \* History depth / resource limit that bounds retention
  wr,        \* Seq of [pid, single]: wr[sn] = what was written with sequence number sn
  hist,      \* set of retained sequence numbers (observed)
  rd,        \* [Readers -> {"none","be","rel"}]
  ackLo,     \* [Readers -> Int] base of the latest ACKNACK of this match (1 = nothing yet)
  ackHi,     \* [Readers -> Int] highest base ever acknowledged in this match
  req,       \* [Readers -> SUBSET Int] requested and not yet answered
  pre,       \* [Readers -> Int] last sequence number this reader is NOT owed: everything written before the
             \* match if the writer is Volatile or the reader did not request TransientLocal, else 0
  conf,      \* [Readers -> BOOLEAN] the ACKNACKs received from the reader during this match are a stream a
             \* conforming reader produces over a loss-only FIFO channel: only if reliable, base never
             \* decreasing, nothing requested below the base
  wAct,      \* a wait_for_acknowledgments is pending
  wUntil,    \* last sequence number written before the wait
  wMay,      \* readers that, on the most generous reading, still have to acknowledge
  wMust,     \* readers that, on the strictest reading, still have to acknowledge
  viol

wabsVars == <<relW, volW, depthLim, wr, hist, rd, ackLo, ackHi, req, pre, conf, wAct, wUntil, wMay, wMust, viol>>

LastSN == Len(wr)
WMin(S) == CHOOSE x \in S : \A y \in S : x <= y
WMax(S) == CHOOSE x \in S : \A y \in S : x >= y
RelReaders == {r \in Readers : rd[r] = "rel"}

WAbsInit(rel, vol, depth) ==
  /\ relW = rel /\ volW = vol /\ depthLim = depth
  /\ wr = <<>>
  /\ hist = {}
  /\ rd = [r \in Readers |-> "none"]
  /\ ackLo = [r \in Readers |-> 1]
  /\ ackHi = [r \in Readers |-> 1]
  /\ req = [r \in Readers |-> {}]
  /\ pre = [r \in Readers |-> 0]
  /\ conf = [r \in Readers |-> TRUE]
  /\ wAct = FALSE /\ wUntil = 0 /\ wMay = {} /\ wMust = {}
  /\ viol = {}

(* ----------------------------------------------------- judging datagrams *)
\* One datagram = [to |-> reader (0 = unknown destination), subs |-> Seq of submessage records]
\* submessage records:  [k |-> "DATA", sn, pid, ok]   ok = bytes equal the written sample's bytes
\*                      [k |-> "FRAG", sn, pid, ok]
\*                      [k |-> "GAP",  set]            all sequence numbers the GAP covers
\*                      [k |-> "HB",   first, last]
\* wrN, histN, preN, confN: written samples / retained set / not-owed bound / conformance AFTER the event
\* (the datagrams of an event are judged against the state the event leads to).

GapLegit(r, g, wrN, histN, preN) ==
     g \notin histN                                     \* no longer (or never) retrievable
  \/ g > Len(wrN)
  \/ (g >= 1 /\ g <= Len(wrN) /\ wrN[g].single # 0 /\ wrN[g].single # r)   \* written for someone else
  \/ (r \in Readers /\ g <= preN[r])                    \* not owed: written before a match without history

SubViol(r, s, wrN, histN, preN, confN) ==
  IF s.k = "DATA" \/ s.k = "FRAG" THEN
       (IF s.sn < 1 \/ s.sn > Len(wrN) THEN {"C04_data_for_unwritten_sn"}
        ELSE   (IF ~s.ok \/ s.pid # wrN[s.sn].pid THEN {"C04_wrong_bytes"} ELSE {})
          \cup (IF wrN[s.sn].single # 0 /\ wrN[s.sn].single # r THEN {"C04_single_reader_leak"} ELSE {})
          \* C07: "a Volatile [late joiner] receives only later samples".  The writer's only memory of "not owed"
          \* is its pending GAP, which a reader that breaks the protocol (acknowledging what it was never sent,
          \* ACKNACKs from a best-effort reader) can make it forget; the clause binds for conforming readers.
          \cup (IF r \in Readers /\ s.sn <= preN[r] /\ confN[r]
                  THEN {"C07_history_sent_to_reader_that_did_not_request_it"} ELSE {}))
  ELSE IF s.k = "GAP" THEN
       (IF \E g \in s.set : ~GapLegit(r, g, wrN, histN, preN) THEN {"C04_gap_for_available_sample"} ELSE {})
  ELSE IF s.k = "HB" THEN
         (IF s.last # Len(wrN) THEN {"C04_hb_last"} ELSE {})
    \cup (IF s.first # (IF histN = {} THEN Len(wrN) + 1 ELSE WMin(histN)) THEN {"C04_hb_first"} ELSE {})
  ELSE {}

Answered(s) == IF s.k = "DATA" \/ s.k = "FRAG" THEN {s.sn} ELSE IF s.k = "GAP" THEN s.set ELSE {}

RECURSIVE SubsFold(_, _, _, _, _, _, _, _, _)
SubsFold(r, subs, i, wrN, histN, preN, confN, v, ans) ==
  IF i > Len(subs) THEN <<v, ans>>
  ELSE SubsFold(r, subs, i + 1, wrN, histN, preN, confN,
                v \cup SubViol(r, subs[i], wrN, histN, preN, confN), ans \cup Answered(subs[i]))

\* returns <<violated clauses, outstanding requests per reader>>
RECURSIVE SendsFold(_, _, _, _, _, _, _, _)
SendsFold(out, i, wrN, histN, preN, confN, v, rq) ==
  IF i > Len(out) THEN <<v, rq>>
  ELSE LET r  == out[i].to
           sf == SubsFold(r, out[i].subs, 1, wrN, histN, preN, confN, {}, {})
       IN SendsFold(out, i + 1, wrN, histN, preN, confN, v \cup sf[1],
                    IF r \in Readers THEN [rq EXCEPT ![r] = @ \ sf[2]] ELSE rq)

(* ----------------------------------------------------- C20: the waiter *)
\* done = the completion signal has been observed (sticky).
WaitViol(done, may, must, act) ==
  IF ~act THEN {}
  ELSE   (IF done /\ may # {} THEN {"C20_success_without_acknowledgment"} ELSE {})
    \cup (IF ~done /\ must = {} THEN {"C20_not_completed_although_condition_holds"} ELSE {})

(* ---------------------------------------------------------------- events *)
\* every event: histN = retained set after the event, out = datagrams sent, done = waiter signal

AbsWrite(pid, single, histN, out, done) ==
  LET wrN == Append(wr, [pid |-> pid, single |-> single])
      sf  == SendsFold(out, 1, wrN, histN, pre, conf, {}, req)
  IN  /\ wr' = wrN
      /\ hist' = histN
      /\ req' = sf[2]
      /\ viol' = viol \cup sf[1] \cup WaitViol(done, wMay, wMust, wAct)
                      \cup (IF Len(wrN) \notin histN THEN {"C04_new_sample_not_retained"} ELSE {})
      /\ UNCHANGED <<relW, volW, depthLim, rd, ackLo, ackHi, pre, conf, wAct, wUntil, wMay, wMust>>

\* rtl: the reader requests durability TransientLocal (or stronger).  Request/offered: a reliable reader does not
\* match a best-effort writer, a reader requesting TransientLocal does not match an explicitly Volatile writer.
AbsMatchR(r, kind, rtl, histN, out, done) ==
  LET compatible == ~(kind = "rel" /\ ~relW) /\ ~(rtl /\ volW)
      fresh == compatible /\ rd[r] = "none"
      preN  == [pre EXCEPT ![r] = IF fresh THEN (IF volW \/ ~rtl THEN LastSN ELSE 0) ELSE @]
      confN == [conf EXCEPT ![r] = IF fresh THEN TRUE ELSE @]
      sf == SendsFold(out, 1, wr, histN, preN, confN, {}, [req EXCEPT ![r] = IF fresh THEN {} ELSE @])
  IN  /\ rd' = [rd EXCEPT ![r] = IF fresh THEN kind ELSE @]     \* a re-announcement keeps the kind
      /\ ackLo' = [ackLo EXCEPT ![r] = IF fresh THEN 1 ELSE @]
      /\ ackHi' = [ackHi EXCEPT ![r] = IF fresh THEN 1 ELSE @]
      /\ req' = sf[2]
      /\ pre' = preN
      /\ conf' = confN
      /\ hist' = histN
      /\ viol' = viol \cup sf[1] \cup WaitViol(done, wMay, wMust, wAct)
      /\ UNCHANGED <<relW, volW, depthLim, wr, wAct, wUntil, wMay, wMust>>

AbsLose(r, histN, out, done) ==
  LET sf == SendsFold(out, 1, wr, histN, pre, conf, {}, req)
      may == wMay \ {r}
      must == wMust \ {r}
  IN  /\ rd' = [rd EXCEPT ![r] = "none"]
      /\ req' = [sf[2] EXCEPT ![r] = {}]
      /\ wMay' = may /\ wMust' = must
      /\ hist' = histN
      /\ viol' = viol \cup sf[1] \cup WaitViol(done, may, must, wAct)
      /\ UNCHANGED <<relW, volW, depthLim, wr, ackLo, ackHi, pre, conf, wAct, wUntil>>

\* ACKNACK(base, set) from reader r.  Only a reliable writer with r matched as reliable reacts.
AbsAckNack(r, base, set, histN, out, done) ==
  LET live == relW /\ rd[r] = "rel"
      b    == IF base < 1 THEN 1 ELSE base
      hi   == IF live /\ b > ackHi[r] THEN b ELSE ackHi[r]
      \* a request creates an obligation only for numbers that were advertised (<= last) and that
      \* this reader has not acknowledged before (an ACKNACK cannot take an acknowledgment back)
      rq0  == IF live THEN [req EXCEPT ![r] = {s \in (@ \cup set) : s >= hi /\ s >= 1 /\ s <= LastSN}] ELSE req
      \* what a conforming reader never does
      rogue == \/ rd[r] # "rel"
               \/ b < ackHi[r]                      \* base went down (also: an older ACKNACK overtaken by a newer one)
               \/ \E s \in set : s < base
      confN == [conf EXCEPT ![r] = @ /\ ~rogue]
      sf   == SendsFold(out, 1, wr, histN, pre, confN, {}, rq0)
      may  == IF live /\ hi > wUntil THEN wMay \ {r} ELSE wMay
      must == IF live /\ b > wUntil THEN wMust \ {r} ELSE wMust
  IN  /\ ackLo' = [ackLo EXCEPT ![r] = IF live THEN b ELSE @]
      /\ ackHi' = [ackHi EXCEPT ![r] = hi]
      /\ req' = sf[2]
      /\ conf' = confN
      /\ wMay' = may /\ wMust' = must
      /\ hist' = histN
      /\ viol' = viol \cup sf[1] \cup WaitViol(done, may, must, wAct)
      /\ UNCHANGED <<relW, volW, depthLim, wr, rd, pre, wAct, wUntil>>

\* heartbeat tick, one firing of a repair timer: only outputs
AbsOutputs(histN, out, done) ==
  LET sf == SendsFold(out, 1, wr, histN, pre, conf, {}, req)
  IN  /\ req' = sf[2]
      /\ hist' = histN
      /\ viol' = viol \cup sf[1] \cup WaitViol(done, wMay, wMust, wAct)
      /\ UNCHANGED <<relW, volW, depthLim, wr, rd, ackLo, ackHi, pre, conf, wAct, wUntil, wMay, wMust>>

\* the repair timers of reader r have been fired until none is armed
AbsRepairDone(r, quiescent) ==
  /\ viol' = viol \cup (IF rd[r] = "rel" /\ req[r] # {} THEN {"C04_request_unanswered"} ELSE {})
                  \cup (IF ~quiescent THEN {"C04_repair_never_ends"} ELSE {})
  /\ UNCHANGED <<relW, volW, depthLim, wr, hist, rd, ackLo, ackHi, req, pre, conf, wAct, wUntil, wMay, wMust>>

\* cache cleaning: retained set goes from hist to histN
Unacked == {sn \in 1..LastSN : \E r \in RelReaders : ackLo[r] <= sn}
AllAckedEver(sn) == \A r \in RelReaders : ackHi[r] > sn
AbsClean(histN, done) ==
  LET removed == hist \ histN
      vRetain == IF \E sn \in removed : ~AllAckedEver(sn) /\ sn > LastSN - depthLim
                   THEN {"C04_removed_unacknowledged_sample_within_depth"} ELSE {}
      vBound  == IF Cardinality(histN) > depthLim + Cardinality(Unacked \cap histN)
                   THEN {"C04_retains_more_than_depth_plus_unacknowledged"} ELSE {}
      vGrow   == IF ~(histN \subseteq hist) THEN {"C04_cleaning_added_samples"} ELSE {}
  IN  /\ hist' = histN
      /\ viol' = viol \cup vRetain \cup vBound \cup vGrow \cup WaitViol(done, wMay, wMust, wAct)
      /\ UNCHANGED <<relW, volW, depthLim, wr, rd, ackLo, ackHi, req, pre, conf, wAct, wUntil, wMay, wMust>>

\* wait_for_acknowledgments is called (a second call replaces the first)
AbsWait(done) ==
  LET may  == {r \in RelReaders : ackHi[r] <= LastSN}
      must == {r \in RelReaders : ackLo[r] <= LastSN}
  IN  /\ wAct' = TRUE
      /\ wUntil' = LastSN
      /\ wMay' = may /\ wMust' = must
      /\ viol' = viol \cup WaitViol(done, may, must, TRUE)
      /\ UNCHANGED <<relW, volW, depthLim, wr, hist, rd, ackLo, ackHi, req, pre, conf>>

WInv_NoViolation == viol = {}
==========================================================================
