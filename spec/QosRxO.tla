------------------------------ MODULE QosRxO ------------------------------
(***************************************************************************)
(* DDS 1.4 request/offered (RxO) compatibility, section 2.2.3 and its table, *)
(* transcribed as a TLA+ operator (C10).  A QoS set is a record of small    *)
(* integers, -1 = policy not specified:                                     *)
(*   d  durability       0 Volatile < 1 TransientLocal < 2 Transient < 3 Persistent *)
(*   ps presentation access scope 0 Instance < 1 Topic < 2 Group; pc coherent, po ordered (0/1) *)
(*   dl deadline period, lb latency budget, ll liveliness lease: duration classes *)
(*        0 zero < 1 one nanosecond < 2 one second < 3 infinite              *)
(*   ow ownership        0 Shared, 1 Exclusive(strength 1), 2 Exclusive(strength 2), 3 Exclusive(strength 0), *)
(*                       4 an ownership STRENGTH announced without an ownership kind: no kind is specified *)
(*   lk liveliness kind  0 Automatic < 1 ManualByParticipant < 2 ManualByTopic *)
(*   r  reliability      0 BestEffort < Reliable with max_blocking_time 1: 100 ms, 2: zero, 3: infinite *)
(*                       (max_blocking_time is not part of the rule)          *)
(*   o  destination order 0 ByReception < 1 BySource                        *)
(* Incompat(off, req) = the set of policies whose rule is violated; policies *)
(* absent on either side are skipped (as the property statement says).       *)
(* TLC is used here the "one test per case" way: it enumerates, per policy, *)
(* all pairs of values in three contexts and dumps each case for the real    *)
(* compliance_failure_wrt / update_writer_proxy / update_reader_proxy; the   *)
(* same operator is the oracle in Trace_QosRxO.tla.  TLC also checks the     *)
(* algebra: strengthening an offer never breaks a match.                     *)
(***************************************************************************)
EXTENDS Integers, Sequences, FiniteSets, TLC, Json

Both(a, b) == a # -1 /\ b # -1
OwKind(x) == IF x = 0 THEN 0 ELSE 1
RKind(x) == IF x = 0 THEN 0 ELSE 1

Incompat(off, req) ==
       (IF Both(off.d, req.d) /\ off.d < req.d THEN {"Durability"} ELSE {})
  \cup (IF Both(off.ps, req.ps) /\ (off.ps < req.ps \/ (req.pc = 1 /\ off.pc = 0) \/ (req.po = 1 /\ off.po = 0))
          THEN {"Presentation"} ELSE {})
  \cup (IF Both(off.dl, req.dl) /\ off.dl > req.dl THEN {"Deadline"} ELSE {})
  \cup (IF Both(off.lb, req.lb) /\ off.lb > req.lb THEN {"LatencyBudget"} ELSE {})
  \cup (IF off.ow \in 0..3 /\ req.ow \in 0..3 /\ OwKind(off.ow) # OwKind(req.ow) THEN {"Ownership"} ELSE {})
  \cup (IF Both(off.lk, req.lk) /\ (off.lk < req.lk \/ off.ll > req.ll) THEN {"Liveliness"} ELSE {})
  \cup (IF Both(off.r, req.r) /\ RKind(off.r) < RKind(req.r) THEN {"Reliability"} ELSE {})
  \cup (IF Both(off.o, req.o) /\ off.o < req.o THEN {"DestinationOrder"} ELSE {})

Absent == [d |-> -1, ps |-> -1, pc |-> 0, po |-> 0, dl |-> -1, lb |-> -1, ow |-> -1, lk |-> -1, ll |-> -1, r |-> -1, o |-> -1]
\* a context in which every policy is specified and compatible
GoodOff == [d |-> 1, ps |-> 1, pc |-> 1, po |-> 1, dl |-> 2, lb |-> 2, ow |-> 0, lk |-> 1, ll |-> 2, r |-> 1, o |-> 1]
GoodReq == [d |-> 1, ps |-> 1, pc |-> 0, po |-> 1, dl |-> 2, lb |-> 3, ow |-> 0, lk |-> 0, ll |-> 2, r |-> 0, o |-> 0]

Policies == {"d", "p", "dl", "lb", "ow", "l", "r", "o"}
\* one incompatible pair per policy, used as "some other policy is incompatible" context
BadOff(q) == CASE q = "d" -> [GoodOff EXCEPT !.d = 0]   [] q = "p" -> [GoodOff EXCEPT !.ps = 0]
               [] q = "dl" -> [GoodOff EXCEPT !.dl = 3] [] q = "lb" -> [GoodOff EXCEPT !.lb = 3]
               [] q = "ow" -> [GoodOff EXCEPT !.ow = 1] [] q = "l" -> [GoodOff EXCEPT !.lk = 0]
               [] q = "r" -> [GoodOff EXCEPT !.r = 0]   [] q = "o" -> [GoodOff EXCEPT !.o = 0]
BadReq(q) == CASE q = "d" -> [GoodReq EXCEPT !.d = 3]   [] q = "p" -> [GoodReq EXCEPT !.ps = 2]
               [] q = "dl" -> [GoodReq EXCEPT !.dl = 0] [] q = "lb" -> [GoodReq EXCEPT !.lb = 0]
               [] q = "ow" -> [GoodReq EXCEPT !.ow = 0] [] q = "l" -> [GoodReq EXCEPT !.lk = 2]
               [] q = "r" -> [GoodReq EXCEPT !.r = 1]   [] q = "o" -> [GoodReq EXCEPT !.o = 1]

Dur == -1..3
\* all values of policy p as partial records
Vals(p) == CASE p = "d" -> {[d |-> x] : x \in -1..3}
             [] p = "p" -> {[ps |-> -1, pc |-> 0, po |-> 0]} \cup {[ps |-> s, pc |-> c, po |-> o] : s \in 0..2, c \in 0..1, o \in 0..1}
             [] p = "dl" -> {[dl |-> x] : x \in Dur}
             [] p = "lb" -> {[lb |-> x] : x \in Dur}
             [] p = "ow" -> {[ow |-> x] : x \in -1..4}
             [] p = "l" -> {[lk |-> -1, ll |-> -1]} \cup {[lk |-> k, ll |-> x] : k \in 0..2, x \in 0..3}
             [] p = "r" -> {[r |-> x] : x \in -1..3}
             [] p = "o" -> {[o |-> x] : x \in -1..1}
Merge(base, v) == [f \in DOMAIN base |-> IF f \in DOMAIN v THEN v[f] ELSE base[f]]

VARIABLES off, req, phase
vars == <<off, req, phase>>

Init ==
  \E p \in Policies : \E vo \in Vals(p), vr \in Vals(p) :
    \E ctx \in {"absent", "compat"} \cup {q \in Policies : q # p} :
      /\ off = Merge(IF ctx = "absent" THEN Absent ELSE IF ctx = "compat" THEN GoodOff ELSE BadOff(ctx), vo)
      /\ req = Merge(IF ctx = "absent" THEN Absent ELSE IF ctx = "compat" THEN GoodReq ELSE BadReq(ctx), vr)
      /\ phase = 0

\* strengthening the offer in one policy (the algebra of the table)
Stronger(x) ==
  {[x EXCEPT !.d = @ + 1] : y \in {1} \cap {IF x.d >= 0 /\ x.d < 3 THEN 1 ELSE 0}}
  \cup {[x EXCEPT !.r = 1] : y \in {1} \cap {IF x.r = 0 THEN 1 ELSE 0}}
  \cup {[x EXCEPT !.o = 1] : y \in {1} \cap {IF x.o = 0 THEN 1 ELSE 0}}
  \cup {[x EXCEPT !.lk = @ + 1] : y \in {1} \cap {IF x.lk >= 0 /\ x.lk < 2 THEN 1 ELSE 0}}
  \cup {[x EXCEPT !.ll = @ - 1] : y \in {1} \cap {IF x.ll > 0 THEN 1 ELSE 0}}
  \cup {[x EXCEPT !.dl = @ - 1] : y \in {1} \cap {IF x.dl > 0 THEN 1 ELSE 0}}
  \cup {[x EXCEPT !.lb = @ - 1] : y \in {1} \cap {IF x.lb > 0 THEN 1 ELSE 0}}
  \cup {[x EXCEPT !.ps = @ + 1] : y \in {1} \cap {IF x.ps >= 0 /\ x.ps < 2 THEN 1 ELSE 0}}

Next == phase = 0 /\ phase' = 1 /\ UNCHANGED <<off, req>>
Spec == Init /\ [][Next]_vars

Inv_Monotone == \A s \in Stronger(off) : Incompat(s, req) \subseteq Incompat(off, req)
Inv_AbsentSkipped == Incompat(Absent, req) = {} /\ Incompat(off, Absent) = {}
\* the verdict does not depend on policies the table does not couple (each rule reads only its own policy)
Inv_Local == \A f \in {"d", "r", "o"} : (off[f] = -1 \/ req[f] = -1) =>
               ~({"Durability"} \subseteq Incompat(off, req) /\ f = "d")

GenCase == (phase = 0 /\ phase' = 1) => PrintT("REPLAY " \o ToJson([off |-> off, req |-> req]))
=============================================================================
