---------------------------- MODULE Trace_System ----------------------------
(***************************************************************************)
(* Trace validation for the `system` driver (C07): two or three real       *)
(* DomainParticipants, public API only.  One driver thread creates the     *)
(* entities in the order System.tla dictates, writes, disposes, takes,     *)
(* deletes and logs what it observes in the order it observes it; the      *)
(* clauses of the property statement are evaluated at the synchronisation  *)
(* lines (Sync: a bounded wait for a matching condition ended; Settle: a   *)
(* bounded wait for delivery in a loss-free suffix ended) and on every     *)
(* received sample.                                                        *)
(*                                                                         *)
(* Items are integers: a value sample is its id (1, 2, ...), the disposal  *)
(* of key k is -k.                                                         *)
(***************************************************************************)
EXTENDS Integers, Sequences, FiniteSets, TLC, Json, IOUtils

Rec == ndJsonDeserialize(IOEnv.TRACE)
KnownS16 == IOEnv.KNOWN_S16 = "1"
KnownS3 == IOEnv.KNOWN_S3 = "1"

VARIABLES l, run, cfg,
  matchDone,   \* the W-R pair was seen matched on both sides
  lateDone,    \* the W-R2 pair was seen matched on both sides
  written,     \* sequence of [item, phase]
  got,         \* [{"R","R2"} -> sequence of items]
  gone,        \* readers deleted (directly or with their participant)
  guid,        \* [{"R","R2"} -> <<GUID of the reader as hex text, port offset of its participant>>] (Create lines)
  nack,        \* {<<reader GUID, sn>>}: NACKFRAGs that reached the network since loss was last switched
  refrag,      \* {<<port offset, sn>>}: DATAFRAGs sent to that port since loss was last switched
  arrived,     \* {<<port offset, sn, fragment>>}: fragments forwarded to that port at any time of the run
  nfrags,      \* sn -> number of fragments the sample has (from the DATAFRAG headers)
  txc,         \* <<port offset, sn, fragment>> -> how often that fragment was put on the wire for that port
  viol, known
wire == <<guid, nack, refrag, arrived, nfrags, txc>>
tvars == <<l, run, cfg, matchDone, lateDone, written, got, gone, guid, nack, refrag, arrived, nfrags, txc, viol, known>>

NoCfg == [keyed |-> TRUE, wrel |-> TRUE, rrel |-> TRUE, wtl |-> TRUE, rtl |-> TRUE, depth |-> 0, late |-> "none", third |-> FALSE, del |-> "none"]
TraceInit ==
  /\ l = 1 /\ run = 0 /\ cfg = NoCfg /\ matchDone = FALSE /\ lateDone = FALSE
  /\ written = <<>> /\ got = [w \in {"R", "R2"} |-> <<>>] /\ gone = {} /\ viol = {} /\ known = {}
  /\ guid = [w \in {"R", "R2"} |-> <<"", 0, "">>] /\ nack = {} /\ refrag = {} /\ arrived = {} /\ nfrags = <<>> /\ txc = <<>>

Compat == (cfg.wrel \/ ~cfg.rrel) /\ (cfg.wtl \/ ~cfg.rtl)
Compat2 == cfg.wrel /\ (cfg.wtl \/ cfg.late # "tl")
Range(s) == {s[i] : i \in DOMAIN s}
Items(ph) == SelectSeq(written, LAMBDA w : w.phase \in ph)
ItemSeq(ph) == [i \in DOMAIN Items(ph) |-> Items(ph)[i].item]
Values(s) == {x \in Range(s) : x > 0}
SMaxOf(S) == IF S = {} THEN 0 ELSE CHOOSE x \in S : \A y \in S : y <= x

(* ----------------------------------------------------- a sample is taken *)
RecvViol(e) ==
  LET item == IF e.val THEN e.id ELSE 0 - e.key
      sofar == got[e.who]
  IN   (IF e.val /\ ~e.intact THEN {"C07_sample_altered"} ELSE {})
  \cup (IF item \notin Range(ItemSeq({1, 2, 3})) THEN {"C07_sample_never_written"} ELSE {})
  \cup (IF e.val /\ item \in Range(sofar) THEN {"C07_sample_delivered_twice"} ELSE {})
  \* (order is promised for reliable traffic; a best-effort reader may be handed a late repair meant for a reliable sibling)
  \cup (IF e.val /\ item < SMaxOf(Values(sofar)) /\ cfg.wrel /\ (e.who = "R2" \/ cfg.rrel) THEN {"C07_out_of_order"} ELSE {})

(* ------------------------------------- delivery judged in a loss-free suffix *)
\* Known finding S3 seen from outside: the writer's sequence number of written[i] is i (one writer, every write and
\* dispose takes the next number).  A reliable reader hands over in order, so everything behind the lowest missing
\* number is held back with it.  The signature: in the loss-free suffix the reader asks for fragments of exactly that
\* number by NACKFRAG, the writer sends no DATAFRAG of it at all, and at least one of its fragments really never
\* reached the reader's participant (a sample whose fragments all arrived and that is still not delivered is
\* something else).
SNsOf(ph) == {i \in DOMAIN written : written[i].phase \in ph}
MissingSNs(who, ph) == {i \in SNsOf(ph) : written[i].item \notin Range(got[who])}
SMinOf(S) == CHOOSE x \in S : \A y \in S : x <= y
FragFor(e) == {w \in {"R", "R2"} : guid[w][2] = e.to /\ (e.rd = "00000000" \/ e.rd = guid[w][3])}
S3Sig(who, miss) ==
  /\ miss # {}
  /\ LET sn == SMinOf(miss) IN
       /\ <<guid[who][1], sn>> \in nack
       /\ <<who, sn>> \notin refrag
       /\ sn \in DOMAIN nfrags
       /\ \E f \in 1..nfrags[sn] : <<who, sn, f>> \notin arrived
       \* the writer did repeat every fragment that never arrived at least once (a writer that never repairs is not S3)
       /\ \A f \in 1..nfrags[sn] : <<who, sn, f>> \notin arrived =>
             (<<who, sn, f>> \in DOMAIN txc /\ txc[<<who, sn, f>>] >= 2)
S3Clause == "C07_S3_delivery_stuck_behind_sample_with_lost_fragment"

\* R: reliable keep-all pair that was matched before the first write: everything written, in the order written
SettleR(phases) ==
  IF ~(Compat /\ cfg.wrel /\ cfg.rrel /\ cfg.depth = 0 /\ matchDone /\ "R" \notin gone) THEN [v |-> {}, k |-> {}]
  ELSE LET want == ItemSeq(phases)
           have == got["R"]
           s3 == S3Sig("R", MissingSNs("R", phases))
           miss ==   (IF Values(want) \ Values(have) # {} THEN {"C07_sample_missing"} ELSE {})
                \cup (IF {x \in Range(want) : x < 0} \ Range(have) # {} THEN {"C07_disposal_missing"} ELSE {})
       IN [v |-> (IF s3 /\ KnownS3 THEN {} ELSE miss)
                 \cup (IF Range(want) \subseteq Range(have) /\ have # want THEN {"C07_disposal_out_of_order"} ELSE {}),
           k |-> IF s3 /\ KnownS3 /\ miss # {} THEN {S3Clause} ELSE {}]

\* R2, the late joiner: TransientLocal -> the retained history (keep-all: all of it) and everything later;
\* Volatile -> only what was written after it was matched
SettleR2 ==
  IF cfg.late = "none" \/ "R2" \in gone THEN [v |-> {}, k |-> {}]
  ELSE LET old == Values(ItemSeq({1, 3}))
           new == Values(ItemSeq({2}))
           have == Values(got["R2"])
           must == Compat2 /\ lateDone /\ cfg.depth = 0
           hist == IF cfg.late = "vol" /\ have \cap old # {}
                     THEN (IF cfg.third THEN {"C07_volatile_late_joiner_got_history"}
                                        ELSE {"C07_S16_volatile_late_joiner_in_participant_with_reader_got_history"})
                     ELSE {}
           s3 == S3Sig("R2", MissingSNs("R2", IF cfg.late = "tl" THEN {1, 2, 3} ELSE {2}))
           miss ==   (IF must /\ new \ have # {} THEN {"C07_sample_missing"} ELSE {})
                \cup (IF must /\ cfg.late = "tl" /\ old \ have # {} THEN {"C07_late_joiner_missed_history"} ELSE {})
           v ==   (IF s3 /\ KnownS3 THEN {} ELSE miss)
             \cup (IF cfg.third \/ ~KnownS16 THEN hist ELSE {})
       IN [v |-> v, k |-> (IF ~cfg.third /\ KnownS16 THEN hist ELSE {})
                          \cup (IF s3 /\ KnownS3 /\ miss # {} THEN {S3Clause} ELSE {})]

SyncViol(e) ==
  CASE e.phase = "match" ->
         (IF Compat /\ ~e.done THEN {"C07_not_matched_within_bound"} ELSE {})
         \cup (IF ~Compat /\ (e.wcur > 0 \/ e.rcur > 0) THEN {"C07_matched_although_incompatible"} ELSE {})
    [] e.phase = "late" ->
         (IF Compat2 /\ ~e.done THEN {"C07_late_joiner_not_matched_within_bound"} ELSE {})
         \cup (IF ~Compat2 /\ e.rcur > 0 THEN {"C07_matched_although_incompatible"} ELSE {})
    [] e.phase = "unmatch" -> IF ~e.done THEN {"C07_delete_not_observed_as_unmatch_" \o cfg.del} ELSE {}
    \* an endpoint created after the deletion of its only counterpart was observed: nothing announced is left to match
    [] e.phase = "post" -> IF e.wcur > 0 THEN {"C07_matched_with_deleted_endpoint"} ELSE {}
    [] e.phase = "lost" -> IF ~e.done THEN {"C07_silent_participant_not_dropped_within_bound"} ELSE {}
    [] e.phase = "back" -> IF ~e.done THEN {"C07_not_rematched_after_participant_reappeared"} ELSE {}
    [] OTHER -> {}

Step ==
  /\ l <= Len(Rec)
  /\ l' = l + 1
  /\ LET e == Rec[l] IN
     CASE e.ev = "Reset" ->
            /\ run' = e.run
            /\ cfg' = [keyed |-> e.keyed, wrel |-> e.wrel, rrel |-> e.rrel, wtl |-> e.wtl, rtl |-> e.rtl, depth |-> e.depth,
                       late |-> e.late, third |-> e.third, del |-> e.del]
            /\ matchDone' = FALSE /\ lateDone' = FALSE /\ written' = <<>> /\ got' = [w \in {"R", "R2"} |-> <<>>]
            /\ gone' = {} /\ viol' = {} /\ known' = {}
            /\ guid' = [w \in {"R", "R2"} |-> <<"", 0, "">>] /\ nack' = {} /\ refrag' = {} /\ arrived' = {} /\ nfrags' = <<>> /\ txc' = <<>>
       [] e.ev = "Create" ->
            /\ viol' = viol \cup (IF ~e.ok THEN {"C07_entity_creation_failed"} ELSE {})
            /\ guid' = IF e.what \in {"R", "R2"} THEN [guid EXCEPT ![e.what] = <<e.guid, e.port, e.eid>>] ELSE guid
            /\ UNCHANGED <<run, cfg, matchDone, lateDone, written, got, gone, known, nack, refrag, arrived, nfrags, txc>>
       [] e.ev = "St" ->
            /\ viol' = viol \cup (IF e.k = "M" /\ (e.cur < 0 \/ e.chg \notin {-1, 1}) THEN {"C07_matched_status_malformed"} ELSE {})
            /\ UNCHANGED <<run, cfg, matchDone, lateDone, written, got, gone, known, wire>>
       [] e.ev = "Sync" ->
            /\ viol' = viol \cup SyncViol(e)
            /\ matchDone' = IF e.phase \in {"match", "back"} THEN e.done ELSE IF e.phase = "lost" THEN FALSE ELSE matchDone
            /\ lateDone' = IF e.phase = "late" THEN e.done ELSE lateDone
            /\ UNCHANGED <<run, cfg, written, got, gone, known, wire>>
       [] e.ev = "Write" ->
            /\ written' = Append(written, [item |-> e.id, phase |-> e.phase])
            /\ viol' = viol \cup (IF ~e.ok THEN {"C07_write_rejected"} ELSE {})
            /\ UNCHANGED <<run, cfg, matchDone, lateDone, got, gone, known, wire>>
       [] e.ev = "Dispose" ->
            /\ written' = Append(written, [item |-> 0 - e.key, phase |-> e.phase])
            /\ viol' = viol \cup (IF ~e.ok THEN {"C07_write_rejected"} ELSE {})
            /\ UNCHANGED <<run, cfg, matchDone, lateDone, got, gone, known, wire>>
       [] e.ev = "Recv" ->
            /\ got' = [got EXCEPT ![e.who] = Append(@, IF e.val THEN e.id ELSE 0 - e.key)]
            /\ viol' = viol \cup RecvViol(e)
            /\ UNCHANGED <<run, cfg, matchDone, lateDone, written, gone, known, wire>>
       [] e.ev = "Settle" ->
            /\ LET r2 == IF e.phase = 2 THEN SettleR2 ELSE [v |-> {}, k |-> {}]
                   r1 == SettleR({1, 2, 3}) IN
               /\ viol' = viol \cup r1.v \cup r2.v
               /\ known' = known \cup r1.k \cup r2.k
            /\ UNCHANGED <<run, cfg, matchDone, lateDone, written, got, gone, wire>>
       [] e.ev = "Delete" ->
            /\ gone' = gone \cup (CASE e.what = "R" -> {"R"}
                                    [] e.what = "PB" -> IF cfg.third THEN {"R"} ELSE {"R", "R2"}
                                    [] OTHER -> {})
            /\ UNCHANGED <<run, cfg, matchDone, lateDone, written, got, viol, known, wire>>
       [] e.ev = "Loss" ->    \* loss switched on or off: a new window of observation starts
            /\ nack' = {} /\ refrag' = {}
            /\ UNCHANGED <<run, cfg, matchDone, lateDone, written, got, gone, viol, known, guid, arrived, nfrags, txc>>
       [] e.ev = "Net" ->
            /\ nack' = IF e.k = "NACKFRAG" /\ e.fate = "fwd" THEN nack \cup {<<e.rg, e.sn>>} ELSE nack
            \* a DATAFRAG is for the readers at the port it goes to that it names (or for all of them if it names none): two
            \* readers of one participant share the port, and a repair is addressed to one of them
            /\ refrag' = IF e.k = "FRAG" THEN refrag \cup {<<w, e.sn>> : w \in FragFor(e)} ELSE refrag
            /\ arrived' = IF e.k = "FRAG" /\ e.fate = "fwd"
                             THEN arrived \cup {<<w, e.sn, f>> : w \in FragFor(e), f \in e.f..(e.f + e.n - 1)} ELSE arrived
            /\ nfrags' = IF e.k = "FRAG" /\ e.fsz > 0
                            THEN [x \in DOMAIN nfrags \cup {e.sn} |->
                                    IF x = e.sn THEN (e.size + e.fsz - 1) \div e.fsz ELSE nfrags[x]]
                            ELSE nfrags
            /\ txc' = IF e.k = "FRAG"
                         THEN LET ks == {<<w, e.sn, f>> : w \in FragFor(e), f \in e.f..(e.f + e.n - 1)} IN
                              [x \in DOMAIN txc \cup ks |-> (IF x \in DOMAIN txc THEN txc[x] ELSE 0) + (IF x \in ks THEN 1 ELSE 0)]
                         ELSE txc
            /\ UNCHANGED <<run, cfg, matchDone, lateDone, written, got, gone, viol, known, guid>>
       [] e.ev \in {"Blackout", "End"} -> UNCHANGED <<run, cfg, matchDone, lateDone, written, got, gone, viol, known, wire>>
  /\ (viol' # viol /\ viol' # {}) =>
        PrintT("VIOL line=" \o ToString(l) \o " run=" \o ToString(run') \o " clauses=" \o ToString(viol' \ viol))
  /\ (known' # known /\ known' # {}) =>
        PrintT("KNOWN line=" \o ToString(l) \o " run=" \o ToString(run') \o " clauses=" \o ToString(known' \ known))

TraceSpec == TraceInit /\ [][Step]_tvars
TraceAccepted ==
  LET d == TLCGet("stats").diameter IN
  IF d = Len(Rec) + 1 THEN PrintT("TRACE-OK events=" \o ToString(Len(Rec)))
  ELSE PrintT("TRACE-STUCK line=" \o ToString(d)) /\ PrintT(Rec[d]) /\ FALSE
=============================================================================
