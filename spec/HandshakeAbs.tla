--------------------------- MODULE HandshakeAbs ---------------------------
(***************************************************************************)
(* C19 -- only CA-issued identities authenticate; forgeries cannot block   *)
(* them.  Abstract judge shared by the implementation-shaped model         *)
(* (Handshake.tla) and the trace specification (Trace_Handshake.tla).      *)
(*                                                                         *)
(* Two honest participants: A (initiator, lower GUID) and B (replier),     *)
(* both with identity certificates issued by the configured Identity CA.   *)
(* Every handshake message that exists in a run has a small id:            *)
(*   1 / 2 / 3   request / reply / final emitted by A / B / A in this run  *)
(*   11/ 12/ 13  the same three messages recorded from an EARLIER complete *)
(*               handshake of the same two identities (replay material)    *)
(* A delivery hands party `to` a copy of message `mid`, altered as `alt`   *)
(* ("none" = byte-identical).  A message is CLEAN when its emitter had, up *)
(* to then, accepted nothing but clean copies (so nothing in it stems from *)
(* an attacker); a delivery is a CLEAN COPY when it is a byte-identical    *)
(* copy of a clean message of the peer.  Everything else -- altered,       *)
(* forged, replayed from the old session, reflected, built on altered      *)
(* input -- is a BAD message.                                              *)
(*                                                                         *)
(* State follows the OBSERVED outcomes (out = "acc" / "rej" / "ign" /      *)
(* "panic"), the property constrains them:                                 *)
(*   safety   a party completes (and holds a secret) only through clean    *)
(*            copies; two secrets are equal;                               *)
(*   blocking a clean copy of the message a party is waiting for is        *)
(*            accepted, whatever bad messages came before; a replier that  *)
(*            was made to answer a bad request (it cannot tell) accepts    *)
(*            the genuine request afterwards.                              *)
(* Whether a replier answers a bad REQUEST is unconstrained (no secret     *)
(* follows from that alone).  Known deviations of the code are recognised  *)
(* by signature and go to `known` instead of `viol` iff listed in K.       *)
(*                                                                         *)
(* Presence of token properties (strengthening round).  A delivery also    *)
(* says which properties of the message were REMOVED (`strip`).  DDS       *)
(* Security 1.1 Tables 49-51 leave the inclusion of some properties to the *)
(* sender (OptProps: "the inclusion of the ... property is optional"); a   *)
(* receiver cannot tell a message without them from what a conforming peer *)
(* may have sent itself, and nothing that is signed changes.  Therefore    *)
(*   - a clean message minus optional properties only is an EQUIVALENT     *)
(*     copy: it MAY be accepted (state evolves as for a clean copy) and    *)
(*     MAY be refused -- the property statement decides neither;           *)
(*   - a BAD message stays bad whatever is removed from it: a replayed /   *)
(*     altered message with optional properties stripped must not lead to  *)
(*     authentication (the checks that bind a message to this handshake    *)
(*     must not hang on properties an attacker can leave out);             *)
(*   - removing any other property is an alteration like every other.      *)
(*                                                                         *)
(* Announced participant GUID (strengthening round 3).  A CA-issued        *)
(* participant may ANNOUNCE (in c.pdata and in SPDP) a GUID other than the *)
(* one bound to its certificate.  The binding of DDS Security 1.1 Table 52 *)
(* covers the first 48 bits (bytes 0..5: a leading 1 and 47 bits of the    *)
(* SHA-256 of the subject name); `lie[p]` says how p's announced GUID      *)
(* relates to the bound one: "no" = equal, "free" = differs only outside   *)
(* those 48 bits (still bound as far as a peer can tell), "unbound" =      *)
(* differs within them.  The property statement: "a participant GUID not   *)
(* bound to the presented certificate ... never lead[s] to authentication  *)
(* or to a shared secret": the PEER of an unbound party never completes.   *)
(* Nothing else is demanded in such runs (the blocking clauses speak about *)
(* the genuine handshake of two participants that announce their bound     *)
(* GUIDs: Expected needs AllBound); what the lying party itself reaches    *)
(* is unconstrained, and so is everything about a "free" GUID.             *)
(*                                                                         *)
(* Plugin call (`call`): the judge takes the call that was really made     *)
(* from the event.  Besides the dispatch of secure_discovery.rs (by its    *)
(* own mirror of the handshake state) a message that claims to be a        *)
(* request may be handed to begin_handshake_reply in ANY state (dispatch   *)
(* by message kind at the Authentication plugin API): then the plugin's    *)
(* own state guard is all that protects a handshake in progress from a     *)
(* duplicated / replayed / out-of-order request.  No clause depends on     *)
(* the dispatch: an accepted begin_reply re-emits the reply (id 2), a      *)
(* clean copy of the awaited message must still be accepted afterwards.    *)
(***************************************************************************)
EXTENDS Integers, Sequences, FiniteSets, TLC

Parties == {"A", "B"}
Done == {"DoneS", "DoneR"}

VARIABLES ds,      \* discovery-level handshake state per party (decides which plugin call is made)
          clean,   \* party has accepted clean copies only
          hurt,    \* party has rejected a message inside process_handshake (signature of S7)
          accAlt,  \* alteration of the last input the party accepted ("none" for a clean copy)
          msgs,    \* id -> [k, by, clean, ralt]
          sec,     \* id of the secret get_shared_secret hands out, 0 = none
          lie,     \* announced participant GUID of each party vs the one bound to its certificate: "no" / "free" / "unbound"
          viol, known
absVars == <<ds, clean, hurt, accAlt, msgs, sec, lie, viol, known>>

OldMsgs == (11 :> [k |-> "req",   by |-> "A", clean |-> FALSE, ralt |-> "old"]) @@
           (12 :> [k |-> "reply", by |-> "B", clean |-> FALSE, ralt |-> "old"]) @@
           (13 :> [k |-> "final", by |-> "A", clean |-> FALSE, ralt |-> "old"])

AbsInit ==
  /\ ds = [p \in Parties |-> IF p = "A" THEN "ReqSend" ELSE "ReqMsg"]
  /\ clean = [p \in Parties |-> TRUE]
  /\ hurt = [p \in Parties |-> FALSE]
  /\ accAlt = [p \in Parties |-> "none"]
  /\ msgs = OldMsgs
  /\ sec = [p \in Parties |-> 0]
  /\ lie = [p \in Parties |-> "no"]
  /\ viol = {} /\ known = {}

\* DDS Security 1.1, 9.3.3 Table 52: bytes of the 16-byte participant GUID that are derived from the certificate (48 bits)
CertBytes == 0..5
GuidBytesAll == 0..15
\* class of an announced GUID from the set of byte positions in which it differs from the certificate-bound GUID
LieClass(d) == IF d = {} THEN "no" ELSE IF d \cap CertBytes # {} THEN "unbound" ELSE "free"
Other(p) == IF p = "A" THEN "B" ELSE "A"
AllBound == \A p \in Parties : lie[p] = "no"

Put(f, k, v) == [x \in DOMAIN f \cup {k} |-> IF x = k THEN v ELSE f[x]]

\* properties whose inclusion DDS Security 1.1 leaves to the sender (Table 49 request, 50 reply, 51 final)
OptProps(k) == IF k = "req" THEN {"hash_c1"}
               ELSE IF k = "reply" THEN {"hash_c1", "hash_c2", "dh1"}
               ELSE {"hash_c1", "hash_c2", "dh1", "dh2"}
AllOptProps == {"hash_c1", "hash_c2", "dh1", "dh2"}

FromPeer(to, mid) == mid \in DOMAIN msgs /\ msgs[mid].clean /\ msgs[mid].by # to
\* byte-identical copy of a clean message of the peer
CleanCopy(to, mid, alt, strip) == FromPeer(to, mid) /\ alt = "none" /\ strip = {}
\* the same, minus properties the sender was free to leave out
EquivCopy(to, mid, alt, strip) == FromPeer(to, mid) /\ alt = "none" /\ strip # {} /\ strip \subseteq OptProps(msgs[mid].k)

\* the replier answered a bad request and now gets the genuine one
Restart(to, mid, alt, strip) == CleanCopy(to, mid, alt, strip) /\ ds[to] = "Final" /\ ~clean[to] /\ msgs[mid].k = "req"

\* a byte-identical copy of the message the receiver is waiting for (the natural next step of the exchange)
InOrder(to, mid, alt, strip) ==
  /\ CleanCopy(to, mid, alt, strip)
  /\ \/ ds[to] = "ReqMsg" /\ msgs[mid].k = "req"
     \/ ds[to] = "Reply"  /\ msgs[mid].k = "reply"
     \/ ds[to] = "Final"  /\ msgs[mid].k = "final" /\ clean[to]
     \/ Restart(to, mid, alt, strip)

\* ... which the property demands to be accepted when both participants announce the GUID bound to their certificate
Expected(to, mid, alt, strip) == AllBound /\ InOrder(to, mid, alt, strip)

SecViol(ds2, clean2, s) ==
       (IF \E p \in Parties : s[p] # 0 /\ ds2[p] \notin Done THEN {"C19_secret_before_completion"} ELSE {})
  \cup (IF s["A"] # 0 /\ s["B"] # 0 /\ s["A"] # s["B"] THEN {"C19_secrets_differ"} ELSE {})
  \cup (IF \E p \in Parties : ds2[p] \in Done /\ clean2[p] /\ s[p] = 0 THEN {"C19_authenticated_without_secret"} ELSE {})

\* A's begin_handshake_request
AbsReq(K, out, emit, s) ==
  /\ ds["A"] = "ReqSend"
  /\ ds' = [ds EXCEPT !["A"] = IF out = "acc" THEN "Reply" ELSE @]
  /\ msgs' = IF out = "acc" /\ emit # 0 THEN Put(msgs, emit, [k |-> "req", by |-> "A", clean |-> clean["A"], ralt |-> "none"]) ELSE msgs
  /\ sec' = s
  /\ viol' = viol \cup (IF out # "acc" /\ AllBound THEN {"C19_genuine_message_refused"} ELSE {}) \cup SecViol(ds', clean, s)
  /\ UNCHANGED <<clean, hurt, accAlt, lie, known>>

\* one delivery; call = plugin call made ("begin_reply" / "process" / "none");
\* alt = how property VALUES / the class id differ from message mid ("none": not at all), strip = properties removed
AbsDlv(K, to, mid, alt, strip, call, out, emit, s) ==
  LET m        == msgs[mid]
      \* nothing in it stems from an attacker: accepting it is fine (refusing an equivalent copy is unconstrained)
      cc       == CleanCopy(to, mid, alt, strip) \/ EquivCopy(to, mid, alt, strip)
      restart  == Restart(to, mid, alt, strip)
      expected == Expected(to, mid, alt, strip)
      accepted == out = "acc"
      refused  == expected /\ ~accepted
      \* --- blocking
      refClause == IF ~refused THEN ""
                   ELSE IF restart THEN "C19_S13_genuine_request_refused_after_answering_forged_request"
                   ELSE IF hurt[to] THEN "C19_S7_genuine_message_refused_after_rejected_forgery"
                   ELSE "C19_genuine_message_refused"
      refKnown == (restart /\ "S13" \in K) \/ (~restart /\ hurt[to] /\ "S7" \in K)
      \* --- safety: completing through a bad message
      badAuth  == ~cc /\ accepted /\ call = "process"
      s14sig   == to = "A" /\ alt = "none" /\ strip \subseteq OptProps("reply") /\ m.k = "reply" /\ m.by = "B" /\ m.ralt = "b:dh1"
      authClause == IF ~badAuth THEN ""
                    ELSE IF s14sig THEN "C19_S14_reply_built_on_altered_dh1_authenticated"
                    ELSE "C19_bad_message_authenticated"
      authKnown == s14sig /\ "S14" \in K
      nds == IF ~accepted THEN ds[to]
             ELSE IF call = "begin_reply" THEN "Final"
             ELSE IF ds[to] = "Reply" THEN "DoneS" ELSE IF ds[to] = "Final" THEN "DoneR" ELSE ds[to]
      ncl == IF ~accepted THEN clean[to] ELSE IF call = "begin_reply" THEN cc ELSE clean[to] /\ cc
      nal == IF ~accepted THEN accAlt[to] ELSE IF cc THEN "none"
             ELSE IF alt = "none" THEN (IF strip \subseteq OptProps(m.k) THEN "tainted" ELSE "rm") ELSE alt
      ek  == IF call = "begin_reply" THEN "reply" ELSE "final"
      v1  == (IF refused /\ ~refKnown THEN {refClause} ELSE {}) \cup (IF badAuth /\ ~authKnown THEN {authClause} ELSE {})
      k1  == (IF refused /\ refKnown THEN {refClause} ELSE {}) \cup (IF badAuth /\ authKnown THEN {authClause} ELSE {})
      v2  == IF out = "panic" THEN {"C19_panic_on_handshake_message"} ELSE {}
      v3  == IF call = "none" /\ accepted THEN {"C19_bad_message_authenticated"} ELSE {}
      \* --- safety: completing with a peer whose announced GUID is not bound to its certificate
      v4  == IF accepted /\ call = "process" /\ lie[Other(to)] = "unbound"
             THEN {"C19_guid_not_bound_to_certificate_authenticated"} ELSE {}
  IN
  /\ mid \in DOMAIN msgs
  /\ ds' = [ds EXCEPT ![to] = nds]
  /\ clean' = [clean EXCEPT ![to] = ncl]
  /\ hurt' = [hurt EXCEPT ![to] = @ \/ (call = "process" /\ out \in {"rej", "panic"})]
  /\ accAlt' = [accAlt EXCEPT ![to] = nal]
  /\ msgs' = IF accepted /\ emit # 0 THEN Put(msgs, emit, [k |-> ek, by |-> to, clean |-> ncl, ralt |-> nal]) ELSE msgs
  /\ sec' = s
  /\ viol' = viol \cup v1 \cup v2 \cup v3 \cup v4 \cup SecViol(ds', clean', s)
  /\ known' = known \cup k1
  /\ UNCHANGED lie

\* before anything else happens: party p announces a GUID of class c
AbsLie(p, c) ==
  /\ ds = [q \in Parties |-> IF q = "A" THEN "ReqSend" ELSE "ReqMsg"] /\ msgs = OldMsgs /\ AllBound
  /\ lie' = [lie EXCEPT ![p] = c]
  /\ UNCHANGED <<ds, clean, hurt, accAlt, msgs, sec, viol, known>>

AbsNoViolation == viol = {}
==========================================================================
