SPECIFICATION Spec
CONSTANTS
  Scenario = "mio8"
  N = 3
  Cap = 16
  Kinds <- KindsNone
  Script <- ScriptDOH
  Readers = 0
  GenK = 1
VIEW View
INVARIANT Inv_NoLostWake
ACTION_CONSTRAINT GenEdge
CHECK_DEADLOCK FALSE
