-------------------------- MODULE SampleCacheAbs --------------------------
(***************************************************************************)
(* Abstract DataReader cache in the vocabulary of C08 (DDS 1.4 section     *)
(* 2.2.2.5.1: sample / view / instance state, generation counts, History)  *)
(* and C09 (unintelligible changes).                                       *)
(*                                                                         *)
(* Arrivals (values, disposes, unintelligible changes) evolve the state    *)
(* deterministically.  The result of every read/take form is observed and  *)
(* judged by exactly the clauses of the two property statements; broken    *)
(* clauses are collected in `viol`.  History KeepLast(d) is an UPPER bound *)
(* (eviction itself is not prescribed): a returned sample must be among    *)
(* the d most recent arrivals of its instance, completeness of a result is *)
(* demanded only for KeepAll.                                              *)
(***************************************************************************)
EXTENDS Integers, Sequences, FiniteSets, TLC

VARIABLES
  depth,     \* 0 = KeepAll, d = KeepLast(d)
  arr,       \* Seq of [w, sn, k, kind, gen]: arrivals, index = sample id; kind "V" value, "D" dispose, "X" unintelligible
  ist,       \* function key -> "A" | "D"   (instances seen so far)
  dgen,      \* function key -> disposed generation count
  lastAcc,   \* function key -> generation last accessed by the application (-1 never): what is known for sure
  accHi,     \* function key -> the highest generation the application may have accessed: differs from lastAcc
             \* after an identity-less dispose of the instance was returned (it may have been any of them)
  taken,     \* ids removed by a take
  wasRead,   \* ids returned by a read (sample state READ from then on)
  seenOut,   \* ids ever returned
  errs,      \* number of calls that reported an error
  fzRead,    \* keys of which an identity-less (bare) dispose was returned by a read form
  fzTaken,   \* ... by a take form: which dispose sample it was is unknown from then on
  viol

scVars == <<depth, arr, ist, dgen, lastAcc, accHi, taken, wasRead, seenOut, errs, fzRead, fzTaken, viol>>

SCInit(d) ==
  /\ depth = d /\ arr = <<>> /\ ist = <<>> /\ dgen = <<>> /\ lastAcc = <<>> /\ accHi = <<>>
  /\ taken = {} /\ wasRead = {} /\ seenOut = {} /\ errs = 0 /\ fzRead = {} /\ fzTaken = {} /\ viol = {}

Put(f, k, v) == [x \in DOMAIN f \cup {k} |-> IF x = k THEN v ELSE f[x]]
Get(f, k, default) == IF k \in DOMAIN f THEN f[k] ELSE default
SMax(S) == CHOOSE x \in S : \A y \in S : x >= y

(* ---------------------------------------------------------------- inputs *)
\* a change reaches the reader's receive cache in an order in which it can be handed over
\* ord: the change was handed over in the order in which it was received (no overtaking so far)
AbsArrive(w, sn, k, kind, ord) ==
  /\ IF kind = "X"
       THEN /\ arr' = Append(arr, [w |-> w, sn |-> sn, k |-> k, kind |-> "X", gen |-> 0, ord |-> ord])
            /\ UNCHANGED <<ist, dgen>>
       ELSE LET reborn == kind = "V" /\ Get(ist, k, "none") = "D"
                g == Get(dgen, k, 0) + (IF reborn THEN 1 ELSE 0)
            IN /\ arr' = Append(arr, [w |-> w, sn |-> sn, k |-> k, kind |-> kind, gen |-> g, ord |-> ord])
               /\ ist' = Put(ist, k, IF kind = "V" THEN "A" ELSE "D")
               /\ dgen' = Put(dgen, k, g)
  /\ UNCHANGED <<depth, lastAcc, accHi, taken, wasRead, seenOut, errs, fzRead, fzTaken, viol>>

(* --------------------------------------------------------------- outputs *)
Ids == DOMAIN arr
Intelligible(i) == arr[i].kind # "X"
SameInst(i) == {j \in Ids : Intelligible(j) /\ arr[j].k = arr[i].k}
\* number of later intelligible arrivals of the same instance
Newer(i) == Cardinality({j \in SameInst(i) : j > i})
\* "most recent" is unambiguous only if hand-over order and reception order agree for the instance
\* (the cache evicts by reception time); otherwise only the count is judged
Unambiguous(i) == \A j \in SameInst(i) : arr[j].ord
WithinDepth(i) == depth = 0 \/ ~Unambiguous(i) \/ Newer(i) < depth
Available(i) == Intelligible(i) /\ i \notin taken /\ WithinDepth(i)
Matches(i, cond) == cond = "any" \/ i \notin wasRead
Fuzzy(i) == arr[i].kind = "D" /\ (arr[i].k \in fzRead \/ arr[i].k \in fzTaken)

\* One returned sample o = [id, k, kind, ss, vs, is, dg, ng]; full = the call reports SampleInfo
SampleViol(o, full, removing, cond) ==
  LET i == o.id IN
  IF i = -1 /\ o.kind = "D" /\ ~full THEN {}       \* a bare dispose has no identity: nothing to judge
  ELSE IF i \notin Ids THEN {"C08_unknown_sample_returned"}
  ELSE
       (IF ~Intelligible(i) THEN {"C09_unintelligible_change_delivered"} ELSE {})
  \cup (IF i \in taken THEN {"C08_taken_sample_returned_again"} ELSE {})   \* (identity-less takes are not in `taken`)
  \cup (IF ~WithinDepth(i) THEN {"C08_sample_beyond_history_depth_available"} ELSE {})
  \cup (IF ~Matches(i, cond) /\ ~Fuzzy(i) THEN {"C08_condition_selected_nonmatching_sample"} ELSE {})
  \cup (IF o.kind # arr[i].kind \/ o.k # arr[i].k THEN {"C08_wrong_sample_content"} ELSE {})
  \cup (IF full THEN
            (IF (o.ss = "R") # (i \in wasRead) /\ ~(arr[i].kind = "D" /\ arr[i].k \in fzRead) THEN {"C08_sample_state"} ELSE {})
       \cup (IF o.is # Get(ist, arr[i].k, "none") THEN {"C08_instance_state"} ELSE {})
       \cup (IF o.dg # arr[i].gen \/ o.ng # 0 THEN {"C08_generation_count"} ELSE {})
        ELSE {})

RECURSIVE OutFold(_, _, _, _, _, _)
OutFold(out, n, full, removing, cond, v) ==
  IF n > Len(out) THEN v
  ELSE OutFold(out, n + 1, full, removing, cond, v \cup SampleViol(out[n], full, removing, cond))

OutIds(out) == {out[n].id : n \in DOMAIN out} \cap Ids

\* view state: judged on the most recent returned sample of each instance, when that sample is also the
\* most recent arrival of the instance (then "the instance has been reborn since the last access" is
\* exactly gen > lastAcc)
ViewViol(out) ==
  IF \E n \in DOMAIN out :
        LET i == out[n].id IN
        /\ i \in Ids /\ Intelligible(i)
        /\ Newer(i) = 0
        /\ \/ arr[i].gen > Get(accHi, arr[i].k, -1) /\ out[n].vs # "N"       \* certainly reborn since the last access
           \/ arr[i].gen <= Get(lastAcc, arr[i].k, -1) /\ out[n].vs = "N"     \* certainly seen in this generation
  THEN {"C08_view_state"} ELSE {}

OrderViol(out) ==
  IF \E a, b \in DOMAIN out : a < b /\ out[a].id \in Ids /\ out[b].id \in Ids /\
        arr[out[a].id].w = arr[out[b].id].w /\ arr[out[a].id].sn >= arr[out[b].id].sn
  THEN {"C08_writer_order_in_result"} ELSE {}

\* scope: <<"all", -1>> = all instances, otherwise <<"this", k>> or <<"next", k>> (k = -1: no key given)
ScopeViol(out, scope) ==
  IF scope[1] = "all" THEN {}
  ELSE LET ks == {arr[i].k : i \in OutIds(out)} IN
         (IF Cardinality(ks) > 1 THEN {"C08_instance_call_mixed_instances"} ELSE {})
    \cup (IF scope[1] = "this" /\ scope[2] # -1 /\ \E k \in ks : k # scope[2] THEN {"C08_wrong_instance"} ELSE {})
    \cup (IF scope[1] = "next" /\ scope[2] # -1 /\ \E k \in ks : k <= scope[2] THEN {"C08_next_instance_not_greater"} ELSE {})

InScope(i, scope, out) ==
  scope[1] = "all" \/ (OutIds(out) # {} /\ \E j \in OutIds(out) : arr[j].k = arr[i].k)

\* with KeepAll a result that did not hit max must contain every matching available sample (of the scope)
CompleteViol(out, max, cond, scope) ==
  IF depth = 0 /\ Len(out) < max /\
     \E i \in Ids : Available(i) /\ ~Fuzzy(i) /\ Matches(i, cond) /\ i \notin OutIds(out) /\ InScope(i, scope, out)
       /\ ~(arr[i].kind = "D" /\ \E n \in DOMAIN out : out[n].id = -1 /\ out[n].k = arr[i].k)   \* may be the identity-less dispose
       /\ (scope[1] = "all" \/ OutIds(out) # {})
  THEN {"C08_condition_missed_matching_sample"} ELSE {}

\* A call returned.  res: "ok" | "err" | "pending" | "ended" (a stream yielded None) | "died" (did not return / panicked)
\* removing: take form; marking: read form (sample state becomes READ); full: SampleInfo is reported;
\* viewing: the call counts as an access of the instances (every DataReader form); strict: completeness demanded
AbsCall(res, out, max, cond, scope, removing, marking, full, viewing, strict) ==
  LET ids == OutIds(out)
      v0 == (IF res = "died" THEN {"C09_call_did_not_return"} ELSE {})
            \* the async stream of a reader that lives said "no more items, ever": whoever consumes it the ordinary way
            \* (while let Some(..) / for_each) is never shown a later change
            \cup (IF res = "ended" THEN {"C09_stream_ended_while_reader_alive"} ELSE {})
      v1 == OutFold(out, 1, full, removing, cond, {})
      v2 == IF full THEN ViewViol(out) ELSE {}
      v3 == OrderViol(out) \cup ScopeViol(out, scope)
      v4 == IF strict /\ res = "ok" THEN CompleteViol(out, max, cond, scope) ELSE {}
      v5 == IF Len(out) > max THEN {"C08_more_than_max_samples"} ELSE {}
      e2 == errs + (IF res = "err" THEN 1 ELSE 0)
      v6 == IF e2 > Cardinality({i \in Ids : ~Intelligible(i)}) THEN {"C09_error_reported_more_than_once"} ELSE {}
      v8 == IF depth > 0 /\ \E k \in {out[n].k : n \in DOMAIN out} : Cardinality({n \in DOMAIN out : out[n].k = k}) > depth
              THEN {"C08_more_than_depth_samples_of_instance"} ELSE {}
      fz == {out[n].k : n \in {m \in DOMAIN out : out[m].id = -1}}
      v7 == IF Cardinality(ids) # Cardinality({n \in DOMAIN out : out[n].id # -1}) THEN {"C08_sample_twice_in_one_result"} ELSE {}
      accK == {arr[i].k : i \in ids}
  IN /\ taken' = IF removing THEN taken \cup ids ELSE taken
     /\ wasRead' = IF marking THEN wasRead \cup ids ELSE wasRead
     /\ seenOut' = seenOut \cup ids
     /\ errs' = e2
     /\ lastAcc' = [k \in DOMAIN lastAcc \cup accK |->
                      IF k \in accK
                        THEN LET g == SMax({arr[i].gen : i \in {j \in ids : arr[j].k = k}})
                             IN IF viewing /\ g > Get(lastAcc, k, -1) THEN g ELSE Get(lastAcc, k, -1)
                        ELSE lastAcc[k]]
     \* fz: instances of which an identity-less dispose was returned; it may have been of any generation so far
     /\ accHi' = [k \in DOMAIN accHi \cup accK \cup (IF viewing THEN fz ELSE {}) |->
                    LET old == Get(accHi, k, -1)
                        a == IF k \in accK /\ viewing THEN SMax({arr[i].gen : i \in {j \in ids : arr[j].k = k}}) ELSE -1
                        b == IF k \in fz /\ viewing THEN Get(dgen, k, 0) ELSE -1
                    IN SMax({old, a, b})]
     /\ fzRead' = IF marking THEN fzRead \cup fz ELSE fzRead
     /\ fzTaken' = IF removing THEN fzTaken \cup fz ELSE fzTaken
     /\ viol' = viol \cup v0 \cup v1 \cup v2 \cup v3 \cup v4 \cup v5 \cup v6 \cup v7 \cup v8
     /\ UNCHANGED <<depth, arr, ist, dgen>>

\* the application has called the form until it returned nothing twice in a row: everything
\* intelligible that the History setting lets through must have been delivered (C09: a bad change
\* never prevents later changes from being delivered)
AbsDrained ==
  /\ viol' = viol \cup
       (IF \E i \in Ids : Intelligible(i) /\ WithinDepth(i) /\ ~Fuzzy(i) /\ i \notin seenOut
          THEN {"C09_intelligible_change_never_delivered"} ELSE {})
  /\ UNCHANGED <<depth, arr, ist, dgen, lastAcc, accHi, taken, wasRead, seenOut, errs, fzRead, fzTaken>>

SCInv_NoViolation == viol = {}
===========================================================================
