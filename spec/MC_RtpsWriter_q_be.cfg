SPECIFICATION Spec
CONSTANTS
  Readers = {1,2}
  RelW0 = FALSE
  VolW0 = FALSE
  Depth = 1
  MaxWrites = 3
  MaxSteps = 4
  GenK = 10
CONSTRAINT Bound
VIEW View
INVARIANT WInv_NoViolation
INVARIANT Inv_HistoryIsRange
INVARIANT Inv_ProxyMatchesAbstract
ACTION_CONSTRAINT GenEdge
CHECK_DEADLOCK FALSE
