---------------------------- MODULE Trace_Wakeup ----------------------------
(***************************************************************************)
(* Trace validation for the `sched` driver (C13).  Step lines record which  *)
(* thread ran to which yield point and the counters observable at that      *)
(* moment; the End line records where the application thread ended up after *)
(* the producer went idle and the application was run as long as it was     *)
(* runnable.  A lost wake-up is exactly: the awaited condition holds, the   *)
(* application is parked, and neither its waker was invoked nor is its mio  *)
(* source readable (it was polled again after the producer's last action).  *)
(***************************************************************************)
EXTENDS Integers, Sequences, FiniteSets, TLC, Json, IOUtils

Rec == ndJsonDeserialize(IOEnv.TRACE)
VARIABLES l, run, ins, del, done, viol
tvars == <<l, run, ins, del, done, viol>>
TraceInit == l = 1 /\ run = 0 /\ ins = 0 /\ del = 0 /\ done = 0 /\ viol = {}

\* "awaitq": a reliable reader matched to the writer has not acknowledged every sample written before the wait
OwedAt(e) == IF "owed" \in DOMAIN e THEN e.owed ELSE FALSE

EndViol(e) ==
     (IF e.hung THEN {"C13_thread_did_not_reach_a_yield_point"} ELSE {})
  \cup (IF e.scenario \in {"stream", "mio6", "mio8"} /\ e.del < e.ins
          THEN {"C13_consumer_parked_while_sample_available_" \o e.scenario} ELSE {})
  \cup (IF e.scenario \in {"stream", "mio6", "mio8", "nkstream", "nkbare"} /\ e.ins < e.n THEN {"C13_not_all_samples_inserted"} ELSE {})
  \* un-keyed stream: del counts the values handed over, vals the values among the items inserted (disposes are never shown)
  \cup (IF e.scenario \in {"nkstream", "nkbare"} /\ e.del < e.vals
          THEN {"C13_consumer_parked_while_sample_available_" \o e.scenario} ELSE {})
  \cup (IF e.scenario = "awrite" /\ e.done < e.target THEN {"C13_async_write_parked_although_queue_has_room"} ELSE {})
  \cup (IF e.scenario \in {"await", "awaitq"} /\ e.done < e.target THEN {"C13_async_wait_for_acknowledgments_never_completes"} ELSE {})
  \* C20, asynchronous form: at the end the writer is idle and every matched reliable reader has acknowledged everything
  \* (or there is none): the wait has to have completed with success
  \cup (IF e.scenario = "awaitq" /\ e.done < e.target /\ ~OwedAt(e)
          THEN {"C20_async_wait_still_pending_although_everything_acknowledged"} ELSE {})

Step ==
  /\ l <= Len(Rec)
  /\ l' = l + 1
  /\ LET e == Rec[l] IN
     CASE e.ev = "Reset" -> run' = e.run /\ ins' = 0 /\ del' = 0 /\ done' = 0 /\ viol' = {}
       [] e.ev = "Step" ->
            /\ ins' = e.ins /\ del' = e.del /\ done' = e.done
            \* counters only grow, nothing is delivered that was not inserted
            /\ viol' = viol \cup (IF e.ins < ins \/ e.del < del \/ e.done < done \/ e.del > e.ins
                                    THEN {"C13_inconsistent_counters"} ELSE {})
                             \* C20, asynchronous form: success is reported only when nothing is owed any more
                             \cup (IF e.done > done /\ OwedAt(e)
                                    THEN {"C20_async_wait_reports_success_without_acknowledgment"} ELSE {})
            /\ UNCHANGED run
       [] e.ev \in {"Skip", "Hung"} -> UNCHANGED <<run, ins, del, done, viol>>
       [] e.ev = "End" -> viol' = viol \cup EndViol(e) /\ UNCHANGED <<run, ins, del, done>>
       \* C20 at the synchronous public API: success only if everything was acknowledged (or no reliable reader),
       \* and success (not a time-out) when that is the case
       [] e.ev = "SyncWait" ->
            /\ viol' = viol \cup (IF e.result /\ ~e.all_acked THEN {"C20_sync_wait_reports_success_without_acknowledgment"} ELSE {})
                             \cup (IF ~e.result /\ e.all_acked THEN {"C20_sync_wait_times_out_although_acknowledged"} ELSE {})
            /\ UNCHANGED <<run, ins, del, done>>
  /\ (viol' # viol /\ viol' # {}) =>
        PrintT("VIOL line=" \o ToString(l) \o " run=" \o ToString(run') \o " clauses=" \o ToString(viol' \ viol))

TraceSpec == TraceInit /\ [][Step]_tvars
TraceAccepted ==
  LET d == TLCGet("stats").diameter IN
  IF d = Len(Rec) + 1 THEN PrintT("TRACE-OK events=" \o ToString(Len(Rec)))
  ELSE PrintT("TRACE-STUCK line=" \o ToString(d)) /\ PrintT(Rec[d]) /\ FALSE
=============================================================================
