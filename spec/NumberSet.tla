----------------------------- MODULE NumberSet -----------------------------
(***************************************************************************)
(* C14 -- SequenceNumberSet / FragmentNumberSet (RTPS 2.5 9.4.2.6, 8.3.5.5)*)
(* A set is (base, numBits <= 256, bitmap); bit i of the bitmap, counted   *)
(* from the most significant bit of word 0, stands for base + i.  Numbers  *)
(* are handled as OFFSETS from the base (TLC integers are 32 bit; the      *)
(* driver adds bases up to 2^62).  A bitmap word is the set of its 1-bit   *)
(* positions 0..31 (0 = MSB).                                              *)
(*                                                                         *)
(* Law checked on every case of the bound:                                 *)
(*   Members(Encode(S)) = S \cap 0..255   (exact inside the window,        *)
(*   nothing outside), numBits canonical, word count = ceil(numBits/32);   *)
(*   for a raw set (nb, bits) as a peer may send it: exactly the bits      *)
(*   below nb are members.                                                 *)
(* The explored cases are dumped as REPLAY lines for the `wire` driver;    *)
(* Trace_RtpsWire.tla uses Expected* as oracle for what the real           *)
(* from_base_and_set / iter / read / write report.                         *)
(***************************************************************************)
EXTENDS Integers, Sequences, FiniteSets, TLC, Json

CONSTANTS Offs,     \* candidate member offsets (some beyond the window)
          RawNb,    \* numBits values of raw sets
          RawBits,  \* candidate 1-bit positions of raw sets
          BSel,     \* which of the driver's bases
          GenK

VARIABLES cs

Window == 0..255
SMax(S) == CHOOSE x \in S : \A y \in S : y <= x
InWin(S) == S \cap Window
NumBitsOf(S) == IF S = {} THEN 0 ELSE SMax(S) + 1
NWords(nb) == (nb + 31) \div 32

ToBitmap(S) == [w \in 1..NWords(NumBitsOf(S)) |-> {b \in 0..31 : 32 * (w - 1) + b \in S}]
FromBitmap(nb, words) == {o \in 0..(nb - 1) : (o \div 32) + 1 \in DOMAIN words /\ (o % 32) \in words[(o \div 32) + 1]}

Encode(S) == [nb |-> NumBitsOf(InWin(S)), words |-> ToBitmap(InWin(S))]
Members(e) == FromBitmap(e.nb, e.words)

RawWords(nb, bits) == [w \in 1..NWords(nb) |-> {b \in 0..31 : 32 * (w - 1) + b \in bits}]

(* oracles for the trace specification *)
ExpectedFromMembers(S) == InWin(S)
ExpectedFromParts(nb, bits) == {b \in bits : b < nb}

Cases == {[t |-> "ns", frag |-> f, bsel |-> b, offs |-> S] : f \in BOOLEAN, b \in BSel, S \in SUBSET Offs}
         \cup UNION {{[t |-> "nsraw", frag |-> f, bsel |-> b, nb |-> n, bits |-> R] :
                        f \in BOOLEAN, b \in BSel, R \in SUBSET {x \in RawBits : x < 32 * NWords(n)}} : n \in RawNb}

Init == cs = [t |-> "none"]
Next == cs.t = "none" /\ cs' \in Cases
Spec == Init /\ [][Next]_cs

Law ==
  CASE cs.t = "ns" ->
         LET e == Encode(cs.offs) IN
         /\ Members(e) = InWin(cs.offs)
         /\ Members(e) \subseteq Window
         /\ e.nb <= 256 /\ Len(e.words) = NWords(e.nb)
         /\ (e.nb = 0 <=> InWin(cs.offs) = {}) /\ (e.nb > 0 => (e.nb - 1) \in cs.offs)
    [] cs.t = "nsraw" ->
         /\ FromBitmap(cs.nb, RawWords(cs.nb, cs.bits)) = ExpectedFromParts(cs.nb, cs.bits)
         /\ \A o \in FromBitmap(cs.nb, RawWords(cs.nb, cs.bits)) : o < cs.nb /\ o \in Window
    [] OTHER -> TRUE

GenEdge == (GenK > 0 /\ RandomElement(1..GenK) = 1) => PrintT("REPLAY " \o ToJson(cs'))
=============================================================================
