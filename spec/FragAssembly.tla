---------------------------- MODULE FragAssembly ----------------------------
(***************************************************************************)
(* C06 for the fragment assembler: DATAFRAG submessages whose geometry     *)
(* (dataSize, fragmentSize, fragmentStartingNum, fragmentsInSubmessage,    *)
(* payload length) is chosen by a hostile peer, several of them for the    *)
(* same sequence number and contradicting each other.                      *)
(*                                                                         *)
(* Transcription of                                                        *)
(*   data_frag.rs          DataFrag::deserialize (what it lets through)    *)
(*   reader.rs             one FragmentAssembler per remote writer, its    *)
(*                         fragment size taken from the first DATAFRAG     *)
(*   fragment_assembler.rs AssemblyBuffer::new / insert_frags / is_complete*)
(* at the grain of the arithmetic that decides which bits of the bitmap    *)
(* and which bytes of the buffer are touched.  TLC checks for every        *)
(* sequence of headers within the bound that no index leaves the bitmap    *)
(* and no byte range leaves the buffer or the payload (Inv_InBounds): the  *)
(* conditions under which the real code neither panics nor over-reads.     *)
(* Every sequence is dumped (GenEdge) and sent to the real Reader as the   *)
(* hostile class "geom:..." by the reader driver: whatever the model says  *)
(* about the arithmetic, the process must survive and the well-behaved     *)
(* writer's samples must still arrive (Trace_RtpsReader, C06 clauses).     *)
(***************************************************************************)
EXTENDS Integers, Sequences, FiniteSets, TLC, Json

CONSTANTS Geoms,     \* set of <<dataSize, fragmentSize>>
          Starts, Counts, PayLens,
          SNs,       \* sequence numbers (offsets) the hostile writer uses
          MaxMsgs, GenK

\* (a cfg file cannot write tuples)
GeomsDef == {<<8, 4>>, <<16, 4>>, <<40, 16>>}
GeomsWide == {<<8, 4>>, <<16, 4>>, <<40, 16>>, <<9, 4>>, <<4, 4>>, <<3, 4>>, <<64, 1>>}

VARIABLES asmfs,   \* fragment size of the writer's FragmentAssembler (0 = no assembler yet)
          buf,     \* [SNs -> [n, size, got]]  n = 0: no assembly buffer
          touched, \* what the last insert touched: [bits, n, from, to, size, take, plen]
          hist

vars == <<asmfs, buf, touched, hist>>

NumFrags(d, f) == (d \div f) + (IF d % f = 0 THEN 0 ELSE 1)
Min(a, b) == IF a < b THEN a ELSE b
NoBuf == [n |-> 0, size |-> 0, got |-> {}]
Nothing == [bits |-> {}, n |-> 0, from |-> 0, to |-> 0, size |-> 0, take |-> 0, plen |-> 0]

Header == [d : {g[1] : g \in Geoms}, f : {g[2] : g \in Geoms}, s : Starts, c : Counts, pl : PayLens, sn : SNs]
Hdr(g, s, c, pl, sn) == [d |-> g[1], f |-> g[2], s |-> s, c |-> c, pl |-> pl, sn |-> sn]

\* DataFrag::deserialize: 1 <= fragmentSize <= dataSize, 1 <= fragmentStartingNum <= expected total
Accepted(h) == h.f >= 1 /\ h.f <= h.d /\ h.s >= 1 /\ h.s <= NumFrags(h.d, h.f)

Init == asmfs = 0 /\ buf = [sn \in SNs |-> NoBuf] /\ touched = Nothing /\ hist = <<>>

Frag(h) ==
  /\ Len(hist) < MaxMsgs
  /\ hist' = Append(hist, h)
  /\ IF ~Accepted(h) THEN UNCHANGED <<asmfs, buf>> /\ touched' = Nothing
     ELSE LET fs == IF asmfs = 0 THEN h.f ELSE asmfs                                 \* FragmentAssembler::new(fragment_size)
              b  == IF buf[h.sn].n = 0 THEN [n |-> NumFrags(h.d, h.f), size |-> h.d, got |-> {}] ELSE buf[h.sn]   \* AssemblyBuffer::new
              s0 == h.s - 1
              from == s0 * fs
          IN /\ asmfs' = fs
             /\ IF s0 >= b.n \/ from >= b.size
                  THEN buf' = [buf EXCEPT ![h.sn] = b] /\ touched' = Nothing          \* does not fit the buffer: ignored
                  ELSE LET c  == Min(h.c, b.n - s0)
                           to == Min(from + Min(c * fs, h.pl), b.size)
                           bits == s0 .. (s0 + c - 1)
                           got2 == b.got \cup bits
                       IN /\ touched' = [bits |-> bits, n |-> b.n, from |-> from, to |-> to, size |-> b.size, take |-> to - from, plen |-> h.pl]
                          \* complete: the sample is handed on and the buffer is dropped
                          /\ buf' = [buf EXCEPT ![h.sn] = IF got2 = 0 .. (b.n - 1) THEN NoBuf ELSE [b EXCEPT !.got = got2]]

Next == \E g \in Geoms, s \in Starts, c \in Counts, pl \in PayLens, sn \in SNs : Frag(Hdr(g, s, c, pl, sn))
Spec == Init /\ [][Next]_vars

\* received_bitmap.set(i) with i < len; buffer_bytes[from..to] inside the buffer, from <= to; payload[..take] inside the payload
Inv_InBounds ==
  /\ \A i \in touched.bits : i >= 0 /\ i < touched.n
  /\ touched.from <= touched.to /\ touched.to <= touched.size
  /\ touched.take >= 0 /\ touched.take <= touched.plen
\* a buffer never claims fragments it does not have room for
Inv_BitmapFits == \A sn \in SNs : buf[sn].got \subseteq 0 .. (buf[sn].n - 1)

View == <<asmfs, buf, touched, Len(hist)>>
Code(h) == ToString(h.d) \o "." \o ToString(h.f) \o "." \o ToString(h.s) \o "." \o ToString(h.c) \o "." \o ToString(h.pl) \o "." \o ToString(h.sn)
GenEdge == (GenK > 0 /\ RandomElement(1..GenK) = 1) => PrintT("REPLAY " \o ToJson([geom |-> [i \in DOMAIN hist' |-> Code(hist'[i])]]))
=============================================================================
