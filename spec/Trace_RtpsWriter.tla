------------------------- MODULE Trace_RtpsWriter -------------------------
(***************************************************************************)
(* Trace validation for the `writer` driver (C04, C20): each ndjson line   *)
(* is one event of WriterAbs with the outputs of the real Writer.          *)
(***************************************************************************)
EXTENDS WriterAbs, Json, IOUtils

Rec == ndJsonDeserialize(IOEnv.TRACE)

VARIABLES l, run, c11
tvars == <<wabsVars, l, run, c11>>

ToSet(s) == {s[i] : i \in DOMAIN s}
Sub(s) == IF s.k = "GAP" THEN [k |-> "GAP", set |-> ToSet(s.set)] ELSE s
Dg(d) == [to |-> d.to, subs |-> [i \in DOMAIN d.subs |-> Sub(d.subs[i])]]
Out(e) == [i \in DOMAIN e.out |-> Dg(e.out[i])]


\* C06: a hostile datagram was injected; measurements taken by the harness around the call
C06Viol(e) ==
       (IF e.died # "" THEN {"C06_process_died_or_hung"} ELSE {})
  \cup (IF e.panic THEN {"C06_panic"} ELSE {})
  \cup (IF e.us > 250000 THEN {"C06_time_out_of_proportion"} ELSE {})
  \cup (IF e.alloc > 1048576 + 256 * e.len THEN {"C06_memory_out_of_proportion"} ELSE {})

TraceInit == WAbsInit(TRUE, FALSE, 1) /\ l = 1 /\ run = 0 /\ c11 = {}

Reset(e) ==
  /\ relW' = e.rel /\ volW' = e.vol /\ depthLim' = e.depth
  /\ wr' = <<>> /\ hist' = {}
  /\ rd' = [r \in Readers |-> "none"]
  /\ ackLo' = [r \in Readers |-> 1] /\ ackHi' = [r \in Readers |-> 1]
  /\ req' = [r \in Readers |-> {}] /\ pre' = [r \in Readers |-> 0] /\ conf' = [r \in Readers |-> TRUE]
  /\ wAct' = FALSE /\ wUntil' = 0 /\ wMay' = {} /\ wMust' = {}
  /\ viol' = {}
  /\ run' = e.run

Step ==
  /\ l <= Len(Rec)
  /\ l' = l + 1
  /\ LET e == Rec[l] IN
     CASE e.ev = "Reset"      -> Reset(e)
       [] e.ev = "Write"      -> AbsWrite(e.pid, e.single, ToSet(e.hist), Out(e), e.done) /\ UNCHANGED run
       [] e.ev = "Match"      -> AbsMatchR(e.r, e.kind, e.rtl, ToSet(e.hist), Out(e), e.done) /\ UNCHANGED run
       [] e.ev = "Lose"       -> AbsLose(e.r, ToSet(e.hist), Out(e), e.done) /\ UNCHANGED run
       \* an ACKNACK behind an INFO_DST that names another participant is not addressed to this writer: nothing happened
       [] e.ev = "AckNack"    -> /\ IF e.dst = "other" THEN AbsOutputs(ToSet(e.hist), Out(e), e.done)
                                                          ELSE AbsAckNack(e.r, e.base, ToSet(e.set), ToSet(e.hist), Out(e), e.done)
                                 /\ UNCHANGED run
       [] e.ev \in {"HBTick", "Repair", "RepairFrags"} -> AbsOutputs(ToSet(e.hist), Out(e), e.done) /\ UNCHANGED run
       [] e.ev = "RepairDone" -> AbsRepairDone(e.r, e.quiescent) /\ UNCHANGED run
       [] e.ev = "Clean"      -> AbsClean(ToSet(e.hist), e.done) /\ UNCHANGED run
       [] e.ev = "Wait"       -> AbsWait(e.done) /\ UNCHANGED run
       [] e.ev = "Hostile"    -> /\ hist' = (IF e.died = "" THEN ToSet(e.hist) ELSE hist)
                                 /\ viol' = viol \cup C06Viol(e)
                                 /\ UNCHANGED <<run, relW, volW, depthLim, wr, rd, ackLo, ackHi, req, pre, conf, wAct, wUntil, wMay, wMust>>
       [] e.ev \in {"HostileBegin", "RunDone"} -> UNCHANGED <<wabsVars, run>>
  \* C11 on the writer side: the readers the Writer holds proxies for are those discovery matched and has not taken away;
  \* no ACKNACK, timer or write adds or removes one (reported once per run, with its own line)
  /\ LET e == Rec[l] IN
       ("readers" \in DOMAIN e /\ ToSet(e.readers) # {r \in Readers : rd'[r] # "none"} /\ "C11_writer_matched_set_differs_from_discovery" \notin c11) =>
          PrintT("VIOL line=" \o ToString(l) \o " run=" \o ToString(run') \o " clauses=" \o ToString({"C11_writer_matched_set_differs_from_discovery"}))
  /\ c11' = (IF Rec[l].ev = "Reset" THEN {}
             ELSE IF "readers" \in DOMAIN Rec[l] /\ ToSet(Rec[l].readers) # {r \in Readers : rd'[r] # "none"}
                    THEN c11 \cup {"C11_writer_matched_set_differs_from_discovery"} ELSE c11)
  /\ (viol' # viol /\ viol' # {}) =>
        PrintT("VIOL line=" \o ToString(l) \o " run=" \o ToString(run') \o " clauses=" \o ToString(viol' \ viol))

TraceSpec == TraceInit /\ [][Step]_tvars

TraceAccepted ==
  LET d == TLCGet("stats").diameter IN
  IF d = Len(Rec) + 1 THEN PrintT("TRACE-OK events=" \o ToString(Len(Rec)))
  ELSE PrintT("TRACE-STUCK line=" \o ToString(d)) /\ PrintT(Rec[d]) /\ FALSE
==========================================================================
