SPECIFICATION Spec
CONSTANTS
  Keys = {1}
  Writers = {1}
  Depth0 = 0
  MaxArr = 3
  MaxSteps = 4
  Forms = {"read", "take_inst", "read_inst"}
  Kinds = {"V", "D"}
  Retransmit = TRUE
  GenK = 10
CONSTRAINT Bound
VIEW View
INVARIANT SCInv_NoViolation
INVARIANT Inv_CacheIsAvailable
INVARIANT Inv_ReadFlags
INVARIANT Inv_InstanceState
INVARIANT Inv_NothingLostBehindBadChange
ACTION_CONSTRAINT GenEdge
CHECK_DEADLOCK FALSE
