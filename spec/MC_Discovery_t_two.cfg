SPECIFICATION Spec
CONSTANTS
  P = {1, 2}
  E = {1, 2, 4, 5}
  Owner <- OwnerDef
  IsReader <- IsReaderDef
  OnTopic <- OnTopicDef
  Compatible <- CompatibleDef
  DefaultLease = 60000
  Late = FALSE
  Leases = {1100, 2500}
  Dts = {400, 1000}
  MaxSteps = 9
  MaxTime = 5000
  GenK = 400
CONSTRAINT Bound
VIEW View
INVARIANT DInv_NoViolation
INVARIANT Inv_ParticipantsAgree
INVARIANT Inv_AtticOnlyOfAbsent
INVARIANT Inv_MatchedAreKnown
INVARIANT Inv_LifeSignsAgree
INVARIANT Inv_LocalAgree
INVARIANT Inv_AnnouncedAreKnown
ACTION_CONSTRAINT GenEdge
CHECK_DEADLOCK FALSE
