SPECIFICATION Spec
CONSTANTS
  MaxAtk = 4
  Fix = {}
  Known = {"S7", "S13", "S14"}
  Gen = TRUE
  StripProps = {"hash_c1", "hash_c2", "dh1", "dh2"}
  Weak = {}
  GuidBytes = {}
  Vias = {"disc", "api"}
VIEW View
INVARIANT Inv_NoViolation
INVARIANT Inv_SecretsAgree
ACTION_CONSTRAINT GenEdge
CHECK_DEADLOCK FALSE
