SPECIFICATION Spec
CONSTANTS
  MaxAtk = 4
  Fix = {}
  Known = {"S7", "S13", "S14"}
  Gen = TRUE
VIEW View
INVARIANT Inv_NoViolation
INVARIANT Inv_SecretsAgree
ACTION_CONSTRAINT GenEdge
CHECK_DEADLOCK FALSE
