SPECIFICATION Spec
CONSTANTS
  Scenario = "awaitq"
  N = 16
  Cap = 16
  Kinds <- KindsNone
  Script <- ScriptNone
  Readers = 0
  GenK = 1
VIEW View
INVARIANT Inv_NoLostWake
INVARIANT Inv_NoEarlySuccess
ACTION_CONSTRAINT GenEdge
CHECK_DEADLOCK FALSE
