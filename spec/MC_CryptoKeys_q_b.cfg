SPECIFICATION Spec
CONSTANTS
  Senders = {1, 3}
  Receivers = {2}
  Levels = {"payload", "submsg", "msg"}
  Kinds = {"gmac", "gcm"}
  OAs = {TRUE, FALSE}
  K256s = {TRUE}
  Dirs = {"w2r", "r2w"}
  Astray = FALSE
  GenK = 40
VIEW View
INVARIANT Inv_TamperedNeverDecodes
INVARIANT Inv_NoKeyNoData
INVARIANT Inv_ForeignKeyNoData
INVARIANT Inv_NoMacForMeNoData
INVARIANT Inv_AuthorisedDecodes
INVARIANT Inv_S10IsADeviation
ACTION_CONSTRAINT GenEdge
CHECK_DEADLOCK FALSE
