SPECIFICATION Spec
CONSTANTS
  Scenario = "mio6"
  N = 3
  Cap = 16
  Kinds <- KindsNone
  Script <- ScriptOHD
  Readers = 0
  GenK = 1
VIEW View
INVARIANT Inv_NoLostWake
ACTION_CONSTRAINT GenEdge
CHECK_DEADLOCK FALSE
