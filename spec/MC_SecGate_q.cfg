SPECIFICATION Spec
CONSTANTS
  MDests = {"NN", "EN", "NE", "EE", "spdp"}
  MKinds = {"DATA", "HB", "ACK"}
  MGovs = {"N", "E"}
  MaxLen = 5
  MXm = {0}
  MWraps = "all"
  MForms = {"D"}
  MSrcs = {"peer", "foreign"}
  GenK = 1
VIEW View
INVARIANT Inv_Protected
INVARIANT Inv_Flows
ACTION_CONSTRAINT GenEdge
CHECK_DEADLOCK FALSE
