SPECIFICATION Spec
CONSTANTS
  Scenario = "nkstream"
  N = 3
  Cap = 16
  Kinds <- KindsVDV
  Script <- ScriptNone
  Readers = 0
  GenK = 1
VIEW View
INVARIANT Inv_NoLostWake
ACTION_CONSTRAINT GenEdge
CHECK_DEADLOCK FALSE
