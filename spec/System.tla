------------------------------ MODULE System ------------------------------
(***************************************************************************)
(* C07 - participants find each other and match every compatible pair,     *)
(* whatever the creation order; deletion is seen by the peer as unmatch.   *)
(*                                                                         *)
(* Implementation-shaped model of the discovery plane of two or three      *)
(* DomainParticipants (A holds writer W, B holds reader R, a late-joining  *)
(* reader R2 lives in B or in a third participant C):                      *)
(*                                                                         *)
(*  - SPDP: every live participant announces itself periodically, best     *)
(*    effort; an announcement is one datagram that may be lost (the        *)
(*    delivery step simply does not happen this time).  discovery.rs:      *)
(*    spdp_publish / handle_participant_reader.                            *)
(*  - SEDP: endpoint announcements and disposals travel reliably with      *)
(*    TransientLocal history, but only once both sides know each other     *)
(*    (the built-in writer needs the reader proxy, the built-in reader     *)
(*    needs the writer proxy): dp_event_loop.rs update_participant.        *)
(*  - matching happens where the code does it: when a remote endpoint      *)
(*    becomes known (update_reader_proxy / update_writer_proxy) and when a *)
(*    local endpoint is created (it is matched against what the DB has).   *)
(*  - a deleted endpoint is disposed over SEDP; a deleted participant      *)
(*    sends one best-effort SPDP dispose, and if that is lost its lease    *)
(*    runs out at the peers (discovery_db.rs participant_cleanup).         *)
(*  - a live participant whose traffic is blocked for longer than its      *)
(*    lease is dropped by the peer, its endpoints go to the attic, and     *)
(*    come back when it is heard again (discovery_db.rs update_participant *)
(*    + discovery.rs process_discovered_participant_data).  RematchFix     *)
(*    says whether restored endpoints are matched again (they were not     *)
(*    before the repair of finding S8).                                    *)
(*                                                                         *)
(* Safety: nothing is ever matched that is not compatible and announced.   *)
(* Liveness (fair delivery, finitely many losses): eventually always every *)
(* local endpoint is matched with exactly the compatible live remote ones. *)
(* The data plane after matching is RtpsLink.tla / RtpsWriter.tla.         *)
(*                                                                         *)
(* Every complete creation order explored is dumped as a scenario for the  *)
(* `system` driver, which plays it with real DomainParticipants.           *)
(***************************************************************************)
EXTENDS Integers, Sequences, FiniteSets, TLC, Json

CONSTANTS QosChoices,   \* set of records [wrel, rrel, wtl, rtl : BOOLEAN]
          LateChoices,  \* subset of {"none", "vol", "tl"}
          ThirdChoices, \* subset of BOOLEAN: late joiner in its own participant C
          DelChoices,   \* subset of {"none", "R", "W", "PA", "PB"}
          BlackoutChoices, \* subset of {0, 1}
          PostChoices,  \* subset of {"none", "W2", "R3"}: an endpoint created after the deletion (a second writer in A, a
                        \* second reader in B): it must not be matched with what was deleted
          RematchFix,   \* endpoints restored from the attic are matched again (finding S8 repaired)
          MatchOnCreate, \* a new local endpoint is matched against what the DiscoveryDB already holds (finding S17 repaired)
          GenK          \* dump one in GenK complete creation orders

\* configurations substitute these for QosChoices
QosAll == [wrel : BOOLEAN, rrel : BOOLEAN, wtl : BOOLEAN, rtl : BOOLEAN]
QosFull == {[wrel |-> TRUE, rrel |-> TRUE, wtl |-> TRUE, rtl |-> FALSE], [wrel |-> TRUE, rrel |-> TRUE, wtl |-> FALSE, rtl |-> FALSE],
            [wrel |-> TRUE, rrel |-> TRUE, wtl |-> FALSE, rtl |-> TRUE], [wrel |-> FALSE, rrel |-> TRUE, wtl |-> TRUE, rtl |-> TRUE]}
QosOne == {[wrel |-> TRUE, rrel |-> TRUE, wtl |-> TRUE, rtl |-> FALSE]}

Base == <<"PA", "PB", "TA", "TB", "W", "R">>
BaseSet == {"PA", "PB", "TA", "TB", "W", "R"}
Parent(x) == CASE x = "TA" -> "PA" [] x = "TB" -> "PB" [] x = "TC" -> "PC"
               [] x = "W" -> "TA" [] x = "R" -> "TB" [] OTHER -> "none"
Parts == {"PA", "PB", "PC"}
Endpoints == {"W", "R", "R2", "W2", "R3"}

VARIABLES
  qos, late, third, del, blackout, post,   \* the scenario (fixed in Init)
  hist,        \* creation order of the base entities
  created,     \* entities that exist now
  everDeleted, \* entities deleted
  knows,       \* [Parts -> SUBSET Parts]   q knows p (has p's participant proxy)
  seen,        \* [Parts -> SUBSET Endpoints] remote endpoints in q's DiscoveryDB
  attic,       \* [Parts -> SUBSET Endpoints]
  matched,     \* [Endpoints -> SUBSET Endpoints] local endpoint -> remote endpoints it has a proxy for
  silent,      \* participants whose outgoing traffic is currently blocked
  blackoutLeft \* how many blackouts may still begin

vars == <<qos, late, third, del, blackout, post, hist, created, everDeleted, knows, seen, attic, matched, silent, blackoutLeft>>

Home(e) == CASE e \in {"W", "W2"} -> "PA" [] e \in {"R", "R3"} -> "PB" [] e = "R2" -> IF third THEN "PC" ELSE "PB"
TopicOf(e) == CASE e \in {"W", "W2"} -> "TA" [] e \in {"R", "R3"} -> "TB" [] e = "R2" -> IF third THEN "TC" ELSE "TB"
IsWriter(e) == e \in {"W", "W2"}

\* request/offered: the writer must offer at least what the reader requests
Compat(w, r) ==
  /\ IsWriter(w) /\ ~IsWriter(r)
  /\ IF r \in {"R", "R3"} THEN (qos.wrel \/ ~qos.rrel) /\ (qos.wtl \/ ~qos.rtl)      \* W2 / R3 have the QoS of W / R
               ELSE qos.wrel /\ (qos.wtl \/ late # "tl")     \* R2 is reliable, TransientLocal iff late = "tl"
Pair(e, f) == IF IsWriter(e) THEN Compat(e, f) ELSE Compat(f, e)

Init ==
  /\ qos \in QosChoices /\ late \in LateChoices /\ third \in ThirdChoices /\ del \in DelChoices /\ blackout \in BlackoutChoices
  /\ post \in PostChoices
  /\ (late = "none" => third = FALSE)
  /\ (post # "none" => del \in {"R", "W"})
  /\ hist = <<>> /\ created = {} /\ everDeleted = {}
  /\ knows = [p \in Parts |-> {}] /\ seen = [p \in Parts |-> {}] /\ attic = [p \in Parts |-> {}]
  /\ matched = [e \in Endpoints |-> {}]
  /\ silent = {} /\ blackoutLeft = blackout

Scenario == <<qos, late, third, del, blackout, post>>

(* ---------------------------------------------------------------- creation *)
\* a local endpoint is matched against what the DiscoveryDB already holds
MatchLocal(e, p) == IF MatchOnCreate THEN {f \in seen[p] : Pair(e, f)} ELSE {}

CreateBase(x) ==
  /\ x \in BaseSet \ created /\ x \notin everDeleted
  /\ Parent(x) = "none" \/ Parent(x) \in created
  /\ created' = created \cup {x}
  /\ hist' = Append(hist, x)
  /\ matched' = IF x \in Endpoints THEN [matched EXCEPT ![x] = MatchLocal(x, Home(x))] ELSE matched
  /\ UNCHANGED <<qos, late, third, del, blackout, post, everDeleted, knows, seen, attic, silent, blackoutLeft>>

\* the late joiner and what it needs, after the base entities exist
CreateLate(x) ==
  /\ late # "none" /\ BaseSet \subseteq (created \cup everDeleted) /\ everDeleted = {}
  /\ x \in (IF third THEN {"PC", "TC", "R2"} ELSE {"R2"}) \ created
  /\ x = "TC" => "PC" \in created
  /\ x = "R2" => TopicOf("R2") \in created
  /\ created' = created \cup {x}
  /\ matched' = IF x = "R2" THEN [matched EXCEPT !["R2"] = MatchLocal("R2", Home("R2"))] ELSE matched
  /\ UNCHANGED <<qos, late, third, del, blackout, post, hist, everDeleted, knows, seen, attic, silent, blackoutLeft>>

\* an endpoint created after the deletion: matched, like every new local endpoint, against what the DiscoveryDB
\* of its participant holds at that moment (which may still hold the deleted endpoint if its disposal is under way)
CreatePost(x) ==
  /\ post = x /\ x \in {"W2", "R3"} /\ x \notin created /\ x \notin everDeleted
  /\ everDeleted # {} /\ Home(x) \in created /\ TopicOf(x) \in created
  /\ created' = created \cup {x}
  /\ matched' = [matched EXCEPT ![x] = MatchLocal(x, Home(x))]
  /\ UNCHANGED <<qos, late, third, del, blackout, post, hist, everDeleted, knows, seen, attic, silent, blackoutLeft>>

(* --------------------------------------------------------------- discovery *)
LiveEndpointsOf(p) == {e \in Endpoints \cap created : Home(e) = p}
LocalAt(q) == LiveEndpointsOf(q)

\* q hears an SPDP announcement of p (one that was not lost)
Spdp(p, q) ==
  /\ p \in created /\ q \in created /\ p # q /\ p \notin silent
  /\ p \notin knows[q]
  /\ knows' = [knows EXCEPT ![q] = @ \cup {p}]
  /\ LET back == {e \in attic[q] : Home(e) = p} IN
     /\ seen' = [seen EXCEPT ![q] = @ \cup back]
     /\ attic' = [attic EXCEPT ![q] = @ \ back]
     /\ matched' = IF RematchFix
                     THEN [e \in Endpoints |-> IF e \in LocalAt(q) THEN matched[e] \cup {f \in back : Pair(e, f)} ELSE matched[e]]
                     ELSE matched
  /\ UNCHANGED <<qos, late, third, del, blackout, post, hist, created, everDeleted, silent, blackoutLeft>>

\* q receives p's SEDP announcement of endpoint e (reliable, needs mutual knowledge)
Sedp(p, q, e) ==
  /\ p \in created /\ q \in created /\ p # q /\ p \notin silent
  /\ e \in LiveEndpointsOf(p)
  /\ p \in knows[q] /\ q \in knows[p]
  /\ e \notin seen[q]
  /\ seen' = [seen EXCEPT ![q] = @ \cup {e}]
  /\ matched' = [l \in Endpoints |-> IF l \in LocalAt(q) /\ Pair(l, e) THEN matched[l] \cup {e} ELSE matched[l]]
  /\ UNCHANGED <<qos, late, third, del, blackout, post, hist, created, everDeleted, knows, attic, silent, blackoutLeft>>

Forget(q, gone) == [l \in Endpoints |-> IF Home(l) = q THEN matched[l] \ gone ELSE matched[l]]

\* q receives the SEDP disposal of a deleted endpoint of a live participant
SedpDispose(p, q, e) ==
  /\ p \in created /\ q \in created /\ p # q /\ p \notin silent
  /\ e \in everDeleted /\ Home(e) = p
  /\ p \in knows[q] /\ q \in knows[p]
  /\ e \in seen[q]
  /\ seen' = [seen EXCEPT ![q] = @ \ {e}]
  /\ matched' = Forget(q, {e})
  /\ UNCHANGED <<qos, late, third, del, blackout, post, hist, created, everDeleted, knows, attic, silent, blackoutLeft>>

(* ---------------------------------------------------------------- deletion *)
AllCreated == BaseSet \subseteq created /\ (late # "none" => "R2" \in created)

DeleteEndpoint(e) ==
  /\ del = e /\ e \in {"R", "W"} /\ AllCreated /\ everDeleted = {}
  /\ created' = created \ {e}
  /\ everDeleted' = {e}
  /\ matched' = [matched EXCEPT ![e] = {}]
  /\ UNCHANGED <<qos, late, third, del, blackout, post, hist, knows, seen, attic, silent, blackoutLeft>>

\* deleting a participant: its endpoints go, and one SPDP dispose datagram goes out to each peer,
\* which either arrives (heard) or is lost
DeleteParticipant(p, heard) ==
  /\ del = p /\ p \in {"PA", "PB"} /\ AllCreated /\ everDeleted = {}
  /\ LET gone == {x \in created : x = p \/ Parent(x) = p \/ (x \in Endpoints /\ Home(x) = p)} IN
     /\ created' = created \ gone
     /\ everDeleted' = gone
     /\ knows' = [q \in Parts |-> IF q = p THEN {} ELSE IF q \in heard THEN knows[q] \ {p} ELSE knows[q]]
     /\ seen' = [q \in Parts |-> IF q = p THEN {} ELSE IF q \in heard THEN {e \in seen[q] : Home(e) # p} ELSE seen[q]]
     /\ attic' = [attic EXCEPT ![p] = {}]
     /\ matched' = [l \in Endpoints |-> IF Home(l) = p THEN {} ELSE IF Home(l) \in heard THEN {f \in matched[l] : Home(f) # p} ELSE matched[l]]
  /\ UNCHANGED <<qos, late, third, del, blackout, post, hist, silent, blackoutLeft>>

\* q has heard nothing from p for longer than p's lease
Timeout(q, p) ==
  /\ q \in created /\ p \in knows[q] /\ p # q
  /\ p \notin created \/ p \in silent
  /\ knows' = [knows EXCEPT ![q] = @ \ {p}]
  /\ LET theirs == {e \in seen[q] : Home(e) = p} IN
     /\ seen' = [seen EXCEPT ![q] = @ \ theirs]
     /\ attic' = [attic EXCEPT ![q] = @ \cup theirs]
     /\ matched' = Forget(q, theirs)
  /\ UNCHANGED <<qos, late, third, del, blackout, post, hist, created, everDeleted, silent, blackoutLeft>>

BlackoutBegin(p) ==
  /\ blackoutLeft > 0 /\ p = "PB" /\ p \in created /\ silent = {}
  /\ silent' = {p} /\ blackoutLeft' = blackoutLeft - 1
  /\ UNCHANGED <<qos, late, third, del, blackout, post, hist, created, everDeleted, knows, seen, attic, matched>>
BlackoutEnd ==
  /\ silent # {} /\ silent' = {}
  /\ UNCHANGED <<qos, late, third, del, blackout, post, hist, created, everDeleted, knows, seen, attic, matched, blackoutLeft>>

Next ==
  \/ \E x \in BaseSet : CreateBase(x)
  \/ \E x \in {"PC", "TC", "R2"} : CreateLate(x)
  \/ \E x \in {"W2", "R3"} : CreatePost(x)
  \/ \E p, q \in Parts : Spdp(p, q) \/ Timeout(q, p)
  \/ \E p, q \in Parts, e \in Endpoints : Sedp(p, q, e) \/ SedpDispose(p, q, e)
  \/ \E e \in {"R", "W"} : DeleteEndpoint(e)
  \/ \E p \in {"PA", "PB"} : \E heard \in SUBSET (Parts \ {p}) : DeleteParticipant(p, heard)
  \/ BlackoutBegin("PB") \/ BlackoutEnd

Fairness ==
  /\ \A x \in BaseSet \cup {"PC", "TC", "R2"} : WF_vars(CreateBase(x) \/ CreateLate(x))
  /\ \A x \in {"W2", "R3"} : WF_vars(CreatePost(x))
  /\ \A p, q \in Parts : WF_vars(Spdp(p, q)) /\ WF_vars(Timeout(q, p))
  /\ \A p, q \in Parts, e \in Endpoints : WF_vars(Sedp(p, q, e)) /\ WF_vars(SedpDispose(p, q, e))
  /\ WF_vars(BlackoutEnd)

Spec == Init /\ [][Next]_vars /\ Fairness

(* -------------------------------------------------------------- properties *)
ShouldMatch(e) == IF e \notin created THEN {} ELSE {f \in Endpoints \cap created : Pair(e, f)}

\* nothing is ever matched that is not compatible, and nothing with a deleted endpoint of one's own
Inv_MatchedSound ==
  \A e \in Endpoints : /\ \A f \in matched[e] : Pair(e, f)
                       /\ (e \notin created => matched[e] = {})
\* the DiscoveryDB holds an endpoint only of a participant it knows
Inv_SeenOnlyOfKnown == \A q \in Parts : \A e \in seen[q] : Home(e) \in knows[q]
Inv_TypeOK ==
  /\ created \subseteq BaseSet \cup {"PC", "TC", "R2", "W2", "R3"}
  /\ \A q \in Parts : seen[q] \cap attic[q] = {}

\* whatever the order and the losses, eventually always: matched = compatible and alive
Live_EventuallyMatched == <>[](\A e \in Endpoints : matched[e] = ShouldMatch(e))
\* a deletion is eventually seen by the peer as an unmatch (special case of the above, named for the report)
Live_DeleteSeen == \A e \in Endpoints : [](e \in everDeleted => <>(\A f \in Endpoints : e \notin matched[f]))

(* --------------------------------------------------------------- generator *)
\* one line per explored complete creation order: the scenario the system driver plays.
\* Dimensions that do not change the discovery plane are drawn here.
GenEdge ==
  (Len(hist') = 6 /\ Len(hist) = 5 /\ RandomElement(1..GenK) = 1) =>
     PrintT("REPLAY " \o ToJson([order |-> hist', keyed |-> (RandomElement(1..3) # 1),
                                  wrel |-> qos.wrel, rrel |-> qos.rrel, wtl |-> qos.wtl, rtl |-> qos.rtl,
                                  depth |-> (IF RandomElement(1..4) = 1 THEN 2 ELSE 0), late |-> late, third |-> third,
                                  n1 |-> RandomElement(4..12), n2 |-> RandomElement(3..8), size0 |-> RandomElement(0..11),
                                  dispose |-> (RandomElement(1..2) = 1), loss |-> RandomElement({0, 10, 20}),
                                  del |-> del, blackout |-> blackout, post |-> post, seed |-> RandomElement(1..1000000)]))
=============================================================================
