SPECIFICATION Spec
CONSTANTS
  QosChoices <- QosOne
  LateChoices = {"tl"}
  ThirdChoices = {TRUE, FALSE}
  DelChoices = {"none"}
  BlackoutChoices = {0}
  PostChoices = {"none"}
  MatchOnCreate = TRUE
  RematchFix = TRUE
  GenK = 1000000
INVARIANTS Inv_MatchedSound Inv_SeenOnlyOfKnown Inv_TypeOK
PROPERTIES Live_EventuallyMatched Live_DeleteSeen
ACTION_CONSTRAINT GenEdge
CHECK_DEADLOCK FALSE
