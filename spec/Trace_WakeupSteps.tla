------------------------- MODULE Trace_WakeupSteps -------------------------
(***************************************************************************)
(* Step-by-step conformance of the two real threads of the `sched` driver  *)
(* with Wakeup.tla (C13).  Trace_Wakeup.tla judges where a run ENDS (is    *)
(* the application parked although its condition holds); this module       *)
(* checks that the model checked by TLC is a model of THIS code: every     *)
(* Step line says which thread was granted a step, at which yield point of *)
(* the real code it stopped next, and the counters at that moment.  The    *)
(* thread's action of Wakeup.tla must be enabled exactly when the real     *)
(* thread makes progress, and must lead to the program counter named by    *)
(* the yield point and to the logged counters; when no action of the       *)
(* thread is enabled the real thread must come back to the same yield      *)
(* point with nothing changed (idle producer, consumer polling an empty    *)
(* mio source).  A Skip line (the driver does not run a parked task whose  *)
(* waker was not invoked) must find the model's task parked and not woken. *)
(*                                                                         *)
(* The constants of Wakeup.tla differ from run to run; checks/sched.py     *)
(* groups the runs by (scenario, N, Kinds, Script) into one file each,     *)
(* whose first line carries the constants.                                 *)
(***************************************************************************)
EXTENDS Wakeup, IOUtils

Rec == ndJsonDeserialize(IOEnv.TRACE)
TrScenario == Rec[1].scenario
TrN        == Rec[1].N
TrKinds    == Rec[1].kinds
TrScript   == Rec[1].script
TrReaders  == Rec[1].readers

VARIABLES l, boot, run
tvars == <<vars, l, boot, run>>

T0 == R0 \/ R1 \/ R2 \/ R3 \/ W0 \/ W1 \/ W2 \/ W2b \/ WQ0
T1 == EQ0 \/ EQ1 \/ EQ1b \/ EQ1c \/ S0 \/ S1 \/ S2 \/ S3 \/ NK0 \/ NK2 \/ C0 \/ C1 \/ C2 \/ A0 \/ A1 \/ A2 \/ A3 \/ E0 \/ E1 \/ E1b \/ E2

\* yield points of the driver's own loops that the model does not tell apart
Norm(a) == CASE a = "sl0!" -> "sl0"          \* granted a step while the mutex was held: still in front of it
             [] a = "aw_done" -> "aw_poll"   \* all writes done: A0 is disabled at aw_poll
             [] OTHER -> a

\* the yield point inside Waker::clone carries one label wherever the code clones the waker
AtOk(p, a) == p = a \/ (a = "wc" /\ p \in {"wc0", "wc1"})

ValuesAmong(d) == Cardinality({i \in 1..d : Kinds[i] = "V"})
\* the counters the driver reads off the real objects, against the model's next state
Bind(e) ==
  /\ Reader => ins' = e.ins
  /\ (Reader /\ ~NoKey) => del' = e.del
  /\ NoKey => ValuesAmong(del') = e.del            \* the application counts values; disposes are skipped, never shown
  /\ Scenario = "awrite" => sent' = e.done
  /\ Scenario \in {"await", "awaitq"} => (IF finished' THEN 1 ELSE 0) = e.done
  /\ Scenario = "awaitq" => Owed' = e.owed

ReInit ==
  /\ pc0' = (IF Reader THEN "r_inject" ELSE "w_pop")
  /\ pc1' = (CASE Scenario \in {"stream", "nkstream", "nkbare"} -> "a_poll" [] Scenario \in {"mio6", "mio8"} -> "c_wait"
               [] Scenario = "awrite" -> "aw_poll" [] Scenario \in {"await", "awaitq"} -> "e_poll")
  /\ ins' = 0 /\ del' = 0 /\ waker' = FALSE /\ waker2' = FALSE /\ wakeFlag' = FALSE /\ r8' = FALSE /\ n6' = 0
  /\ q' = (IF Scenario = "awaitq" THEN N ELSE 0) /\ cmdIn' = FALSE /\ ackw' = FALSE /\ acked' = FALSE
  /\ sent' = 0 /\ cmdSent' = FALSE /\ signal' = FALSE /\ finished' = FALSE /\ lk' = FALSE /\ held' = 0 /\ idx' = 0
  /\ trail' = <<>> /\ seen' = <<FALSE, FALSE, FALSE, FALSE, FALSE>>

TraceInit == Init /\ l = 2 /\ boot = 0 /\ run = -1

StepOf(e) ==
  LET at == Norm(e.at) IN
  IF boot < 2
    \* the driver first brings both threads to the yield point at which the model's program counters start
    THEN /\ AtOk(IF e.t = 0 THEN pc0 ELSE pc1, at)
         /\ boot' = boot + 1
         /\ UNCHANGED vars
    ELSE /\ UNCHANGED boot
         /\ IF e.t = 0
              THEN IF ENABLED T0 THEN T0 /\ AtOk(pc0', at) /\ Bind(e)
                                 ELSE AtOk(pc0, at) /\ UNCHANGED vars /\ Bind(e)
              ELSE IF ENABLED T1 THEN T1 /\ AtOk(pc1', at) /\ Bind(e)
                                 ELSE AtOk(pc1, at) /\ UNCHANGED vars /\ Bind(e)

Parked == pc1 \in {"a_parked", "aw_parked", "e_parked"}

Step ==
  /\ l <= Len(Rec)
  /\ l' = l + 1
  /\ LET e == Rec[l] IN
     CASE e.ev = "Reset" -> ReInit /\ boot' = 0 /\ run' = e.run
       [] e.ev = "Step"  -> StepOf(e) /\ UNCHANGED run
       \* not run because parked and not woken: the model must agree on both counts
       [] e.ev = "Skip"  -> Parked /\ ~wakeFlag /\ UNCHANGED <<vars, boot, run>>
       \* where the run ended: the real application's yield point is the model's, and so is "woken"
       [] e.ev = "End"   -> /\ ~e.hung => (AtOk(pc1, Norm(e.app_at)) /\ (Parked => e.woken = wakeFlag))
                            /\ UNCHANGED <<vars, boot, run>>
       [] e.ev = "Hung"  -> UNCHANGED <<vars, boot, run>>

TraceSpec == TraceInit /\ [][Step]_tvars

TraceAccepted ==
  LET d == TLCGet("stats").diameter IN
  IF d = Len(Rec) THEN PrintT("TRACE-OK events=" \o ToString(Len(Rec)))
  ELSE PrintT("TRACE-STUCK line=" \o ToString(d + 1)) /\ PrintT(Rec[d + 1]) /\ FALSE
==========================================================================
