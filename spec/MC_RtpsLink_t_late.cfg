SPECIFICATION Spec
CONSTANTS
  Pre = 3
  NSamples = 3
  FragSNs = {5}
  NF = 2
  MaxFaults = 3
  K = 3
  MaxRounds = 6
  MaxRematch = 0
  Win = 256
  Bursts = {}
  OutageAt = 0
  KeySNs = {}
  GenK = 20
VIEW View
INVARIANT Inv_Converge
INVARIANT Inv_Quiet
INVARIANT Inv_DevNeedsFragments
ACTION_CONSTRAINT GenEdge
CHECK_DEADLOCK FALSE
