SPECIFICATION TraceSpec
CONSTANTS Readers = {1, 2, 3}
POSTCONDITION TraceAccepted
CHECK_DEADLOCK FALSE
