\* NON-VACUITY of the presence dimension (NOT part of the check; expected result: Inv_NoViolation is violated).
\* The replay check of the reply (challenge1) is made only when the optional hash_c1 is present: TLC finds
\* Req; Dlv(A, 12, none, {hash_c1}) -> acc, C19_bad_message_authenticated (a stripped replay authenticates).
SPECIFICATION Spec
CONSTANTS
  MaxAtk = 2
  Fix = {}
  Known = {"S7", "S13", "S14"}
  Gen = FALSE
  StripProps = {"hash_c1", "hash_c2"}
  Weak = {"ch1@reply"}
  GuidBytes = {}
  Vias = {"disc"}
INVARIANT Inv_NoViolation
CHECK_DEADLOCK FALSE
