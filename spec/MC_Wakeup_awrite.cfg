SPECIFICATION Spec
CONSTANTS
  Scenario = "awrite"
  N = 2
  Cap = 16
  Kinds <- KindsNone
  Script <- ScriptNone
  Readers = 0
  GenK = 1
VIEW View
INVARIANT Inv_NoLostWake
ACTION_CONSTRAINT GenEdge
CHECK_DEADLOCK FALSE
