SPECIFICATION TraceSpec
CONSTANTS
  Scenario <- TrScenario
  N <- TrN
  Cap = 16
  Kinds <- TrKinds
  Script <- TrScript
  Readers <- TrReaders
  GenK = 0
POSTCONDITION TraceAccepted
CHECK_DEADLOCK FALSE
