SPECIFICATION TraceSpec
CONSTANTS
  Scenario <- TrScenario
  N <- TrN
  Cap = 16
  Kinds <- TrKinds
  Script <- TrScript
  GenK = 0
POSTCONDITION TraceAccepted
CHECK_DEADLOCK FALSE
