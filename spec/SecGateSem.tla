----------------------------- MODULE SecGateSem -----------------------------
(***************************************************************************)
(* C17 -- required protection cannot be bypassed by sending plaintext.     *)
(*                                                                         *)
(* Shared definitions of the model (SecGate.tla) and of the trace          *)
(* specification (Trace_SecGate.tla):                                      *)
(*                                                                         *)
(*  1. the governance table of the rig (which topic requires which         *)
(*     protection, which endpoints are the exempt bootstrap endpoints);    *)
(*  2. the PROPERTY, phrased on the wire content of one datagram:          *)
(*     Allowed(m, id, d)  -- submessage `id` may be handed to endpoint d   *)
(*     MustFlow(m)        -- deliveries the property demands               *)
(*  3. an implementation-shaped transcription of MessageReceiver's         *)
(*     per-datagram state machine (secure_receiver_state,                  *)
(*     must_be_rtps_protection_special_case, dest/source prefix) --        *)
(*     RecvStep -- used by the model to decide the property on the design  *)
(*     and by both for the receiver state at which a submessage arrives.   *)
(*                                                                         *)
(* A datagram m is a record                                                *)
(*   rtps   : BOOLEAN   governance requires RTPS message protection        *)
(*   disc   : "N" | "S" | "E"  discovery_protection_kind of the domain     *)
(*            rule (NONE / SIGN / ENCRYPT): the submessage protection of   *)
(*            the builtin secure discovery endpoints psec, pubsec, subsec  *)
(*   live   : "N" | "S" | "E"  liveliness_protection_kind of the domain    *)
(*            rule: the submessage protection of pmsec                     *)
(*            (DCPSParticipantMessageSecure)           (DDS Security 7.4.8)*)
(*   first  : "srtps" (the datagram is a valid SecureRTPSPrefix-protected  *)
(*            message of the peer), "plain", "srtps_bad" (protected message*)
(*            with a corrupted MAC), "shift" (SRTPS prefix not first)      *)
(*   src    : "peer" | "peer2" | "foreign"  (GUID prefix in the RTPS       *)
(*            header): the authenticated peer whose keys the receiver      *)
(*            knows, a second remote participant (no keys), nobody known   *)
(*   xm     : matching configuration of the run, a set of pairs <<d, w>>:  *)
(*            local reader d is ALSO matched to a writer of the second     *)
(*            remote participant ("peer2") that carries the EntityId the   *)
(*            peer uses for its writer of topic w.  EntityIds are unique   *)
(*            per participant only, so a writer submessage that names no   *)
(*            reader (readerId UNKNOWN) has SEVERAL candidate readers, on  *)
(*            topics with different protection requirements.               *)
(*   wraps  : sequence of [id,kind,dst,wr,pay,form,key]: submessages that  *)
(*            were                                                         *)
(*            protected by the peer with the endpoint keys of topic `key`  *)
(*            (+ opaque: the body is a SecureBody, FALSE for SIGN kinds)   *)
(*   els    : the wire positions, records [t,id,kind,dst,wr,pay,form,w,who]*)
(*            t = "ent"  plain entity submessage                           *)
(*                "P"/"B"/"F" SecurePrefix/body/SecurePostfix of wraps[w]  *)
(*                "idst","isrc","its" interpreter submessages              *)
(*                "X" any other security submessage                        *)
(* kind: DATA FRAG HB GAP (writer submessages, dst = a local reader or     *)
(* "UNKNOWN", wr = the sending writer's topic) and ACK (dst = a local      *)
(* writer, wr = the sending reader's topic).  pay: "plain","enc" (payload  *)
(* protected with the keys of topic wr), "encx" (other keys), "na".        *)
(* form: the SHAPE of a DATA / DATAFRAG submessage (flags D, K, Q):        *)
(*   "D"  serialized data (a sample)                                       *)
(*   "K"  serialized KEY instead of data (dispose / unregister), DATA and  *)
(*        DATAFRAG                                                         *)
(*   "Q"  no serialized payload at all: the instance is named by the key   *)
(*        hash in the inline QoS (dispose by key hash); pay = "na"         *)
(*   "DK" both flags (invalid, RTPS 9.4.5.3.1), "0" neither flag, no       *)
(*        inline QoS (no content); "na" for the other kinds.               *)
(* Payload protection is about the SerializedPayload submessage element,   *)
(* whatever it serializes: forms D, K, DK carry one, Q and 0 do not.       *)
(***************************************************************************)
EXTENDS Integers, Sequences, FiniteSets

Dests   == {"NN", "EN", "NE", "EE", "SN", "NS", "spdp", "stateless", "volatile", "sedp",
            "pmsec", "pubsec", "subsec", "psec"}
\* governance documents fixtures/gate/governance_*.p7s: topic T_<metadata><data>; the builtin secure
\* endpoints take their submessage protection from the DOMAIN rule (g: any record with fields disc, live):
\* DCPSParticipantMessageSecure from liveliness_protection_kind, DCPSParticipantSecure /
\* DCPSPublicationsSecure / DCPSSubscriptionsSecure from discovery_protection_kind (DDS Security 7.4.8)
DiscDests == {"psec", "pubsec", "subsec"}
SubProt(g, d) == \/ d \in {"EN", "EE", "SN", "volatile"}
                 \/ d = "pmsec" /\ g.live # "N"
                 \/ d \in DiscDests /\ g.disc # "N"
PayProt(d) == d \in {"NE", "EE", "NS"}
\* DDS Security 8.4.2.4 table 27: DCPSParticipant, DCPSParticipantStatelessMessage,
\* DCPSParticipantVolatileMessageSecure are exempt from RTPS message protection
Exempt(d)  == d \in {"spdp", "stateless", "volatile"}

WriterKinds == {"DATA", "FRAG", "HB", "GAP"}
IsData(k)   == k \in {"DATA", "FRAG"}
\* the submessage carries a SerializedPayload element (what payload protection protects)
HasPayload(it) == IsData(it.kind) /\ it.form \in {"D", "K", "DK"}

ToSet(s) == {s[i] : i \in DOMAIN s}

\* Candidate readers of a writer submessage without reader id whose writerId is the EntityId of the
\* peer's writer of topic w (Reader::contains_writer compares the EntityId only; the stateless reader
\* holds no proxies; spdp / stateless readers take their own builtin writer id unconditionally)
Cand(m, w) == ({w} \cap Dests) \cup {d \in Dests \ {"stateless"} : <<d, w>> \in m.xm}

(***************************************************************************)
(* 2. The property                                                         *)
(***************************************************************************)
\* wire positions at which submessage `id` appears as a plain submessage
PlainAt(m, id) == {i \in DOMAIN m.els :
                     \/ m.els[i].t = "ent" /\ m.els[i].id = id
                     \/ m.els[i].t = "B" /\ m.els[i].w \in DOMAIN m.wraps /\ m.wraps[m.els[i].w].id = id}
\* wraps w carrying `id` that appear as a complete prefix/body/postfix sequence
WrappedBy(m, id) == {w \in DOMAIN m.wraps :
                       /\ m.wraps[w].id = id
                       /\ \E i \in DOMAIN m.els : /\ i + 2 \in DOMAIN m.els
                                                  /\ m.els[i].t = "P"     /\ m.els[i].w = w
                                                  /\ m.els[i + 1].t = "B" /\ m.els[i + 1].w = w
                                                  /\ m.els[i + 2].t = "F" /\ m.els[i + 2].w = w}
\* the submessage with identifier `id`: a plain one or the content of a wrap (fields kind, wr, pay)
IsEnt(m, id)   == \E i \in DOMAIN m.els : m.els[i].t = "ent" /\ m.els[i].id = id
IsWrap(m, id)  == \E w \in DOMAIN m.wraps : m.wraps[w].id = id
KnownId(m, id) == IsEnt(m, id) \/ IsWrap(m, id)
ItemOf(m, id)  == IF IsEnt(m, id)
                  THEN m.els[CHOOSE i \in DOMAIN m.els : m.els[i].t = "ent" /\ m.els[i].id = id]
                  ELSE m.wraps[CHOOSE w \in DOMAIN m.wraps : m.wraps[w].id = id]

RtpsOk(m, d)    == m.rtps => (m.first = "srtps" \/ Exempt(d))
SubOk(m, id, d) == SubProt(m, d) => \E w \in WrappedBy(m, id) : m.wraps[w].key = d
PayOk(m, id, d) == LET it == ItemOf(m, id) IN
                   (PayProt(d) /\ HasPayload(it)) => (it.pay = "enc" /\ it.wr = d)
Allowed(m, id, d) == RtpsOk(m, d) /\ SubOk(m, id, d) /\ PayOk(m, id, d)

(***************************************************************************)
(* 3. MessageReceiver, per datagram (src/rtps/message_receiver.rs)         *)
(***************************************************************************)
NoEl == [t |-> "none", id |-> 0, kind |-> "na", dst |-> "na", wr |-> "na", pay |-> "na", form |-> "na", w |-> 0, who |-> "na"]
\* sec: "None" | "Prefix" | "Body"; pw: wrap of the stored prefix; pb: the stored submessage
St0(m) == [sec |-> "None", pw |-> 0, pb |-> NoEl, dstOK |-> TRUE, src |-> m.src]
SrcPeer(st) == st.src = "peer"                \* the source whose key material the plugins hold
Special(m) == m.rtps /\ m.first # "srtps"     \* must_be_rtps_protection_special_case

\* handle_writer_submessage / handle_reader_submessage: what passes to endpoint d
Handle(m, st, d, it) ==
  IF ~st.dstOK \/ d \notin Dests THEN {}
  ELSE IF Special(m) /\ ~Exempt(d) THEN {}
  ELSE IF HasPayload(it) /\ PayProt(d) /\ ~(it.pay = "enc" /\ it.wr = d /\ SrcPeer(st)) THEN {}   \* decode_serialized_payload
  ELSE IF it.kind = "DATA" /\ it.form \in {"DK", "0"} THEN {}   \* Reader::data_to_dds_data: ambiguous / no contents
  ELSE {<<it.id, d>>}

\* a plain entity submessage in state None (handle_submessage)
PlainEntity(m, st, it) ==
  IF it.kind \in WriterKinds
  THEN LET targets == IF it.dst = "UNKNOWN" THEN Cand(m, it.wr) ELSE {it.dst}
       \* the protection requirement is the one of EACH candidate reader
       IN UNION {IF ~SubProt(m, d) THEN Handle(m, st, d, it) ELSE {} : d \in targets}
  ELSE IF ~SubProt(m, it.dst) THEN Handle(m, st, it.dst, it) ELSE {}

\* handle_secure_submessage after a successful decode_submessage
SecureEntity(m, st, it) ==
  IF it.kind \in WriterKinds
  THEN IF it.dst = "UNKNOWN"
       THEN (IF it.key \in Cand(m, it.wr) THEN Handle(m, st, it.key, it) ELSE {})   \* candidate /\ crypto handle
       ELSE (IF it.dst = it.key THEN Handle(m, st, it.key, it) ELSE {})   \* confirm_local_endpoint_guid
  ELSE IF it.dst = it.key THEN Handle(m, st, it.key, it) ELSE {}

\* body of a wrap whose protection kind leaves the submessage readable (SIGN)
Visible(m, e) == e.t = "B" /\ e.w \in DOMAIN m.wraps /\ ~m.wraps[e.w].opaque

RecvStep(m, st, e) ==
  CASE st.sec = "None" ->
         IF e.t = "ent" THEN [st |-> st, del |-> PlainEntity(m, st, e)]
         ELSE IF Visible(m, e) THEN [st |-> st, del |-> PlainEntity(m, st, m.wraps[e.w])]
         ELSE IF e.t = "P" THEN [st |-> IF st.dstOK THEN [st EXCEPT !.sec = "Prefix", !.pw = e.w] ELSE st, del |-> {}]
         ELSE IF e.t = "idst" THEN [st |-> [st EXCEPT !.dstOK = (e.who \in {"self", "unknown"})], del |-> {}]
         ELSE IF e.t = "isrc" THEN [st |-> [st EXCEPT !.src = e.who], del |-> {}]
         ELSE [st |-> st, del |-> {}]
    [] st.sec = "Prefix" -> [st |-> [st EXCEPT !.sec = "Body", !.pb = e], del |-> {}]
    [] OTHER ->
         LET ok == /\ e.t = "F" /\ e.w = st.pw
                   /\ st.pb.t = "B" /\ st.pb.w = st.pw
                   /\ st.pw \in DOMAIN m.wraps
                   /\ SrcPeer(st)                     \* keys are looked up by source prefix
         IN [st  |-> [st EXCEPT !.sec = "None", !.pw = 0, !.pb = NoEl],
             del |-> IF ok THEN SecureEntity(m, st, m.wraps[st.pw]) ELSE {}]

\* receiver state before position i (1-based) of the datagram
RECURSIVE StBefore(_, _)
StBefore(m, i) == IF i = 1 THEN St0(m) ELSE RecvStep(m, StBefore(m, i - 1), m.els[i - 1]).st

(***************************************************************************)
(* deliveries the property demands ("traffic for endpoints whose topic     *)
(* needs no protection keeps flowing"): a plain submessage from a matched  *)
(* writer, addressed to this participant, to an endpoint that needs none   *)
(* of the protections (or whose domain-level requirement is met / exempt), *)
(* arriving while no secure-submessage sequence is open.                   *)
(*  - from the peer: its endpoint of topic d is matched to our endpoint of *)
(*    topic d (with or without reader id), whatever OTHER readers are      *)
(*    candidates for the same writer EntityId;                             *)
(*  - from the second participant: its writer with the EntityId of topic w *)
(*    is matched to reader d for <<d, w>> in m.xm; demanded only for       *)
(*    readers that need no protection at all (no key material exists for   *)
(*    that participant).                                                   *)
(* A DATA / DATAFRAG counts as such traffic in the well-formed shapes: a   *)
(* plain serialized sample or key (forms D, K) or a dispose by key hash    *)
(* (form Q); the invalid shapes DK / 0 are not demanded.                   *)
(***************************************************************************)
FlowDests(m, e, st) ==
  IF st.src = "peer"
  THEN LET d == IF e.dst = "UNKNOWN" THEN e.wr ELSE e.dst IN
       IF /\ d \in Dests /\ e.wr = d
          /\ ~SubProt(m, d)
          /\ (IsData(e.kind) => ~PayProt(d))
          /\ (e.kind \in {"HB", "GAP"} => d # "stateless")
          /\ (e.kind = "ACK" => e.dst # "UNKNOWN")
       THEN {d} ELSE {}
  ELSE IF st.src = "peer2" /\ e.kind \in WriterKinds
  THEN {d \in Dests \ {"stateless"} : /\ <<d, e.wr>> \in m.xm
                                       /\ e.dst \in {"UNKNOWN", d}
                                       /\ ~SubProt(m, d) /\ ~PayProt(d)}
  ELSE {}

MustFlow(m) ==
  IF m.first \notin {"plain", "srtps"} THEN {}
  ELSE UNION {{<<m.els[i].id, d>> : d \in {x \in FlowDests(m, m.els[i], StBefore(m, i)) : RtpsOk(m, x)}} :
          i \in {j \in DOMAIN m.els :
                   LET e  == m.els[j]
                       st == StBefore(m, j)
                   IN /\ e.t = "ent"
                      /\ st.sec = "None" /\ st.dstOK
                      /\ (IsData(e.kind) => ((e.form \in {"D", "K"} /\ e.pay = "plain")
                                              \/ (e.kind = "DATA" /\ e.form = "Q")))}}
=============================================================================
