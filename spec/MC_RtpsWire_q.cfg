SPECIFICATION Spec
CONSTANTS
  MaxSubs = 2
  Deep = FALSE
  GenK = 1
INVARIANT RoundTrip
INVARIANT LengthsAgree
ACTION_CONSTRAINT GenEdge
CHECK_DEADLOCK FALSE
