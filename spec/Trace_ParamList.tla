-------------------------- MODULE Trace_ParamList --------------------------
(***************************************************************************)
(* Trace validation for the `wire` driver, property C15.  One "Pl" line per*)
(* case executed on the REAL PL-CDR (de)serialisers: which optional fields *)
(* were set, which parameters were taken out of the byte stream, how many  *)
(* foreign parameters were spliced in, and per field what came back        *)
(* ("value" / "none" / "default" / "other").  ParamList.tla's schema tables*)
(* and Expected are the oracle.                                            *)
(* Known deviation Y1 (KNOWN only if the environment lists it): the three  *)
(* RPC fields of PublicationBuiltinTopicData are sent but never read back. *)
(***************************************************************************)
EXTENDS Integers, Sequences, FiniteSets, TLC, Json, IOUtils

P == INSTANCE ParamList WITH Types <- {}, GenK <- 0, DumpSchema <- FALSE, cs <- 0

Rec == ndJsonDeserialize(IOEnv.TRACE)
KnownY1 == IOEnv.KNOWN_C15_Y1 = "1"

VARIABLES l, run, viol, known
tvars == <<l, run, viol, known>>

ToSet(s) == {s[i] : i \in DOMAIN s}
If(c, name) == IF c THEN {name} ELSE {}
TraceInit == l = 1 /\ run = 0 /\ viol = {} /\ known = {}

Y1Fields == {"service_instance_name", "related_datareader_key", "topic_aliases"}

PlStep(e) ==
  LET T == e.ty
      Pr == ToSet(e.present)
      Rm == ToSet(e.removed)
      ok == e.ser_ok /\ e.wire_ok /\ e.de_ok
      S == P!Schemas[T]
      ent(f) == S[CHOOSE i \in DOMAIN S : S[i].f = f]
      exp(f) == P!ExpectedOf(ent(f), Pr, Rm)
      got(f) == IF f \in DOMAIN e.got THEN e.got[f] ELSE "missing"
      bad == IF ok THEN {S[i].f : i \in {j \in DOMAIN S : got(S[j].f) # P!ExpectedOf(S[j], Pr, Rm)}} ELSE {}
      y1 == IF KnownY1 /\ T = "dwd" THEN {f \in bad \cap Y1Fields : exp(f) = "value" /\ got(f) = "none"} ELSE {}
      rest == bad \ y1
      (* every parameter the serialiser emitted belongs to the schema (nothing a peer cannot attribute) *)
      alien == {x \in ToSet(e.emitted) : \A i \in DOMAIN S : x \notin ToSet(S[i].pids)}
  IN /\ viol' = viol
          \cup If(~e.ser_ok, "C15_serialisation_failed")
          \cup If(e.ser_ok /\ ~e.wire_ok, "C15_parameter_list_malformed")
          \cup If(e.ser_ok /\ e.wire_ok /\ ~e.de_ok, "C15_valid_parameter_list_rejected")
          \cup If(\E f \in rest : exp(f) = "value", "C15_present_field_did_not_survive")
          \cup If(\E f \in rest : exp(f) = "none", "C15_absent_field_not_absent")
          \cup If(\E f \in rest : exp(f) = "default", "C15_absent_parameter_did_not_yield_default")
          \cup If(rest # {} /\ e.nforeign > 0 /\ e.removed = <<>>, "C15_unknown_parameter_disturbed_known_field")
          \cup If(ok /\ alien # {}, "C15_parameter_outside_schema_emitted")
     /\ known' = known \cup If(y1 # {}, "C15_Y1_writer_rpc_fields_not_read_back")

Step ==
  /\ l <= Len(Rec)
  /\ l' = l + 1
  /\ LET e == Rec[l] IN
     CASE e.ev = "Reset" -> run' = e.run /\ viol' = {} /\ known' = {}
       [] e.ev = "Pl" -> PlStep(e) /\ UNCHANGED run
       [] e.ev = "Skip" -> UNCHANGED <<run, viol, known>>
  /\ (viol' # viol /\ viol' # {}) =>
        PrintT("VIOL line=" \o ToString(l) \o " run=" \o ToString(run') \o " clauses=" \o ToString(viol' \ viol))
  /\ (known' # known /\ known' # {}) =>
        PrintT("KNOWN line=" \o ToString(l) \o " run=" \o ToString(run') \o " clauses=" \o ToString(known' \ known))

TraceSpec == TraceInit /\ [][Step]_tvars

TraceAccepted ==
  LET d == TLCGet("stats").diameter IN
  IF d = Len(Rec) + 1 THEN PrintT("TRACE-OK events=" \o ToString(Len(Rec)))
  ELSE PrintT("TRACE-STUCK line=" \o ToString(d)) /\ PrintT(Rec[d]) /\ FALSE
==========================================================================
