---------------------------- MODULE SampleCache ----------------------------
(***************************************************************************)
(* Implementation-shaped model of the receive side of a DataReader:        *)
(*   with_key/datasample_cache.rs  DataSampleCache: datasamples ordered by *)
(*        reception time, instance_map (instance_samples, instance_state,  *)
(*        latest_generation_available, last_generation_accessed),          *)
(*        add_sample (+ History eviction), select_keys_for_access,         *)
(*        select_instance_keys_for_access, sample_selector,                *)
(*        sort_by_sequence_number, make_sample_info, read_by_keys,         *)
(*        take_by_keys, mark_instances_viewed, next_key                    *)
(*   with_key/datareader.rs  read / take / read_next_sample /              *)
(*        take_next_sample / read_instance / take_instance (infer_key):    *)
(*        every form first moves what the RTPS reader has handed over into *)
(*        the cache (fill), then selects, truncates to max, accesses.      *)
(* One action per arriving change and per call.  What a call returns is    *)
(* computed by the model and judged by the observers of SampleCacheAbs, so *)
(* TLC decides the clauses of C08 for every sequence of arrivals (values   *)
(* and disposes of several instances from two writers) and calls within    *)
(* the bound; `trail` records the sequence for replay on the real          *)
(* DataReader.  (Arrivals are in order per writer and the reader is        *)
(* best-effort, so hand-over order = reception order; retransmissions,     *)
(* unintelligible changes and the stream forms are added by the random     *)
(* runs of the cache driver.)                                              *)
(***************************************************************************)
EXTENDS SampleCacheAbs, Json, SequencesExt

CONSTANTS Keys, Writers,
          Depth0,      \* 0 KeepAll, d KeepLast(d)
          MaxArr, MaxSteps,
          Forms,       \* subset of {"take","read","take_next","read_next","take_inst","read_inst"}
          Kinds,       \* subset of {"V", "D", "X", "KD"}: values, disposes by key, unintelligible changes (C09); "KD" (un-keyed
                       \* topic only): DATA with the key flag, a dispose that the un-keyed reader cannot show
          NoKey,       \* the reader is the wrapper for an un-keyed topic (no_key::DataReader): one instance, the keyed
                       \* reader underneath takes the disposes out of the cache, the wrapper drops them from the result
          Retransmit,  \* a reliable reader; a change may be lost and arrive after the writer's next one (lower sequence
                       \* number received later): the cache is ordered by reception time, the result by sequence number
          GenK

VARIABLES
  pend,      \* Seq of ids handed over by the RTPS reader, not yet moved into the cache
  cache,     \* ids in datasamples
  readf,     \* ids with sample_has_been_read
  sgen,      \* id -> generation snapshot taken when the sample was added
  iState,    \* key -> "A" | "D"      instance_map: instance_state
  iGen,      \* key -> latest_generation_available
  iAcc,      \* key -> last_generation_accessed (-1: never)
  iSamples,  \* key -> ids in instance_samples (entries of taken samples stay until evicted)
  nextSn,    \* writer -> next sequence number
  rts,       \* id -> position in the order of reception (the cache key; = id unless retransmitted)
  nkd,       \* ids of key-only DATA on the un-keyed topic: samples of kind Dispose to the keyed reader underneath
  steps, trail

implVars == <<pend, cache, readf, sgen, iState, iGen, iAcc, iSamples, nextSn, rts, nkd>>
vars == <<scVars, implVars, steps, trail>>

Lt(a, b) == a < b
FPut(f, k, v) == [x \in DOMAIN f \cup {k} |-> IF x = k THEN v ELSE f[x]]
SMinOf(S) == CHOOSE x \in S : \A y \in S : x <= y
\* the n entries of S received first
RECURSIVE SmallestN(_, _)
SmallestN(S, n) == IF n <= 0 \/ S = {} THEN {} ELSE LET m == CHOOSE x \in S : \A y \in S : rts[x] <= rts[y]
                                                     IN {m} \cup SmallestN(S \ {m}, n - 1)

Init ==
  /\ SCInit(Depth0)
  /\ taken = {} /\ wasRead = {} /\ seenOut = {} /\ errs = 0 /\ fzRead = {} /\ fzTaken = {} /\ viol = {}
  /\ pend = <<>> /\ cache = {} /\ readf = {} /\ sgen = <<>>
  /\ iState = <<>> /\ iGen = <<>> /\ iAcc = <<>> /\ iSamples = <<>>
  /\ nextSn = [w \in Writers |-> 1] /\ rts = <<>> /\ nkd = {}
  /\ steps = 0 /\ trail = <<>>

Log(a) == steps' = steps + 1 /\ trail' = Append(trail, a)

(* ------------------------------------------------------- a change arrives *)
Arrive(w, k, kind) ==
  /\ Len(arr) < MaxArr
  /\ (kind = "KD") => NoKey
  \* to the application of an un-keyed topic a key-only DATA is a change that cannot be turned into a sample
  /\ AbsArrive(w, nextSn[w], k, IF kind = "KD" THEN "X" ELSE kind, TRUE)
  /\ pend' = Append(pend, Len(arr) + 1)
  /\ nextSn' = [nextSn EXCEPT ![w] = @ + 1]
  /\ rts' = FPut(rts, Len(arr) + 1, Len(arr) + 1)
  /\ nkd' = IF kind = "KD" THEN nkd \cup {Len(arr) + 1} ELSE nkd
  /\ UNCHANGED <<cache, readf, sgen, iState, iGen, iAcc, iSamples>>
  /\ Log([a |-> "Arrive", w |-> w, k |-> k, kind |-> CASE kind = "V" -> "V" [] kind = "D" -> "DK" [] kind = "KD" -> "KD" [] OTHER -> "UD", hold |-> FALSE])

\* Two consecutive changes of one writer; the first is lost and retransmitted after the second.  The reliable reader
\* hands both over only when the first has arrived, in sequence-number order; the cache keeps them by reception time.
ArrivePair(w, k1, kind1, k2, kind2) ==
  /\ Retransmit /\ Len(arr) + 1 < MaxArr
  /\ LET n == Len(arr)
         g1 == Get(dgen, k1, 0) + (IF kind1 = "V" /\ Get(ist, k1, "none") = "D" THEN 1 ELSE 0)
         ist1 == Put(ist, k1, IF kind1 = "V" THEN "A" ELSE "D")
         dgen1 == Put(dgen, k1, g1)
         g2 == Get(dgen1, k2, 0) + (IF kind2 = "V" /\ Get(ist1, k2, "none") = "D" THEN 1 ELSE 0)
     IN /\ arr' = arr \o << [w |-> w, sn |-> nextSn[w], k |-> k1, kind |-> kind1, gen |-> g1, ord |-> TRUE],
                             [w |-> w, sn |-> nextSn[w] + 1, k |-> k2, kind |-> kind2, gen |-> g2, ord |-> FALSE] >>
        /\ ist' = Put(ist1, k2, IF kind2 = "V" THEN "A" ELSE "D")
        /\ dgen' = Put(dgen1, k2, g2)
        /\ rts' = FPut(FPut(rts, n + 1, n + 2), n + 2, n + 1)
        /\ pend' = pend \o <<n + 1, n + 2>>
  /\ nextSn' = [nextSn EXCEPT ![w] = @ + 2]
  /\ UNCHANGED <<depth, lastAcc, accHi, taken, wasRead, seenOut, errs, fzRead, fzTaken, viol>>
  /\ UNCHANGED <<cache, readf, sgen, iState, iGen, iAcc, iSamples, nkd>>
  /\ steps' = steps + 1
  /\ trail' = trail \o << [a |-> "Arrive", w |-> w, k |-> k1, kind |-> IF kind1 = "V" THEN "V" ELSE "DK", hold |-> TRUE],
                           [a |-> "Arrive", w |-> w, k |-> k2, kind |-> IF kind2 = "V" THEN "V" ELSE "DK", hold |-> FALSE] >>

(* ------------------------------------- DataSampleCache::add_sample, folded *)
\* st = [cache, sgen, iState, iGen, iAcc, iSamples]; id is in arr (arr' when called from a call after arrivals)
AddSample(st, id) ==
  LET k == arr[id].k
      newState == IF arr[id].kind = "V" THEN "A" ELSE "D"
      fresh == k \notin DOMAIN st.iState
      oldState == IF fresh THEN newState ELSE st.iState[k]
      g0 == IF fresh THEN 0 ELSE st.iGen[k]
      g == IF oldState = "D" /\ newState = "A" THEN g0 + 1 ELSE g0          \* born again
      smp == (IF fresh THEN {} ELSE st.iSamples[k]) \cup {id}
      \* History: KeepLast(d) evicts the oldest entries of instance_samples beyond d
      nrem == IF Depth0 = 0 THEN 0 ELSE Cardinality(smp) - Depth0
      gone == SmallestN(smp, nrem)
  IN [cache    |-> (st.cache \cup {id}) \ gone,
      sgen     |-> FPut(st.sgen, id, g),
      iState   |-> FPut(st.iState, k, newState),
      iGen     |-> FPut(st.iGen, k, g),
      iAcc     |-> IF fresh THEN FPut(st.iAcc, k, -1) ELSE st.iAcc,
      iSamples |-> FPut(st.iSamples, k, smp \ gone)]

\* fill_and_lock_local_datasample_cache: `while let Some(c) = try_take_one()? { add }` - a change that cannot be turned
\* into a sample ends the call with an error; it has been consumed, what was added before it stays added, what is
\* behind it waits for the next call.  Returns <<state, number of ids consumed, error>>
RECURSIVE Fill(_, _, _)
Fill(st, ids, i) ==
  IF i > Len(ids) THEN <<st, Len(ids), FALSE>>
  ELSE IF arr[ids[i]].kind = "X" /\ ids[i] \notin nkd THEN <<st, i, TRUE>>
  ELSE Fill(AddSample(st, ids[i]), ids, i + 1)

(* ----------------------------------------------------------------- a call *)
\* sort_by_sequence_number: a stable sort by sequence number alone (of whatever writer)
SnLt(a, b) == arr[a].sn < arr[b].sn \/ (arr[a].sn = arr[b].sn /\ rts[a] < rts[b])

Selected(st, cond, scopeKey) ==          \* scopeKey = -1: all instances
  LET S == {i \in st.cache : (cond = "any" \/ i \notin readf) /\ (scopeKey = -1 \/ arr[i].k = scopeKey)}
  IN SetToSortSeq(S, SnLt)

\* DataReader::infer_key
InferKey(st, inst, dir) ==
  LET ks == DOMAIN st.iState IN
  IF inst = -1 THEN (IF ks = {} THEN -2 ELSE SMinOf(ks))
  ELSE IF dir = "this" THEN inst
  ELSE LET gt == {k \in ks : k > inst} IN IF gt = {} THEN -2 ELSE SMinOf(gt)

Info(st, id) ==
  LET k == arr[id].k IN
  [id |-> id, w |-> arr[id].w, sn |-> arr[id].sn, k |-> k, kind |-> arr[id].kind,
   ss |-> IF id \in readf THEN "R" ELSE "N",
   vs |-> IF st.sgen[id] > st.iAcc[k] THEN "N" ELSE "NN",
   is |-> st.iState[k], dg |-> st.sgen[id], ng |-> 0]

Call(form, max, cond, inst, dir) ==
  /\ form \in Forms
  /\ LET instForm == form \in {"take_inst", "read_inst"}
         removing == form \in {"take", "take_next", "take_inst", "nk_take", "nk_take_next"}
         effMax  == IF form \in {"take_next", "read_next", "nk_take_next"} THEN 1 ELSE max
         effCond == IF form \in {"take_next", "read_next", "nk_take_next"} THEN "notread" ELSE cond
         nk == form \in {"nk_take", "nk_read", "nk_take_next"}
         st0 == [cache |-> cache, sgen |-> sgen, iState |-> iState, iGen |-> iGen, iAcc |-> iAcc, iSamples |-> iSamples]
         fl == Fill(st0, pend, 1)
         st == fl[1]
         err == fl[3]
         key == IF instForm THEN InferKey(st, inst, dir) ELSE -1
         sel == IF key = -2 \/ err THEN <<>> ELSE Selected(st, effCond, key)
         keysq == SubSeq(sel, 1, IF Len(sel) < effMax THEN Len(sel) ELSE effMax)
         ids == {keysq[i] : i \in DOMAIN keysq}
         out0 == [i \in DOMAIN keysq |-> Info(st, keysq[i])]
         \* no_key::DataReader: `if let Some(s) = DataSample::from_with_key(ks) { result.push(s) }` - the disposes were
         \* counted against max and have left the cache (or are marked read), but are not shown
         out == IF nk THEN SelectSeq(out0, LAMBDA o : o.id \notin nkd) ELSE out0
         \* mark_instances_viewed: the highest generation accessed per instance, forward only
         accK == {arr[i].k : i \in ids}
         newAcc == [k \in DOMAIN st.iAcc |->
                      IF k \in accK
                        THEN LET g == SMax({st.sgen[i] : i \in {j \in ids : arr[j].k = k}})
                             IN IF g > st.iAcc[k] THEN g ELSE st.iAcc[k]
                        ELSE st.iAcc[k]]
     IN /\ pend' = SubSeq(pend, fl[2] + 1, Len(pend))
        /\ cache' = IF removing THEN st.cache \ ids ELSE st.cache
        /\ readf' = IF removing THEN readf ELSE readf \cup ids
        /\ sgen' = st.sgen /\ iState' = st.iState /\ iGen' = st.iGen /\ iSamples' = st.iSamples
        /\ iAcc' = newAcc
        \* un-keyed: no SampleInfo judged, no view state, and no completeness (take(1) may come back empty in front of a value)
        /\ AbsCall(IF err THEN "err" ELSE "ok", out, effMax, effCond, IF instForm THEN <<dir, inst>> ELSE <<"all", -1>>,
                   removing, ~removing, ~nk, ~nk, ~nk)
  /\ UNCHANGED <<nextSn, rts, nkd>>
  /\ Log([a |-> "Call", form |-> form, max |-> max, cond |-> cond, inst |-> inst, dir |-> dir])

Next ==
  \/ \E w \in Writers, k \in Keys, kind \in Kinds : Arrive(w, k, kind)
  \/ \E w \in Writers, k1, k2 \in Keys, kind1, kind2 \in Kinds \ {"X"} : ArrivePair(w, k1, kind1, k2, kind2)
  \/ \E form \in Forms, max \in {1, 1000}, cond \in {"any", "notread"} :
       \/ form \in {"take", "read", "nk_take", "nk_read"} /\ Call(form, max, cond, -1, "this")
       \/ form = "nk_take_next" /\ max = 1 /\ cond = "notread" /\ Call(form, 1, "notread", -1, "this")
       \/ form \in {"take_next", "read_next"} /\ max = 1 /\ cond = "notread" /\ Call(form, 1, "notread", -1, "this")
       \/ form \in {"take_inst", "read_inst"} /\ \E inst \in Keys \cup {-1}, dir \in {"this", "next"} :
            (inst = -1 => dir = "this") /\ Call(form, max, cond, inst, dir)

Spec == Init /\ [][Next]_vars
Bound == steps <= MaxSteps
View == <<scVars, implVars, steps>>

\* refinement facts relating the code's bookkeeping to the abstract state
Inv_CacheIsAvailable == cache \subseteq (DOMAIN arr) \ taken
Inv_ReadFlags == (readf \cap cache) \ nkd = wasRead \cap cache
\* C09 as a state property of the model: whatever is intelligible and behind no unconsumed change is in the cache or was
\* handed out (nothing is lost behind a bad change)
Inv_NothingLostBehindBadChange ==
  \A i \in DOMAIN arr : (arr[i].kind # "X" /\ i \notin {pend[j] : j \in DOMAIN pend} /\ Depth0 = 0) => (i \in cache \/ i \in taken)
Inv_InstanceState == (pend = <<>> /\ ~NoKey) => (DOMAIN iState = DOMAIN ist /\ \A k \in DOMAIN iState : iState[k] = ist[k] /\ iGen[k] = dgen[k])

GenEdge == (GenK > 0 /\ RandomElement(1..GenK) = 1) =>
             PrintT("REPLAY " \o ToJson([reliable |-> Retransmit, depth |-> Depth0, mode |-> IF NoKey THEN "nk_dr" ELSE "dr", acts |-> trail']))
=============================================================================
