SPECIFICATION Spec
CONSTANTS
  Writers = {1,2}
  MaxSN = 2
  FragSNs = {2}
  MaxSteps = 5
  Reliable = TRUE
  HostileClasses = {}
  HostileMatched = FALSE
  GenK = 200
CONSTRAINT Bound
VIEW View
INVARIANT Inv_NoViolation
INVARIANT Inv_Order
INVARIANT Inv_AckBaseIsLowestUnknown
ACTION_CONSTRAINT GenEdge
CHECK_DEADLOCK FALSE
