SPECIFICATION Spec
CONSTANTS
  MaxAtk = 3
  Fix = {"S7", "S13", "S14"}
  Known = {}
  Gen = FALSE
  StripProps = {"hash_c1", "hash_c2"}
  Weak = {}
  GuidBytes = {}
  Vias = {"disc", "api"}
INVARIANT Inv_NoViolation
INVARIANT Inv_SecretsAgree
PROPERTY Live
CHECK_DEADLOCK FALSE
