SPECIFICATION Spec
CONSTANTS
  Writers = {1}
  MaxSN = 2
  FragSNs = {2}
  MaxSteps = 4
  Reliable = TRUE
  HostileClasses = {"hb_last_2e62", "hb_min_max", "hb_first_gt_last", "hb_count_max", "gap_start_zero", "gap_base_below_start", "gap_numbits_300", "data_sn_zero", "data_sn_max", "data_flags_dk", "data_otiq_huge", "data_inlineqos_len_huge", "data_keyhash_short", "data_cdr_len_huge", "frag_start_gt_total", "frag_count_65535", "frag_size_inconsistent", "frag_payload_long", "mangle_truncate_all", "mangle_otnh_large", "mangle_empty_body"}
  HostileMatched = FALSE
  GenK = 12
CONSTRAINT Bound
VIEW View
INVARIANT Inv_NoViolation
INVARIANT Inv_Order
INVARIANT Inv_AckBaseIsLowestUnknown
ACTION_CONSTRAINT GenEdge
CHECK_DEADLOCK FALSE
