----------------------------- MODULE CryptoKeys -----------------------------
(***************************************************************************)
(* C16 - protected traffic decodes only for its intended receiver and only *)
(* if untouched.  Symbolic model of up to three CryptographicBuiltin       *)
(* instances (CryptoKeyFactory / CryptoKeyExchange / CryptoTransform).     *)
(* One action per plugin call:                                             *)
(*   RegLocal(p)        register_local_participant + _datawriter/_reader   *)
(*   MatchPart(p,q)     register_matched_remote_participant                *)
(*   MatchEp(p,q)       register_matched_remote_datareader / _datawriter   *)
(*   Tokens(p,q,d)      create_local_*_crypto_tokens(p for q), delivered   *)
(*                      to d: set_remote_*_crypto_tokens (d # q: astray)   *)
(*   Encode(p,to,..)    encode_serialized_payload / _submessage / _rtps_   *)
(*                      message followed by Frame (DATA pads, DATAFRAG     *)
(*                      does not)                                          *)
(*   Decode(r,s,c,t)    tamper class t applied to the bytes of c, then     *)
(*                      decode_* at r with the handle r has for s          *)
(* The configuration (level, sign/encrypt, origin authentication, key      *)
(* length, direction, protection of the endpoint level NOT under test:     *)
(* same kind / none / the other kind - the latter two give a writer two    *)
(* key materials with two key ids) is chosen in Init.  The registration space is finite *)
(* (every call at most once per pair), so TLC enumerates all registration  *)
(* orders, all missing registrations, all stray token deliveries, all      *)
(* receiver lists and every tamper class; `trail` records the calls for    *)
(* replay on the real plugins.                                             *)
(* Second strengthening round: the plugins in Eps2 own a SECOND endpoint   *)
(* (entity id p + 10, see CryptoAbs) of the same kind and attributes as    *)
(* the first, registered by the same RegLocal.  At the endpoint levels     *)
(* MatchEp / Tokens / Encode / Decode range over ENTITIES: a sender can be *)
(* matched with both endpoints of a receiving participant (one receiver-   *)
(* specific key each), address any subset of them, tokens can go astray    *)
(* between the two, and each of them decodes for itself.                   *)
(***************************************************************************)
EXTENDS CryptoAbs, TLC, Json

CONSTANTS Senders, Receivers,   \* disjoint subsets of P
          Levels, Kinds, OAs, K256s, Dirs,
          Others,               \* protection of the endpoint level not under test: subset of {"same", "none", "diff"}
          Astray,               \* TRUE: tokens may be delivered to the wrong plugin
          LooseKid,             \* FALSE: the lookup of the code.  TRUE: deliberately wrong lookup (negative control, MC_CryptoKeys_neg.cfg)
          Eps2,                 \* subset of Receivers: the plugins that own a second endpoint (entity p + 10)
          LooseList,            \* FALSE: the release rule of the code.  TRUE: deliberately wrong rule (negative control, MC_CryptoKeys_neg2.cfg)
          GenK,                 \* print every GenK-th explored edge as a replay (0: none)
          GenC,                 \* ... but every GenC-th edge that alters bytes an authorised receiver would have decoded
          GenS                  \* ... and every GenS-th edge on which r holds the sender's key and ANOTHER endpoint of r's participant decodes the bytes (0: treat as the rest)

VARIABLES cfg, local, mpart, mep, dk, ct, trail
vars == <<cfg, local, mpart, mep, dk, ct, trail>>
View == <<cfg, local, mpart, mep, dk, ct>>

Pairs == (Senders \X Receivers) \cup (Receivers \X Senders)       \* participant level
RecvEnts == Receivers \cup {Ep2(r) : r \in Eps2}                   \* receiving entities of the endpoint levels
EPairs == (Senders \X RecvEnts) \cup (RecvEnts \X Senders)         \* endpoint level
Cfgs == {c \in [lvl : Levels, kind : Kinds, oa : OAs, k256 : K256s, dir : Dirs, other : Others] :
            /\ (c.lvl = "payload" => ~c.oa /\ c.dir = "w2r")    \* no receiver-specific MACs on payloads; only writers send payloads
            /\ (c.lvl = "msg" => c.dir = "w2r")}                 \* direction is immaterial for participants

Init ==
  /\ cfg \in Cfgs
  /\ local = {} /\ mpart = {} /\ mep = {}
  /\ dk = [x \in EPairs |-> 0]
  /\ ct = <<>>
  /\ trail = <<>>

Log(a) == trail' = Append(trail, a)

\* matched at the level whose keys are under test
MatchedAtLevel(p, q) == IF IsMsg(cfg) THEN <<p, q>> \in mpart ELSE <<p, q>> \in mep
\* the receiving entities of the level under test (second endpoints play no part at message level)
LevelRecv == IF IsMsg(cfg) THEN Receivers ELSE RecvEnts

RegLocal(p) ==
  /\ p \notin local
  /\ local' = local \cup {p}
  /\ Log([a |-> "RegLocal", p |-> p])
  /\ UNCHANGED <<cfg, mpart, mep, dk, ct>>

MatchPart(p, q) ==
  /\ <<p, q>> \in Pairs /\ p \in local /\ <<p, q>> \notin mpart
  /\ mpart' = mpart \cup {<<p, q>>}
  /\ Log([a |-> "MatchPart", p |-> p, q |-> q])
  /\ UNCHANGED <<cfg, local, mep, dk, ct>>

MatchEp(p, q) ==
  /\ ~IsMsg(cfg)                                   \* endpoints play no part at message level
  /\ <<p, q>> \in EPairs
  /\ <<PluginOf(p), PluginOf(q)>> \in mpart /\ <<p, q>> \notin mep
  /\ mep' = mep \cup {<<p, q>>}
  /\ Log([a |-> "MatchEp", p |-> p, q |-> q])
  /\ UNCHANGED <<cfg, local, mpart, dk, ct>>

\* only senders' tokens matter for decoding what they send
Tokens(p, q, d) ==
  /\ p \in Senders /\ q \in LevelRecv /\ d \in LevelRecv
  /\ (d # q => Astray)
  /\ MatchedAtLevel(p, q)            \* p has receiver-specific encode material for q
  /\ MatchedAtLevel(d, p)            \* d has a handle for p
  /\ dk[<<d, p>>] = 0                \* a second set_remote_*_tokens is refused by the plugin
  /\ dk' = [dk EXCEPT ![<<d, p>>] = q]
  /\ Log([a |-> "Tokens", t |-> IF IsMsg(cfg) THEN "part" ELSE "ep", p |-> p, q |-> q, d |-> d])
  /\ UNCHANGED <<cfg, local, mpart, mep, ct>>

Encode(p, to, frame, al) ==
  /\ Len(ct) < 1
  /\ p \in Senders /\ p \in local
  /\ to \subseteq LevelRecv
  /\ (cfg.lvl = "payload") = (to = {})             \* payloads are not addressed
  /\ \A q \in to : MatchedAtLevel(p, q)
  /\ (cfg.dir = "r2w" => frame = "data")           \* an ACKNACK travels: no DATA/DATAFRAG choice
  /\ ((cfg.lvl # "payload" /\ frame = "data") => al)  \* alignment of the user payload matters for the Frame step of payloads and for DATAFRAG
  /\ ct' = Append(ct, [p |-> p, to |-> to, frame |-> frame, al |-> al])
  /\ Log([a |-> "Encode", c |-> Len(ct) + 1, p |-> p, to |-> to, frame |-> frame, al |-> al])
  /\ UNCHANGED <<cfg, local, mpart, mep, dk>>

Held(r, s) == IF <<r, s>> \in EPairs THEN dk[<<r, s>>] ELSE 0
EpInfo(r, s) == <<r, s>> \in mep

\* who may be asked to decode: every plugin, and at the endpoint levels every second endpoint
DecEnts == P \cup (IF IsMsg(cfg) THEN {} ELSE {Ep2(r) : r \in Eps2})
\* the other endpoints of r's participant
Sibs(r) == {x \in DecEnts : PluginOf(x) = PluginOf(r) /\ x # r}
\* the code's decision for x alone on the untouched bytes
Alone(x, s, c) == ImplDecode(LooseKid, FALSE, FALSE, cfg, Senders, ct[c], x, s, Held(x, s), EpInfo(x, s), "none")
SibOk(r, s, c) == \E x \in Sibs(r) : Alone(x, s, c) = "plain"
Impl(r, s, c, t) == ImplDecode(LooseKid, LooseList, SibOk(r, s, c), cfg, Senders, ct[c], r, s, Held(r, s), EpInfo(r, s), t)
Applicable(r, s, c) == Tampers(cfg, Senders, local, ct[c], r, s, Held(r, s))

Decode(r, s, c, t) ==
  /\ r \in DecEnts /\ s \in Senders /\ PluginOf(r) # s /\ PluginOf(r) # ct[c].p
  /\ t \in Applicable(r, s, c)
  /\ Log([a |-> "Decode", r |-> r, s |-> s, c |-> c, t |-> t,
          expect |-> Impl(r, s, c, t),
          base |-> Impl(r, s, c, "none"),        \* what the same call yields on the unaltered bytes
          \* the participant's release list has several candidates and is not empty: r holds decode material
          \* for s, and the same bytes, unaltered, decode for a sibling endpoint of r
          sib |-> (Held(r, s) # 0 /\ SibOk(r, s, c))])
  /\ UNCHANGED <<cfg, local, mpart, mep, dk, ct>>

Next ==
  \/ \E p \in Senders \cup Receivers : RegLocal(p)
  \/ \E x \in Pairs : MatchPart(x[1], x[2])
  \/ \E x \in EPairs : MatchEp(x[1], x[2])
  \/ \E p \in Senders, q, d \in RecvEnts : Tokens(p, q, d)
  \/ \E p \in Senders, to \in SUBSET RecvEnts, frame \in {"data", "frag"}, al \in BOOLEAN : Encode(p, to, frame, al)
  \/ \E r \in P \cup {Ep2(x) : x \in Eps2}, s \in Senders, c \in DOMAIN ct, t \in AllT : Decode(r, s, c, t)

Spec == Init /\ [][Next]_vars

(***************************************************************************)
(* Invariants: the decision procedure of the code yields data exactly when *)
(* the property allows it - for every receiver, claimed sender, ciphertext *)
(* and tamper class of every reachable registration state - except for the *)
(* named deviation S10.                                                    *)
(***************************************************************************)
Cases == {x \in DecEnts \X Senders \X (DOMAIN ct) \X AllT :
            /\ PluginOf(x[1]) # x[2]
            /\ PluginOf(x[1]) # ct[x[3]].p
            /\ x[4] \in Applicable(x[1], x[2], x[3])}
Out(x) == Impl(x[1], x[2], x[3], x[4])
Auth(x) == Authorized(cfg, ct[x[3]], x[2], Held(x[1], x[2]), x[4])

Inv_TamperedNeverDecodes   == \A x \in Cases : x[4] \in MustReject => Out(x) = "nodata"
Inv_NoKeyNoData            == \A x \in Cases : ~HoldsKey(Held(x[1], x[2])) => Out(x) = "nodata"
Inv_ForeignKeyNoData       == \A x \in Cases : ~SameKeyMaterial(ct[x[3]], x[2]) => Out(x) = "nodata"
Inv_NoMacForMeNoData       == \A x \in Cases : ~MacForMe(cfg, ct[x[3]], Held(x[1], x[2])) => Out(x) = "nodata"
Inv_AuthorisedDecodes      == \A x \in Cases : Auth(x) /\ ~DevS10(cfg, ct[x[3]]) => Out(x) = "plain"
\* the deviation really is one (this invariant documents S10; it fails when the deviation is removed from ImplDecode)
Inv_S10IsADeviation        == \A x \in Cases : Auth(x) /\ DevS10(cfg, ct[x[3]]) => Out(x) = "nodata"
\* strengthening round: a header key id overwritten with the id of ANOTHER existing key (sibling level of the same
\* sender, other entity level, receiver-specific key, another sender, the receiver itself, zero) never yields data
Inv_KeyIdOfAnotherKeyNoData == \A x \in Cases : x[4] \in KidT => Out(x) = "nodata"
\* second strengthening round: Inv_NoMacForMeNoData now also says that what one endpoint of a participant may decode
\* never opens the door for its sibling (Cases ranges over both endpoints of the plugins in Eps2); the negative
\* control MC_CryptoKeys_neg2.cfg (LooseList = TRUE) violates it
\* vacuity guards are in MC_CryptoKeys_*.cfg as "never" properties checked by hand, see NOTES

\* every edge on which the model says "plain" is replayed; alterations of bytes that the receiver would
\* otherwise have decoded (the alteration is the ONLY reason for "no data") are sampled 1 : GenC,
\* the others 1 : GenK
GenEdge == LET a == trail'[Len(trail')] IN
           (GenK > 0 /\ a.a = "Decode" /\
              (\/ a.expect = "plain"
               \/ (a.base = "plain" /\ RandomElement(1..GenC) = 1)
               \/ (GenS > 0 /\ a.sib /\ RandomElement(1..GenS) = 1)
               \/ RandomElement(1..GenK) = 1)) =>
             PrintT("REPLAY " \o ToJson([cfg |-> cfg, senders |-> Senders, eps2 |-> Eps2, acts |-> trail']))
=============================================================================
