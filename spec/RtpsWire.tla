------------------------------ MODULE RtpsWire ------------------------------
(***************************************************************************)
(* C14 -- framing of RTPS messages (RTPS 2.5 section 9.4.5).               *)
(*                                                                         *)
(* A message is a sequence of submessage SHAPES.  A shape fixes exactly    *)
(* what decides framing: kind, flags, presence and value lengths of the    *)
(* inline-QoS parameters, presence and length of the serialized payload,   *)
(* numBits of a sequence/fragment number set, number of locators.  Field   *)
(* VALUES are abstracted to labelled 4-byte words (every RTPS submessage   *)
(* element is a whole number of words once padded; the two 16-bit pairs    *)
(* extraFlags/octetsToInlineQos, pid/length and fragmentsInSubmessage/     *)
(* fragmentSize share a word).                                             *)
(*                                                                         *)
(*   Encode(m, le)  the word stream RTPS prescribes for m                  *)
(*   Decode(ws)     a reader that knows ONLY the stream: it walks by       *)
(*                  octetsToNextHeader, interprets flags, octetsToInlineQos,*)
(*                  parameter lengths, the sentinel and numBits            *)
(*   Canon(m, le)   what a reader is entitled to recover (parameter values *)
(*                  and payload up to the padding to 4)                    *)
(*                                                                         *)
(* Invariant RoundTrip: Decode(Encode(m, le)) = Canon(m, le) and every     *)
(* word is read as the field it was written as, for every message of the   *)
(* bound.  The same operators (BodyLen, Flags, Otiq, ParamLens, PayLen)    *)
(* are the framing oracle of Trace_RtpsWire.tla for the bytes the real     *)
(* code writes; the explored messages are dumped as REPLAY lines and       *)
(* instantiated by the `wire` driver.                                      *)
(***************************************************************************)
EXTENDS Integers, Sequences, FiniteSets, TLC, Json

CONSTANTS MaxSubs,   \* submessages per message
          Deep,      \* TRUE: full shape set at positions 1 and 2; FALSE: full set at position 1 only
          GenK       \* dump every explored message with probability 1/GenK (0 = never)

VARIABLES msg, le
vars == <<msg, le>>

RoundUp4(n) == ((n + 3) \div 4) * 4
Words(n) == (n + 3) \div 4
B(b) == IF b THEN 1 ELSE 0
Bit(f, b) == (f \div b) % 2 = 1

-----------------------------------------------------------------------------
(* shapes *)
Sh(k, via, hq, q, hp, p, f1, f2, nb, nu, nm) ==
  [k |-> k, via |-> via, hq |-> hq, q |-> q, hp |-> hp, p |-> p, f1 |-> f1, f2 |-> f2, nb |-> nb, nu |-> nu, nm |-> nm]

QLists == {<<>>, <<1>>, <<4>>, <<2, 7>>}           \* 0..2 parameters, value lengths covering every residue mod 4
PLens  == {4, 5, 6, 7}                             \* payload lengths, every residue mod 4
NBs    == {0, 1, 31, 32, 33, 256}                  \* numBits: empty, inside / at / across a word boundary, full window
Rsi    == <<24, 24>>                               \* the two related-sample-identity parameters MessageBuilder adds

DataS == {Sh("DATA", "s", hq, q, hp, p, FALSE, FALSE, 0, 0, -1) :
            hq \in BOOLEAN, q \in QLists, hp \in {"none", "data", "key"}, p \in PLens \cup {0}}
DataShapes ==
  {s \in DataS : (~s.hq => s.q = <<>>) /\ (s.hp = "none" <=> s.p = 0)}
  \cup {Sh("DATA", "b", f1, IF f1 THEN Rsi ELSE <<>>, "data", p, f1, FALSE, 0, 0, -1) : f1 \in BOOLEAN, p \in PLens}
  \cup {Sh("DATA", "b", TRUE, <<4>> \o (IF f1 THEN Rsi ELSE <<>>), "key", p, f1, FALSE, 0, 0, -1) : f1 \in BOOLEAN, p \in PLens}
  \cup {Sh("DATA", "b", TRUE, <<16, 4>> \o (IF f1 THEN Rsi ELSE <<>>), "none", 0, f1, FALSE, 0, 0, -1) : f1 \in BOOLEAN}

FragS == {Sh("DATAFRAG", "s", hq, q, hp, p, FALSE, FALSE, 0, 0, -1) :
            hq \in BOOLEAN, q \in QLists, hp \in {"data", "key"}, p \in PLens \cup {1}}
FragShapes ==
  {s \in FragS : ~s.hq => s.q = <<>>}
  \cup {Sh("DATAFRAG", "b", f1, IF f1 THEN Rsi ELSE <<>>, hp, p, f1, f2, 0, 0, -1) :
            f1 \in BOOLEAN, f2 \in BOOLEAN, hp \in {"data", "key"}, p \in PLens}

OtherShapes ==
  {Sh("GAP", "s", FALSE, <<>>, "none", 0, FALSE, FALSE, nb, 0, -1) : nb \in NBs}
  \cup {Sh("GAP", "b", FALSE, <<>>, "none", 0, FALSE, FALSE, nb, 0, -1) : nb \in {0, 2, 32, 33, 256}}
  \cup {Sh("GAP", "b", FALSE, <<>>, "none", 0, TRUE, FALSE, 0, 0, -1)}                      \* gap_msg_before
  \cup {Sh("HB", via, FALSE, <<>>, "none", 0, f1, f2, 0, 0, -1) : via \in {"s", "b"}, f1 \in BOOLEAN, f2 \in BOOLEAN}
  \cup {Sh("HBFRAG", "s", FALSE, <<>>, "none", 0, FALSE, FALSE, 0, 0, -1)}
  \cup {Sh("ACKNACK", "s", FALSE, <<>>, "none", 0, f1, FALSE, nb, 0, -1) : f1 \in BOOLEAN, nb \in NBs}
  \cup {Sh("NACKFRAG", "s", FALSE, <<>>, "none", 0, FALSE, FALSE, nb, 0, -1) : nb \in NBs}
  \cup {Sh("INFO_TS", via, FALSE, <<>>, "none", 0, f1, FALSE, 0, 0, -1) : via \in {"s", "b"}, f1 \in BOOLEAN}
  \cup {Sh("INFO_DST", via, FALSE, <<>>, "none", 0, FALSE, FALSE, 0, 0, -1) : via \in {"s", "b"}}
  \cup {Sh("INFO_SRC", "s", FALSE, <<>>, "none", 0, FALSE, FALSE, 0, 0, -1)}
  \cup {Sh("INFO_REPLY", "s", FALSE, <<>>, "none", 0, FALSE, FALSE, 0, nu, nm) : nu \in 0..2, nm \in -1..1}

Shapes == DataShapes \cup FragShapes \cup OtherShapes

(* one representative per kind x flag combination: what may follow at the deeper positions *)
Core == {s \in Shapes : /\ s.q \in {<<>>, <<2, 7>>, <<4>>, <<16, 4>>}
                        /\ s.p \in {0, 5}
                        /\ s.nb \in {0, 33}
                        /\ s.nu \in {0, 1}
                        /\ (s.k \in {"HB", "INFO_TS", "INFO_DST"} => s.via = "b")}

-----------------------------------------------------------------------------
(* framing numbers (RTPS 2.5: 9.4.5.1 header, 9.4.5.3 DATA, 9.4.5.4 DATAFRAG, 9.4.2.11 ParameterList,
   9.4.2.6 SequenceNumberSet, 9.4.5.x the fixed-size ones) *)
KindNum(k) == CASE k = "DATA" -> 21 [] k = "DATAFRAG" -> 22 [] k = "GAP" -> 8 [] k = "HB" -> 7 [] k = "HBFRAG" -> 19
                [] k = "ACKNACK" -> 6 [] k = "NACKFRAG" -> 18 [] k = "INFO_TS" -> 9 [] k = "INFO_DST" -> 14
                [] k = "INFO_SRC" -> 12 [] k = "INFO_REPLY" -> 15

Flags(s, e) ==
  B(e) + CASE s.k = "DATA" -> 2 * B(s.hq) + 4 * B(s.hp = "data") + 8 * B(s.hp = "key")
           [] s.k = "DATAFRAG" -> 2 * B(s.hq) + 4 * B(s.hp = "key")
           [] s.k = "HB" -> 2 * B(s.f1) + 4 * B(s.f2)
           [] s.k = "ACKNACK" -> 2 * B(s.f1)
           [] s.k = "INFO_TS" -> 2 * B(s.f1)
           [] s.k = "INFO_REPLY" -> 2 * B(s.nm >= 0)
           [] OTHER -> 0

RECURSIVE SumPadded(_)
SumPadded(q) == IF q = <<>> THEN 0 ELSE 4 + RoundUp4(Head(q)) + SumPadded(Tail(q))
ParamListLen(s) == IF s.hq THEN SumPadded(s.q) + 4 ELSE 0          \* + sentinel
ParamLens(s) == [i \in DOMAIN s.q |-> RoundUp4(s.q[i])]            \* the length fields on the wire
PayLen(s) == IF s.hp = "none" THEN 0 ELSE RoundUp4(s.p)            \* payload octets on the wire
SetLen(nb) == 4 + 4 * ((nb + 31) \div 32)                          \* numBits + bitmap
Otiq(s) == IF s.k = "DATA" THEN 16 ELSE IF s.k = "DATAFRAG" THEN 28 ELSE -1

BodyLen(s) ==
  CASE s.k = "DATA" -> 20 + ParamListLen(s) + PayLen(s)
    [] s.k = "DATAFRAG" -> 32 + ParamListLen(s) + PayLen(s)
    [] s.k = "GAP" -> 16 + 8 + SetLen(s.nb)
    [] s.k = "HB" -> 28
    [] s.k = "HBFRAG" -> 24
    [] s.k = "ACKNACK" -> 8 + 8 + SetLen(s.nb) + 4
    [] s.k = "NACKFRAG" -> 16 + 4 + SetLen(s.nb) + 4
    [] s.k = "INFO_TS" -> IF s.f1 THEN 0 ELSE 8
    [] s.k = "INFO_DST" -> 12
    [] s.k = "INFO_SRC" -> 20
    [] s.k = "INFO_REPLY" -> 4 + 24 * s.nu + (IF s.nm >= 0 THEN 4 + 24 * s.nm ELSE 0)

-----------------------------------------------------------------------------
(* Encode: words are tuples whose first component is the field they belong to *)
Fld(f, n) == [i \in 1..n |-> <<f, i>>]

RECURSIVE ParamWords(_, _)
ParamWords(q, i) ==
  IF i > Len(q) THEN << <<"ph", 0, 0>> >>                               \* PID_SENTINEL, length 0
  ELSE << <<"ph", i, RoundUp4(q[i])>> >> \o [j \in 1..Words(q[i]) |-> <<"pv", i, j>>] \o ParamWords(q, i + 1)

Locs(tag, n) == << <<"nloc", n>> >> \o Fld(tag, 6 * n)
SetWords(nb) == << <<"nb", nb>> >> \o Fld("bm", (nb + 31) \div 32)

Body(s) ==
  CASE s.k = "DATA" ->
         << <<"otiq", 16>> >> \o Fld("rid", 1) \o Fld("wid", 1) \o Fld("sn", 2)
         \o (IF s.hq THEN ParamWords(s.q, 1) ELSE <<>>) \o (IF s.hp # "none" THEN Fld("pay", Words(s.p)) ELSE <<>>)
    [] s.k = "DATAFRAG" ->
         << <<"otiq", 28>> >> \o Fld("rid", 1) \o Fld("wid", 1) \o Fld("sn", 2) \o Fld("fstart", 1) \o Fld("fis_fsz", 1) \o Fld("ssize", 1)
         \o (IF s.hq THEN ParamWords(s.q, 1) ELSE <<>>) \o Fld("pay", Words(s.p))
    [] s.k = "GAP" -> Fld("rid", 1) \o Fld("wid", 1) \o Fld("start", 2) \o Fld("base", 2) \o SetWords(s.nb)
    [] s.k = "HB" -> Fld("rid", 1) \o Fld("wid", 1) \o Fld("first", 2) \o Fld("last", 2) \o Fld("count", 1)
    [] s.k = "HBFRAG" -> Fld("rid", 1) \o Fld("wid", 1) \o Fld("sn", 2) \o Fld("lastfrag", 1) \o Fld("count", 1)
    [] s.k = "ACKNACK" -> Fld("rid", 1) \o Fld("wid", 1) \o Fld("base", 2) \o SetWords(s.nb) \o Fld("count", 1)
    [] s.k = "NACKFRAG" -> Fld("rid", 1) \o Fld("wid", 1) \o Fld("sn", 2) \o Fld("base", 1) \o SetWords(s.nb) \o Fld("count", 1)
    [] s.k = "INFO_TS" -> IF s.f1 THEN <<>> ELSE Fld("ts", 2)
    [] s.k = "INFO_DST" -> Fld("prefix", 3)
    [] s.k = "INFO_SRC" -> Fld("unused", 1) \o Fld("ver_vendor", 1) \o Fld("prefix", 3)
    [] s.k = "INFO_REPLY" -> Locs("uloc", s.nu) \o (IF s.nm >= 0 THEN Locs("mloc", s.nm) ELSE <<>>)

EncodeSub(s, e) == << <<"H", s.k, Flags(s, e), BodyLen(s)>> >> \o Body(s)

RECURSIVE Encode(_, _)
Encode(m, e) == IF m = <<>> THEN <<>> ELSE EncodeSub(Head(m), e) \o Encode(Tail(m), e)

-----------------------------------------------------------------------------
(* Decode: knows the stream only.  A cursor record [pos, ok] walks the body; Take(c, body, f, n)
   reads n words and requires each to carry label f (it is read as what it was written as). *)
Take(c, body, f, n) ==
  [pos |-> c.pos + n,
   ok  |-> c.ok /\ c.pos + n - 1 <= Len(body) /\ \A i \in c.pos..(c.pos + n - 1) : i <= Len(body) /\ body[i][1] = f]

RECURSIVE DecParams(_, _, _)
(* returns [c |-> cursor after the sentinel, lens |-> padded value lengths] *)
DecParams(c, body, i) ==
  IF ~c.ok \/ c.pos > Len(body) \/ body[c.pos][1] # "ph" THEN [c |-> [pos |-> c.pos, ok |-> FALSE], lens |-> <<>>]
  ELSE LET h == body[c.pos] IN
       IF h[2] = 0 THEN [c |-> [pos |-> c.pos + 1, ok |-> c.ok], lens |-> <<>>]
       ELSE LET n  == h[3] \div 4
                c1 == Take([pos |-> c.pos + 1, ok |-> c.ok], body, "pv", n)
                c2 == [pos |-> c1.pos, ok |-> c1.ok /\ \A x \in (c.pos + 1)..(c.pos + n) : body[x][2] = i]
                r == DecParams(c2, body, i + 1)
            IN [c |-> r.c, lens |-> <<h[3]>> \o r.lens]

DecSet(c, body) ==
  IF ~c.ok \/ c.pos > Len(body) \/ body[c.pos][1] # "nb" THEN [c |-> [pos |-> c.pos, ok |-> FALSE], nb |-> -1]
  ELSE LET nb == body[c.pos][2] IN [c |-> Take([pos |-> c.pos + 1, ok |-> c.ok], body, "bm", (nb + 31) \div 32), nb |-> nb]

DecLocs(c, body, tag) ==
  IF ~c.ok \/ c.pos > Len(body) \/ body[c.pos][1] # "nloc" THEN [c |-> [pos |-> c.pos, ok |-> FALSE], n |-> -1]
  ELSE LET n == body[c.pos][2] IN [c |-> Take([pos |-> c.pos + 1, ok |-> c.ok], body, tag, 6 * n), n |-> n]

Rd(k, fl, ok, q, p, nb, nu, nm) == [k |-> k, fl |-> fl, ok |-> ok, q |-> q, p |-> p, nb |-> nb, nu |-> nu, nm |-> nm]
C0 == [pos |-> 1, ok |-> TRUE]
Done(c, body) == c.ok /\ c.pos = Len(body) + 1           \* consumed exactly octetsToNextHeader

DecDataLike(k, fl, body, fixed) ==
  (* fixed: the words between octetsToInlineQos and the inline QoS, as <<label, n>> pairs *)
  IF body = <<>> \/ body[1][1] # "otiq" THEN Rd(k, fl, FALSE, <<>>, -1, 0, 0, -1)
  ELSE
  LET RECURSIVE Fix(_, _)
      Fix(c, i) == IF i > Len(fixed) THEN c ELSE Fix(Take(c, body, fixed[i][1], fixed[i][2]), i + 1)
      c1 == Fix([pos |-> 2, ok |-> TRUE], 1)
      (* skip to the inline QoS by octetsToInlineQos, not by what we believe the header is *)
      c2 == [pos |-> 2 + body[1][2] \div 4, ok |-> c1.ok /\ c1.pos <= 2 + body[1][2] \div 4]
      pr == IF Bit(fl, 2) THEN DecParams(c2, body, 1) ELSE [c |-> c2, lens |-> <<>>]
      hasPay == IF k = "DATA" THEN Bit(fl, 4) \/ Bit(fl, 8) ELSE TRUE
      npay == Len(body) - pr.c.pos + 1
      c3 == IF hasPay THEN Take(pr.c, body, "pay", npay) ELSE pr.c
  IN Rd(k, fl, Done(c3, body), pr.lens, IF hasPay THEN 4 * npay ELSE -1, 0, 0, -1)

DecBody(k, fl, body) ==
  CASE k = "DATA" -> DecDataLike(k, fl, body, << <<"rid", 1>>, <<"wid", 1>>, <<"sn", 2>> >>)
    [] k = "DATAFRAG" -> DecDataLike(k, fl, body, << <<"rid", 1>>, <<"wid", 1>>, <<"sn", 2>>, <<"fstart", 1>>, <<"fis_fsz", 1>>, <<"ssize", 1>> >>)
    [] k = "GAP" -> LET c == Take(Take(Take(Take(C0, body, "rid", 1), body, "wid", 1), body, "start", 2), body, "base", 2)
                        s == DecSet(c, body)
                    IN Rd(k, fl, Done(s.c, body), <<>>, -1, s.nb, 0, -1)
    [] k = "HB" -> Rd(k, fl, Done(Take(Take(Take(Take(Take(C0, body, "rid", 1), body, "wid", 1), body, "first", 2), body, "last", 2), body, "count", 1), body), <<>>, -1, 0, 0, -1)
    [] k = "HBFRAG" -> Rd(k, fl, Done(Take(Take(Take(Take(Take(C0, body, "rid", 1), body, "wid", 1), body, "sn", 2), body, "lastfrag", 1), body, "count", 1), body), <<>>, -1, 0, 0, -1)
    [] k = "ACKNACK" -> LET s == DecSet(Take(Take(Take(C0, body, "rid", 1), body, "wid", 1), body, "base", 2), body)
                        IN Rd(k, fl, Done(Take(s.c, body, "count", 1), body), <<>>, -1, s.nb, 0, -1)
    [] k = "NACKFRAG" -> LET s == DecSet(Take(Take(Take(Take(C0, body, "rid", 1), body, "wid", 1), body, "sn", 2), body, "base", 1), body)
                         IN Rd(k, fl, Done(Take(s.c, body, "count", 1), body), <<>>, -1, s.nb, 0, -1)
    [] k = "INFO_TS" -> Rd(k, fl, Done(IF Bit(fl, 2) THEN C0 ELSE Take(C0, body, "ts", 2), body), <<>>, -1, 0, 0, -1)
    [] k = "INFO_DST" -> Rd(k, fl, Done(Take(C0, body, "prefix", 3), body), <<>>, -1, 0, 0, -1)
    [] k = "INFO_SRC" -> Rd(k, fl, Done(Take(Take(Take(C0, body, "unused", 1), body, "ver_vendor", 1), body, "prefix", 3), body), <<>>, -1, 0, 0, -1)
    [] k = "INFO_REPLY" -> LET u == DecLocs(C0, body, "uloc")
                               mm == IF Bit(fl, 2) THEN DecLocs(u.c, body, "mloc") ELSE [c |-> u.c, n |-> -1]
                           IN Rd(k, fl, Done(mm.c, body), <<>>, -1, 0, u.n, mm.n)

RECURSIVE DecodeFrom(_, _)
DecodeFrom(ws, pos) ==
  IF pos > Len(ws) THEN <<>>
  ELSE LET h == ws[pos] IN
       IF h[1] # "H" \/ pos + h[4] \div 4 > Len(ws) THEN << Rd("?", 0, FALSE, <<>>, -1, 0, 0, -1) >>
       ELSE << DecBody(h[2], h[3], SubSeq(ws, pos + 1, pos + h[4] \div 4)) >> \o DecodeFrom(ws, pos + 1 + h[4] \div 4)
Decode(ws) == DecodeFrom(ws, 1)

CanonSub(s, e) == Rd(s.k, Flags(s, e), TRUE, IF s.hq THEN ParamLens(s) ELSE <<>>, IF s.k = "DATAFRAG" \/ s.hp # "none" THEN PayLen(s) ELSE -1,
                     IF s.k \in {"GAP", "ACKNACK", "NACKFRAG"} THEN s.nb ELSE 0, IF s.k = "INFO_REPLY" THEN s.nu ELSE 0, IF s.k = "INFO_REPLY" THEN s.nm ELSE -1)
Canon(m, e) == [i \in DOMAIN m |-> CanonSub(m[i], e)]

-----------------------------------------------------------------------------
Init == msg = <<>> /\ le \in BOOLEAN
Next == /\ Len(msg) < MaxSubs
        /\ \E s \in (IF Len(msg) = 0 \/ (Deep /\ Len(msg) = 1) THEN Shapes ELSE Core) : msg' = Append(msg, s)
        /\ UNCHANGED le
Spec == Init /\ [][Next]_vars

RoundTrip == Decode(Encode(msg, le)) = Canon(msg, le)
(* every submessage is a whole number of words and the header length is what a skipping reader needs *)
LengthsAgree == \A i \in DOMAIN msg : Len(EncodeSub(msg[i], le)) = 1 + BodyLen(msg[i]) \div 4 /\ BodyLen(msg[i]) % 4 = 0

GenEdge == (GenK > 0 /\ RandomElement(1..GenK) = 1) => PrintT("REPLAY " \o ToJson([t |-> "msg", le |-> le, subs |-> msg']))
=============================================================================
