INIT Init
NEXT Next
CONSTANTS MaxFs = 9  MaxMul = 4
INVARIANT Inv_Partition
INVARIANT Inv_Header
