--------------------------- MODULE AccessDecision ---------------------------
(***************************************************************************)
(* C18 - the decision function of DDS-Security access control, written out *)
(* as the property states it.  Pure operators, no variables: EXTENDed by   *)
(* the model (AccessControl.tla, TLC enumerates documents x queries) and   *)
(* by the trace specification (Trace_AccessControl.tla, judges every real  *)
(* decision of the crate).                                                 *)
(*                                                                         *)
(* Abstract documents (the JSON shape the harness renders as real XML):    *)
(*   doc   = [grants |-> <<grant>>, gov |-> <<topicrule>>]                 *)
(*   grant = [subj, val \in {"valid","expired","future","window"},         *)
(*            def \in {"ALLOW","DENY"}, rules |-> <<rule>>                 *)
(*            (, nb, na |-> bound   when val = "window")]                  *)
(*   bound = [d |-> digits, zk \in {"none","Z","off"}, zm |-> minutes]     *)
(*   rule  = [allow \in BOOLEAN, doms |-> <<dom>>,                         *)
(*            pub, sub, relay |-> <<criterion>>]                           *)
(*   dom   = [k \in {"id","range","min","max"}, a, b]                      *)
(*   criterion = [topics |-> <<pattern>>, parts |-> <<pattern>>]           *)
(*   topicrule = [expr |-> pattern, read, write \in BOOLEAN]               *)
(*   query = [op, dom, topic, parts |-> <<name>>]                          *)
(***************************************************************************)
EXTENDS Integers, Sequences, FiniteSets, TLC

(* ------------------------------------------------------------------------ *)
(* File-name patterns: POSIX fnmatch() without flags over token sequences.  *)
(* ------------------------------------------------------------------------ *)
Lit(c)  == [k |-> "lit",  c |-> c,  set |-> {}, neg |-> FALSE]
Star    == [k |-> "star", c |-> "", set |-> {}, neg |-> FALSE]
AnyCh     == [k |-> "any",  c |-> "", set |-> {}, neg |-> FALSE]
Cls(S)  == [k |-> "cls",  c |-> "", set |-> S,  neg |-> FALSE]
NCls(S) == [k |-> "cls",  c |-> "", set |-> S,  neg |-> TRUE]

RECURSIVE Glob(_, _)
Glob(p, s) ==
  IF p = <<>> THEN s = <<>>
  ELSE LET h == Head(p)  t == Tail(p) IN
       CASE h.k = "star" -> Glob(t, s) \/ (s # <<>> /\ Glob(p, Tail(s)))
         [] h.k = "any"  -> s # <<>> /\ Glob(t, Tail(s))
         [] h.k = "lit"  -> s # <<>> /\ Head(s) = h.c /\ Glob(t, Tail(s))
         [] h.k = "cls"  -> s # <<>> /\ ((Head(s) \in h.set) # h.neg) /\ Glob(t, Tail(s))

\* the finite pattern / name alphabets used by the model (first five patterns, first three
\* names) and by the seeded random documents of the harness (all of them)
PatTab ==
     "A"      :> <<Lit("A")>>
  @@ "A*"     :> <<Lit("A"), Star>>
  @@ "*"      :> <<Star>>
  @@ "?B"     :> <<AnyCh, Lit("B")>>
  @@ "[AB]"   :> <<Cls({"A", "B"})>>
  @@ "B"      :> <<Lit("B")>>
  @@ "AB"     :> <<Lit("A"), Lit("B")>>
  @@ "*B"     :> <<Star, Lit("B")>>
  @@ "A?"     :> <<Lit("A"), AnyCh>>
  @@ "[!A]"   :> <<NCls({"A"})>>
  @@ "??"     :> <<AnyCh, AnyCh>>
  @@ "?"      :> <<AnyCh>>
  @@ "A*B"    :> <<Lit("A"), Star, Lit("B")>>
  @@ "[A-B]*" :> <<Cls({"A", "B"}), Star>>
NameTab ==
     ""    :> <<>>
  @@ "A"   :> <<"A">>
  @@ "AB"  :> <<"A", "B">>
  @@ "B"   :> <<"B">>
  @@ "BA"  :> <<"B", "A">>
  @@ "ABB" :> <<"A", "B", "B">>
  @@ "C"   :> <<"C">>

\* evaluated once by TLC (constant definition); Match is a table lookup afterwards
MatchTab == [p \in DOMAIN PatTab |-> [n \in DOMAIN NameTab |-> Glob(PatTab[p], NameTab[n])]]
Match(pat, name) == MatchTab[pat][name]

(* ------------------------------------------------------------------------ *)
(* Permissions                                                              *)
(* ------------------------------------------------------------------------ *)
SMin(S) == CHOOSE x \in S : \A y \in S : x <= y

DomMatch(d, i) ==
  CASE d.k = "id"    -> i = d.a
    [] d.k = "range" -> d.a <= i /\ i <= d.b
    [] d.k = "min"   -> d.a <= i
    [] d.k = "max"   -> i <= d.b

\* Readings of what the standard leaves open (the verdict accepts every reading):
\*   ep  an entity WITHOUT partitions: "vacuous" = the partition condition holds trivially,
\*       "default" = it is in the default partition "" which must match the criterion
\*   tp  a TOPIC is unprotected when "either" or only when "both" of read / write access
\*       control are disabled in the governance topic rule
\*   tr  whether a relay permission lets a participant create / match a TOPIC
Amb == [ep : {"vacuous", "default"}, tp : {"either", "both"}, tr : BOOLEAN]
AmbEp == {a \in Amb : a.tp = "either" /\ a.tr = FALSE}   \* the readings that matter for one action

PartsOK(c, parts, amb) ==
  IF parts = <<>>
    THEN amb.ep = "vacuous" \/ c.parts = <<>> \/ \E j \in DOMAIN c.parts : Match(c.parts[j], "")
    ELSE \A k \in DOMAIN parts : \E j \in DOMAIN c.parts : Match(c.parts[j], parts[k])

CritApplies(c, q, amb) ==
  /\ \E i \in DOMAIN c.topics : Match(c.topics[i], q.topic)
  /\ PartsOK(c, q.parts, amb)

Crits(r, act) == CASE act = "pub" -> r.pub [] act = "sub" -> r.sub [] act = "relay" -> r.relay

RuleApplies(r, act, q, amb) ==
  /\ \E i \in DOMAIN r.doms : DomMatch(r.doms[i], q.dom)
  /\ \E i \in DOMAIN Crits(r, act) : CritApplies(Crits(r, act)[i], q, amb)

\* the property statement: the FIRST applicable rule decides, otherwise the default
Allowed(g, act, q, amb) ==
  LET app == {i \in DOMAIN g.rules : RuleApplies(g.rules[i], act, q, amb)}
  IN IF app = {} THEN g.def = "ALLOW" ELSE g.rules[SMin(app)].allow

\* the same as a scan (the shape of an implementation); the model checks equality
RECURSIVE Scan(_, _, _, _, _)
Scan(rules, def, act, q, amb) ==
  IF rules = <<>> THEN def = "ALLOW"
  ELSE IF RuleApplies(Head(rules), act, q, amb) THEN Head(rules).allow
  ELSE Scan(Tail(rules), def, act, q, amb)

(* ---- validity window of a grant (strengthening round 2) ------------------ *)
\* Time is counted in seconds relative to the reference instant of the run (the driver renders
\* the documents relative to the wall clock, reference = now, or to a fixed date).
\* val = "valid" / "expired" / "future": windows that are years away from every clock (the classes
\* of the first round).  val = "window": the document WRITES its two bounds nb / na as XSD dateTime
\*   bound = [d  |-> the wall-clock digits (as seconds relative to the reference instant),
\*            zk |-> "none" (no designator) | "Z" | "off" ((+|-)hh:mm),  zm |-> minutes east of UTC]
\* DDS-Security 9.4.1.3.2.2 / XSD 3.3.7: the digits are local time in the designated zone; a bound
\* without designator is UTC.  The instant a bound designates:
Instant(b) == b.d - (IF b.zk = "off" THEN 60 * b.zm ELSE 0)
\* "currently valid": not_before <= t < not_after.  (t = not_after exactly is left open - the
\* standard does not say whether the end is included; no query is generated there, the trace
\* specification does not judge one.)
GrantValidAt(g, t) ==
  CASE g.val = "valid"  -> TRUE
    [] g.val = "window" -> Instant(g.nb) <= t /\ t < Instant(g.na)
    [] OTHER            -> FALSE
\* the same bound spelled in UTC: notation must not matter
Respell(b) == [d |-> Instant(b), zk |-> "Z", zm |-> 0]
RespellGrant(g) == IF g.val = "window" THEN [g EXCEPT !.nb = Respell(g.nb), !.na = Respell(g.na)] ELSE g
AtEndOfWindow(doc, subj, t) ==
  \E i \in DOMAIN doc.grants : doc.grants[i].subj = subj /\ doc.grants[i].val = "window" /\ Instant(doc.grants[i].na) = t

\* first grant for the subject that is valid at instant t; 0 = none
GrantIdx(doc, subj, t) ==
  LET S == {i \in DOMAIN doc.grants : doc.grants[i].subj = subj /\ GrantValidAt(doc.grants[i], t)}
  IN IF S = {} THEN 0 ELSE SMin(S)

(* ------------------------------------------------------------------------ *)
(* Governance                                                               *)
(* ------------------------------------------------------------------------ *)
TopicRuleIdx(gov, topic) ==
  LET S == {i \in DOMAIN gov : Match(gov[i].expr, topic)} IN IF S = {} THEN 0 ELSE SMin(S)

WriterOps == {"create_writer", "remote_writer", "entity_writer"}
ReaderOps == {"create_reader", "entity_reader"}
TopicOps  == {"create_topic", "remote_topic", "entity_topic"}
Ops == WriterOps \cup ReaderOps \cup {"remote_reader"} \cup TopicOps

\* does the governance document leave the access asked for by q unprotected?
Unprotected(doc, q, amb) ==
  LET t == TopicRuleIdx(doc.gov, q.topic) IN
  IF t = 0 THEN FALSE
  ELSE LET rp == doc.gov[t].read  wp == doc.gov[t].write IN
       CASE q.op \in WriterOps -> ~wp
         [] q.op \in ReaderOps \cup {"remote_reader"} -> ~rp
         [] OTHER -> IF amb.tp = "either" THEN ~(rp /\ wp) ELSE (~rp /\ ~wp)

Permitted(doc, g, q, amb) ==
  LET can(act) == g # 0 /\ Allowed(doc.grants[g], act, q, amb) IN
  CASE q.op \in WriterOps -> can("pub")
    [] q.op \in ReaderOps -> can("sub")
    [] q.op = "remote_reader" -> can("sub") \/ can("relay")
    [] OTHER -> can("pub") \/ can("sub") \/ (amb.tr /\ can("relay"))

Decide(doc, subj, q, amb, t) == Unprotected(doc, q, amb) \/ Permitted(doc, GrantIdx(doc, subj, t), q, amb)

\* the set of outcomes (TRUE = access granted) the property admits.  A subject without a
\* currently valid grant never passes validate_*_permissions, so "unprotected topic, no
\* valid grant" is outside the property (left open); protected access without a valid grant
\* must be refused.
Acceptable(doc, subj, q, t) ==
  {Decide(doc, subj, q, amb, t) : amb \in Amb}
    \cup (IF GrantIdx(doc, subj, t) = 0 /\ \E amb \in Amb : Unprotected(doc, q, amb) THEN BOOLEAN ELSE {})

(* ------------------------------------------------------------------------ *)
(* Signed documents                                                         *)
(* ------------------------------------------------------------------------ *)
\* blob = [content, sigOver, signer]; configured CA ca
Verify(blob, ca) ==
  IF blob.signer = ca /\ blob.sigOver = blob.content
    THEN [accepted |-> TRUE, content |-> blob.content]
    ELSE [accepted |-> FALSE, content |-> "-"]

(* ------------------------------------------------------------------------ *)
(* Signed documents, structure of the container (strengthening round)       *)
(*                                                                          *)
(* A document travels as S/MIME multipart/signed: the content part and a    *)
(* CMS SignedData blob.  The CA's signature value covers ONLY the signed    *)
(* attributes of the SignerInfo; the content is tied to them by nothing but *)
(* the messageDigest attribute.  Every other field of the container (MIME   *)
(* parameters, ContentInfo / SignedData / SignerInfo versions, algorithm    *)
(* identifiers, signer identifier, embedded certificates, unsigned          *)
(* attributes) is outside the signature, i.e. under the control of whoever  *)
(* transports the document.                                                 *)
(*                                                                          *)
(* fblob = what a party WITHOUT any CA key can assemble from genuine        *)
(* material (signature parts made by signer `by` for document `of`):        *)
(*   content  which content is transported: "T" the target document, "O"    *)
(*            another document signed by the same signers, "E" an edited    *)
(*            content nobody ever signed                                    *)
(*   by, of   the signature part carried: made by `by` in {"CA","foreign",  *)
(*            "identity"} for document `of` in {"T","O"}                    *)
(*   md       messageDigest attribute now says: digest of "T"/"O"/"E", or   *)
(*            "junk"                                                        *)
(*   rest     the remaining signed attributes: "orig" | "alt"               *)
(*   sig      the signature value: the one `by` made for document "T"/"O"   *)
(*            (over md = that document, rest = "orig"), or "junk"           *)
(*   un       the fields outside the signature: field |-> "orig" | a class  *)
(*            of replacement value                                          *)
(*   co       (strengthening round 2) further SignerInfos carried by the    *)
(*            same SignedData (a co-signed document): a sequence of         *)
(*            [by, of, md, rest, sig], each taken from the same genuine     *)
(*            material; by/of/md/rest/sig above describe the SignerInfo the *)
(*            container was built around.  signerInfos is a SET: which one  *)
(*            a parser meets first is not part of the abstract container    *)
(*            (the driver realises both transport orders and both DER       *)
(*            orders).  Material `of` = "E": anybody can sign an edited     *)
(*            content with a key of his own - the participant's identity    *)
(*            key signed E (committed fixture); no CA ever did.             *)
(* Digests are taken as collision free (distinct contents, distinct md).    *)
(* ------------------------------------------------------------------------ *)
Signers  == {"CA", "foreign", "identity"}
\* the genuine signature parts: every signer signed T and O; the edited content E was signed by the
\* participant's own identity key only (a key that is never the configured Permissions CA)
Materials == {[by |-> s, of |-> d] : s \in Signers, d \in {"T", "O"}} \cup {[by |-> "identity", of |-> "E"]}
UFields  == {"root_type", "sd_version", "sd_dalgs", "encap_type", "certs", "si_version", "si_sid",
             "si_dalg", "si_salg", "si_uattrs", "mime_micalg", "mime_protocol"}
\* classes of replacement values per field ("known" = another registered identifier of the same
\* family, "unknown" = an unregistered one); the driver realises every class by several concrete values
UAlts(f) == CASE f \in {"root_type", "encap_type", "si_dalg", "si_salg"} -> {"known", "unknown"}
              [] f = "sd_dalgs" -> {"known", "unknown", "empty"}
              [] f = "certs"    -> {"flipped", "removed", "foreign"}
              [] f = "si_sid"   -> {"serial", "foreign"}
              [] OTHER          -> {"alt"}
UOrig == [f \in UFields |-> "orig"]

\* one SignerInfo as the signer made it
SIBase(by, of) == [by |-> by, of |-> of, md |-> of, rest |-> "orig", sig |-> of]
FBase(by, of) == [content |-> "T", by |-> by, of |-> of, md |-> of, rest |-> "orig", sig |-> of, un |-> UOrig, co |-> <<>>]
\* all SignerInfos of the container
SIs(b) == <<[by |-> b.by, of |-> b.of, md |-> b.md, rest |-> b.rest, sig |-> b.sig]>> \o b.co

\* the signature value of SignerInfo s is a valid signature of `ca` over its signed attributes as they are now
SISigValid(s, ca) == s.sig # "junk" /\ s.by = ca /\ s.md = s.sig /\ s.rest = "orig"
\* the signed attributes of SignerInfo s speak about exactly the transported content
SIBound(s, b) == s.md = b.content
FSigValid(b, ca) == SISigValid(SIs(b)[1], ca)
FBound(b) == SIBound(SIs(b)[1], b)
\* the property statement: "accepted only if it carries a valid signature of the configured
\* Permissions CA over exactly its content" - ONE SignerInfo must be both a valid signature of the CA
\* and about this content; nothing outside the signature and no other SignerInfo can contribute
Admissible(b, ca) == \E i \in DOMAIN SIs(b) : SISigValid(SIs(b)[i], ca) /\ SIBound(SIs(b)[i], b)
\* nothing was touched: the container is a genuinely signed document (must be accepted if by = ca)
FUntouched(b) == b.content = b.of /\ b.md = b.of /\ b.rest = "orig" /\ b.sig = b.of /\ b.un = UOrig /\ b.co = <<>>
FEdits(b) == (IF b.content # "T" THEN 1 ELSE 0) + (IF b.md # b.of THEN 1 ELSE 0) + (IF b.rest # "orig" THEN 1 ELSE 0)
             + (IF b.sig # b.of THEN 1 ELSE 0) + Cardinality({f \in UFields : b.un[f] # "orig"}) + Len(b.co)

\* implementation shape: the order of the checks of a CMS verifier on the SignerInfo s it has chosen.
\* `strict` = the unsigned fields this verifier insists on (refusing because of them is allowed,
\* accepting never is).
ChainSI(b, s, ca, strict) ==
  IF \E f \in strict : b.un[f] # "orig" THEN FALSE          \* container fields it does not understand
  ELSE IF s.md # b.content THEN FALSE                        \* digest of the content vs. messageDigest: unconditional
  ELSE s.sig # "junk" /\ s.by = ca /\ s.sig = s.md /\ s.rest = "orig"   \* signature over the signed attributes of THE SAME SignerInfo
\* a verifier that looks at one SignerInfo (`pol` = its index) or tries them all (`pol` = 0)
ChainVerify(b, ca, strict, pol) ==
  IF pol = 0 THEN \E i \in DOMAIN SIs(b) : ChainSI(b, SIs(b)[i], ca, strict)
  ELSE pol \in DOMAIN SIs(b) /\ ChainSI(b, SIs(b)[pol], ca, strict)
=============================================================================
