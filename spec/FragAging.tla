----------------------------- MODULE FragAging -----------------------------
(***************************************************************************)
(* C05, time dimension: a fragmented sample on a slow link.  The reader    *)
(* keeps one assembly buffer per sample (fragment_assembler.rs) and gives  *)
(* up buffers that look abandoned: after a fragment that does not complete *)
(* its sample, and at most every MinGC seconds, Reader::                   *)
(* garbage_collect_fragments discards every buffer whose time of last      *)
(* modification is more than Timeout seconds ago (reader.rs: 10 s / 2 s).  *)
(* The property promises delivery once all fragments have arrived; the     *)
(* only licence the code takes is to forget a buffer WITHOUT PROGRESS.  So *)
(* the model demands: whenever all fragments of the sample have arrived in *)
(* a chain of arrivals less than Stale seconds apart, the sample has been  *)
(* delivered (Inv_ProgressKept) - however long the whole transfer took.    *)
(* The datagram sequence is the one of the link: the writer sends the      *)
(* fragments 1..NF in order, pass after pass (push, then repairs), any     *)
(* transmission may be lost (budget MaxDrop), before every datagram some   *)
(* time d \in Delays passes (also before the heartbeat exchange between    *)
(* two passes).  Refresh = TRUE is the design (every arriving fragment     *)
(* refreshes the buffer's modification time); with Refresh = FALSE (time   *)
(* of creation only) TLC finds a counterexample with 4 fragments 4 s apart *)
(* (MC_FragAging_norefresh.cfg, a sanity check of the invariant, not part  *)
(* of bin/check).  Every explored schedule is printed as a run for the     *)
(* `link` driver (delays in ms on the virtual clock behind Timestamp::now, *)
(* losses as content-addressed faults) and judged by Trace_RtpsLink.tla,   *)
(* whose clause C05_complete_fragment_set_not_assembled uses the same      *)
(* chain rule.                                                             *)
(***************************************************************************)
EXTENDS Integers, Sequences, FiniteSets, TLC, Json

CONSTANTS NF, Delays, Timeout, MinGC, Stale, MaxDgrams, MaxDrop, Refresh, GenK

VARIABLES now,      \* seconds
          have,     \* fragments in the assembly buffer; {} and born = -1: no buffer
          born, mod,\* creation / last modification time of the buffer
          lastGC,
          done,     \* sample delivered
          pos,      \* next datagram of the pass: 1..NF a fragment, NF+1 the heartbeat exchange
          chain, lastArr,   \* specification side: fragments that arrived less than Stale apart, time of the last arrival
          sent,     \* how often each fragment has been transmitted
          dropsLeft, n,
          delays, faults   \* trail
vars == <<now, have, born, mod, lastGC, done, pos, chain, lastArr, sent, dropsLeft, n, delays, faults>>

Init == /\ now = 0 /\ have = {} /\ born = -1 /\ mod = -1 /\ lastGC = 0 /\ done = FALSE /\ pos = 1
        /\ chain = {} /\ lastArr = -1 /\ sent = [f \in 1..NF |-> 0] /\ dropsLeft = MaxDrop /\ n = 0
        /\ delays = <<>> /\ faults = <<>>

\* a fragment reaches the reader at time t: AssemblyBuffer::new / insert_frags, then completion or garbage collection
Arrive(f, t) ==
  LET fresh == born = -1
      h2 == have \cup {f}
      b2 == IF fresh THEN t ELSE born
      m2 == IF fresh \/ Refresh THEN t ELSE mod
      complete == h2 = 1..NF
      gc == t - lastGC > MinGC
      dropIt == gc /\ m2 < t - Timeout
  IN /\ done' = complete
     /\ IF complete \/ dropIt THEN have' = {} /\ born' = -1 /\ mod' = -1
        ELSE have' = h2 /\ born' = b2 /\ mod' = m2
     /\ lastGC' = IF ~complete /\ gc THEN t ELSE lastGC
     /\ chain' = IF lastArr # -1 /\ t - lastArr >= Stale THEN {f} ELSE chain \cup {f}
     /\ lastArr' = t

Dgram(d, fate) ==
  /\ ~done /\ n < MaxDgrams
  /\ fate = "ok" \/ (dropsLeft > 0 /\ pos <= NF)
  /\ now' = now + d /\ n' = n + 1
  /\ delays' = Append(delays, d * 1000)
  /\ pos' = IF pos = NF + 1 THEN 1 ELSE pos + 1
  /\ IF pos = NF + 1
       THEN UNCHANGED <<have, born, mod, lastGC, done, chain, lastArr, sent, dropsLeft, faults>>   \* heartbeat / acknack
       ELSE /\ sent' = [sent EXCEPT ![pos] = @ + 1]
            /\ IF fate = "ok"
                 THEN Arrive(pos, now + d) /\ UNCHANGED <<dropsLeft, faults>>
                 ELSE /\ dropsLeft' = dropsLeft - 1
                      /\ faults' = Append(faults, [at |-> [dir |-> "wr", k |-> "FRAG", sn |-> 1, f |-> pos, occ |-> sent[pos] + 1], what |-> "drop"])
                      /\ UNCHANGED <<have, born, mod, lastGC, done, chain, lastArr>>

Next == \E d \in Delays, fate \in {"ok", "drop"} : Dgram(d, fate)
Spec == Init /\ [][Next]_vars

\* all fragments arrived, never Stale seconds or more without a new one: the sample has been delivered
Inv_ProgressKept == (chain = 1..NF) => done
\* and never before all of them arrived
Inv_Complete == done => \A f \in 1..NF : sent[f] > 0

View == <<now, have, born, mod, lastGC, done, pos, chain, lastArr, sent, dropsLeft, n>>
GenEdge == (GenK > 0 /\ (done' \/ n' = MaxDgrams) /\ RandomElement(1..GenK) = 1) =>
             PrintT("REPLAY " \o ToJson([hist |-> 0, frag |-> 64, pre |-> 0, win |-> 0, acts |-> <<[a |-> "Write", big |-> TRUE, key |-> FALSE, nf |-> NF]>>,
                                         faults |-> faults', delays |-> delays', rounds_after |-> 7]))
=============================================================================
