\* NON-VACUITY of the dispatch dimension (NOT part of the check; expected result: Inv_NoViolation is violated).
\* The state guard of begin_handshake_reply also lets a request through while the final message is awaited:
\* Req; Dlv(B,1); Dlv(A,2); Dlv(B,1) via api -> answered again; Dlv(B,3) refused, C19_genuine_message_refused.
SPECIFICATION Spec
CONSTANTS
  MaxAtk = 1
  Fix = {}
  Known = {"S7", "S13", "S14"}
  Gen = FALSE
  StripProps = {}
  Weak = {"final@begin_reply"}
  GuidBytes = {}
  Vias = {"disc", "api"}
INVARIANT Inv_NoViolation
CHECK_DEADLOCK FALSE
