\* NEGATIVE CONTROL (not part of the check): once one local endpoint passed the receiver-specific MAC check, its sibling
\* endpoints are released unchecked.  TLC must report Inv_NoMacForMeNoData violated.
SPECIFICATION Spec
CONSTANTS
  Senders = {1}
  Receivers = {2}
  Levels = {"submsg"}
  Kinds = {"gmac", "gcm"}
  OAs = {TRUE, FALSE}
  K256s = {TRUE}
  Dirs = {"w2r", "r2w"}
  Others = {"same"}
  Astray = TRUE
  Eps2 = {2}
  LooseList = TRUE
  GenS = 1
  LooseKid = FALSE
  GenK = 0
  GenC = 6
VIEW View
INVARIANT Inv_TamperedNeverDecodes
INVARIANT Inv_NoKeyNoData
INVARIANT Inv_ForeignKeyNoData
INVARIANT Inv_NoMacForMeNoData
INVARIANT Inv_AuthorisedDecodes
INVARIANT Inv_S10IsADeviation
INVARIANT Inv_KeyIdOfAnotherKeyNoData
ACTION_CONSTRAINT GenEdge
CHECK_DEADLOCK FALSE
