------------------------- MODULE Trace_RtpsReader -------------------------
(***************************************************************************)
(* Trace validation for the `reader` driver: every line of the ndjson file *)
(* named by the environment variable TRACE is one action of ReaderAbs with *)
(* its arguments and the outputs the real code produced.  Runs are         *)
(* separated by Reset lines.  A clause of C01/C03/C05 broken by a logged   *)
(* output is printed as a VIOL line; a line that no action explains stops  *)
(* the behaviour (detected by the post-condition on the diameter).         *)
(***************************************************************************)
EXTENDS ReaderAbs, Json, IOUtils, SequencesExt

Rec == ndJsonDeserialize(IOEnv.TRACE)

VARIABLES l, rel, run,
  fn     \* <<w, sn>> -> <<fragments that arrived during the current match of w, total, consistent>>

tvars == <<absVars, l, rel, run, fn>>

\* (ToSet comes with SequencesExt)
AckRec(a) == [base |-> a.base, set |-> ToSet(a.set), count |-> a.count]
NfRec(f) == [sn |-> f.sn, set |-> ToSet(f.set), count |-> f.count]
Acks(e) == [i \in DOMAIN e.acks |-> AckRec(e.acks[i])]
Nfs(e) == [i \in DOMAIN e.nfs |-> NfRec(e.nfs[i])]
Got(e) == [i \in DOMAIN e.got |-> [w |-> e.got[i].w, sn |-> e.got[i].sn, pid |-> e.got[i].pid,
                                   ts |-> e.got[i].ts, checkOrder |-> rel,
                                   checkHoles |-> rel /\ e.holes]]


InstOrderViol(g) ==
  IF \E i, j \in DOMAIN g : i < j /\ g[i].w = g[j].w /\ g[i].k = g[j].k /\ g[i].sn >= g[j].sn THEN {"C01_order"} ELSE {}

\* C06: a hostile datagram was injected; measurements taken by the harness around the call
C06Viol(e) ==
       (IF e.died # "" THEN {"C06_process_died_or_hung"} ELSE {})
  \cup (IF e.panic THEN {"C06_panic"} ELSE {})
  \cup (IF e.us > 250000 THEN {"C06_time_out_of_proportion"} ELSE {})
  \* e.sock: the n datagrams came through the socket and the UDPListener, which receives each one into a fresh
  \* slice of the maximum UDP size (64 KiB, released with the message): counted per datagram, not as bloat
  \cup (IF e.alloc > 1048576 + 256 * e.len + (IF e.sock THEN 65536 * e.n ELSE 0) THEN {"C06_memory_out_of_proportion"} ELSE {})

TraceInit == AbsInit /\ l = 1 /\ rel = TRUE /\ run = 0 /\ fn = <<>>

\* fragments per sample since the writer was (re)matched: a sample all of whose fragments arrived while its writer was
\* matched must come out of the reader (C05: "delivers the sample once ... after all of its fragments have arrived")
FnNext(e) ==
  CASE e.ev = "Reset" -> <<>>
    [] e.ev = "Unmatch" \/ (e.ev = "Match" /\ ~matched[e.w]) -> [k \in {x \in DOMAIN fn : x[1] # e.w} |-> fn[k]]
    [] e.ev = "DataFrag" /\ matched[e.w] /\ e.sn >= 1 ->
         LET k == <<e.w, e.sn>>
             old == IF k \in DOMAIN fn THEN fn[k] ELSE <<{}, e.tot, TRUE>>
         IN [x \in DOMAIN fn \cup {k} |->
               IF x = k THEN <<old[1] \cup (e.fs .. (e.fs + e.fc - 1)), old[2], old[3] /\ old[2] = e.tot>> ELSE fn[x]]
    [] OTHER -> fn

\* one take that did not hit its limit returned `got`
TakeCompleteViol(e) ==
  IF rel /\ (e.byinst \/ Len(e.got) < e.max) /\
     \E k \in DOMAIN fn :
        LET w == k[1]
            sn == k[2]
        IN /\ fn[k][3] /\ (1..fn[k][2]) \subseteq fn[k][1]
           /\ matched[w] /\ sn < low[w] /\ sn \notin everUnav[w]
           /\ sn \notin {handed[w][i] : i \in DOMAIN handed[w]}
           /\ ~(\E i \in DOMAIN e.got : e.got[i].w = w /\ e.got[i].sn = sn)
  THEN {"C05_complete_sample_not_handed_over"} ELSE {}

AbsReset ==
  /\ matched'  = [w \in Writers |-> FALSE]
  /\ recv'     = [w \in Writers |-> {}]
  /\ unavMay'  = [w \in Writers |-> {}]
  /\ unavMust' = [w \in Writers |-> {}]
  /\ everUnav' = [w \in Writers |-> {}]
  /\ deliv'    = [w \in Writers |-> <<>>]
  /\ frags'    = [w \in Writers |-> <<>>]
  /\ hbCnt'    = [w \in Writers |-> 0]
  /\ hbRange'  = [w \in Writers |-> <<1, 0>>]
  /\ handed'   = [w \in Writers |-> <<>>]
  /\ hlow'     = [w \in Writers |-> 1]
  /\ low'      = [w \in Writers |-> 1]
  /\ ackBase'  = [w \in Writers |-> 0]
  /\ ackCnt'   = [w \in Writers |-> -1]
  /\ nfCnt'    = [w \in Writers |-> -1]
  /\ viol'     = {}

Step ==
  /\ l <= Len(Rec)
  /\ l' = l + 1
  /\ LET e == Rec[l] IN
     CASE e.ev = "Reset"     -> AbsReset /\ rel' = e.reliable /\ run' = e.run
       [] e.ev = "Match"     -> AbsMatch(e.w) /\ UNCHANGED <<rel, run>>
       [] e.ev = "Unmatch"   -> AbsUnmatch(e.w) /\ UNCHANGED <<rel, run>>
       [] e.ev = "Data"      -> AbsData(e.w, e.sn, e.pid, e.ts) /\ UNCHANGED <<rel, run>>
       [] e.ev = "DataFrag"  -> AbsDataFrag(e.w, e.sn, e.fs, e.fc, e.tot, e.pid, e.ts) /\ UNCHANGED <<rel, run>>
       [] e.ev = "Heartbeat" -> AbsHeartbeat(e.w, e.first, e.last, e.count, rel, Acks(e), Nfs(e)) /\ UNCHANGED <<rel, run>>
       [] e.ev = "Gap"       -> AbsGap(e.w, e.start, e.base, ToSet(e.set)) /\ UNCHANGED <<rel, run>>
       [] e.ev = "Spont"     -> AbsSpontaneous(e.w, Acks(e), Nfs(e)) /\ UNCHANGED <<rel, run>>
       \* by instance: the application took instance after instance; within an instance the samples of a writer must come in
       \* sequence-number order, and the union (everything that was available) is judged like the result of one take
       [] e.ev = "Take"      -> /\ IF e.byinst
                                     THEN ObsHandWith(SortSeq(Got(e), LAMBDA a, b : a.sn < b.sn), InstOrderViol(e.got) \cup TakeCompleteViol(e))
                                     ELSE ObsHandWith(Got(e), TakeCompleteViol(e))
                                /\ UNCHANGED <<rel, run>>
       \* non-interference: a hostile datagram changes nothing in the abstract state of the well-behaved peers
       [] e.ev = "Hostile"   -> viol' = viol \cup C06Viol(e) /\ UNCHANGED <<rel, run, matched, recv, unavMay, unavMust, everUnav, deliv, frags, hbCnt, hbRange, handed, hlow, low, ackBase, ackCnt, nfCnt>>
       \* a reply for writer e.w went to another address than the writer's (it was matched with exactly one unicast locator):
       \* somebody else's datagram has redirected it
       [] e.ev = "Misdirected" -> viol' = viol \cup {"C06_reply_for_a_writer_sent_to_an_address_named_by_another_peer"}
                                  /\ UNCHANGED <<rel, run, matched, recv, unavMay, unavMust, everUnav, deliv, frags, hbCnt, hbRange, handed, hlow, low, ackBase, ackCnt, nfCnt>>
       [] e.ev \in {"HostileBegin", "RunDone", "TakeErr"} -> UNCHANGED <<absVars, rel, run>>
  /\ fn' = FnNext(Rec[l])
  /\ (viol' # viol /\ viol' # {}) =>
        PrintT("VIOL line=" \o ToString(l) \o " run=" \o ToString(run') \o " clauses=" \o ToString(viol' \ viol))

TraceSpec == TraceInit /\ [][Step]_tvars

TraceAccepted ==
  LET d == TLCGet("stats").diameter IN
  IF d = Len(Rec) + 1 THEN PrintT("TRACE-OK events=" \o ToString(Len(Rec)))
  ELSE PrintT("TRACE-STUCK line=" \o ToString(d)) /\ PrintT(Rec[d]) /\ FALSE
==========================================================================
