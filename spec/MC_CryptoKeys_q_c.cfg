\* several endpoints per participant: receiver plugin 2 owns two endpoints (entities 2 and 12), both can be matched
\* with the endpoint of sender 1; all receiver lists {}, {2}, {12}, {2,12}; tokens may go astray between the two
SPECIFICATION Spec
CONSTANTS
  Senders = {1}
  Receivers = {2}
  Levels = {"submsg"}
  Kinds = {"gmac", "gcm"}
  OAs = {TRUE, FALSE}
  K256s = {TRUE, FALSE}
  Dirs = {"w2r", "r2w"}
  Others = {"same", "diff"}
  Astray = TRUE
  Eps2 = {2}
  LooseList = FALSE
  GenS = 1
  LooseKid = FALSE
  GenK = 40
  GenC = 6
VIEW View
INVARIANT Inv_TamperedNeverDecodes
INVARIANT Inv_NoKeyNoData
INVARIANT Inv_ForeignKeyNoData
INVARIANT Inv_NoMacForMeNoData
INVARIANT Inv_AuthorisedDecodes
INVARIANT Inv_S10IsADeviation
INVARIANT Inv_KeyIdOfAnotherKeyNoData
ACTION_CONSTRAINT GenEdge
CHECK_DEADLOCK FALSE
