--------------------------- MODULE DiscoveryAbs ---------------------------
(***************************************************************************)
(* Abstract discovery state in the vocabulary of C11 (matched sets and     *)
(* status counts track discovery) and C12 (participant lease).             *)
(*                                                                         *)
(* Remote participants P announce themselves (SPDP, with a lease), send    *)
(* liveness signs, are disposed or fall silent; remote endpoints E (fixed  *)
(* owner, kind, topic and QoS class) are announced, re-announced and       *)
(* disposed (SEDP).  One local writer and one local reader on topic T.     *)
(* Inputs evolve the state deterministically; after every event the        *)
(* matched sets, the status events and the participant / endpoint tables   *)
(* of the implementation are observed and judged by the clauses of the two *)
(* property statements.                                                    *)
(***************************************************************************)
EXTENDS Integers, Sequences, FiniteSets, TLC

CONSTANTS P,            \* remote participants (integers)
          E,            \* remote endpoints (integers)
          Owner,        \* [E -> P]
          IsReader,     \* [E -> BOOLEAN]  remote reader (matches the local writer) or remote writer
          OnTopic,      \* [E -> BOOLEAN]  on the local endpoints' topic
          Compatible,   \* [E -> BOOLEAN]  QoS request/offered compatible with the local endpoint
          DefaultLease  \* lease assumed when a participant announces none (ms)

VARIABLES
  now,        \* virtual time, ms
  known,      \* [P -> BOOLEAN]  participant currently present
  lastSign,   \* [P -> Int]
  lease,      \* [P -> Int]      ms
  ann,        \* [E -> BOOLEAN]  endpoint currently announced (its participant is present, or was never heard of yet)
  attic,      \* [E -> BOOLEAN]  endpoint was announced when its participant timed out
  fuzzy,      \* [E -> BOOLEAN]  in the attic, and its participant was disposed while lost: the statement leaves open
              \*                  whether such an endpoint is known again when the participant reappears
  stale,      \* [E -> BOOLEAN]  named deviation S8: restored from the attic but not re-matched until re-announced
  cls,        \* [E -> BOOLEAN]  QoS of the endpoint's LATEST announcement is request/offered compatible with the local endpoint
  haveW, haveR, \* the application has created its local writer / reader (they may be created after discovery has run)
  totW, totR, \* last total counts reported to the local writer / reader
  viol

dabsVars == <<now, known, lastSign, lease, ann, attic, fuzzy, stale, cls, haveW, haveR, totW, totR, viol>>

\* the endpoint table used by the `disc` driver (configurations substitute these for the constants)
\*  e  owner kind   topic QoS                     e  owner kind   topic QoS
\*  1  p1    reader T     compatible              5  p2    writer T     compatible
\*  2  p1    writer T     compatible              6  p2    writer other compatible
\*  3  p1    reader T     incompatible            7  p1    writer T     compatible (different values)
\*  4  p2    reader T     compatible              8  p1    reader T     compatible (different values)
OwnerDef == <<1, 1, 1, 2, 2, 2, 1, 1>>
IsReaderDef == <<TRUE, FALSE, TRUE, TRUE, FALSE, FALSE, FALSE, TRUE>>
OnTopicDef == <<TRUE, TRUE, TRUE, TRUE, TRUE, FALSE, TRUE, TRUE>>
CompatibleDef == <<TRUE, TRUE, FALSE, TRUE, TRUE, TRUE, TRUE, TRUE>>

\* endpoints whose QoS an announcement may change (only while the local endpoint they concern does not exist yet: what
\* happens to an existing match when a peer re-announces itself with a QoS that no longer fits is left open here)
Mutable == {7, 8}

DAbsInitL(late) ==
  /\ now = 0
  /\ known = [p \in P |-> FALSE] /\ lastSign = [p \in P |-> 0] /\ lease = [p \in P |-> DefaultLease]
  /\ ann = [e \in E |-> FALSE] /\ attic = [e \in E |-> FALSE] /\ fuzzy = [e \in E |-> FALSE] /\ stale = [e \in E |-> FALSE]
  /\ cls = [e \in E |-> Compatible[e]] /\ haveW = ~late /\ haveR = ~late
  /\ totW = 0 /\ totR = 0 /\ viol = {}
DAbsInit == DAbsInitL(FALSE)

\* the sets the property speaks of (hw / hr: the local writer / reader exists; c: QoS class per endpoint)
ShouldW(a, st, c, hw) == IF hw THEN {e \in E : a[e] /\ ~st[e] /\ IsReader[e] /\ OnTopic[e] /\ c[e]} ELSE {}
ShouldR(a, st, c, hr) == IF hr THEN {e \in E : a[e] /\ ~st[e] /\ ~IsReader[e] /\ OnTopic[e] /\ c[e]} ELSE {}
ShouldMatchW(a, st) == ShouldW(a, st, cls, haveW)
ShouldMatchR(a, st) == ShouldR(a, st, cls, haveR)
Silent(p) == now - lastSign[p] > lease[p]

(* ------------------------------------------------------------ judging *)
\* obs = [wm, rm : sets of endpoints matched with the local writer / reader,
\*        ws, rs : sequences of status events [k |-> "Matched" | "IncompatibleQos", e, cur, chg, tot],
\*        parts  : participants the implementation knows, ext : endpoints in its tables, att : in its attic]
MatchedEvents(s) == SelectSeq(s, LAMBDA x : x.k = "Matched")

RECURSIVE CurOk(_, _, _)
CurOk(evs, i, size) ==       \* every event reports the size of the set after its own change
  IF i > Len(evs) THEN TRUE
  ELSE LET s2 == size + evs[i].chg IN evs[i].cur = s2 /\ CurOk(evs, i + 1, s2)

SideViol(tag, oldSet, newSet, obsSet, evs, prevTot) ==
  LET m == MatchedEvents(evs)
      changed == (newSet \ oldSet) \cup (oldSet \ newSet)
  IN   (IF obsSet # newSet THEN {"C11_matched_set_differs_" \o tag} ELSE {})
  \cup (IF Len(m) # Cardinality(changed)
          THEN {IF Len(m) > Cardinality(changed) THEN "C11_spurious_matched_event_" \o tag ELSE "C11_missing_matched_event_" \o tag} ELSE {})
  \cup (IF Len(m) = Cardinality(changed) /\ ~CurOk(m, 1, Cardinality(oldSet)) THEN {"C11_current_count_wrong_" \o tag} ELSE {})
  \cup (IF \E i \in DOMAIN m : m[i].tot < prevTot \/ (i > 1 /\ m[i].tot < m[i - 1].tot) THEN {"C11_total_count_decreased_" \o tag} ELSE {})

LastTot(evs, prev) == LET m == MatchedEvents(evs) IN IF Len(m) = 0 THEN prev ELSE m[Len(m)].tot

\* common judgement of one step from (ann, stale, cls, haveW, haveR) to (annN, stN, cN, hwN, hrN)
JudgeL(annN, stN, cN, hwN, hrN, obs) ==
     SideViol("writer", ShouldMatchW(ann, stale), ShouldW(annN, stN, cN, hwN), obs.wm, obs.ws, totW)
  \cup SideViol("reader", ShouldMatchR(ann, stale), ShouldR(annN, stN, cN, hrN), obs.rm, obs.rs, totR)
  \* what is announced and whose participant has not been lost stays in the tables (a local endpoint created later is
  \* matched from them): C12 "a live one never" is dropped, endpoints included
  \cup (IF \E e \in E : annN[e] /\ e \notin obs.ext THEN {"C12_endpoint_of_live_participant_forgotten"} ELSE {})
  \* C10, seen from discovery: the verdict is taken on the QoS the endpoint announced LAST
  \cup (IF \E e \in obs.wm \cup obs.rm : ~cN[e] /\ e \notin ShouldMatchW(ann, stale) \cup ShouldMatchR(ann, stale)
          THEN {"C10_matched_although_latest_announced_qos_incompatible"} ELSE {})
  \cup (IF \E i \in DOMAIN obs.ws : obs.ws[i].k = "IncompatibleQos" /\ obs.ws[i].e \in E /\ cN[obs.ws[i].e] THEN {"C10_incompatible_qos_reported_for_compatible_endpoint"} ELSE {})
  \cup (IF \E i \in DOMAIN obs.rs : obs.rs[i].k = "IncompatibleQos" /\ obs.rs[i].e \in E /\ cN[obs.rs[i].e] THEN {"C10_incompatible_qos_reported_for_compatible_endpoint"} ELSE {})

FinishL(annN, stN, cN, hwN, hrN, obs, extra) ==
  /\ ann' = annN
  /\ stale' = stN
  /\ cls' = cN /\ haveW' = hwN /\ haveR' = hrN
  /\ totW' = LastTot(obs.ws, totW) /\ totR' = LastTot(obs.rs, totR)
  /\ viol' = viol \cup JudgeL(annN, stN, cN, hwN, hrN, obs) \cup extra
Finish(annN, stN, obs, extra) == FinishL(annN, stN, cls, haveW, haveR, obs, extra)

(* ------------------------------------------------------------- events *)
AbsTick(dt) == now' = now + dt /\ UNCHANGED <<known, lastSign, lease, ann, attic, fuzzy, stale, cls, haveW, haveR, totW, totR, viol>>

\* SPDP announcement.  A participant that had timed out and reappears: its endpoints become known again.
\* devS8: the named deviation is in force (listed as known finding)
AbsSpdp(p, l, obs, devS8) ==
  LET back == {e \in E : Owner[e] = p /\ attic[e] /\ (~fuzzy[e] \/ e \in obs.ext)}
      annN == IF known[p] THEN ann ELSE [e \in E |-> ann[e] \/ e \in back]
      x1 == IF p \notin obs.parts THEN {"C12_announced_participant_not_known"} ELSE {}
      x2 == IF ~known[p] /\ ~(back \subseteq obs.ext) THEN {"C12_endpoints_of_reappeared_participant_not_known_again"} ELSE {}
  IN /\ known' = [known EXCEPT ![p] = TRUE]
     /\ lastSign' = [lastSign EXCEPT ![p] = now]
     /\ lease' = [lease EXCEPT ![p] = IF l = -1 THEN DefaultLease ELSE l]
     /\ attic' = IF known[p] THEN attic ELSE [e \in E |-> attic[e] /\ Owner[e] # p]
     /\ fuzzy' = IF known[p] THEN fuzzy ELSE [e \in E |-> fuzzy[e] /\ Owner[e] # p]
     /\ Finish(annN, IF devS8 /\ ~known[p] THEN [e \in E |-> stale[e] \/ (e \in back /\ ~ann[e])] ELSE stale, obs, x1 \cup x2)
     /\ UNCHANGED now

AbsAlive(p, obs) ==
  /\ lastSign' = [lastSign EXCEPT ![p] = IF known[p] THEN now ELSE @]
  /\ Finish(ann, stale, obs, {})
  /\ UNCHANGED <<now, known, lease, attic, fuzzy>>

\* clean-up tick: lost = participants the implementation declared lost
AbsCleanup(lost, obs) ==
  LET must == {p \in P : known[p] /\ Silent(p)}
      gone == lost \cap {p \in P : known[p]}
      annN == [e \in E |-> ann[e] /\ Owner[e] \notin gone]
      x1 == IF \E p \in lost : known[p] /\ ~Silent(p) THEN {"C12_live_participant_dropped"} ELSE {}
      x2 == IF ~(must \subseteq lost) THEN {"C12_silent_participant_kept"} ELSE {}
      x3 == IF \E p \in gone : p \in obs.parts THEN {"C12_lost_participant_still_known"} ELSE {}
      x4 == IF \E e \in E : Owner[e] \in gone /\ ann[e] /\ e \notin obs.att THEN {"C12_endpoints_of_timed_out_participant_forgotten"} ELSE {}
      x5 == IF \E e \in obs.wm \cup obs.rm : Owner[e] \in gone THEN {"C12_endpoint_of_lost_participant_still_matched"} ELSE {}
  IN /\ known' = [p \in P |-> known[p] /\ p \notin gone]
     /\ attic' = [e \in E |-> attic[e] \/ (Owner[e] \in gone /\ ann[e])]
     /\ Finish(annN, [e \in E |-> stale[e] /\ Owner[e] \notin gone], obs, x1 \cup x2 \cup x3 \cup x4 \cup x5)
     /\ UNCHANGED <<now, lastSign, lease, fuzzy>>

AbsDisposeP(p, obs) ==
  LET annN == [e \in E |-> ann[e] /\ Owner[e] # p]
      x1 == IF p \in obs.parts THEN {"C12_disposed_participant_still_known"} ELSE {}
      x2 == IF \E e \in E : Owner[e] = p /\ e \in obs.ext THEN {"C12_dispose_left_endpoints_behind"} ELSE {}
      x3 == IF \E e \in obs.wm \cup obs.rm : Owner[e] = p THEN {"C12_endpoint_of_lost_participant_still_matched"} ELSE {}
  IN /\ known' = [known EXCEPT ![p] = FALSE]
     \* disposed while known: everything goes.  Disposed while lost (its endpoints are in the attic): left open
     /\ attic' = IF known[p] THEN [e \in E |-> attic[e] /\ Owner[e] # p] ELSE attic
     /\ fuzzy' = IF known[p] THEN [e \in E |-> fuzzy[e] /\ Owner[e] # p] ELSE [e \in E |-> fuzzy[e] \/ (attic[e] /\ Owner[e] = p)]
     /\ Finish(annN, [e \in E |-> stale[e] /\ Owner[e] # p], obs, x1 \cup x2 \cup x3)
     /\ UNCHANGED <<now, lastSign, lease>>

\* SEDP announcement (or re-announcement) of endpoint e; c: its QoS is compatible with the local endpoint it concerns
AbsAnnounceQ(e, c, obs) ==
  LET annN == [ann EXCEPT ![e] = TRUE]
      cN == [cls EXCEPT ![e] = c]
      evs == IF IsReader[e] THEN obs.ws ELSE obs.rs
      mine == IF IsReader[e] THEN haveW ELSE haveR
      x1 == IF mine /\ OnTopic[e] /\ ~c /\ ~(\E i \in DOMAIN evs : evs[i].k = "IncompatibleQos")
              THEN {"C11_no_incompatible_qos_event"} ELSE {}
  IN /\ FinishL(annN, [stale EXCEPT ![e] = FALSE], cN, haveW, haveR, obs, x1)
     /\ UNCHANGED <<now, known, lastSign, lease, attic, fuzzy>>
AbsAnnounce(e, obs) == AbsAnnounceQ(e, cls[e], obs)

\* the application creates its DataWriter (side "w") or DataReader ("r") now: it is matched with what discovery already
\* knows, judged by the QoS each endpoint announced last
AbsCreateLocal(side, obs) ==
  /\ FinishL(ann, stale, cls, haveW \/ side = "w", haveR \/ side = "r", obs, {})
  /\ UNCHANGED <<now, known, lastSign, lease, attic, fuzzy>>

AbsDisposeE(e, obs) ==
  /\ Finish([ann EXCEPT ![e] = FALSE], [stale EXCEPT ![e] = FALSE], obs, {})
  \* a disposal that arrives while the endpoint sits in the attic (its participant is lost): left open whether it
  \* is known again when the participant reappears
  /\ attic' = attic /\ fuzzy' = [fuzzy EXCEPT ![e] = attic[e]]
  /\ UNCHANGED <<now, known, lastSign, lease>>

DInv_NoViolation == viol = {}
===========================================================================
