SPECIFICATION Spec
CONSTANTS
  Scenario = "nkstream"
  N = 4
  Cap = 16
  Kinds <- KindsVDDV
  Script <- ScriptNone
  Readers = 0
  GenK = 1
VIEW View
INVARIANT Inv_NoLostWake
ACTION_CONSTRAINT GenEdge
CHECK_DEADLOCK FALSE
