SPECIFICATION Spec
CONSTANTS
  P = {1, 2}
  E = {3, 4, 5, 7, 8}
  Owner <- OwnerDef
  IsReader <- IsReaderDef
  OnTopic <- OnTopicDef
  Compatible <- CompatibleDef
  DefaultLease = 60000
  Late = TRUE
  Leases = {1100}
  Dts = {2000}
  MaxSteps = 6
  MaxTime = 2000
  GenK = 40
CONSTRAINT Bound
VIEW View
INVARIANT DInv_NoViolation
INVARIANT Inv_ParticipantsAgree
INVARIANT Inv_AtticOnlyOfAbsent
INVARIANT Inv_MatchedAreKnown
INVARIANT Inv_LifeSignsAgree
INVARIANT Inv_LocalAgree
INVARIANT Inv_AnnouncedAreKnown
ACTION_CONSTRAINT GenEdge
CHECK_DEADLOCK FALSE
