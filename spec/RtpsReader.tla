----------------------------- MODULE RtpsReader -----------------------------
(***************************************************************************)
(* Implementation-shaped model of the receive path of RustDDS              *)
(*   rtps_writer_proxy.rs  (ack_base + changes map, missing_seqnums,       *)
(*                          irrelevant_changes_range, advance_ack_base)    *)
(*   reader.rs             (handle_data_msg, handle_datafrag_msg,          *)
(*                          handle_heartbeat_msg, handle_gap_msg)          *)
(*   fragment_assembler.rs (assembly buffers per writer and sn)            *)
(*   dds_cache.rs          (TopicCache: per-writer sn index, reliable      *)
(*                          marker, get_changes_in_range_reliable)         *)
(*   simpledatareader.rs / datareader.rs / datasample_cache.rs             *)
(*                         (read pointers, fill, select-by-sn, take)       *)
(* one action per received submessage / API call.  The outputs the model   *)
(* computes (ACKNACK, NACKFRAG, result of take) are passed through the     *)
(* observers of ReaderAbs, so TLC decides C01 and C03 for every input      *)
(* sequence within the bound; `hist` records the inputs so that every      *)
(* explored edge can be replayed against the real code.                    *)
(***************************************************************************)
EXTENDS ReaderAbs, Json, SequencesExt

Lt(a, b) == a < b

CONSTANTS HostileClasses, \* C06: classes of hostile datagrams a second peer may inject at any point ({} = none)
          HostileMatched, \* ... and whether that peer (writer 3) is matched with the reader
          GenK,        \* behaviour generation: print one of GenK explored edges (0 = none)
          MaxSN,       \* sequence numbers 1..MaxSN
          FragSNs,     \* sequence numbers whose samples are sent as 2 fragments
          MaxSteps,    \* bound on the length of a behaviour
          Reliable     \* reader is RELIABLE

VARIABLES
  ab,        \* [Writers -> Int]         RtpsWriterProxy.ack_base
  chg,       \* [Writers -> SUBSET Int]  keys of RtpsWriterProxy.changes
  rhb,       \* [Writers -> Int]         received_heartbeat_count
  sac,       \* [Writers -> Int]         sent_ack_nack_count
  asm,       \* [Writers -> function sn |-> set of fragments]  assembly buffers
  cache,     \* set of [w, sn, idx]      TopicCache.changes (idx = reception order)
  nidx,      \* next reception index
  marker,    \* [Writers -> Int]         received_reliably_before
  lastRead,  \* [Writers -> Int]         ReadState.last_read_sn
  latestIdx, \* read pointer of a best-effort reader
  dsc,       \* set of [w, sn, idx]      DataSampleCache
  steps,
  hist

implVars == <<ab, chg, rhb, sac, asm, cache, nidx, marker, lastRead, latestIdx, dsc>>
vars == <<absVars, implVars, steps, hist>>

NFrags == 2
SNs == 1..MaxSN

Init ==
  /\ AbsInit
  /\ ab = [w \in Writers |-> 1]
  /\ chg = [w \in Writers |-> {}]
  /\ rhb = [w \in Writers |-> 0]
  /\ sac = [w \in Writers |-> 0]
  /\ asm = [w \in Writers |-> <<>>]
  /\ cache = {}
  /\ nidx = 1
  /\ marker = [w \in Writers |-> 1]
  /\ lastRead = [w \in Writers |-> 0]
  /\ latestIdx = 0
  /\ dsc = {}
  /\ steps = 0
  /\ hist = IF HostileClasses # {} /\ HostileMatched THEN <<[a |-> "Match", w |-> 3]>> ELSE <<>>

Log(a) == /\ steps' = steps + 1
          /\ hist' = Append(hist, a)

(* ---- Reader::update_writer_proxy / remove_writer_proxy ---- *)
Match(w) ==
  /\ ~matched[w]
  /\ AbsMatch(w)
  /\ ab' = [ab EXCEPT ![w] = 1]
  /\ chg' = [chg EXCEPT ![w] = {}]
  /\ rhb' = [rhb EXCEPT ![w] = 0]
  /\ sac' = [sac EXCEPT ![w] = 0]
  /\ UNCHANGED <<asm, cache, nidx, marker, lastRead, latestIdx, dsc>>
  /\ Log([a |-> "Match", w |-> w])

\* discovery announces a writer that is already matched (a periodic or changed SEDP announcement):
\* Reader::update_writer_proxy -> RtpsWriterProxy::update_contents keeps the whole reception state
ReAnnounce(w) ==
  /\ matched[w]
  /\ AbsMatch(w)
  /\ UNCHANGED implVars
  /\ Log([a |-> "Match", w |-> w])

Unmatch(w) ==
  /\ matched[w]
  /\ AbsUnmatch(w)
  /\ UNCHANGED implVars
  /\ Log([a |-> "Unmatch", w |-> w])

(* ---- process_received_data (common to DATA and completed DATAFRAG) ---- *)
\* returns <<ab', chg', cache', nidx', marker'>> for writer w
Received(w, sn) ==
  IF ~matched[w] \/ sn < ab[w] \/ sn \in chg[w]
    THEN <<ab[w], chg[w], cache, nidx, marker[w]>>        \* unmatched or should_ignore_change
    ELSE LET c2 == chg[w] \cup {sn}
             a2 == IF sn = ab[w] THEN Adv(ab[w], c2) ELSE ab[w]
             dup == \E c \in cache : c.w = w /\ c.sn = sn     \* TopicCache.find_by_sn
         IN <<a2, c2,
              IF dup THEN cache ELSE cache \cup {[w |-> w, sn |-> sn, idx |-> nidx]},
              IF dup THEN nidx ELSE nidx + 1,
              a2>>                                           \* mark_reliably_received_before(ack_base)

Data(w, sn) ==
  /\ sn \notin FragSNs
  /\ LET r == Received(w, sn) IN
       /\ ab' = [ab EXCEPT ![w] = r[1]]
       /\ chg' = [chg EXCEPT ![w] = r[2]]
       /\ cache' = r[3]
       /\ nidx' = r[4]
       /\ marker' = [marker EXCEPT ![w] = r[5]]
  /\ AbsData(w, sn, sn, sn)
  /\ UNCHANGED <<rhb, sac, asm, lastRead, latestIdx, dsc>>
  \* whether the datagram carries an INFO_TS (no: the sample has no source timestamp, whatever earlier datagrams said) and
  \* how long the submessage header is (octetsToInlineQos = 16 + hx) does not matter to the protocol: drawn for the replay
  /\ Log([a |-> "Data", w |-> w, sn |-> sn, nots |-> (RandomElement(1..5) = 1), hx |-> RandomElement({0, 0, 4, 8})])

\* DATAFRAG carrying fragments f .. f+fc-1
DataFrag(w, sn, f, fc) ==
  /\ sn \in FragSNs
  /\ f + fc - 1 <= NFrags
  /\ LET old  == IF sn \in DOMAIN asm[w] THEN asm[w][sn] ELSE {}
         seen == old \cup (f .. (f + fc - 1))
         done == seen = 1..NFrags
         r    == IF done THEN Received(w, sn) ELSE <<ab[w], chg[w], cache, nidx, marker[w]>>
     IN /\ asm' = [asm EXCEPT ![w] =
                     IF done THEN [x \in DOMAIN @ \ {sn} |-> @[x]]
                     ELSE [x \in DOMAIN @ \cup {sn} |-> IF x = sn THEN seen ELSE @[x]]]
        /\ ab' = [ab EXCEPT ![w] = r[1]]
        /\ chg' = [chg EXCEPT ![w] = r[2]]
        /\ cache' = r[3]
        /\ nidx' = r[4]
        /\ marker' = [marker EXCEPT ![w] = r[5]]
  /\ AbsDataFrag(w, sn, f, fc, NFrags, sn, sn)
  /\ UNCHANGED <<rhb, sac, lastRead, latestIdx, dsc>>
  /\ Log([a |-> "DataFrag", w |-> w, sn |-> sn, fs |-> f, fc |-> fc, tot |-> NFrags])

(* ---- RtpsWriterProxy.irrelevant_changes_range(from, until) ---- *)
\* returns <<ab', chg'>>
IrrRange(a, c, from, until) ==
  IF from > until THEN <<a, c>>
  ELSE IF from <= a
         THEN LET c2 == {x \in c : x < from \/ x >= until}
              IN IF until > a THEN <<Adv(until, c2), c2>> ELSE <<a, c2>>
         ELSE <<a, c \cup (from .. (until - 1))>>

(* ---- Reader::handle_heartbeat_msg ---- *)
Heartbeat(w, first, last, count, final) ==
  /\ LET proc == Reliable /\ matched[w] /\ count > rhb[w]
         ir   == IrrRange(ab[w], chg[w], 0, first)
         a2   == IF proc THEN ir[1] ELSE ab[w]
         c2   == IF proc THEN ir[2] ELSE chg[w]
         miss == IF first > last THEN {}
                 ELSE {s \in (IF first > a2 THEN first ELSE a2) .. last : s \notin c2}
         reply == proc /\ (miss # {} \/ ~final)
         fm   == Min(miss)
         win  == {s \in miss : s < fm + 256}
         part == {s \in win : s \in DOMAIN asm[w]}
         ack  == IF miss # {} THEN [base |-> fm, set |-> win \ part, count |-> sac[w]]
                 ELSE [base |-> a2, set |-> {}, count |-> sac[w]]
         \* NACKFRAGs are sent before the ACKNACK, but take their counts after it
         partSeq == SetToSortSeq(part, Lt)
         nfs  == [i \in DOMAIN partSeq |->
                    [sn |-> partSeq[i], set |-> (1..NFrags) \ asm[w][partSeq[i]], count |-> sac[w] + i]]
     IN /\ ab' = [ab EXCEPT ![w] = a2]
        /\ chg' = [chg EXCEPT ![w] = c2]
        /\ rhb' = [rhb EXCEPT ![w] = IF proc THEN count ELSE @]
        /\ marker' = [marker EXCEPT ![w] = IF proc THEN a2 ELSE @]
        /\ sac' = [sac EXCEPT ![w] = IF reply THEN @ + 1 + Cardinality(part) ELSE @]
        /\ AbsHeartbeat(w, first, last, count, Reliable,
                        IF reply THEN <<ack>> ELSE <<>>, IF reply THEN nfs ELSE <<>>)
  /\ UNCHANGED <<asm, cache, nidx, lastRead, latestIdx, dsc>>
  /\ Log([a |-> "Heartbeat", w |-> w, first |-> first, last |-> last, count |-> count, fin |-> final])

(* ---- Reader::handle_gap_msg ---- *)
RECURSIVE SetIrr(_, _, _)
SetIrr(a, c, list) ==       \* set_irrelevant_change for each listed number, ascending
  IF list = <<>> THEN <<a, c>>
  ELSE LET s  == Head(list)
           c2 == IF s >= a THEN c \cup {s} ELSE c
           a2 == IF s = a THEN Adv(a, c2) ELSE a
       IN SetIrr(a2, c2, Tail(list))

Gap(w, start, base, set) ==
  /\ LET proc == matched[w] /\ start >= 1 /\ base >= 1
         ir   == IrrRange(ab[w], chg[w], start, base)
         r    == SetIrr(ir[1], ir[2], SetToSortSeq(set, Lt))
     IN /\ ab' = [ab EXCEPT ![w] = IF proc THEN r[1] ELSE @]
        /\ chg' = [chg EXCEPT ![w] = IF proc THEN r[2] ELSE @]
        /\ marker' = [marker EXCEPT ![w] = IF proc THEN r[1] ELSE @]
  /\ AbsGap(w, start, base, set)
  /\ UNCHANGED <<rhb, sac, asm, cache, nidx, lastRead, latestIdx, dsc>>
  \* the shape of the bitmap is not part of its meaning: extra in-range zero bits after the highest member, and ones in
  \* the padding of the last word beyond numBits (undefined on the wire) - drawn for the replay, same transition
  /\ Log([a |-> "Gap", w |-> w, start |-> start, base |-> base, set |-> SetToSortSeq(set, Lt),
          nbits |-> RandomElement(0..3), dirty |-> RandomElement(BOOLEAN)])

(* ---- DataReader::take(max, any) ---- *)
\* fill: everything the SimpleDataReader can currently take moves to the DataSampleCache
Avail(w) == IF Reliable
              THEN {c \in cache : c.w = w /\ c.sn > lastRead[w] /\ c.sn < marker[w]}
              ELSE {c \in cache : c.w = w /\ c.idx > latestIdx}
Before(x, y) == x.sn < y.sn \/ (x.sn = y.sn /\ x.idx < y.idx)   \* stable sort by sn of idx order

Take(max) ==
  /\ LET newly == UNION {Avail(w) : w \in Writers}
         d2    == dsc \cup newly
         order == SetToSortSeq(d2, Before)
         n     == IF Len(order) < max THEN Len(order) ELSE max
         got   == SubSeq(order, 1, n)
     IN /\ dsc' = d2 \ {got[i] : i \in 1..n}
        /\ lastRead' = [w \in Writers |->
                          IF Reliable /\ Avail(w) # {} THEN Max({c.sn : c \in Avail(w)}) ELSE lastRead[w]]
        /\ latestIdx' = IF ~Reliable /\ newly # {} THEN Max({c.idx : c \in newly}) ELSE latestIdx
        /\ ObsHand([i \in 1..n |-> [w |-> got[i].w, sn |-> got[i].sn, pid |-> got[i].sn, ts |-> got[i].sn,
                                    checkOrder |-> Reliable, checkHoles |-> Reliable]])
  /\ UNCHANGED <<ab, chg, rhb, sac, asm, cache, nidx, marker>>
  /\ Log([a |-> "Take", max |-> max, byinst |-> (RandomElement(1..4) = 1)])

(* ---- C06: a hostile datagram of class c from peer 3 ---- *)
\* Non-interference is all the property promises: nothing the well-behaved writers and the reader
\* agreed on changes.  (Trivial here; it is the real code that has to live up to it when this step
\* is replayed at every reachable state.)
Hostile(c) ==
  /\ UNCHANGED <<absVars, implVars>>
  /\ Log([a |-> "Hostile", w |-> 3, cls |-> c])

(* ------------------------------------------------------------------ *)
(* ---- DPEV_ACKNACK_TIMER: MessageReceiver::send_preemptive_acknacks ---- *)
\* A pre-emptive ACKNACK (base 1, empty set, not final) goes to every matched writer whose proxy says "nothing received
\* yet" (RtpsWriterProxy::no_changes_received: ack_base = 0 and no changes).  A proxy made for a discovered writer starts
\* with ack_base 1, so for the writers of this model the tick sends nothing - which is what keeps the ACKNACK stream
\* truthful (C03): a base-1 ACKNACK after the base has moved on would take acknowledgments back.
PreTick ==
  /\ LET S == {w \in Writers : matched[w] /\ ab[w] = 0 /\ chg[w] = {}} IN S = {}
  /\ UNCHANGED <<absVars, implVars>>
  /\ Log([a |-> "PreTick"])

Next ==
  \/ PreTick
  \/ \E w \in Writers : Match(w) \/ Unmatch(w) \/ ReAnnounce(w)
  \/ \E w \in Writers, sn \in SNs : Data(w, sn)
  \/ \E w \in Writers, sn \in FragSNs, f \in 1..NFrags, fc \in 1..NFrags : DataFrag(w, sn, f, fc)
  \/ \E w \in Writers, first \in 0..(MaxSN + 1), last \in 0..MaxSN, fresh \in BOOLEAN, final \in BOOLEAN :
        Heartbeat(w, first, last, IF fresh THEN rhb[w] + 1 ELSE rhb[w], final)
  \/ \E w \in Writers, start \in 1..MaxSN, base \in 1..(MaxSN + 1) :
        \E set \in SUBSET (base .. (IF base + 2 > MaxSN + 1 THEN MaxSN + 1 ELSE base + 2)) :
          Gap(w, start, base, set)
  \/ \E max \in {1, 100} : Take(max)
  \/ \E c \in HostileClasses : Hostile(c)

Spec == Init /\ [][Next]_vars

Bound == steps <= MaxSteps
View == <<absVars, implVars, steps>>   \* steps kept: the bound is then exact whatever the order of exploration

(* ---- model-level properties ---- *)
\* the reliable marker never runs ahead of what is known, and the ack base is exactly the
\* abstract lowest unknown sequence number while matched (refinement of the abstract state)
Inv_AckBaseIsLowestUnknown == \A w \in Writers : matched[w] => ab[w] = low[w]
Inv_MarkerSound == \A w \in Writers : matched[w] => marker[w] <= low[w]
\* everything received during the match is in the cache or was handed over (nothing lost)
Inv_CacheComplete ==
  \A w \in Writers : \A sn \in DOMAIN deliv[w] :
     (\E c \in cache : c.w = w /\ c.sn = sn)

\* edge dump for replay generation: one line per explored transition = a complete behaviour
GenEdge == (GenK > 0 /\ RandomElement(1..GenK) = 1) =>
             PrintT("REPLAY " \o ToJson([reliable |-> Reliable, acts |-> hist']))
==========================================================================
