----------------------------- MODULE RtpsWriter -----------------------------
(***************************************************************************)
(* Implementation-shaped model of the RustDDS stateful writer               *)
(*   writer.rs            (HistoryBuffer first_seq/last_seq, AckWaiter,     *)
(*                         process_writer_command, send_cache_change,       *)
(*                         handle_ack_nack, handle_repair_data_send_worker, *)
(*                         handle_heartbeat_tick, handle_cache_cleaning)    *)
(*   rtps_reader_proxy.rs (all_acked_before, unsent_changes, pending_gap,   *)
(*                         repair_mode)                                     *)
(* one action per command / received ACKNACK / timer firing.  The datagrams *)
(* the model emits, the retained set and the waiter signal go through the   *)
(* observers of WriterAbs, so TLC decides C04 and C20 for every interleaving*)
(* within the bound; `trail` records the inputs for replay on the real code.*)
(* (Unfragmented samples only; fragmented repair is covered by the random   *)
(* runs of the writer driver and by RtpsLink.)                              *)
(***************************************************************************)
EXTENDS WriterAbs, Json, SequencesExt

CONSTANTS RelW0,     \* writer reliable
          VolW0,     \* writer durability explicitly Volatile
          Depth,     \* History KeepLast depth
          MaxWrites, MaxSteps,
          GenK

VARIABLES
  hb,        \* set of sequence numbers in HistoryBuffer
  hfirst,    \* HistoryBuffer.first_seq
  pPres,     \* [Readers -> BOOLEAN]  proxy exists
  pRel,      \* [Readers -> BOOLEAN]  proxy QoS reliable
  pAck,      \* [Readers -> Int]      all_acked_before
  pUns,      \* [Readers -> SUBSET Int] unsent_changes
  pGap,      \* [Readers -> SUBSET Int] pending_gap
  pRep,      \* [Readers -> BOOLEAN]  repair_mode
  awAct, awUntil, awPend,   \* AckWaiter
  done,      \* completion signal of the current wait observed
  steps, trail

implVars == <<hb, hfirst, pPres, pRel, pAck, pUns, pGap, pRep, awAct, awUntil, awPend, done>>
vars == <<wabsVars, implVars, steps, trail>>

Lt(a, b) == a < b
hlast == Len(wr)
Present == {r \in Readers : pPres[r]}

Init ==
  /\ WAbsInit(RelW0, VolW0, IF Depth = 0 THEN 1000000 ELSE Depth)   \* Depth = 0: KeepAll
  /\ hb = {} /\ hfirst = 1
  /\ pPres = [r \in Readers |-> FALSE]
  /\ pRel = [r \in Readers |-> FALSE]
  /\ pAck = [r \in Readers |-> 0]
  /\ pUns = [r \in Readers |-> {}]
  /\ pGap = [r \in Readers |-> {}]
  /\ pRep = [r \in Readers |-> FALSE]
  /\ awAct = FALSE /\ awUntil = 0 /\ awPend = {}
  /\ done = FALSE
  /\ steps = 0 /\ trail = <<>>

Log(a) == steps' = steps + 1 /\ trail' = Append(trail, a)

Data(sn) == [k |-> "DATA", sn |-> sn, pid |-> sn, ok |-> TRUE]
Gap(set) == [k |-> "GAP", set |-> set]
Hb(first, last) == [k |-> "HB", first |-> first, last |-> last]
Dg(r, subs) == [to |-> r, subs |-> subs]

(* ---- WriterCommand::DDSData ---- *)
Write(single) ==
  /\ hlast < MaxWrites
  /\ LET sn   == hlast + 1
         hb2  == hb \cup {sn}
         subsAll == <<Data(sn), Hb(hfirst, sn)>>
         rs   == SetToSortSeq(Present, Lt)
         out  == IF single = 0
                   THEN [i \in DOMAIN rs |-> Dg(rs[i], subsAll)]
                   ELSE IF pPres[single]
                          THEN <<Dg(single, (IF pGap[single] # {} THEN <<Gap(pGap[single])>> ELSE <<>>) \o subsAll)>>
                          ELSE <<>>
     IN /\ hb' = hb2
        /\ pUns' = [r \in Readers |-> IF pPres[r] THEN pUns[r] \cup {sn} ELSE pUns[r]]
        /\ pGap' = [r \in Readers |-> IF pPres[r] /\ single # 0 /\ r # single THEN pGap[r] \cup {sn} ELSE pGap[r]]
        /\ AbsWrite(sn, single, hb2, out, done)
  /\ UNCHANGED <<hfirst, pPres, pRel, pAck, pRep, awAct, awUntil, awPend, done>>
  \* the source timestamp the application gives (increasing, always the same, decreasing, none) is the application's
  \* business and changes nothing in the design: drawn for the replay
  /\ Log([a |-> "Write", single |-> single, big |-> FALSE, ts |-> RandomElement({"inc", "same", "dec", "none"})])

(* ---- Writer::update_reader_proxy / reader_lost ---- *)
\* rtl: the reader requests TransientLocal.  compliance_failure_wrt (RxO) comes first; a new proxy gets
\* pending GAP for everything written so far unless the writer serves history AND the reader asked for it.
Match(r, kind, rtl) ==
  /\ LET compatible == ~(kind = "rel" /\ ~RelW0) /\ ~(rtl /\ VolW0)
         new == compatible /\ ~pPres[r]
     IN /\ pPres' = [pPres EXCEPT ![r] = @ \/ compatible]
        /\ pRel'  = [pRel EXCEPT ![r] = IF new THEN kind = "rel" ELSE @]
        /\ pAck'  = [pAck EXCEPT ![r] = IF new THEN 0 ELSE @]
        /\ pUns'  = [pUns EXCEPT ![r] = IF new THEN {} ELSE @]
        /\ pGap'  = [pGap EXCEPT ![r] = IF new THEN (IF VolW0 \/ ~rtl THEN 1..hlast ELSE {}) ELSE @]
        /\ pRep'  = [pRep EXCEPT ![r] = IF new THEN FALSE ELSE @]
        \* a re-announcement never changes the kind of a matched reader (driver assumption)
        /\ (pPres[r] => (kind = "rel") = pRel[r])
  /\ AbsMatchR(r, kind, rtl, hb, <<>>, done)
  /\ UNCHANGED <<hb, hfirst, awAct, awUntil, awPend, done>>
  /\ Log([a |-> "Match", r |-> r, kind |-> kind, rtl |-> rtl])

\* AckWaiter.reader_acked_or_lost + update_ack_waiters; returns <<awAct', awPend', done'>>
Waiter(r, ackedBefore, lost) ==
  IF ~awAct THEN <<awAct, awPend, done>>
  ELSE LET p == IF lost \/ awUntil < ackedBefore THEN awPend \ {r} ELSE awPend
       IN IF p = {} THEN <<FALSE, {}, TRUE>> ELSE <<TRUE, p, done>>

Lose(r) ==
  /\ pPres[r]
  /\ LET w == Waiter(r, 0, TRUE) IN
       /\ awAct' = w[1] /\ awPend' = w[2] /\ done' = w[3]
       /\ AbsLose(r, hb, <<>>, w[3])
  /\ pPres' = [pPres EXCEPT ![r] = FALSE]
  /\ UNCHANGED <<hb, hfirst, pRel, pAck, pUns, pGap, pRep, awUntil>>
  /\ Log([a |-> "Lose", r |-> r])

(* ---- Writer::handle_ack_nack + RtpsReaderProxy::handle_ack_nack ---- *)
AckNack(r, base, set) ==
  /\ IF ~RelW0
       THEN /\ UNCHANGED <<pAck, pUns, pGap, pRep, awAct, awPend, done>>
            /\ AbsAckNack(r, base, set, hb, <<>>, done)
       ELSE LET w  == Waiter(r, base, FALSE)
                b  == IF base < 1 THEN 1 ELSE base
                u1 == {u \in pUns[r] : u >= b} \cup set
                u2 == {u \in u1 : u <= hlast}
                g2 == {g \in pGap[r] : g >= b}
                out == IF pPres[r] /\ g2 # {} THEN <<Dg(r, <<Gap(g2)>>)>> ELSE <<>>
            IN /\ awAct' = w[1] /\ awPend' = w[2] /\ done' = w[3]
               /\ pAck' = [pAck EXCEPT ![r] = IF pPres[r] THEN b ELSE @]
               /\ pUns' = [pUns EXCEPT ![r] = IF pPres[r] THEN u2 ELSE @]
               /\ pGap' = [pGap EXCEPT ![r] = IF pPres[r] THEN g2 ELSE @]
               /\ pRep' = [pRep EXCEPT ![r] = IF pPres[r] THEN ~(b > hlast) ELSE @]
               /\ AbsAckNack(r, base, set, hb, out, w[3])
  /\ UNCHANGED <<hb, hfirst, pPres, pRel, awUntil>>
  \* how the datagram says whom it is for, and the shape of its bitmap, do not matter: drawn for the replay
  /\ Log([a |-> "AckNack", r |-> r, base |-> base, set |-> SetToSortSeq(set, Lt),
          dst |-> RandomElement({"", "own"}), nbits |-> RandomElement(0..3), dirty |-> RandomElement(BOOLEAN)])

\* an ACKNACK of reader r for the writer with the same entity id in ANOTHER participant (INFO_DST names it) reaches our
\* socket: MessageReceiver::handle_reader_submessage drops it, nothing happens
AckNackElsewhere(r, base, set) ==
  /\ AbsOutputs(hb, <<>>, done)
  /\ UNCHANGED implVars
  /\ Log([a |-> "AckNack", r |-> r, base |-> base, set |-> SetToSortSeq(set, Lt), dst |-> "other", nbits |-> 0, dirty |-> FALSE])

(* ---- TimedEvent::SendRepairData ---- *)
Repair(r) ==
  /\ IF ~pPres[r] THEN UNCHANGED <<pUns, pRep>> /\ AbsOutputs(hb, <<>>, done)
     ELSE IF pUns[r] = {} THEN pRep' = [pRep EXCEPT ![r] = FALSE] /\ UNCHANGED pUns /\ AbsOutputs(hb, <<>>, done)
     ELSE LET u == WMin(pUns[r])
              allIrr == u < hfirst
              mine == u \in hb /\ (wr[u].single = 0 \/ wr[u].single = r)
              viaGap == u \in pGap[r] \/ allIrr
              nlr == IF viaGap THEN pGap[r] ELSE IF mine THEN {} ELSE {u}
              dataMsg == IF ~viaGap /\ mine
                           THEN <<Dg(r, (IF pGap[r] # {} THEN <<Gap(pGap[r])>> ELSE <<>>) \o <<Data(u)>>)>>
                           ELSE <<>>
              gapSubs == (IF allIrr THEN <<Gap(1..(hfirst - 1))>> ELSE <<>>)
                         \o (IF nlr # {} THEN <<Gap(nlr)>> ELSE <<>>)
              gapMsg == IF gapSubs # <<>> THEN <<Dg(r, gapSubs)>> ELSE <<>>
              u1 == IF ~viaGap /\ mine THEN pUns[r] \ {u} ELSE pUns[r]
              u2 == IF allIrr THEN {x \in u1 : x >= hfirst} ELSE u1
          IN /\ pUns' = [pUns EXCEPT ![r] = u2 \ nlr]
             /\ UNCHANGED pRep
             /\ AbsOutputs(hb, dataMsg \o gapMsg, done)
  /\ UNCHANGED <<hb, hfirst, pPres, pRel, pAck, pGap, awAct, awUntil, awPend, done>>
  /\ Log([a |-> "Repair", r |-> r])

\* the repair timers of r are idle (repair_mode off): every request must have been answered
RepairDone(r) ==
  /\ pPres[r] /\ ~pRep[r]
  /\ AbsRepairDone(r, TRUE)
  /\ UNCHANGED implVars
  /\ Log([a |-> "RepairAll", r |-> r])

(* ---- TimedEvent::Heartbeat ---- *)
HBTick ==
  /\ LET quiet == \A r \in Present : hlast < pAck[r]
         rs == SetToSortSeq(Present, Lt)
         out == IF quiet THEN <<>> ELSE [i \in DOMAIN rs |-> Dg(rs[i], <<Hb(hfirst, hlast)>>)]
     IN AbsOutputs(hb, out, done)
  /\ UNCHANGED implVars
  /\ Log([a |-> "HBTick"])

(* ---- TimedEvent::CacheCleaning ---- *)
Clean ==
  /\ LET rels == {r \in Present : pRel[r]}
         lo == IF rels = {} THEN hlast + 1
               ELSE LET m == WMin({pAck[r] : r \in rels}) IN IF m > hlast + 1 THEN hlast + 1 ELSE m
         fk0 == lo - (IF Depth = 0 \/ Depth > 32 THEN 32 ELSE Depth)   \* min(depth, resource_limit = 32)
         fk == IF fk0 > hfirst THEN fk0 ELSE hfirst
         found == fk \in hb
         hb2 == IF found THEN {x \in hb : x >= fk} ELSE hb
     IN /\ hb' = hb2
        /\ hfirst' = IF found /\ fk >= hfirst THEN fk ELSE hfirst
        /\ AbsClean(hb2, done)
  /\ UNCHANGED <<pPres, pRel, pAck, pUns, pGap, pRep, awAct, awUntil, awPend, done>>
  /\ Log([a |-> "Clean"])

(* ---- WriterCommand::WaitForAcknowledgments ---- *)
Wait ==
  /\ LET pend == {r \in Present : pRel[r] /\ hlast >= 1 /\ pAck[r] <= hlast}
         d == pend = {}
     IN /\ awAct' = ~d /\ awUntil' = hlast /\ awPend' = pend
        /\ done' = d
        /\ AbsWait(d)
  /\ UNCHANGED <<hb, hfirst, pPres, pRel, pAck, pUns, pGap, pRep>>
  /\ Log([a |-> "Wait"])

Next ==
  \/ \E s \in {0} \cup Readers : Write(s)
  \/ \E r \in Readers, k \in {"rel", "be"}, rtl \in BOOLEAN : Match(r, k, rtl)
  \/ \E r \in Readers : Lose(r) \/ Repair(r) \/ RepairDone(r)
  \/ \E r \in Readers, base \in 0..(MaxWrites + 2) :
       \E set \in SUBSET (base .. (IF base + 1 > MaxWrites + 1 THEN MaxWrites + 1 ELSE base + 1)) :
         (AckNack(r, base, {s \in set : s >= 1}) \/ (base >= 1 /\ AckNackElsewhere(r, base, {s \in set : s >= 1})))
  \/ HBTick \/ Clean \/ Wait

Spec == Init /\ [][Next]_vars
Bound == steps <= MaxSteps
View == <<wabsVars, implVars, steps>>   \* steps kept: the bound is then exact whatever the order of exploration

\* refinement facts relating the code's bookkeeping to the abstract state
Inv_HistoryIsRange == hb = {x \in 1..hlast : x >= hfirst} /\ hist = hb
Inv_ProxyMatchesAbstract == \A r \in Readers : pPres[r] <=> rd[r] # "none"

GenEdge == (GenK > 0 /\ RandomElement(1..GenK) = 1) =>
             PrintT("REPLAY " \o ToJson([rel |-> RelW0, tl |-> ~VolW0, hist |-> Depth, frag |-> 64, acts |-> trail',
                                          shared |-> (RandomElement(1..3) = 1)]))
==========================================================================
