SPECIFICATION Spec
CONSTANTS
  NF = 4
  Delays = {1, 4, 6, 8, 12}
  Timeout = 10
  MinGC = 2
  Stale = 9
  MaxDgrams = 9
  MaxDrop = 1
  Refresh = FALSE
  GenK = 0
VIEW View
INVARIANT Inv_ProgressKept
INVARIANT Inv_Complete
ACTION_CONSTRAINT GenEdge
CHECK_DEADLOCK FALSE
