SPECIFICATION TraceSpec
CONSTANTS
  P = {1, 2}
  E = {1, 2, 3, 4, 5, 6, 7, 8}
  Owner <- OwnerDef
  IsReader <- IsReaderDef
  OnTopic <- OnTopicDef
  Compatible <- CompatibleDef
  DefaultLease = 60000
POSTCONDITION TraceAccepted
CHECK_DEADLOCK FALSE
