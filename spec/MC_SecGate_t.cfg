SPECIFICATION Spec
CONSTANTS
  MDests = {"NN", "EN", "NE", "EE", "SN", "NS", "spdp", "stateless", "volatile", "sedp"}
  MKinds = {"DATA", "FRAG", "HB", "GAP", "ACK"}
  MGovs = {"N", "S", "E"}
  MaxLen = 5
  MXm = {0}
  MWraps = "all"
  MForms = {"D"}
  MSrcs = {"peer", "foreign"}
  GenK = 1
VIEW View
INVARIANT Inv_Protected
INVARIANT Inv_Flows
ACTION_CONSTRAINT GenEdge
CHECK_DEADLOCK FALSE
