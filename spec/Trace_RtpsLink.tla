-------------------------- MODULE Trace_RtpsLink --------------------------
(***************************************************************************)
(* Trace validation for the `link` driver (C02, C05): a real Writer and a  *)
(* real Reader/DataReader over a faulty network.  One line per datagram    *)
(* (with its fate), per write, per cleaning and per completed round; the   *)
(* Round line carries what the property talks about: which retained        *)
(* samples the reader has not been able to hand over, what the writer      *)
(* believes to be acknowledged, and the traffic of that round.             *)
(* K rounds without fault / new data must bring convergence, one more      *)
(* round quiet.  The known deviation S3 (see RtpsLink.tla) is recognised   *)
(* by its signature and reported as KNOWN only if the environment says it  *)
(* is listed (KNOWN_S3=1); anything else is a violation.                   *)
(***************************************************************************)
EXTENDS Integers, Sequences, FiniteSets, TLC, Json, IOUtils

Fr == INSTANCE Fragmentation WITH MaxFs <- 1, MaxMul <- 1, dummy <- 0

Rec == ndJsonDeserialize(IOEnv.TRACE)
KnownS3 == IOEnv.KNOWN_S3 = "1"
\* "a bounded number of rounds": K0, plus one round for every full window of sequence numbers the reader may have to
\* ask for (one ACKNACK names at most Win consecutive numbers; KB of RtpsLink.tla with the window size of the code)
K0 == 4
Win == 256
\* an assembly without progress for this long may be given up (the code: 10 s; one second of margin for real time)
Stale == 9000

VARIABLES l, run, clean, nfr, got, gotNow, arr, tx, hoff, maxAck, viol, known
tvars == <<l, run, clean, nfr, got, gotNow, arr, tx, hoff, maxAck, viol, known>>

ToSet(s) == {s[i] : i \in DOMAIN s}
LMin(S) == CHOOSE x \in S : \A y \in S : x <= y

\* tx: <<sn, fragment>> -> how often the writer put that fragment on the wire
TraceInit == l = 1 /\ run = 0 /\ clean = 0 /\ nfr = <<>> /\ got = <<>> /\ gotNow = <<>> /\ arr = <<>> /\ tx = <<>> /\ hoff = 0 /\ maxAck = 0 /\ viol = {} /\ known = {}

Put(f, k, v) == [x \in DOMAIN f \cup {k} |-> IF x = k THEN v ELSE f[x]]

Round(e) ==
  LET missing == ToSet(e.missing)
      traffic == ToSet(e.traffic)
      handed  == e.handed
      c2 == IF e.faults > 0 THEN 0 ELSE clean + 1
      K == K0 + (e.last \div Win)
      converged == missing = {} /\ e.acked = e.last + 1
      \* the number the reader is stuck at: the base of its ACKNACKs as the writer sees it (after a re-match of the reader
      \* side this can be a sample that was handed over during the previous match and is requested again)
      lo == e.acked
      s3sig == /\ lo >= 1 /\ lo <= e.last
               /\ lo \in DOMAIN nfr /\ nfr[lo] > 0                           \* it is fragmented
               /\ "rw:NACKFRAG" \in traffic                                    \* the reader keeps asking for fragments
               /\ e.unsent = <<>>                                              \* the writer has nothing scheduled
               \* and a fragment of it really never reached the reader (otherwise it is not this finding) ...
               /\ ~((1..nfr[lo]) \subseteq (IF lo \in DOMAIN gotNow THEN gotNow[lo] ELSE {}))
               \* ... although the writer did repeat every such fragment at least once: the finding is that the repair is
               \* not repeated, a writer that never repairs at all is something else
               \* (or the sample had been acknowledged during an earlier match of the reader side, so the writer rightly
               \* has nothing scheduled for it and only the NACKFRAG could bring it back)
               /\ \/ \A f \in 1..nfr[lo] :
                       f \notin (IF lo \in DOMAIN gotNow THEN gotNow[lo] ELSE {}) => (<<lo, f>> \in DOMAIN tx /\ tx[<<lo, f>>] >= 2)
                  \/ lo < maxAck
      stuck == c2 >= K /\ ~converged
      vConv == IF stuck /\ ~(KnownS3 /\ s3sig) THEN {"C02_not_converged_after_K_fault_free_rounds"} ELSE {}
      kConv == IF stuck /\ KnownS3 /\ s3sig THEN {"C02_S3_nackfrag_not_acted_upon"} ELSE {}
      vQuiet == IF c2 >= K + 1 /\ converged /\ traffic # {} THEN {"C02_traffic_after_convergence"} ELSE {}
      vBytes == IF e.bytes_bad # <<>> THEN {"C05_reassembled_bytes_differ"} ELSE {}
      \* (hoff: what was handed over before the reader side re-matched the writer belongs to the previous match)
      vTwice == IF Len(handed) > hoff /\ Cardinality({handed[i] : i \in (hoff + 1)..Len(handed)}) # Len(handed) - hoff
                  THEN {"C05_sample_delivered_twice"} ELSE {}
      \* every fragment of the lowest sample not yet handed over (nothing holds it back: the reliable reader hands
      \* over in order) has been delivered to the reader, yet it is not handed over
      \* (e.acked >= sn: the reader has acknowledged everything below it, so it knows the fate of every lower number -
      \* a late joiner that has not yet been told that the earlier numbers are not for it rightly holds the sample back)
      vAsm == IF missing # {} /\ (LET sn == LMin(missing) IN
                    sn \in DOMAIN nfr /\ nfr[sn] > 0 /\ sn \in DOMAIN gotNow /\ (1..nfr[sn]) \subseteq gotNow[sn] /\ e.acked >= sn /\ e.faults = 0)   \* (fault-free round: e.acked is current)
                THEN {"C05_complete_fragment_set_not_assembled"} ELSE {}
      vInc == IF \E i \in DOMAIN handed : handed[i] \in DOMAIN nfr /\ nfr[handed[i]] > 0 /\
                    ~((1..nfr[handed[i]]) \subseteq (IF handed[i] \in DOMAIN got THEN got[handed[i]] ELSE {}))
                THEN {"C05_delivered_before_all_fragments_arrived"} ELSE {}
  IN /\ clean' = c2
     /\ viol' = viol \cup vConv \cup vQuiet \cup vBytes \cup vTwice \cup vInc \cup vAsm
     /\ known' = known \cup kConv
     /\ maxAck' = IF e.acked > maxAck THEN e.acked ELSE maxAck
     /\ UNCHANGED <<run, nfr, got, gotNow, arr, tx, hoff>>

Step ==
  /\ l <= Len(Rec)
  /\ l' = l + 1
  /\ LET e == Rec[l] IN
     CASE e.ev = "Reset" -> run' = e.run /\ clean' = 0 /\ nfr' = <<>> /\ got' = <<>> /\ gotNow' = <<>> /\ arr' = <<>> /\ tx' = <<>> /\ hoff' = 0 /\ maxAck' = 0 /\ viol' = {} /\ known' = {}
       [] e.ev = "Write" -> nfr' = Put(nfr, e.sn, e.nfrags) /\ clean' = 0 /\ UNCHANGED <<run, got, gotNow, arr, tx, hoff, maxAck, viol, known>>
       [] e.ev = "Clean" -> clean' = 0 /\ UNCHANGED <<run, nfr, got, gotNow, arr, tx, hoff, maxAck, viol, known>>
       \* the reader side re-matches the writer: convergence is owed again; gotNow = fragments that arrived during this match
       [] e.ev = "Rematch" -> clean' = 0 /\ hoff' = e.handed /\ gotNow' = <<>> /\ arr' = <<>> /\ UNCHANGED <<run, nfr, got, tx, maxAck, viol, known>>
       [] e.ev = "Dgram" ->
            /\ got' = IF e.k = "FRAG" /\ e.fate # "drop"
                        THEN Put(got, e.sn, (IF e.sn \in DOMAIN got THEN got[e.sn] ELSE {}) \cup {e.f}) ELSE got
            \* gotNow: the fragments the reader can be expected to still have.  The reader may discard an assembly that
            \* made no progress for 10 s (virtual time e.t, milliseconds, moves only on a slow link): after a pause of
            \* Stale or more the count starts again.  While fragments keep arriving less than Stale apart, it must not.
            /\ gotNow' = IF e.k = "FRAG" /\ e.fate # "drop"
                        THEN Put(gotNow, e.sn, (IF e.sn \in DOMAIN gotNow /\ ~(e.sn \in DOMAIN arr /\ e.t - arr[e.sn] >= Stale)
                                                  THEN gotNow[e.sn] ELSE {}) \cup {e.f}) ELSE gotNow
            /\ arr' = IF e.k = "FRAG" /\ e.fate # "drop" THEN Put(arr, e.sn, e.t) ELSE arr
            /\ tx' = IF e.k = "FRAG" /\ e.dir = "wr"
                       THEN Put(tx, <<e.sn, e.f>>, (IF <<e.sn, e.f>> \in DOMAIN tx THEN tx[<<e.sn, e.f>>] ELSE 0) + 1) ELSE tx
            \* geometry of every DATAFRAG the real writer emitted (Fragmentation.tla)
            /\ viol' = viol \cup
                 (IF e.k = "FRAG" /\ e.dir = "wr" /\
                     ~(e.f >= 1 /\ e.f <= Fr!NumFrags(e.size, e.fsz) /\ e.plen = Fr!FragLen(e.size, e.fsz, e.f)
                       /\ e.sn \in DOMAIN nfr /\ nfr[e.sn] = Fr!NumFrags(e.size, e.fsz))
                    THEN {"C05_fragment_geometry"} ELSE {})
            \* the highest base of an ACKNACK that reached the writer
            /\ maxAck' = IF e.k = "ACKNACK" /\ e.dir = "rw" /\ e.fate # "drop" /\ e.sn > maxAck THEN e.sn ELSE maxAck
            /\ UNCHANGED <<run, clean, nfr, hoff, known>>
       [] e.ev = "Round" -> Round(e)
  /\ (viol' # viol /\ viol' # {}) =>
        PrintT("VIOL line=" \o ToString(l) \o " run=" \o ToString(run') \o " clauses=" \o ToString(viol' \ viol))
  /\ (known' # known /\ known' # {}) =>
        PrintT("KNOWN line=" \o ToString(l) \o " run=" \o ToString(run') \o " clauses=" \o ToString(known' \ known))

TraceSpec == TraceInit /\ [][Step]_tvars

TraceAccepted ==
  LET d == TLCGet("stats").diameter IN
  IF d = Len(Rec) + 1 THEN PrintT("TRACE-OK events=" \o ToString(Len(Rec)))
  ELSE PrintT("TRACE-STUCK line=" \o ToString(d)) /\ PrintT(Rec[d]) /\ FALSE
==========================================================================
