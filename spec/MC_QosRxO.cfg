SPECIFICATION Spec
INVARIANT Inv_Monotone
INVARIANT Inv_AbsentSkipped
INVARIANT Inv_Local
ACTION_CONSTRAINT GenCase
CHECK_DEADLOCK FALSE
