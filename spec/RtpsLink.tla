------------------------------ MODULE RtpsLink ------------------------------
(***************************************************************************)
(* One reliable RustDDS writer and one matched reliable reader exchanging  *)
(* datagrams over a FIFO network that may drop or duplicate any datagram   *)
(* (fault budget MaxFaults).  Property C02: after the faults stop, a       *)
(* bounded number K of rounds                                              *)
(*    {heartbeat tick; deliver all; fire armed repair timers; deliver all} *)
(* brings the reader to hold everything (Converged), and one round later   *)
(* the link is quiet.  Stated as safety over the round counter, so TLC     *)
(* decides it without fairness subtleties.                                 *)
(*                                                                         *)
(* The model is implementation-shaped (writer.rs / rtps_reader_proxy.rs /  *)
(* reader.rs / rtps_writer_proxy.rs / fragment_assembler.rs /              *)
(* message_receiver.rs), including two facts of the code that matter here: *)
(*  - pushed samples stay in the proxy's unsent set until repaired/acked;  *)
(*  - the MessageReceiver discards NACKFRAG, and the reader leaves a        *)
(*    partially received sample out of its ACKNACK set.  When the writer   *)
(*    has no other reason to resend that sample the request is lost: this  *)
(*    is the named deviation Dev_S3 (known finding S3); `devS3` records    *)
(*    that it was taken, and the convergence invariants are demanded of    *)
(*    all behaviours that did not need it.                                 *)
(*  - Pre samples were written before the reader was matched and the reader *)
(*    does not request history (a Volatile late joiner): the writer owes it *)
(*    a GAP for them (pending_gap, wGap), sent in answer to the reader's    *)
(*    first ACKNACK and again by the repair timer, and the reader must end  *)
(*    up knowing them as unavailable - also when the first sample written   *)
(*    after the match overtakes that GAP.                                   *)
(* The scheduling of micro-steps is the one of the `link` driver, so every *)
(* behaviour (writes, rounds, content-addressed faults) replays 1:1.       *)
(***************************************************************************)
EXTENDS Integers, Sequences, FiniteSets, TLC, Json, SequencesExt

CONSTANTS Pre,          \* samples 1..Pre exist before the match and are not owed to the reader
          NSamples,     \* samples Pre+1..Pre+NSamples are written after the match
          FragSNs,      \* samples sent as NF fragments
          NF,
          MaxFaults,
          K,            \* rounds allowed for convergence
          MaxRounds,    \* bound on rounds per behaviour
          Win,          \* how many consecutive sequence numbers the set of ONE ACKNACK can span (256 in the code, RTPS
                        \* 8.3.5.5); a reader that misses more asks for the first Win of them and for the rest later
          Bursts,       \* sizes of an outage: that many samples are written while the network is down (every pushed
                        \* datagram lost; an outage is not taken from the fault budget)
          OutageAt,     \* the outage happens when exactly OutageAt samples exist
          KeySNs,       \* samples that are key-only (dispose by serialized key); if also in FragSNs the key is fragmented
          MaxRematch,   \* how often the READER side may lose and re-create its proxy of the writer (lease expiry after lost
                        \* SPDP announcements, then rediscovery) while the writer keeps its proxy of the reader
          GenK

VARIABLES
  \* writer
  wlast, wUns, wAck, wRep, wFr, wGap, hbc,
  \* reader
  ab, chg, asm, rhb, sac,
  \* network
  wrQ, rwQ, seen,
  \* driver
  mode,        \* "env" | "drainW" | "drain1" | "fire" | "drain2"
  faultsLeft, roundFaults, roundTraffic, clean, lastTraffic, rounds,
  devS3,
  everGot,     \* sequence numbers the reader has ever received or been told are unavailable (what it received stays in
               \* its cache across a re-match)
  rematchLeft,
  acts, faults   \* trail for replay

vars == <<wlast, wUns, wAck, wRep, wFr, wGap, hbc, ab, chg, asm, rhb, sac, wrQ, rwQ, seen, mode,
          faultsLeft, roundFaults, roundTraffic, clean, lastTraffic, rounds, devS3, everGot, rematchLeft, acts, faults>>

Lt(a, b) == a < b
LMin(S) == CHOOSE x \in S : \A y \in S : x <= y
RECURSIVE Adv(_, _)
Adv(n, S) == IF n \in S THEN Adv(n + 1, S) ELSE n

Init ==
  /\ wlast = Pre /\ wUns = {} /\ wAck = 0 /\ wRep = FALSE /\ wFr = {} /\ wGap = 1..Pre /\ hbc = 1
  /\ ab = 1 /\ chg = {} /\ asm = <<>> /\ rhb = 0 /\ sac = 0
  /\ wrQ = <<>> /\ rwQ = <<>> /\ seen = <<>>
  /\ mode = "env"
  /\ faultsLeft = MaxFaults /\ roundFaults = 0 /\ roundTraffic = 0 /\ clean = 0 /\ lastTraffic = 0 /\ rounds = 0
  /\ devS3 = FALSE /\ everGot = {} /\ rematchLeft = MaxRematch
  /\ acts = <<>> /\ faults = <<>>

(* ------------------------------------------------------------ messages *)
DataMsg(sn, withHb) == [k |-> "DATA", sn |-> sn, f |-> 0, hb |-> withHb, last |-> wlast, count |-> hbc]
FragMsg(sn, f) == [k |-> "FRAG", sn |-> sn, f |-> f]
HbMsg(last, count) == [k |-> "HB", sn |-> last, f |-> 0, last |-> last, count |-> count]
AckMsg(base, set) == [k |-> "ACKNACK", sn |-> base, f |-> 0, base |-> base, set |-> set]
NfMsg(sn) == [k |-> "NACKFRAG", sn |-> sn, f |-> 0]
AllFrags(sn) == [i \in 1..NF |-> FragMsg(sn, i)]
GapMsg(set) == [k |-> "GAP", sn |-> LMin(set), f |-> 0, set |-> set]

(* ------------------------------------------------------------- env steps *)
Write ==
  /\ mode = "env" /\ wlast < Pre + NSamples
  /\ LET sn == wlast + 1 IN
       /\ wlast' = sn
       /\ wUns' = wUns \cup {sn}
       /\ IF sn \in FragSNs
            THEN wrQ' = wrQ \o AllFrags(sn) \o <<[k |-> "HB", sn |-> sn, f |-> 0, last |-> sn, count |-> hbc]>>
            ELSE wrQ' = Append(wrQ, [k |-> "DATA", sn |-> sn, f |-> 0, hb |-> TRUE, last |-> sn, count |-> hbc])
       /\ hbc' = hbc + 1
       /\ acts' = Append(acts, [a |-> "Write", big |-> (sn \in FragSNs), key |-> (sn \in KeySNs)])
  /\ mode' = "drainW"
  /\ clean' = 0          \* new data: convergence is owed again
  /\ UNCHANGED <<wAck, wRep, wFr, wGap, ab, chg, asm, rhb, sac, rwQ, seen, faultsLeft, roundFaults, roundTraffic,
                 lastTraffic, rounds, devS3, everGot, rematchLeft, faults>>

\* The network is down while the application writes n samples: every datagram the writer pushes is lost (they are
\* counted as seen, so that content-addressed faults keep their meaning).  Nothing reaches the reader, not even a
\* HEARTBEAT; the samples stay in the proxy's unsent set.  n is reported relative to Win (q windows + r), so that the
\* driver can replay the scenario at the window size of the code.
OutKeys(new) == {<<"wr", "DATA", s, 0>> : s \in new \ FragSNs} \cup {<<"wr", "HB", s, 0>> : s \in new \cap FragSNs}
                \cup {<<"wr", "FRAG", s, f>> : s \in new \cap FragSNs, f \in 1..NF}
Outage(n) ==
  /\ mode = "env" /\ n \in Bursts /\ wlast = OutageAt
  /\ LET new == (wlast + 1)..(wlast + n) IN
       /\ wlast' = wlast + n
       /\ wUns' = wUns \cup new
       /\ hbc' = hbc + n
       /\ seen' = [x \in DOMAIN seen \cup OutKeys(new) |-> IF x \in OutKeys(new) THEN 1 ELSE seen[x]]
       /\ acts' = Append(acts, [a |-> "Outage", n |-> n, q |-> n \div Win, r |-> n % Win])
  /\ clean' = 0
  /\ UNCHANGED <<wAck, wRep, wFr, wGap, ab, chg, asm, rhb, sac, wrQ, rwQ, mode, faultsLeft, roundFaults, roundTraffic,
                 lastTraffic, rounds, devS3, everGot, rematchLeft, faults>>

\* the reader side loses its proxy of the writer and re-creates it (Reader::remove_writer_proxy, then
\* update_writer_proxy): reception state starts from scratch; the writer has noticed nothing
Rematch ==
  /\ mode = "env" /\ rematchLeft > 0 /\ wlast >= 1
  /\ rematchLeft' = rematchLeft - 1
  /\ ab' = 1 /\ chg' = {} /\ asm' = <<>> /\ rhb' = 0
  /\ clean' = 0
  /\ acts' = Append(acts, [a |-> "Rematch"])
  /\ UNCHANGED <<wlast, wUns, wAck, wRep, wFr, wGap, hbc, sac, wrQ, rwQ, seen, mode, faultsLeft, roundFaults, roundTraffic,
                 lastTraffic, rounds, devS3, everGot, faults>>

RoundStart ==
  /\ mode = "env" /\ rounds < MaxRounds
  /\ LET quiet == wlast < wAck IN
       /\ wrQ' = IF quiet THEN wrQ ELSE Append(wrQ, HbMsg(wlast, hbc))
       /\ hbc' = IF quiet THEN hbc ELSE hbc + 1
  /\ mode' = "drain1"
  /\ roundFaults' = 0 /\ roundTraffic' = 0
  /\ acts' = Append(acts, [a |-> "Round"])
  /\ UNCHANGED <<wlast, wUns, wAck, wRep, wFr, wGap, ab, chg, asm, rhb, sac, rwQ, seen, faultsLeft, clean, lastTraffic,
                 rounds, devS3, everGot, rematchLeft, faults>>

(* --------------------------------------------------------- reader reacts *)
\* process_received_data
RRecv(sn, a, c) == IF sn < a \/ sn \in c THEN <<a, c>>
                   ELSE LET c2 == c \cup {sn} IN <<IF sn = a THEN Adv(a, c2) ELSE a, c2>>

\* reply of handle_heartbeat_msg(first = 1, last, final = FALSE): <<messages, sac'>>
HbReply(last, a, c, asmN) ==
  LET miss == {s \in a..last : s \notin c}
      \* missing_seqnums / from_base_and_set: one ACKNACK names at most the Win numbers from the first missing one on
      win  == IF miss = {} THEN {} ELSE {s \in miss : s < LMin(miss) + Win}
      part == {s \in win : s \in DOMAIN asmN}
      nf   == IF part = {} THEN <<>> ELSE <<NfMsg(LMin(part))>>   \* one datagram carrying all NACKFRAGs
      ack  == IF miss = {} THEN AckMsg(a, {}) ELSE AckMsg(LMin(miss), win \ part)
  IN nf \o <<ack>>

ReaderGets(m) ==
  IF m.k = "DATA" THEN
       LET r1 == RRecv(m.sn, ab, chg)
           fresh == m.hb /\ m.count > rhb
       IN /\ ab' = r1[1] /\ chg' = r1[2]
          /\ UNCHANGED asm
          /\ rhb' = IF fresh THEN m.count ELSE rhb
          /\ rwQ' = IF fresh THEN rwQ \o HbReply(m.last, r1[1], r1[2], asm) ELSE rwQ
  ELSE IF m.k = "FRAG" THEN
       LET old == IF m.sn \in DOMAIN asm THEN asm[m.sn] ELSE {}
           sn2 == old \cup {m.f}
           done == sn2 = 1..NF
           r1 == IF done THEN RRecv(m.sn, ab, chg) ELSE <<ab, chg>>
       IN /\ asm' = IF done THEN [x \in DOMAIN asm \ {m.sn} |-> asm[x]]
                    ELSE [x \in DOMAIN asm \cup {m.sn} |-> IF x = m.sn THEN sn2 ELSE asm[x]]
          /\ ab' = r1[1] /\ chg' = r1[2]
          /\ UNCHANGED <<rhb, rwQ>>
  ELSE IF m.k = "GAP" THEN                 \* irrelevant_changes_range / set_irrelevant_change, then advance
       LET c2 == chg \cup {g \in m.set : g >= ab} IN
          /\ chg' = c2 /\ ab' = Adv(ab, c2)
          /\ asm' = [x \in DOMAIN asm \ m.set |-> asm[x]]
          /\ UNCHANGED <<rhb, rwQ>>
  ELSE \* HB
       LET fresh == m.count > rhb IN
          /\ rhb' = IF fresh THEN m.count ELSE rhb
          /\ rwQ' = IF fresh THEN rwQ \o HbReply(m.last, ab, chg, asm) ELSE rwQ
          /\ UNCHANGED <<ab, chg, asm>>

(* --------------------------------------------------------- writer reacts *)
WriterGets(m) ==
  IF m.k = "ACKNACK" THEN
       LET b == IF m.base < 1 THEN 1 ELSE m.base
           u == {x \in ({y \in wUns : y >= b} \cup m.set) : x <= wlast}
           g == {x \in wGap : x >= b}               \* an ACKNACK also clears the pending GAP below its base ...
       IN /\ wUns' = u /\ wAck' = b /\ wRep' = ~(b > wlast)
          /\ wGap' = g
          /\ wrQ' = IF g # {} THEN Append(wrQ, GapMsg(g)) ELSE wrQ    \* ... and what is left of it is sent at once
          /\ UNCHANGED devS3
  ELSE \* NACKFRAG: discarded by the MessageReceiver.  Dev_S3: if nothing else makes the writer
       \* resend that sample, the reader's request is lost.
       /\ devS3' = (devS3 \/ m.sn \notin wUns)
       /\ UNCHANGED <<wUns, wAck, wRep, wGap, wrQ>>

(* ------------------------------------------------------ network delivery *)
Key(dir, m) == <<dir, m.k, m.sn, m.f>>
Occ(dir, m) == IF Key(dir, m) \in DOMAIN seen THEN seen[Key(dir, m)] + 1 ELSE 1
Bump(dir, m) == [x \in DOMAIN seen \cup {Key(dir, m)} |-> IF x = Key(dir, m) THEN Occ(dir, m) ELSE seen[x]]

\* deliver_all: writer->reader queue first
Deliver(fate) ==
  /\ mode \in {"drainW", "drain1", "drain2"}
  /\ wrQ # <<>> \/ rwQ # <<>>
  /\ fate = "ok" \/ faultsLeft > 0
  /\ LET dir == IF wrQ # <<>> THEN "wr" ELSE "rw"
         m   == IF dir = "wr" THEN Head(wrQ) ELSE Head(rwQ)
     IN /\ seen' = Bump(dir, m)
        /\ faults' = IF fate = "ok" THEN faults
                     ELSE Append(faults, [at |-> [dir |-> dir, k |-> m.k, sn |-> m.sn, f |-> m.f, occ |-> Occ(dir, m)], what |-> fate])
        /\ faultsLeft' = IF fate = "ok" THEN faultsLeft ELSE faultsLeft - 1
        /\ roundFaults' = IF fate = "ok" THEN roundFaults ELSE roundFaults + 1
        /\ roundTraffic' = roundTraffic + 1
        /\ IF dir = "wr"
             THEN /\ wrQ' = Tail(wrQ)
                  /\ IF fate = "drop" THEN UNCHANGED <<ab, chg, asm, rhb, rwQ>>
                     ELSE ReaderGets(m)       \* a duplicate is idempotent for DATA / FRAG / HB (same count)
                  /\ everGot' = everGot \cup chg'
                  /\ UNCHANGED <<wUns, wAck, wRep, devS3, rematchLeft, wGap>>
             ELSE /\ rwQ' = Tail(rwQ)
                  /\ IF fate = "drop" THEN UNCHANGED <<wUns, wAck, wRep, devS3, wGap, wrQ>> ELSE WriterGets(m)
                  /\ UNCHANGED <<ab, chg, asm, rhb, everGot, rematchLeft>>
  /\ UNCHANGED <<wlast, wFr, hbc, sac, mode, clean, lastTraffic, rounds, acts>>

\* queues drained: next phase
Drained ==
  /\ wrQ = <<>> /\ rwQ = <<>>
  /\ \/ mode = "drainW" /\ mode' = "env" /\ UNCHANGED <<clean, lastTraffic, rounds>>
     \/ mode = "drain1" /\ mode' = "fire" /\ UNCHANGED <<clean, lastTraffic, rounds>>
     \/ /\ mode = "drain2" /\ mode' = "env"
        /\ clean' = IF roundFaults = 0 THEN clean + 1 ELSE 0
        /\ lastTraffic' = roundTraffic
        /\ rounds' = rounds + 1
  /\ UNCHANGED <<wlast, wUns, wAck, wRep, wFr, wGap, hbc, ab, chg, asm, rhb, sac, wrQ, rwQ, seen, faultsLeft,
                 roundFaults, roundTraffic, devS3, everGot, rematchLeft, acts, faults>>

(* ---------------------------------------------------------- repair timers *)
\* one iteration of the driver's fire loop: SendRepairData (if repair_mode), then SendRepairFrags
Fire ==
  /\ mode = "fire"
  /\ IF ~wRep /\ wFr = {} THEN /\ mode' = "drain2"
                               /\ UNCHANGED <<wUns, wRep, wFr, wrQ>>
     ELSE LET u == IF wUns = {} THEN 0 ELSE LMin(wUns)
              viaGap == wRep /\ wUns # {} /\ u \in wGap        \* the lowest unsent number is not owed: GAP for all of them
              sendData == wRep /\ wUns # {} /\ ~viaGap
              q1 == IF viaGap THEN <<GapMsg(wGap)>>
                    ELSE IF sendData THEN (IF u \in FragSNs THEN AllFrags(u) ELSE <<DataMsg(u, FALSE)>>) ELSE <<>>
              fr1 == IF sendData /\ u \in FragSNs THEN wFr \cup {u} ELSE wFr
              \* SendRepairFrags: all requested fragments of the lowest requested sample
              q2 == IF fr1 # {} THEN AllFrags(LMin(fr1)) ELSE <<>>
          IN /\ wUns' = IF viaGap THEN wUns \ wGap ELSE IF sendData THEN wUns \ {u} ELSE wUns
             /\ wRep' = IF wRep /\ wUns = {} THEN FALSE ELSE wRep
             /\ wFr' = IF fr1 # {} THEN fr1 \ {LMin(fr1)} ELSE fr1
             /\ wrQ' = wrQ \o q1 \o q2
             /\ UNCHANGED mode
  /\ UNCHANGED <<wlast, wAck, wGap, hbc, ab, chg, asm, rhb, sac, rwQ, seen, faultsLeft, roundFaults, roundTraffic, clean,
                 lastTraffic, rounds, devS3, everGot, rematchLeft, acts, faults>>

Next ==
  \/ Write \/ RoundStart \/ Drained \/ Fire \/ Rematch
  \/ \E n \in Bursts : Outage(n)
  \/ \E fate \in {"ok", "drop", "dup"} : Deliver(fate)

Spec == Init /\ [][Next]_vars

(* -------------------------------------------------------------- property *)
\* (after a re-match with a writer that has gone quiet the reader's new proxy knows nothing, but the reader still holds
\* what it received: the property speaks of what the reader holds)
Converged == wAck = wlast + 1 /\ (ab = wlast + 1 \/ (1..wlast) \subseteq everGot)
\* "a bounded number of rounds": K, plus one round for every full window of numbers the reader may have to ask for
\* (a reader that knows nothing - after a re-match - can request only Win numbers per ACKNACK)
KB == K + (wlast \div Win)
Inv_Converge == (mode = "env" /\ clean >= KB) => (Converged \/ devS3)
Inv_Quiet    == (mode = "env" /\ clean >= KB + 1) => (lastTraffic = 0 \/ devS3)
\* the reader never believes a sample unavailable that the writer owes it
Inv_GapOnlyNotOwed == \A x \in chg : x > Pre \/ x \in 1..Pre
\* the deviation is really reachable only through a lost fragment (vacuity guard for devS3)
Inv_DevNeedsFragments == devS3 => FragSNs # {}
\* (sanity only, expected to be violated: without the named deviation the property does not hold)
Inv_ConvergeStrict == (mode = "env" /\ clean >= KB) => Converged

View == <<wlast, wUns, wAck, wRep, wFr, wGap, hbc, ab, chg, asm, rhb, wrQ, rwQ, seen, mode, faultsLeft, roundFaults,
          roundTraffic, clean, lastTraffic, rounds, devS3, everGot, rematchLeft>>

GenEdge == (GenK > 0 /\ mode' = "env" /\ mode # "env" /\ RandomElement(1..GenK) = 1) =>
             PrintT("REPLAY " \o ToJson([hist |-> 0, frag |-> 64, pre |-> Pre, win |-> Win, acts |-> acts', faults |-> faults', rounds_after |-> K + 2]))
==========================================================================
