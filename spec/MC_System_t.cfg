SPECIFICATION Spec
CONSTANTS
  QosChoices <- QosAll
  LateChoices = {"none", "vol", "tl"}
  ThirdChoices = {TRUE, FALSE}
  DelChoices = {"none", "R", "W", "PA", "PB"}
  BlackoutChoices = {0, 1}
  PostChoices = {"none"}
  MatchOnCreate = TRUE
  RematchFix = TRUE
  GenK = 100
INVARIANTS Inv_MatchedSound Inv_SeenOnlyOfKnown Inv_TypeOK
ACTION_CONSTRAINT GenEdge
CHECK_DEADLOCK FALSE
