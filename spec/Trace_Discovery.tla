-------------------------- MODULE Trace_Discovery --------------------------
(***************************************************************************)
(* Trace validation for the `disc` driver (C11, C12): discovery events     *)
(* applied to a real DiscoveryDB (virtual clock) and a real DPEventLoop     *)
(* with a real local Writer and Reader; after every event the matched sets, *)
(* status events and tables are logged.  Known deviation S8 (endpoints of a *)
(* reappeared participant are restored in the tables but not re-matched) is *)
(* recognised by signature and reported as KNOWN only with KNOWN_S8=1.      *)
(***************************************************************************)
EXTENDS DiscoveryAbs, Json, IOUtils

Rec == ndJsonDeserialize(IOEnv.TRACE)
KnownS8 == IOEnv.KNOWN_S8 = "1"

VARIABLES l, run, known8
tvars == <<dabsVars, l, run, known8>>

ToSet(s) == {s[i] : i \in DOMAIN s}
Obs(e) == [wm |-> ToSet(e.wm), rm |-> ToSet(e.rm), ws |-> e.ws, rs |-> e.rs,
           parts |-> ToSet(e.parts), ext |-> ToSet(e.ext), att |-> ToSet(e.att)]

TraceInit == DAbsInit /\ l = 1 /\ run = 0 /\ known8 = {}

Reset(e) ==
  /\ now' = 0
  /\ known' = [p \in P |-> FALSE] /\ lastSign' = [p \in P |-> 0] /\ lease' = [p \in P |-> DefaultLease]
  /\ ann' = [x \in E |-> FALSE] /\ attic' = [x \in E |-> FALSE] /\ fuzzy' = [x \in E |-> FALSE] /\ stale' = [x \in E |-> FALSE]
  /\ cls' = [x \in E |-> Compatible[x]] /\ haveW' = ~e.late /\ haveR' = ~e.late
  /\ totW' = 0 /\ totR' = 0 /\ viol' = {}
  /\ run' = e.run /\ known8' = {}

Step ==
  /\ l <= Len(Rec)
  /\ l' = l + 1
  /\ LET e == Rec[l] IN
     CASE e.ev = "Reset"    -> Reset(e)
       [] e.ev = "Tick"     -> AbsTick(e.dt) /\ UNCHANGED <<run, known8>>
       [] e.ev = "Spdp"     -> AbsSpdp(e.p, e.lease, Obs(e), KnownS8) /\ run' = run
                               /\ known8' = known8 \cup (IF \E x \in E : stale'[x] /\ ~stale[x] /\ OnTopic[x] /\ cls[x]
                                                            THEN {"C11_S8_endpoints_of_reappeared_participant_not_rematched"} ELSE {})
       [] e.ev = "Alive"    -> AbsAlive(e.p, Obs(e)) /\ UNCHANGED <<run, known8>>
       [] e.ev = "Cleanup"  -> AbsCleanup(ToSet(e.lost), Obs(e)) /\ UNCHANGED <<run, known8>>
       [] e.ev = "DisposeP" -> AbsDisposeP(e.p, Obs(e)) /\ UNCHANGED <<run, known8>>
       [] e.ev = "Announce" -> AbsAnnounceQ(e.e, e.c, Obs(e)) /\ UNCHANGED <<run, known8>>
       [] e.ev = "CreateLocal" -> AbsCreateLocal(e.side, Obs(e)) /\ UNCHANGED <<run, known8>>
       [] e.ev = "DisposeE" -> AbsDisposeE(e.e, Obs(e)) /\ UNCHANGED <<run, known8>>
       \* C06 on the event-loop plumbing (runs of `vh disc hostile`): traffic of the well-behaved pair and hostile ACKNACKs
       [] e.ev \in {"Write", "Turn", "HostileAck", "Ack"} -> UNCHANGED <<dabsVars, run, known8>>
       \* ... after which the acknowledgment of the well-behaved reader must have reached the writer
       [] e.ev = "AckServed" ->
            /\ viol' = viol \cup (IF ~e.present \/ e.acked < e.expected THEN {"C06_acknack_of_well_behaved_peer_not_processed"} ELSE {})
            /\ UNCHANGED <<now, known, lastSign, lease, ann, attic, fuzzy, stale, cls, haveW, haveR, totW, totR, run, known8>>
  /\ (viol' # viol /\ viol' # {}) =>
        PrintT("VIOL line=" \o ToString(l) \o " run=" \o ToString(run') \o " clauses=" \o ToString(viol' \ viol))
  /\ (known8' # known8 /\ known8' # {}) =>
        PrintT("KNOWN line=" \o ToString(l) \o " run=" \o ToString(run') \o " clauses=" \o ToString(known8' \ known8))

TraceSpec == TraceInit /\ [][Step]_tvars
TraceAccepted ==
  LET d == TLCGet("stats").diameter IN
  IF d = Len(Rec) + 1 THEN PrintT("TRACE-OK events=" \o ToString(Len(Rec)))
  ELSE PrintT("TRACE-STUCK line=" \o ToString(d)) /\ PrintT(Rec[d]) /\ FALSE
=============================================================================
