SPECIFICATION Spec
CONSTANTS
  MaxAtk = 3
  Fix = {}
  Known = {"S7", "S13", "S14"}
  Gen = FALSE
  StripProps = {"hash_c1", "hash_c2"}
  Weak = {}
  GuidBytes = {}
  Vias = {"disc", "api"}
INVARIANT Inv_NoViolation
PROPERTY Live
CHECK_DEADLOCK FALSE
