SPECIFICATION Spec
CONSTANTS
  MaxAtk = 3
  Fix = {}
  Known = {"S7", "S13", "S14"}
  Gen = FALSE
  StripProps = {"hash_c1", "hash_c2"}
  Weak = {}
INVARIANT Inv_NoViolation
PROPERTY Live
CHECK_DEADLOCK FALSE
