----------------------------- MODULE ParamList -----------------------------
(***************************************************************************)
(* C15 -- discovery data and QoS as RTPS parameter lists (RTPS 2.5 9.4.2.11,*)
(* 9.6.3, tables 9.13-9.15; DDS 1.4 QoS tables).                            *)
(*                                                                         *)
(* Generic codec over a SCHEMA (one table per type).  A schema entry is    *)
(*   [f |-> field, pids |-> parameter ids that carry it, kind |-> ...]     *)
(*   "req"   always sent, must be present to deserialise                   *)
(*   "opt"   sent iff the field is set; absent => field absent             *)
(*   "def"   absent => the default RTPS prescribes (the crate always sends *)
(*           it, a peer may omit it)                                       *)
(*   "multi" one parameter per element, any number (incl. none)            *)
(* Serialize   = entries in schema order (+ sentinel)                      *)
(* Mutate      = what happens between two vendors: optional parameters are *)
(*               omitted, unknown / vendor-specific ones are interleaved   *)
(* Deserialize = first occurrence / all occurrences / default / absent per *)
(*               entry, unknown parameter ids skipped                      *)
(* Law: Deserialize(Mutate(Serialize(r))) = Expected(r) for every case of  *)
(* the bound; the cases are dumped as REPLAY lines and executed on the real*)
(* PlCdrSerialize / PlCdrDeserialize impls by the `wire` driver;           *)
(* Trace_ParamList.tla uses Expected as the per-field oracle.              *)
(***************************************************************************)
EXTENDS Integers, Sequences, FiniteSets, TLC, Json

CONSTANTS Types,    \* which schemas to enumerate
          GenK,
          DumpSchema

VARIABLES cs

E(f, pids, kind) == [f |-> f, pids |-> pids, kind |-> kind]

QosEndpoint == <<
  E("durability", <<29>>, "opt"), E("presentation", <<33>>, "opt"), E("deadline", <<35>>, "opt"), E("latency_budget", <<39>>, "opt"),
  E("ownership", <<31, 6>>, "opt"), E("liveliness", <<27>>, "opt"), E("time_based_filter", <<4>>, "opt"), E("reliability", <<26>>, "opt"),
  E("destination_order", <<37>>, "opt"), E("lifespan", <<43>>, "opt") >>
QosTopic == <<
  E("durability", <<29>>, "opt"), E("presentation", <<33>>, "opt"), E("deadline", <<35>>, "opt"), E("latency_budget", <<39>>, "opt"),
  E("ownership", <<31, 6>>, "opt"), E("liveliness", <<27>>, "opt"), E("reliability", <<26>>, "opt"),
  E("destination_order", <<37>>, "opt"), E("history", <<64>>, "opt"), E("resource_limits", <<65>>, "opt"), E("lifespan", <<43>>, "opt") >>
QosAll == <<
  E("durability", <<29>>, "opt"), E("presentation", <<33>>, "opt"), E("deadline", <<35>>, "opt"), E("latency_budget", <<39>>, "opt"),
  E("ownership", <<31, 6>>, "opt"), E("liveliness", <<27>>, "opt"), E("time_based_filter", <<4>>, "opt"), E("reliability", <<26>>, "opt"),
  E("destination_order", <<37>>, "opt"), E("history", <<64>>, "opt"), E("resource_limits", <<65>>, "opt"), E("lifespan", <<43>>, "opt") >>

(* parameter ids in decimal: RTPS 2.5 table 9.13 (0x0015 = 21, ...) *)
Schemas == [
  spdp |-> <<
    E("protocol_version", <<21>>, "req"), E("vendor_id", <<22>>, "req"), E("expects_inline_qos", <<67>>, "def"),
    E("participant_guid", <<80>>, "req"),
    E("metatraffic_unicast_locators", <<50>>, "multi"), E("metatraffic_multicast_locators", <<51>>, "multi"),
    E("default_unicast_locators", <<49>>, "multi"), E("default_multicast_locators", <<72>>, "multi"),
    E("available_builtin_endpoints", <<88>>, "req"), E("lease_duration", <<2>>, "opt"),
    E("manual_liveliness_count", <<52>>, "def"), E("builtin_endpoint_qos", <<119>>, "opt"), E("entity_name", <<98>>, "opt") >>,
  drd |-> <<
    E("remote_reader_guid", <<90>>, "req"), E("key", <<90>>, "req"), E("expects_inline_qos", <<67>>, "def"),
    E("unicast_locator_list", <<47>>, "multi"), E("multicast_locator_list", <<48>>, "multi"),
    E("participant_key", <<80>>, "opt"), E("topic_name", <<5>>, "req"), E("type_name", <<7>>, "req"),
    E("content_filter", <<53>>, "opt") >> \o QosEndpoint,
  dwd |-> <<
    E("remote_writer_guid", <<90>>, "req"), E("key", <<90>>, "req"),
    E("unicast_locator_list", <<47>>, "multi"), E("multicast_locator_list", <<48>>, "multi"),
    E("data_max_size_serialized", <<96>>, "opt"), E("participant_key", <<80>>, "opt"),
    E("topic_name", <<5>>, "req"), E("type_name", <<7>>, "req"),
    E("service_instance_name", <<128>>, "opt"), E("related_datareader_key", <<129>>, "opt"), E("topic_aliases", <<130>>, "opt") >> \o QosEndpoint,
  dtd |-> << E("key", <<90>>, "opt"), E("name", <<5>>, "req"), E("type_name", <<7>>, "req") >> \o QosTopic,
  qos |-> QosAll,
  (* ParticipantMessageData is plain CDR (RTPS 9.6.3.1): no parameters, nothing to omit or splice *)
  pmd |-> << E("guid", <<-1>>, "req"), E("kind", <<-2>>, "req"), E("data", <<-3>>, "multi") >>   \* positional: pseudo ids
]
Plain == {"pmd"}

ToSet(s) == {s[i] : i \in DOMAIN s}
Fields(T) == {Schemas[T][i].f : i \in DOMAIN Schemas[T]}
Entry(T, f) == Schemas[T][CHOOSE i \in DOMAIN Schemas[T] : Schemas[T][i].f = f]
Settable(T) == {f \in Fields(T) : Entry(T, f).kind # "req"}
KnownPids(T) == UNION {ToSet(Schemas[T][i].pids) : i \in DOMAIN Schemas[T]}

(* foreign parameters: unknown standard ids (must-understand bit 0x4000 clear) and vendor-specific ones (>= 0x8000);
   where: 0 = in front, 1 = in the middle, 2 = just before the sentinel *)
Fp(w, pid, len) == [where |-> w, pid |-> pid, len |-> len]
\* (pid 0 is PID_PAD: its value is filler of any content, to be skipped like the value of an unknown parameter)
ForeignCases == { <<>>, << Fp(0, 32769, 4) >>, << Fp(2, 16382, 0) >>, << Fp(1, 15000, 20), Fp(1, 49151, 8) >>, << Fp(0, 32783, 44), Fp(2, 45, 12) >>,
                  << Fp(1, 0, 8) >>, << Fp(0, 0, 4), Fp(2, 0, 12) >> }

-----------------------------------------------------------------------------
(* abstract codec: a serialised list is a sequence of <<pid, field, what>> *)
RECURSIVE SerFrom(_, _, _)
SerFrom(T, P, i) ==
  IF i > Len(Schemas[T]) THEN <<>>
  ELSE LET e == Schemas[T][i]
           one(w) == [j \in DOMAIN e.pids |-> <<e.pids[j], e.f, w>>]
           here == CASE e.kind = "req" -> one("value")
                     [] e.kind = "opt" -> IF e.f \in P THEN one("value") ELSE <<>>
                     [] e.kind = "def" -> one(IF e.f \in P THEN "value" ELSE "default")
                     [] e.kind = "multi" -> IF e.f \in P THEN one("value") \o one("value") ELSE <<>>
       IN here \o SerFrom(T, P, i + 1)
Serialize(T, P) == SerFrom(T, P, 1)

InsertAt(s, k, x) == SubSeq(s, 1, k) \o <<x>> \o SubSeq(s, k + 1, Len(s))
RECURSIVE Splice(_, _)
Splice(s, fs) == IF fs = <<>> THEN s
                 ELSE LET f == Head(fs)
                          k == CASE f.where = 0 -> 0 [] f.where = 1 -> Len(s) \div 2 [] OTHER -> Len(s)
                      IN Splice(InsertAt(s, k, <<f.pid, "?", "foreign">>), Tail(fs))
Mutate(s, R, fs) == Splice(SelectSeq(s, LAMBDA w : w[2] \notin R), fs)

(* the reader: knows the schema, sees the stream *)
Occ(s, e) == SelectSeq(s, LAMBDA w : w[1] \in ToSet(e.pids))
DesField(s, e) ==
  LET o == Occ(s, e) IN
  CASE e.kind = "req" -> IF o = <<>> THEN "ERROR" ELSE o[1][3]
    [] e.kind = "opt" -> IF o = <<>> THEN "none" ELSE o[1][3]
    [] e.kind = "def" -> IF o = <<>> THEN "default" ELSE o[1][3]
    [] e.kind = "multi" -> IF o = <<>> THEN "none" ELSE o[1][3]
Deserialize(T, s) == [f \in Fields(T) |-> DesField(s, Entry(T, f))]

(* what the property demands, per field *)
ExpectedOf(e, P, R) ==
  CASE e.kind = "req" -> "value"
    [] e.kind = "def" -> IF e.f \in P /\ e.f \notin R THEN "value" ELSE "default"
    [] OTHER -> IF e.f \in P /\ e.f \notin R THEN "value" ELSE "none"
ExpectedField(T, f, P, R) == ExpectedOf(Entry(T, f), P, R)
Expected(T, P, R) == [f \in Fields(T) |-> ExpectedField(T, f, P, R)]

-----------------------------------------------------------------------------
(* Values.  The codec above is value-blind, and so is the law: a field that is set comes back with its value,
   whatever the value.  The value that invites a wrong shortcut is the one equal to the default a reader
   assumes when the parameter is absent ("defaults need not be sent"): the cases therefore carry `dfl`, the set
   fields that are given exactly that value (ownership EXCLUSIVE with strength 0, deadline infinite, latency
   budget zero, durability VOLATILE, lease duration 100 s, an empty entity name, ...). *)
DefaultValued == {"durability", "presentation", "deadline", "latency_budget", "ownership", "liveliness", "time_based_filter",
                  "reliability", "destination_order", "history", "resource_limits", "lifespan",
                  "lease_duration", "entity_name", "data_max_size_serialized"}
DflCases(T, P) == {{}, P \cap DefaultValued}

PresenceCases(T) == LET S == Settable(T) IN {S, {}} \cup {{f} : f \in S} \cup {S \ {f} : f \in S}
RemovedCases(T, P) ==
  IF T \in Plain THEN {{}}
  ELSE LET onwire == {f \in Settable(T) : f \in P \/ Entry(T, f).kind = "def"} IN {{}, onwire} \cup {{f} : f \in onwire}

\* Another value shape the codec must be blind to: strings (entity, topic and type names, content filter expressions
\* and parameters, ...) are CDR strings counted in OCTETS; `wide` cases give every string characters of 2, 3 and 4
\* octets, so that a count taken in characters comes out short.  (Types without a string are not doubled.)
HasString == {"spdp", "drd", "dwd", "dtd"}
WideCases(T) == IF T \in HasString THEN BOOLEAN ELSE {FALSE}

Case(T, P, R, F, e, D, w) == [t |-> "pl", ty |-> T, present |-> P, dfl |-> D, removed |-> R, foreign |-> F, le |-> e, wide |-> w]

Init == cs = [t |-> "none"]
\* (nested quantifiers rather than one set of all cases: TLC would build and normalise that set first)
Next == /\ cs.t = "none"
        /\ \E T \in Types : \E P \in PresenceCases(T) :
             \E R \in RemovedCases(T, P), F \in (IF T \in Plain THEN {<<>>} ELSE ForeignCases), e \in BOOLEAN,
                D \in DflCases(T, P), w \in WideCases(T) :
               cs' = Case(T, P, R, F, e, D, w)
Spec == Init /\ [][Next]_cs

Law == cs.t = "pl" =>
         /\ \A i \in DOMAIN cs.foreign : cs.foreign[i].pid \notin KnownPids(cs.ty) /\ cs.foreign[i].pid # 1
         /\ Deserialize(cs.ty, Mutate(Serialize(cs.ty, cs.present), cs.removed, cs.foreign)) = Expected(cs.ty, cs.present, cs.removed)

GenEdge == (GenK > 0 /\ RandomElement(1..GenK) = 1) => PrintT("REPLAY " \o ToJson(cs'))
ASSUME DumpSchema => PrintT("SCHEMA " \o ToJson(Schemas))
=============================================================================
