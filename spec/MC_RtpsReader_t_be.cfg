SPECIFICATION Spec
CONSTANTS
  Writers = {1}
  MaxSN = 3
  FragSNs = {2}
  MaxSteps = 5
  Reliable = FALSE
  HostileClasses = {}
  HostileMatched = FALSE
  GenK = 300
CONSTRAINT Bound
VIEW View
INVARIANT Inv_NoViolation
INVARIANT Inv_AckBaseIsLowestUnknown
ACTION_CONSTRAINT GenEdge
CHECK_DEADLOCK FALSE
