---------------------------- MODULE ReaderAbs ----------------------------
(***************************************************************************)
(* Abstract state of one RTPS reader with respect to its matched writers,  *)
(* in the vocabulary of properties C01 / C03 / C05:                        *)
(*   recv     sequence numbers received completely (DATA, or all DATAFRAGs) *)
(*   unavMay  sequence numbers some writer submessage declared unavailable *)
(*            (GAP, HEARTBEAT.first), counting also doubtful declarations  *)
(*            (HEARTBEAT with first > last+1, which RTPS calls invalid but *)
(*            which literally "has a higher first sequence number")        *)
(*   unavMust ... counting only the undoubtedly valid declarations         *)
(*   handed   what has been handed to the application, in order            *)
(* State evolution on INPUTS is deterministic and follows RTPS semantics;  *)
(* OUTPUTS of the implementation (ACKNACK, NACKFRAG, the result of take)   *)
(* are observed through the Obs* operators, which record in `viol` every   *)
(* clause of the property statements that an output breaks.  The same      *)
(* operators are used (a) by RtpsReader.tla, whose implementation-shaped   *)
(* model produces the outputs, and (b) by Trace_RtpsReader.tla, where the  *)
(* outputs are those logged from the real code.                            *)
(***************************************************************************)
EXTENDS Integers, Sequences, FiniteSets, TLC

CONSTANTS Writers      \* set of writer identifiers

VARIABLES
  matched,    \* [Writers -> BOOLEAN]
  recv,       \* [Writers -> SUBSET Int]
  unavMay,    \* [Writers -> SUBSET Int]
  unavMust,   \* [Writers -> SUBSET Int]
  everUnav,   \* [Writers -> SUBSET Int]  like unavMay but never reset by a re-match
  deliv,      \* [Writers -> [SUBSET Int -> set of <<pid, ts>>]] who delivered each received sn
  frags,      \* [Writers -> function sn |-> <<set of fragment numbers seen, total>>]
  hbCnt,      \* [Writers -> Int]   count of the last accepted HEARTBEAT
  hbRange,    \* [Writers -> <<first, last>>] range of the last accepted HEARTBEAT
  handed,     \* [Writers -> Seq(Int)]
  hlow,       \* [Writers -> Int]   every m < hlow is handed or unavailable (incremental)
  low,        \* [Writers -> Int]   lowest sn neither received nor (may-)unavailable
  ackBase,    \* [Writers -> Int]   base of last ACKNACK of this match (0 = none yet)
  ackCnt,     \* [Writers -> Int]   count of last ACKNACK (-1 = none yet)
  nfCnt,      \* [Writers -> Int]   count of last NACKFRAG
  viol        \* set of violated clauses (strings)

absVars == <<matched, recv, unavMay, unavMust, everUnav, deliv, frags, hbCnt, hbRange, handed, hlow, low,
             ackBase, ackCnt, nfCnt, viol>>

RECURSIVE Adv(_, _)
Adv(n, S) == IF n \in S THEN Adv(n + 1, S) ELSE n

SeqToSet(s) == {s[i] : i \in DOMAIN s}
Last(s) == s[Len(s)]
Min(S) == CHOOSE x \in S : \A y \in S : x <= y
Max(S) == CHOOSE x \in S : \A y \in S : x >= y

AbsInit ==
  /\ matched  = [w \in Writers |-> FALSE]
  /\ recv     = [w \in Writers |-> {}]
  /\ unavMay  = [w \in Writers |-> {}]
  /\ unavMust = [w \in Writers |-> {}]
  /\ everUnav = [w \in Writers |-> {}]
  /\ deliv    = [w \in Writers |-> <<>>]
  /\ frags    = [w \in Writers |-> <<>>]
  /\ hbCnt    = [w \in Writers |-> 0]
  /\ hbRange  = [w \in Writers |-> <<1, 0>>]
  /\ handed   = [w \in Writers |-> <<>>]
  /\ hlow     = [w \in Writers |-> 1]
  /\ low      = [w \in Writers |-> 1]
  /\ ackBase  = [w \in Writers |-> 0]
  /\ ackCnt   = [w \in Writers |-> -1]
  /\ nfCnt    = [w \in Writers |-> -1]
  /\ viol     = {}

(* ---------------------------------------------------------------- inputs *)

\* (Re-)match: protocol state of the match starts afresh; what was handed over stays handed over,
\* and so does the record of who delivered what (a sample received in an earlier match may still
\* be waiting in the cache) and of what was ever declared unavailable.
AbsMatch(w) ==
  /\ matched' = [matched EXCEPT ![w] = TRUE]
  /\ IF matched[w]
       THEN UNCHANGED <<recv, unavMay, unavMust, hbCnt, hbRange, low, ackBase, ackCnt, nfCnt>>
       ELSE /\ recv'     = [recv EXCEPT ![w] = {}]
            /\ unavMay'  = [unavMay EXCEPT ![w] = {}]
            /\ unavMust' = [unavMust EXCEPT ![w] = {}]
            /\ hbCnt'    = [hbCnt EXCEPT ![w] = 0]
            /\ hbRange'  = [hbRange EXCEPT ![w] = <<1, 0>>]
            /\ low'      = [low EXCEPT ![w] = 1]
            /\ ackBase'  = [ackBase EXCEPT ![w] = 0]
            /\ ackCnt'   = [ackCnt EXCEPT ![w] = -1]
            /\ nfCnt'    = [nfCnt EXCEPT ![w] = -1]
  /\ UNCHANGED <<everUnav, deliv, frags, handed, hlow, viol>>

AbsUnmatch(w) ==
  /\ matched' = [matched EXCEPT ![w] = FALSE]
  /\ UNCHANGED <<recv, unavMay, unavMust, everUnav, deliv, frags, hbCnt, hbRange, handed, hlow, low,
                 ackBase, ackCnt, nfCnt, viol>>

AddDeliv(d, sn, who) ==
  IF sn \in DOMAIN d THEN [d EXCEPT ![sn] = @ \cup {who}]
  ELSE [x \in DOMAIN d \cup {sn} |-> IF x = sn THEN {who} ELSE d[x]]

\* A complete sample (DATA) from w.  Submessages of unmatched writers are ignored (RTPS 8.4.9).
AbsData(w, sn, pid, ts) ==
  /\ IF matched[w] /\ sn >= 1
       THEN /\ recv'  = [recv EXCEPT ![w] = @ \cup {sn}]
            /\ deliv' = [deliv EXCEPT ![w] = AddDeliv(@, sn, <<pid, ts>>)]
            /\ low'   = [low EXCEPT ![w] = Adv(@, recv'[w] \cup unavMay[w])]
       ELSE UNCHANGED <<recv, deliv, low>>
  /\ UNCHANGED <<matched, unavMay, unavMust, everUnav, frags, hbCnt, hbRange, handed, hlow, ackBase, ackCnt, nfCnt, viol>>

\* Fragments fs .. fs+fcount-1 of tot.  The sample is received once all tot fragments were seen.
\* Fragment bookkeeping is per writer and survives un-/re-matching (as the code's assemblers do);
\* a sample completed while the writer is unmatched is dropped.
AbsDataFrag(w, sn, fs, fcount, tot, pid, ts) ==
  /\ IF sn >= 1
       THEN LET old  == IF sn \in DOMAIN frags[w] THEN frags[w][sn][1] ELSE {}
                seen == old \cup (fs .. (fs + fcount - 1))
                done == (1..tot) \subseteq seen
            IN  /\ frags' = [frags EXCEPT ![w] =
                     IF done THEN [x \in DOMAIN @ \ {sn} |-> @[x]]
                     ELSE [x \in DOMAIN @ \cup {sn} |-> IF x = sn THEN <<seen, tot>> ELSE @[x]]]
                /\ IF done /\ matched[w]
                     THEN /\ recv'  = [recv EXCEPT ![w] = @ \cup {sn}]
                          /\ deliv' = [deliv EXCEPT ![w] = AddDeliv(@, sn, <<pid, ts>>)]
                          /\ low'   = [low EXCEPT ![w] = Adv(@, recv'[w] \cup unavMay[w])]
                     ELSE UNCHANGED <<recv, deliv, low>>
       ELSE UNCHANGED <<frags, recv, deliv, low>>
  /\ UNCHANGED <<matched, unavMay, unavMust, everUnav, hbCnt, hbRange, handed, hlow, ackBase, ackCnt, nfCnt, viol>>

HbFresh(w, count) == matched[w] /\ count > hbCnt[w]
HbValid(first, last) == first >= 1 /\ last >= 0 /\ last >= first - 1

\* GAP: [start, base) and every listed number; invalid GAPs (8.3.8.4.3) are ignored.
AbsGap(w, start, base, set) ==
  /\ IF matched[w] /\ start >= 1 /\ base >= 1
       THEN LET g == ((start .. (base - 1)) \cup set) \ recv[w]
            IN  /\ unavMay'  = [unavMay EXCEPT ![w] = @ \cup g]
                /\ unavMust' = [unavMust EXCEPT ![w] = @ \cup g]
                /\ everUnav' = [everUnav EXCEPT ![w] = @ \cup g]
                /\ low'      = [low EXCEPT ![w] = Adv(@, recv[w] \cup unavMay'[w])]
       ELSE UNCHANGED <<unavMay, unavMust, everUnav, low>>
  /\ UNCHANGED <<matched, recv, deliv, frags, hbCnt, hbRange, handed, hlow, ackBase, ackCnt, nfCnt, viol>>

(* --------------------------------------------------------------- outputs *)

\* C01: the application was handed `list` (a sequence of [w, sn, pid, ts]) by one take call.
\* checkOrder = FALSE for best-effort readers (C01 speaks of RELIABLE readers);
\* checkHoles = FALSE for best-effort readers or when the reader's own limits were exceeded.
RECURSIVE HandFold(_, _, _, _, _)
HandFold(list, i, h, hl, v) ==
  IF i > Len(list) THEN <<h, hl, v>>
  ELSE LET e  == list[i]
           w  == e.w
           sn == e.sn
           prev == IF Len(h[w]) = 0 THEN 0 ELSE Last(h[w])
           hs == SeqToSet(h[w])
           nhl == Adv(hl[w], hs \cup everUnav[w])
           v1 == IF e.checkOrder /\ sn <= prev THEN {IF sn \in hs THEN "C01_once" ELSE "C01_order"} ELSE {}
           v2 == IF e.checkHoles /\ nhl < sn THEN {"C01_hole"} ELSE {}
           fragd == sn \in DOMAIN frags[w]      \* fragments of sn are (still) being assembled
           v3 == IF sn \notin DOMAIN deliv[w]
                   THEN {"C01_never_received"} \cup (IF fragd THEN {"C05_delivered_before_all_fragments_arrived"} ELSE {})
                 ELSE IF <<e.pid, e.ts>> \notin deliv[w][sn]
                   THEN {"C01_identity", "C05_reassembled_bytes_differ"} ELSE {}
       IN HandFold(list, i + 1, [h EXCEPT ![w] = Append(@, sn)], [hl EXCEPT ![w] = nhl],
                   v \cup v1 \cup v2 \cup v3)

ObsHandWith(list, extra) ==
  LET r == HandFold(list, 1, handed, hlow, viol \cup extra)
  IN  /\ handed' = r[1]
      /\ hlow'   = r[2]
      /\ viol'   = r[3]
      /\ UNCHANGED <<matched, recv, unavMay, unavMust, everUnav, deliv, frags, hbCnt, hbRange, low, ackBase, ackCnt, nfCnt>>

ObsHand(list) ==
  LET r == HandFold(list, 1, handed, hlow, viol)
  IN  /\ handed' = r[1]
      /\ hlow'   = r[2]
      /\ viol'   = r[3]
      /\ UNCHANGED <<matched, recv, unavMay, unavMust, everUnav, deliv, frags, hbCnt, hbRange, low, ackBase, ackCnt, nfCnt>>

\* C03.  HEARTBEAT(w, first, last, count) arrived and the reader answered with the ACKNACKs
\* `acks` (sequence of [base, set, count]) and NACKFRAGs `nfs` (sequence of [sn, set, count]), in
\* emission order.  A repeated / stale count is a duplicate and is ignored (RTPS 8.3.8.6);
\* reliable = FALSE: a best-effort reader ignores HEARTBEATs altogether.  The answer is judged
\* against the state AFTER the heartbeat has been applied.
AckViol(first, last, a, prevBase, prevCnt, lw, rcv, uMust) ==
     (IF a.base > lw THEN {"C03_base_exceeds_lowest_unknown"} ELSE {})
  \cup (IF a.base < prevBase THEN {"C03_base_decreased"} ELSE {})
  \cup (IF \E s \in a.set : s \in rcv \/ s \in uMust THEN {"C03_listed_not_missing"} ELSE {})
  \cup (IF \E s \in a.set : s < first \/ s > last THEN {"C03_listed_outside_range"} ELSE {})
  \cup (IF \E s \in a.set : s < a.base THEN {"C03_listed_below_base"} ELSE {})
  \cup (IF a.count <= prevCnt THEN {"C03_count_not_growing"} ELSE {})

NfViol(w, f, prevCnt) ==
  LET known == f.sn \in DOMAIN frags[w]
      miss  == IF known THEN (1 .. frags[w][f.sn][2]) \ frags[w][f.sn][1] ELSE {}
  IN   (IF f.count <= prevCnt THEN {"C03_count_not_growing"} ELSE {})
    \cup (IF ~known THEN {"C03_nackfrag_for_sample_without_fragments"} ELSE {})
    \cup (IF known /\ ~(f.set \subseteq miss) THEN {"C03_nackfrag_names_received_fragment"} ELSE {})
    \cup (IF known /\ \E m \in miss : m \notin f.set /\ m < Min(miss) + 256
            THEN {"C03_nackfrag_omits_missing_fragment"} ELSE {})

RECURSIVE AckFold(_, _, _, _, _, _, _, _, _)
AckFold(first, last, acks, i, st, v, lw, rcv, uMust) ==   \* st = <<prevBase, prevCnt>>
  IF i > Len(acks) THEN <<st, v>>
  ELSE AckFold(first, last, acks, i + 1, <<acks[i].base, acks[i].count>>,
               v \cup AckViol(first, last, acks[i], st[1], st[2], lw, rcv, uMust), lw, rcv, uMust)

RECURSIVE NfFold(_, _, _, _, _)
NfFold(w, nfs, i, prevCnt, v) ==
  IF i > Len(nfs) THEN <<prevCnt, v>>
  ELSE NfFold(w, nfs, i + 1, nfs[i].count, v \cup NfViol(w, nfs[i], prevCnt))

AbsHeartbeat(w, first, last, count, reliable, acks, nfs) ==
  LET fresh == reliable /\ HbFresh(w, count)
      decl  == (1 .. (first - 1)) \ recv[w]
      uMay  == IF fresh THEN unavMay[w] \cup decl ELSE unavMay[w]
      uMust == IF fresh /\ HbValid(first, last) THEN unavMust[w] \cup decl ELSE unavMust[w]
      lw    == Adv(low[w], recv[w] \cup uMay)
      ra    == AckFold(first, last, acks, 1, <<ackBase[w], ackCnt[w]>>, {}, lw, recv[w], uMust)
      rn    == NfFold(w, nfs, 1, nfCnt[w], {})
      \* the obligation: a number is missing only if no declaration at all made it unavailable
      miss  == IF HbValid(first, last)
                 THEN {n \in first..last : n \notin recv[w] /\ n \notin uMay} ELSE {}
      lowest == Min(miss)
      requested ==
           (\E i \in DOMAIN acks : lowest \in acks[i].set)
        \/ (\E i \in DOMAIN nfs : nfs[i].sn = lowest)
      v5 == IF fresh /\ miss # {} /\ ~requested THEN {"C03_lowest_missing_not_requested"} ELSE {}
      v6 == IF ~matched[w] /\ (Len(acks) + Len(nfs) > 0) THEN {"C03_reply_to_unmatched_writer"} ELSE {}
  IN  /\ hbCnt'    = [hbCnt EXCEPT ![w] = IF fresh THEN count ELSE @]
      /\ hbRange'  = [hbRange EXCEPT ![w] = IF fresh THEN <<first, last>> ELSE @]
      /\ unavMay'  = [unavMay EXCEPT ![w] = uMay]
      /\ unavMust' = [unavMust EXCEPT ![w] = uMust]
      /\ everUnav' = [everUnav EXCEPT ![w] = IF fresh THEN @ \cup decl ELSE @]
      /\ low'      = [low EXCEPT ![w] = lw]
      /\ ackBase'  = [ackBase EXCEPT ![w] = ra[1][1]]
      /\ ackCnt'   = [ackCnt EXCEPT ![w] = ra[1][2]]
      /\ nfCnt'    = [nfCnt EXCEPT ![w] = rn[1]]
      /\ viol'     = viol \cup ra[2] \cup rn[2] \cup v5 \cup v6
      /\ UNCHANGED <<matched, recv, deliv, frags, handed, hlow>>

\* ACKNACKs / NACKFRAGs not triggered by a HEARTBEAT: judged against the last accepted range.
AbsSpontaneous(w, acks, nfs) ==
  LET ra == AckFold(hbRange[w][1], hbRange[w][2], acks, 1, <<ackBase[w], ackCnt[w]>>, {},
                    low[w], recv[w], unavMust[w])
      rn == NfFold(w, nfs, 1, nfCnt[w], {})
  IN  /\ ackBase' = [ackBase EXCEPT ![w] = ra[1][1]]
      /\ ackCnt'  = [ackCnt EXCEPT ![w] = ra[1][2]]
      /\ nfCnt'   = [nfCnt EXCEPT ![w] = rn[1]]
      /\ viol'    = viol \cup ra[2] \cup rn[2]
      /\ UNCHANGED <<matched, recv, unavMay, unavMust, everUnav, deliv, frags, hbCnt, hbRange, handed, hlow, low>>

(* ------------------------------------------------------------ properties *)

Inv_NoViolation == viol = {}

\* state forms of C01 that do not depend on the moment of observation
Inv_Order == \A w \in Writers : \A i, j \in DOMAIN handed[w] : i < j => handed[w][i] < handed[w][j]
==========================================================================
