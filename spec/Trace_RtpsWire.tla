-------------------------- MODULE Trace_RtpsWire --------------------------
(***************************************************************************)
(* Trace validation for the `wire` driver, property C14.                   *)
(* One line per case executed on the REAL code:                            *)
(*   Msg    a message shape instantiated with seeded values, constructed   *)
(*          and serialised by the crate; observed framing numbers of every *)
(*          submessage + verdicts of the differential checks               *)
(*   NumSet NumberSet construction / iteration / wire round trip           *)
(*   Dgram  a datagram the crate emitted in another driver's run           *)
(* RtpsWire.tla / NumberSet.tla are the oracles: flags, octetsToNextHeader,*)
(* body length, octetsToInlineQos, parameter length fields, payload octets *)
(* and set membership are recomputed here from the shape.                  *)
(* As strict as the property, not stricter: a DATAFRAG whose payload is    *)
(* written without the trailing alignment padding is accepted as long as   *)
(* octetsToNextHeader says so (the property speaks of agreement between    *)
(* header and bytes, and of payload equality up to padding).               *)
(* Known deviations (reported as KNOWN only if the environment lists them):*)
(*   X1  DATAFRAG with inline QoS: the writer emits speedy's Option tag    *)
(*       (or nothing for an empty list) -- body and header disagree        *)
(*   X2  INFO_REPLY: multicast list framed by speedy's Option tag instead  *)
(*       of the MulticastFlag                                              *)
(***************************************************************************)
EXTENDS Integers, Sequences, FiniteSets, TLC, Json, IOUtils

W == INSTANCE RtpsWire WITH MaxSubs <- 0, Deep <- FALSE, GenK <- 0, msg <- <<>>, le <- TRUE
NS == INSTANCE NumberSet WITH Offs <- {}, RawNb <- {}, RawBits <- {}, BSel <- {}, GenK <- 0, cs <- 0

Rec == ndJsonDeserialize(IOEnv.TRACE)
KnownX1 == IOEnv.KNOWN_C14_X1 = "1"
KnownX2 == IOEnv.KNOWN_C14_X2 = "1"

VARIABLES l, run, viol, known
tvars == <<l, run, viol, known>>

ToSet(s) == {s[i] : i \in DOMAIN s}
If(c, name) == IF c THEN {name} ELSE {}

TraceInit == l = 1 /\ run = 0 /\ viol = {} /\ known = {}

-----------------------------------------------------------------------------
X1(s, o) == s.k = "DATAFRAG" /\ s.hq /\ ((s.q # <<>> /\ o.otn = o.blen - 1) \/ (s.q = <<>> /\ o.otn = o.blen + 4))
X2(s, o) == s.k = "INFO_REPLY" /\ o.blen = W!BodyLen(s) + 1 /\ o.otn = o.blen

BodyLenOk(s, n) == n = W!BodyLen(s) \/ (s.k = "DATAFRAG" /\ n = 32 + W!ParamListLen(s) + s.p)
PayOk(s, n) == IF s.k = "DATAFRAG" THEN n \in {s.p, W!RoundUp4(s.p)}
               ELSE IF s.k = "DATA" /\ s.hp # "none" THEN n = W!PayLen(s) ELSE n = -1

SubClauses(s, o, e) ==
  If(o.kind # W!KindNum(s.k), "C14_wrong_submessage_kind")
  \cup If(o.flags # W!Flags(s, e), "C14_flags_do_not_describe_content")
  \cup If(o.otn # o.blen, "C14_octets_to_next_header_disagrees_with_body")
  \cup If(~BodyLenOk(s, o.blen), "C14_body_length_not_as_rtps_prescribes")
  \cup If(o.otiq # W!Otiq(s), "C14_octets_to_inline_qos_wrong")
  \cup If(~o.dec, "C14_submessage_unreadable_on_its_own")
  \cup If(o.dec /\ s.k \in {"DATA", "DATAFRAG"} /\ o.qpad # (IF s.hq THEN W!ParamLens(s) ELSE <<>>), "C14_parameter_length_field_wrong")
  \cup If(o.dec /\ ~PayOk(s, o.ppad), "C14_payload_octets_wrong")

MsgStep(e) ==
  LET sh == e.shape
      ob == e.obs
      shaped == e.built /\ Len(ob) = Len(sh)
      K1 == IF shaped /\ KnownX1 THEN {i \in DOMAIN sh : X1(sh[i], ob[i])} ELSE {}
      K2 == IF shaped /\ KnownX2 THEN {i \in DOMAIN sh : X2(sh[i], ob[i])} ELSE {}
      subv == IF shaped THEN UNION {SubClauses(sh[i], ob[i], e.le) : i \in DOMAIN sh \ (K1 \cup K2)} ELSE {}
      msgv == If(~shaped, "C14_message_not_constructed")
              \cup (IF K1 # {} THEN {} ELSE
                      If(~e.concat_eq, "C14_message_is_not_concatenation_of_submessages")
                      \cup If(~e.parse_ok, "C14_own_parser_rejects_own_message")
                      \cup If(e.parse_ok /\ (~e.parse_eq \/ ~e.hdr_eq), "C14_parsed_message_differs")
                      \cup If(e.parse_ok /\ ~e.reser_eq, "C14_reserialised_bytes_differ")
                      \cup (IF K2 # {} THEN {} ELSE
                              If(~e.oracle_ok, "C14_independent_reader_cannot_walk_message")
                              \cup If(e.oracle_ok /\ ~e.oracle_eq, "C14_fields_differ_for_independent_reader")))
  IN /\ viol' = viol \cup subv \cup msgv
     /\ known' = known \cup If(K1 # {}, "C14_X1_datafrag_inline_qos_misframed") \cup If(K2 # {}, "C14_X2_info_reply_option_tag")

NumSetStep(e) ==
  LET inp == ToSet(e.ino)
      exp == IF e.mode = "members" THEN NS!ExpectedFromMembers(inp) ELSE NS!ExpectedFromParts(e.nb_in, inp)
      views == {ToSet(e.iter), ToSet(e.iter_le), ToSet(e.iter_be), ToSet(e.oracle_le), ToSet(e.oracle_be)}
  IN /\ viol' = viol
          \cup If(e.err # "", "C14_numset_rejected_or_panicked")
          \cup If(e.err = "" /\ \E v \in views : exp \ v # {}, "C14_numset_member_lost")
          \cup If(e.err = "" /\ \E v \in views : \E x \in v : x \notin NS!Window, "C14_numset_member_outside_window")
          \cup If(e.err = "" /\ \E v \in views : \E x \in v : x \in NS!Window /\ x \notin exp, "C14_numset_spurious_member")
          \cup If(e.err = "" /\ (~e.len_ok \/ e.nb > 256), "C14_numset_length_wrong")
          \cup If(e.err = "" /\ ~e.reser_eq, "C14_numset_reserialised_bytes_differ")
     /\ UNCHANGED known

DgramStep(e) ==
  /\ viol' = viol
        \cup If(~e.parse_ok, "C14_own_parser_rejects_own_message")
        \cup If(e.parse_ok /\ ~e.reser_eq, "C14_reserialised_bytes_differ")
        \cup If(~e.oracle_ok, "C14_independent_reader_cannot_walk_message")
        \cup If(e.parse_ok /\ e.oracle_ok /\ ~e.oracle_eq, "C14_fields_differ_for_independent_reader")
  /\ UNCHANGED known

Step ==
  /\ l <= Len(Rec)
  /\ l' = l + 1
  /\ LET e == Rec[l] IN
     CASE e.ev = "Reset" -> run' = e.run /\ viol' = {} /\ known' = {}
       [] e.ev = "Msg" -> MsgStep(e) /\ UNCHANGED run
       [] e.ev = "NumSet" -> NumSetStep(e) /\ UNCHANGED run
       [] e.ev = "Dgram" -> DgramStep(e) /\ UNCHANGED run
       [] e.ev = "Skip" -> UNCHANGED <<run, viol, known>>
  /\ (viol' # viol /\ viol' # {}) =>
        PrintT("VIOL line=" \o ToString(l) \o " run=" \o ToString(run') \o " clauses=" \o ToString(viol' \ viol))
  /\ (known' # known /\ known' # {}) =>
        PrintT("KNOWN line=" \o ToString(l) \o " run=" \o ToString(run') \o " clauses=" \o ToString(known' \ known))

TraceSpec == TraceInit /\ [][Step]_tvars

TraceAccepted ==
  LET d == TLCGet("stats").diameter IN
  IF d = Len(Rec) + 1 THEN PrintT("TRACE-OK events=" \o ToString(Len(Rec)))
  ELSE PrintT("TRACE-STUCK line=" \o ToString(d)) /\ PrintT(Rec[d]) /\ FALSE
==========================================================================
