SPECIFICATION Spec
CONSTANTS
  Offs = {0, 1, 30, 31, 32, 33, 63, 64, 254, 255, 256, 300}
  RawNb = {0, 1, 31, 32, 33, 64, 255, 256}
  RawBits = {0, 1, 30, 31, 32, 33, 63, 64, 254, 255}
  BSel = {0, 1, 2, 3, 4, 5, 6, 7}
  GenK = 2
INVARIANT Law
ACTION_CONSTRAINT GenEdge
CHECK_DEADLOCK FALSE
