SPECIFICATION Spec
CONSTANTS
  Scenario = "awrite"
  N = 3
  Cap = 16
  Kinds <- KindsNone
  Script <- ScriptNone
  Readers = 0
  GenK = 4
VIEW View
INVARIANT Inv_NoLostWake
ACTION_CONSTRAINT GenEdge
CHECK_DEADLOCK FALSE
