SPECIFICATION Spec
CONSTANTS
  Scenario = "awaitq"
  N = 0
  Cap = 16
  Kinds <- KindsNone
  Script <- ScriptNone
  Readers = 1
  GenK = 1
VIEW View
INVARIANT Inv_NoLostWake
INVARIANT Inv_NoEarlySuccess
ACTION_CONSTRAINT GenEdge
CHECK_DEADLOCK FALSE
