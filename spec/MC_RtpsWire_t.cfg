SPECIFICATION Spec
CONSTANTS
  MaxSubs = 3
  Deep = TRUE
  GenK = 24
INVARIANT RoundTrip
INVARIANT LengthsAgree
ACTION_CONSTRAINT GenEdge
CHECK_DEADLOCK FALSE
