SPECIFICATION Spec
CONSTANTS
  Keys = {1}
  Writers = {1, 2}
  Depth0 = 0
  MaxArr = 4
  MaxSteps = 6
  Forms = {"nk_take", "nk_read", "nk_take_next"}
  Kinds = {"V", "X", "KD"}
  Retransmit = FALSE
  NoKey = TRUE
  GenK = 40
CONSTRAINT Bound
VIEW View
INVARIANT SCInv_NoViolation
INVARIANT Inv_CacheIsAvailable
INVARIANT Inv_ReadFlags
INVARIANT Inv_InstanceState
INVARIANT Inv_NothingLostBehindBadChange
ACTION_CONSTRAINT GenEdge
CHECK_DEADLOCK FALSE
