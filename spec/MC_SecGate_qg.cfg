SPECIFICATION Spec
CONSTANTS
  MDests = {"NN", "pmsec", "pubsec"}
  MKinds = {"DATA", "HB", "ACK"}
  MGovs = {"NNN", "NNE", "NNS", "NEN", "NSE", "ENE"}
  MaxLen = 3
  MXm = {0}
  MWraps = "all"
  MForms = {"D"}
  MSrcs = {"peer", "foreign"}
  GenK = 1
VIEW View
INVARIANT Inv_Protected
INVARIANT Inv_Flows
ACTION_CONSTRAINT GenEdge
CHECK_DEADLOCK FALSE
