SPECIFICATION Spec
CONSTANTS
  Scenario = "stream"
  N = 3
  Cap = 16
  Kinds <- KindsNone
  Script <- ScriptHOH
  Readers = 0
  GenK = 1
VIEW View
INVARIANT Inv_NoLostWake
ACTION_CONSTRAINT GenEdge
CHECK_DEADLOCK FALSE
