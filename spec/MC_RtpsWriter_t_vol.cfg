SPECIFICATION Spec
CONSTANTS
  Readers = {1,2}
  RelW0 = TRUE
  VolW0 = TRUE
  Depth = 2
  MaxWrites = 3
  MaxSteps = 6
  GenK = 200
CONSTRAINT Bound
VIEW View
INVARIANT WInv_NoViolation
INVARIANT Inv_HistoryIsRange
INVARIANT Inv_ProxyMatchesAbstract
ACTION_CONSTRAINT GenEdge
CHECK_DEADLOCK FALSE
