SPECIFICATION Spec
CONSTANTS
  QosChoices <- QosFull
  LateChoices = {"none", "vol"}
  ThirdChoices = {TRUE, FALSE}
  DelChoices = {"none", "W", "PB"}
  BlackoutChoices = {0, 1}
  PostChoices = {"none"}
  MatchOnCreate = TRUE
  RematchFix = TRUE
  GenK = 60
INVARIANTS Inv_MatchedSound Inv_SeenOnlyOfKnown Inv_TypeOK
ACTION_CONSTRAINT GenEdge
CHECK_DEADLOCK FALSE
