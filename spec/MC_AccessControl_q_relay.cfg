SPECIFICATION Spec
CONSTANTS
  Slice = "relay"
  Big = FALSE
INVARIANT Inv_ScanIsFirstApplicable
INVARIANT Inv_UnprotectedGranted
INVARIANT Inv_NoGrantNoProtectedAccess
INVARIANT Inv_OnlyDeclaredAmbiguity
INVARIANT Inv_OnlyValidOwnGrantCounts
INVARIANT Inv_AcceptedOnlyAsSigned
INVARIANT TablePrinted
ACTION_CONSTRAINT GenEdge
CHECK_DEADLOCK FALSE
