SPECIFICATION Spec
CONSTANTS
  MDests = {"NN", "pmsec", "pubsec", "subsec"}
  MKinds = {"DATA", "HB", "GAP", "ACK"}
  MGovs = {"NNN", "NNS", "NNE", "NSN", "NSS", "NSE", "NEN", "NES", "ENN", "ENS", "ENE", "ESN", "ESS", "ESE", "EEN", "EES", "E"}
  MaxLen = 3
  MXm = {0}
  MWraps = "all"
  MForms = {"D"}
  MSrcs = {"peer", "foreign"}
  GenK = 1
VIEW View
INVARIANT Inv_Protected
INVARIANT Inv_Flows
ACTION_CONSTRAINT GenEdge
CHECK_DEADLOCK FALSE
