----------------------------- MODULE Discovery -----------------------------
(***************************************************************************)
(* Implementation-shaped model of the discovery bookkeeping of RustDDS      *)
(*   discovery_db.rs   (participant_proxies, participant_last_life_signs,   *)
(*                      external_topic_readers / _writers and their attics, *)
(*                      update_participant, participant_is_alive,           *)
(*                      participant_cleanup, remove_participant,            *)
(*                      update_subscription / update_publication,           *)
(*                      remove_topic_reader / remove_topic_writer)          *)
(*   discovery.rs      (the glue: rediscovery re-announces the endpoints    *)
(*                      restored from the attic)                            *)
(*   dp_event_loop.rs  (remote_reader_discovered / _lost, remote_writer_    *)
(*                      discovered / _lost, remote_participant_lost)        *)
(*   writer.rs         (update_reader_proxy, reader_lost, participant_lost, *)
(*                      matched_readers_count_total)                        *)
(*   reader.rs         (update_writer_proxy, remove_writer_proxy,           *)
(*                      participant_lost, writer_match_count_total)         *)
(* with one local writer and one local reader on topic T, one action per    *)
(* discovery event as the `disc` driver applies it.  What the model lets    *)
(* the outside see after every event (matched sets, status events, tables)  *)
(* goes through the observers of DiscoveryAbs, so TLC decides C11 and C12   *)
(* for every event sequence within the bound; `trail` records the events    *)
(* for replay on the real DiscoveryDB / DPEventLoop / Writer / Reader.      *)
(***************************************************************************)
EXTENDS DiscoveryAbs, Json, SequencesExt

CONSTANTS Late,        \* the application creates its local writer and reader only after discovery has run for a while
          Leases,      \* lease values a participant may announce (ms; -1 = none announced)
          Dts,         \* clock steps (ms)
          MaxSteps, MaxTime,
          GenK

VARIABLES
  pProx,     \* [P -> BOOLEAN]  participant_proxies has the participant
  pLife,     \* [P -> Int]      participant_last_life_signs
  pLease,    \* [P -> Int]      lease_duration of the stored proxy (-1 = None)
  ext,       \* [E -> BOOLEAN]  external_topic_readers / external_topic_writers
  att,       \* [E -> BOOLEAN]  the attics
  wProx,     \* SUBSET E        Writer.readers of the local writer
  rProx,     \* SUBSET E        Reader.matched_writers of the local reader
  wTotal, rTotal,   \* matched_readers_count_total / writer_match_count_total
  wInc, rInc,       \* requested_incompatible_qos_count / offered_incompatible_qos_count
  lw, lr,           \* DPEventLoop.writers / .readers has the local writer / reader
  cq,               \* [E -> BOOLEAN] the QoS stored with the endpoint's record (compatible with the local endpoint or not)
  flip,             \* SUBSET E: endpoints whose record has been replaced by one of the other QoS class.  Nothing in the
                    \* design depends on it; it is part of the state so that TLC keeps (and extends, and dumps for replay)
                    \* the behaviours in which a record was overwritten apart from those in which it was not
  steps, trail

implVars == <<pProx, pLife, pLease, ext, att, wProx, rProx, wTotal, rTotal, wInc, rInc, lw, lr, cq, flip>>
vars == <<dabsVars, implVars, steps, trail>>

Lt(a, b) == a < b
\* for configurations (a cfg file cannot write a negative number): two leases and "none announced"
LeasesWithNone == {1100, 2500, -1}

Init ==
  /\ DAbsInitL(Late)
  /\ lw = ~Late /\ lr = ~Late /\ cq = [e \in E |-> Compatible[e]] /\ flip = {}
  /\ pProx = [p \in P |-> FALSE] /\ pLife = [p \in P |-> 0] /\ pLease = [p \in P |-> -1]
  /\ ext = [e \in E |-> FALSE] /\ att = [e \in E |-> FALSE]
  /\ wProx = {} /\ rProx = {} /\ wTotal = 0 /\ rTotal = 0 /\ wInc = 0 /\ rInc = 0
  /\ steps = 0 /\ trail = <<>>

Log(a) == steps' = steps + 1 /\ trail' = Append(trail, a)
\* Discovery (which updates the DiscoveryDB and sends a notification) and the event loop (which handles it: proxies,
\* matched sets, status events) are different threads.  The handlers work on the data carried by the notification and
\* notifications are handled in the order sent, so WHEN the event loop runs does not change any result: the model
\* applies both halves in one action, and the replay draws for every event whether the event loop lags behind (the
\* DiscoveryDB is then already ahead when the notification is handled).  A handler that consults the DiscoveryDB
\* breaks exactly this independence.
Defer == RandomElement(BOOLEAN)

(* ----------------------------------------- the two local endpoints *)
\* The local writer is matched with remote readers, the local reader with remote writers; both sides run the same
\* algorithm, so one state record st = [prox, total, inc, evs] per side.
WSide == [prox |-> wProx, total |-> wTotal, inc |-> wInc, evs |-> <<>>]
RSide == [prox |-> rProx, total |-> rTotal, inc |-> rInc, evs |-> <<>>]
Mine(side, e) == OnTopic[e] /\ (IF side = "w" THEN IsReader[e] ELSE ~IsReader[e])

\* DPEventLoop::remote_reader_discovered / remote_writer_discovered -> Writer::update_reader_proxy /
\* Reader::update_writer_proxy for remote endpoint e announcing QoS of class c; nothing happens without the local endpoint
Has(side) == IF side = "w" THEN lw ELSE lr
DiscoveredQ(side, st, e, c) ==
  IF ~Mine(side, e) \/ ~Has(side) THEN st
  ELSE IF c THEN
         IF e \in st.prox THEN st       \* known proxy: contents updated, no status
         ELSE LET pr == st.prox \cup {e} IN
              [st EXCEPT !.prox = pr, !.total = @ + 1,
                         !.evs = Append(@, [k |-> "Matched", e |-> e, cur |-> Cardinality(pr), chg |-> 1, tot |-> st.total + 1])]
       ELSE [st EXCEPT !.inc = @ + 1,
                       !.evs = Append(@, [k |-> "IncompatibleQos", e |-> e, cur |-> st.inc + 1, chg |-> 1, tot |-> st.inc + 1])]

\* Writer::reader_lost / Reader::remove_writer_proxy
Lost(st, e) ==
  IF e \notin st.prox THEN st
  ELSE LET pr == st.prox \ {e} IN
       [st EXCEPT !.prox = pr,
                  !.evs = Append(@, [k |-> "Matched", e |-> e, cur |-> Cardinality(pr), chg |-> -1, tot |-> st.total])]

Discovered(side, st, e) == DiscoveredQ(side, st, e, cq[e])

RECURSIVE LostFold(_, _, _)
LostFold(st, es, i) == IF i > Len(es) THEN st ELSE LostFold(Lost(st, es[i]), es, i + 1)
RECURSIVE DiscFold(_, _, _, _)
DiscFold(side, st, es, i) == IF i > Len(es) THEN st ELSE DiscFold(side, Discovered(side, st, es[i]), es, i + 1)

\* Writer::participant_lost / Reader::participant_lost: the proxies of that participant, in GUID order
PartLost(st, p) == LostFold(st, SetToSortSeq({e \in st.prox : Owner[e] = p}, Lt), 1)
\* discovery.rs after a rediscovery: every endpoint the DB holds for the participant is announced to the event loop
ReAnnounce(side, st, S) == DiscFold(side, st, SetToSortSeq(S, Lt), 1)

Obs(w, r, prox, extN, attN) ==
  [wm |-> w.prox, rm |-> r.prox, ws |-> w.evs, rs |-> r.evs,
   parts |-> {p \in P : prox[p]}, ext |-> {e \in E : extN[e]}, att |-> {e \in E : attN[e]}]

SetSides(w, r) ==
  /\ wProx' = w.prox /\ wTotal' = w.total /\ wInc' = w.inc
  /\ rProx' = r.prox /\ rTotal' = r.total /\ rInc' = r.inc

(* ---------------------------------------------------------------- events *)
Tick(dt) ==
  /\ now + dt <= MaxTime
  /\ AbsTick(dt)
  /\ UNCHANGED implVars
  /\ Log([a |-> "Tick", dt |-> dt])

\* DiscoveryDB::update_participant + the rediscovery glue
Spdp(p, l) ==
  LET new  == ~pProx[p]
      back == {e \in E : Owner[e] = p /\ att[e]}
      extN == IF new THEN [e \in E |-> ext[e] \/ e \in back] ELSE ext
      attN == IF new THEN [e \in E |-> att[e] /\ e \notin back] ELSE att
      mine == {e \in E : Owner[e] = p /\ extN[e]}
      w == IF new THEN ReAnnounce("w", WSide, mine) ELSE WSide
      r == IF new THEN ReAnnounce("r", RSide, mine) ELSE RSide
      proxN == [pProx EXCEPT ![p] = TRUE]
  IN /\ pProx' = proxN
     /\ pLife' = [pLife EXCEPT ![p] = now]
     /\ pLease' = [pLease EXCEPT ![p] = l]
     /\ ext' = extN /\ att' = attN
     /\ SetSides(w, r)
     /\ AbsSpdp(p, l, Obs(w, r, proxN, extN, attN), FALSE)
     /\ UNCHANGED <<lw, lr, cq, flip>>
     /\ Log([a |-> "Spdp", p |-> p, lease |-> l, defer |-> Defer])

\* DiscoveryDB::participant_is_alive
Alive(p) ==
  /\ pLife' = [pLife EXCEPT ![p] = IF pProx[p] THEN now ELSE @]
  /\ AbsAlive(p, Obs(WSide, RSide, pProx, ext, att))
  /\ UNCHANGED <<pProx, pLease, ext, att, wProx, rProx, wTotal, rTotal, wInc, rInc, lw, lr, cq, flip>>
  \* how the life sign travels does not matter to the design: directly, or as a datagram of p's SPDP writer (naming the SPDP
  \* reader or ENTITYID_UNKNOWN, with a new or a repeated sequence number); drawn for the replay
  /\ Log([a |-> "Alive", p |-> p, wire |-> RandomElement(BOOLEAN), explicit |-> RandomElement(BOOLEAN), same |-> RandomElement(BOOLEAN)])

\* DiscoveryDB::participant_cleanup + DPEventLoop::remote_participant_lost for each one removed
RECURSIVE LoseAll(_, _, _)
LoseAll(st, ps, i) == IF i > Len(ps) THEN st ELSE LoseAll(PartLost(st, ps[i]), ps, i + 1)
Cleanup ==
  LET leaseOf(p) == IF pLease[p] = -1 THEN DefaultLease ELSE pLease[p]
      lost == {p \in P : pProx[p] /\ now - pLife[p] > leaseOf(p)}
      ps == SetToSortSeq(lost, Lt)
      extN == [e \in E |-> ext[e] /\ Owner[e] \notin lost]
      attN == [e \in E |-> att[e] \/ (ext[e] /\ Owner[e] \in lost)]
      proxN == [p \in P |-> pProx[p] /\ p \notin lost]
      w == LoseAll(WSide, ps, 1)
      r == LoseAll(RSide, ps, 1)
  IN /\ pProx' = proxN /\ ext' = extN /\ att' = attN
     /\ SetSides(w, r)
     /\ AbsCleanup(lost, Obs(w, r, proxN, extN, attN))
     /\ UNCHANGED <<lw, lr, cq, flip>>
     /\ UNCHANGED <<pLife, pLease>>
     /\ Log([a |-> "Cleanup", defer |-> Defer])

\* SPDP dispose: DiscoveryDB::remove_participant(p, active_disposal = true) + remote_participant_lost.  What the attic
\* holds of p from an earlier time-out goes as well: the participant said it is leaving.
DisposeP(p) ==
  LET extN == [e \in E |-> ext[e] /\ Owner[e] # p]
      attN == [e \in E |-> att[e] /\ Owner[e] # p]
      proxN == [pProx EXCEPT ![p] = FALSE]
      w == PartLost(WSide, p)
      r == PartLost(RSide, p)
  IN /\ pProx' = proxN /\ ext' = extN /\ att' = attN
     /\ SetSides(w, r)
     /\ AbsDisposeP(p, Obs(w, r, proxN, extN, attN))
     /\ UNCHANGED <<lw, lr, cq, flip>>
     /\ UNCHANGED <<pLife, pLease>>
     /\ Log([a |-> "DisposeP", p |-> p, defer |-> Defer])

\* SEDP data: update_subscription / update_publication + remote_reader_discovered / remote_writer_discovered.
\* The participant need not be known (its first SPDP announcement may have been lost): the endpoint is stored and
\* matched all the same; it has no lease of its own until its participant is heard.
\* c: the QoS announced this time; update_subscription / update_publication store the record as announced.
Announce(e, c) ==
  /\ LET extN == [ext EXCEPT ![e] = TRUE]
         w == DiscoveredQ("w", WSide, e, c)
         r == DiscoveredQ("r", RSide, e, c)
     IN /\ ext' = extN
        /\ cq' = [cq EXCEPT ![e] = c]
        /\ flip' = IF (ext[e] \/ att[e]) /\ c # cq[e] THEN flip \cup {e} ELSE flip
        /\ SetSides(w, r)
        /\ AbsAnnounceQ(e, c, Obs(w, r, pProx, extN, att))
  /\ UNCHANGED <<pProx, pLife, pLease, att, lw, lr>>
  /\ Log([a |-> "Announce", e |-> e, c |-> c, defer |-> Defer])

\* DPEventLoop::add_local_writer / add_local_reader: the new endpoint is matched with every endpoint on its topic that the
\* DiscoveryDB holds (external_readers_on_topic / external_writers_on_topic), in GUID order, by the QoS stored there
CreateLocal(side) ==
  /\ ~Has(side)
  /\ lw' = (lw \/ side = "w") /\ lr' = (lr \/ side = "r")
  /\ LET S == SetToSortSeq({e \in E : ext[e] /\ Mine(side, e)}, Lt)
         f[i \in 0..Len(S)] == IF i = 0 THEN (IF side = "w" THEN WSide ELSE RSide)
                               ELSE LET st == f[i - 1]
                                        e == S[i]
                                    IN IF cq[e]
                                         THEN IF e \in st.prox THEN st
                                              ELSE LET pr == st.prox \cup {e} IN
                                                   [st EXCEPT !.prox = pr, !.total = @ + 1,
                                                              !.evs = Append(@, [k |-> "Matched", e |-> e, cur |-> Cardinality(pr), chg |-> 1, tot |-> st.total + 1])]
                                         ELSE [st EXCEPT !.inc = @ + 1,
                                                         !.evs = Append(@, [k |-> "IncompatibleQos", e |-> e, cur |-> st.inc + 1, chg |-> 1, tot |-> st.inc + 1])]
         w == IF side = "w" THEN f[Len(S)] ELSE WSide
         r == IF side = "r" THEN f[Len(S)] ELSE RSide
     IN /\ SetSides(w, r)
        /\ AbsCreateLocal(side, Obs(w, r, pProx, ext, att))
  /\ UNCHANGED <<pProx, pLife, pLease, ext, att, cq, flip>>
  /\ Log([a |-> "CreateLocal", side |-> side])

\* SEDP dispose: remove_topic_reader / remove_topic_writer + remote_reader_lost / remote_writer_lost
DisposeE(e) ==
  /\ LET extN == [ext EXCEPT ![e] = FALSE]
         w == IF IsReader[e] THEN Lost(WSide, e) ELSE WSide
         r == IF ~IsReader[e] THEN Lost(RSide, e) ELSE RSide
     IN /\ ext' = extN
        /\ SetSides(w, r)
        /\ AbsDisposeE(e, Obs(w, r, pProx, extN, att))
  /\ UNCHANGED <<pProx, pLife, pLease, att, lw, lr, cq, flip>>
  /\ Log([a |-> "DisposeE", e |-> e, defer |-> Defer])

Next ==
  \/ \E dt \in Dts : Tick(dt)
  \/ \E p \in P, l \in Leases : Spdp(p, l)
  \/ \E p \in P : Alive(p) \/ DisposeP(p)
  \/ Cleanup
  \* the QoS of an announcement may differ from the last one only for the Mutable endpoints and only while the local
  \* endpoint they concern does not exist yet
  \/ \E e \in E : \E c \in (IF e \in Mutable /\ ~Has(IF IsReader[e] THEN "w" ELSE "r") THEN BOOLEAN ELSE {cq[e]}) : Announce(e, c)
  \/ \E e \in E : DisposeE(e)
  \/ \E side \in {"w", "r"} : CreateLocal(side)

Spec == Init /\ [][Next]_vars
Bound == steps <= MaxSteps
View == <<dabsVars, implVars, steps>>   \* steps kept: the bound is then exact whatever the order of exploration

\* refinement facts relating the tables of the code to the abstract state
Inv_ParticipantsAgree == \A p \in P : pProx[p] = known[p]
Inv_AtticOnlyOfAbsent == \A e \in E : att[e] => ~pProx[Owner[e]]
Inv_MatchedAreKnown   == \A e \in wProx \cup rProx : ext[e]
Inv_LifeSignsAgree    == \A p \in P : pProx[p] => pLife[p] = lastSign[p]
Inv_LocalAgree        == lw = haveW /\ lr = haveR /\ cq = cls
Inv_AnnouncedAreKnown == \A e \in E : ann[e] => ext[e]

GenEdge == (GenK > 0 /\ RandomElement(1..GenK) = 1) => PrintT("REPLAY " \o ToJson([acts |-> trail', late |-> Late]))
============================================================================
