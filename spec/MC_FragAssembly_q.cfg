SPECIFICATION Spec
CONSTANTS
  Geoms <- GeomsDef
  Starts = {1, 2, 4}
  Counts = {1, 3}
  PayLens = {4, 40}
  SNs = {0, 1}
  MaxMsgs = 2
  GenK = 1
INVARIANT Inv_InBounds
INVARIANT Inv_BitmapFits
ACTION_CONSTRAINT GenEdge
CHECK_DEADLOCK FALSE
