SPECIFICATION Spec
CONSTANTS
  Writers = {1}
  MaxSN = 3
  FragSNs = {2}
  MaxSteps = 4
  Reliable = TRUE
  HostileClasses = {}
  HostileMatched = FALSE
  GenK = 40
CONSTRAINT Bound
VIEW View
INVARIANT Inv_NoViolation
INVARIANT Inv_Order
INVARIANT Inv_AckBaseIsLowestUnknown
CHECK_DEADLOCK FALSE
ACTION_CONSTRAINT GenEdge
