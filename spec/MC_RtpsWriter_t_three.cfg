SPECIFICATION Spec
CONSTANTS
  Readers = {1,2,3}
  RelW0 = TRUE
  VolW0 = FALSE
  Depth = 2
  MaxWrites = 2
  MaxSteps = 5
  GenK = 100
CONSTRAINT Bound
VIEW View
INVARIANT WInv_NoViolation
INVARIANT Inv_HistoryIsRange
INVARIANT Inv_ProxyMatchesAbstract
ACTION_CONSTRAINT GenEdge
CHECK_DEADLOCK FALSE
