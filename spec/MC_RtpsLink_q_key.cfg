SPECIFICATION Spec
CONSTANTS
  Pre = 0
  NSamples = 2
  FragSNs = {2}
  NF = 2
  MaxFaults = 2
  K = 3
  MaxRounds = 5
  MaxRematch = 0
  Win = 256
  Bursts = {}
  OutageAt = 0
  KeySNs = {1, 2}
  GenK = 3
VIEW View
INVARIANT Inv_Converge
INVARIANT Inv_Quiet
INVARIANT Inv_DevNeedsFragments
ACTION_CONSTRAINT GenEdge
CHECK_DEADLOCK FALSE
