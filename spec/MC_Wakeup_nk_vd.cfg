SPECIFICATION Spec
CONSTANTS
  Scenario = "nkbare"
  N = 2
  Cap = 16
  Kinds <- KindsVD
  Script <- ScriptNone
  Readers = 0
  GenK = 1
VIEW View
INVARIANT Inv_NoLostWake
ACTION_CONSTRAINT GenEdge
CHECK_DEADLOCK FALSE
