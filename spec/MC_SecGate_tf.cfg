SPECIFICATION Spec
CONSTANTS
  MDests = {"NN", "EN", "NE", "EE", "NS", "spdp"}
  MKinds = {"DATA", "FRAG"}
  MGovs = {"N", "S", "E"}
  MaxLen = 3
  MXm = {0}
  MWraps = "all"
  MForms = {"D", "K", "Q", "DK", "0"}
  MSrcs = {"peer", "foreign"}
  GenK = 1
VIEW View
INVARIANT Inv_Protected
INVARIANT Inv_Flows
ACTION_CONSTRAINT GenEdge
CHECK_DEADLOCK FALSE
