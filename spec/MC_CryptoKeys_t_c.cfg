\* several endpoints per participant, larger: receivers 2 (two endpoints: entities 2 and 12) and 3; tokens may go astray
\* between all three receiving entities; all receiver lists
SPECIFICATION Spec
CONSTANTS
  Senders = {1}
  Receivers = {2, 3}
  Levels = {"submsg"}
  Kinds = {"gmac", "gcm"}
  OAs = {TRUE, FALSE}
  K256s = {TRUE}
  Dirs = {"w2r", "r2w"}
  Others = {"same"}
  Astray = TRUE
  Eps2 = {2}
  LooseList = FALSE
  GenS = 4
  LooseKid = FALSE
  GenK = 40
  GenC = 6
VIEW View
INVARIANT Inv_TamperedNeverDecodes
INVARIANT Inv_NoKeyNoData
INVARIANT Inv_ForeignKeyNoData
INVARIANT Inv_NoMacForMeNoData
INVARIANT Inv_AuthorisedDecodes
INVARIANT Inv_S10IsADeviation
INVARIANT Inv_KeyIdOfAnotherKeyNoData
ACTION_CONSTRAINT GenEdge
CHECK_DEADLOCK FALSE
