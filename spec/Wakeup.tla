------------------------------- MODULE Wakeup -------------------------------
(***************************************************************************)
(* C13: no wake-up is lost.  Five two-thread scenarios at lock-release     *)
(* granularity, one action per stretch of code between two yield points    *)
(* (`verif::sched::yp`) of the real code:                                  *)
(*  "stream"  receive thread (Reader::process_received_data +              *)
(*            notify_cache_change: insert | take waker & wake | mio-0.8     *)
(*            poll event | mio-0.6 channel) x async stream consumer         *)
(*            (poll_next: take | store waker | take | park)                 *)
(*  "mio6", "mio8"  the same receive thread x a consumer that waits for     *)
(*            readiness and then takes until empty (take = drain | fill;   *)
(*            yield points "d0" in front of the drain of the notifications, *)
(*            "t1" in front of the fill from the topic cache)               *)
(*  "awrite"  AsyncWrite::poll on a full command queue (try_send | store    *)
(*            waker | retry | park) x Writer::process_writer_command (pop & *)
(*            wake per command)                                             *)
(*  "await"   AsyncWaitForAcknowledgments::poll (send command | poll the    *)
(*            completion channel: lock, try_recv | store the waker, unlock  *)
(*            | park) x the Writer completing the wait (pop the command |   *)
(*            StatusChannelSender::try_send: lock, send, wake, unlock).     *)
(*            Here the grain is finer than lock release: the application    *)
(*            stops INSIDE the critical section of the completion channel   *)
(*            (yield point "sr1") and the writer stops in front of the same *)
(*            mutex ("sl0", scheduler-aware), so the atomicity of "look,    *)
(*            then register the waker" is a fact the model states (lk) and  *)
(*            the conformance run checks, not an assumption.                *)
(*  "awaitq"  the same future against a command queue that already holds  *)
(*            N unprocessed writes (N = Cap: the queue is FULL when the    *)
(*            future is first polled: store the waker of the queue slot |  *)
(*            try_send fails | park | woken by a pop | try again) and a    *)
(*            writer with Readers reliable matched readers, which          *)
(*            acknowledge only after the Writer has worked off the queue:  *)
(*            the wait has to stay pending until then (C20) and complete   *)
(*            after it (C13).  The application's Waker yields inside       *)
(*            clone() (label "wc"): "look, then register" windows of the   *)
(*            polling code are open to the other thread wherever the code  *)
(*            clones the waker, without a yield point in the crate.        *)
(*  "nkstream", "nkbare"  the same receive thread x the async stream of a  *)
(*            no_key DataReader: a wrapper that polls the keyed stream     *)
(*            again (in the same poll) whenever it yields a dispose, which *)
(*            an un-keyed application is never shown; items Kinds[i]       *)
(* Thread 0 = the producer side (receive thread / writer thread), thread 1  *)
(* = the application.  TLC explores every interleaving; `trail` records the *)
(* schedule so that each behaviour is replayed on the two real threads      *)
(* under the cooperative scheduler.                                         *)
(***************************************************************************)
EXTENDS Integers, Sequences, FiniteSets, TLC, Json

CONSTANTS Scenario,   \* "stream" | "mio6" | "mio8" | "awrite" | "await" | "awaitq" | "nkstream" | "nkbare"
          N,          \* samples to inject / writes beyond the queue capacity / "awaitq": writes queued before the wait
          Cap,        \* capacity of the command queue (16 in the code)
          Kinds,      \* "nkstream"/"nkbare": kind of the i-th item, "V" value | "D" dispose (Len >= N)
          Script,     \* reader scenarios: what the receive thread gets, one entry per datagram (<<>> = N samples in order):
                      \*   "D" DATA in order (one more sample available), "O" DATA out of order (cached, held back: the
                      \*   consumer is notified and finds nothing), "H" a HEARTBEAT / GAP that declares the missing
                      \*   number unavailable and thereby releases everything held back (notifies only if it did)
          Readers,    \* "awaitq": reliable readers matched to the writer (0 | 1); they acknowledge once the Writer has processed every write
          GenK

VARIABLES
  pc0, pc1,       \* program counters (labels of the yield points)
  ins, del,       \* samples inserted in the cache / delivered to the application
  waker,          \* a waker is stored in the slot the producer looks at
  waker2,         \* "await": the waker stored in the command-queue slot (woken at every pop)
  wakeFlag,       \* the application's waker has been invoked and not yet consumed
  r8, n6,         \* mio-0.8 event pending; notifications in the mio-0.6 channel (capacity 4)
  q, sent,        \* command queue length; writes the application has completed
  cmdSent, signal,\* "await": command is in the queue / completion signal in the channel
  finished,       \* "await": the future returned Ready
  lk,             \* "await": the mutex of the completion channel's waker slot is held by the application
  held, idx,      \* reader scenarios: samples cached but held back; position in Script
  cmdIn,          \* "awaitq": the WaitForAcknowledgments command sits in the command queue (behind the writes)
  ackw,           \* "awaitq": the Writer holds an AckWaiter (somebody still has to acknowledge)
  acked,          \* "awaitq": the matched reliable reader has acknowledged everything that was written
  seen,           \* what the application could observe of the producer's side when it took its latest step (see Snap)
  trail

aq == <<cmdIn, ackw, acked>>
vars == <<pc0, pc1, ins, del, waker, waker2, wakeFlag, r8, n6, q, sent, cmdSent, signal, finished, lk, held, idx, cmdIn, ackw, acked, seen, trail>>

\* item kinds for the configurations (a cfg file cannot write a tuple)
KindsNone == <<>>
KindsDV == <<"D", "V">>
KindsVD == <<"V", "D">>
KindsVDV == <<"V", "D", "V">>
KindsDDV == <<"D", "D", "V">>
KindsVDDV == <<"V", "D", "D", "V">>
Reader == Scenario \in {"stream", "mio6", "mio8", "nkstream", "nkbare"}
NoKey == Scenario \in {"nkstream", "nkbare"}

Init ==
  /\ pc0 = IF Reader THEN "r_inject" ELSE "w_pop"
  /\ pc1 = CASE Scenario \in {"stream", "nkstream", "nkbare"} -> "a_poll" [] Scenario \in {"mio6", "mio8"} -> "c_wait"
             [] Scenario = "awrite" -> "aw_poll" [] Scenario \in {"await", "awaitq"} -> "e_poll"
  /\ ins = 0 /\ del = 0 /\ waker = FALSE /\ waker2 = FALSE /\ wakeFlag = FALSE /\ r8 = FALSE /\ n6 = 0
  /\ q = (IF Scenario = "awaitq" THEN N ELSE 0)    \* "awaitq": N writes are queued before anything else happens
  /\ sent = 0 /\ cmdSent = FALSE /\ signal = FALSE /\ finished = FALSE /\ lk = FALSE /\ held = 0 /\ idx = 0
  /\ cmdIn = FALSE /\ ackw = FALSE /\ acked = FALSE
  /\ seen = <<FALSE, FALSE, FALSE, FALSE, FALSE>>
  /\ trail = <<>>

\* The answers the application gets when it looks at the state shared with the producer: is a sample available, is the
\* mio-0.6 channel / the mio-0.8 source readable, is the command queue full, is the completion signal there.
\* `seen` keeps the answers as of the application's latest step.  It is part of the VIEW: two behaviours are the same
\* state for TLC only if the application, in its latest step, could not have told them apart.  The actions below read
\* the shared state at one definite place; code that looks EARLIER within the same stretch (a check moved in front of
\* the registration that the model has first) behaves differently in two behaviours the plain state would merge, and
\* the schedule that TLC hands to the driver has to be the one in which the application went first.
Snap == <<ins > del, n6 > 0, r8, q >= Cap, signal>>
T(i) == trail' = Append(trail, i) /\ seen' = (IF i = 1 THEN Snap ELSE seen)

(* ------------------------------------------------ thread 0: receive thread *)
ScriptNone == <<>>
ScriptOHD == <<"O", "H", "D">>
ScriptDOH == <<"D", "O", "H">>
ScriptOOHD == <<"O", "O", "H", "D">>
ScriptHOH == <<"H", "O", "H">>
NEvents == IF Script = <<>> THEN N ELSE Len(Script)
R0 == /\ Reader /\ pc0 = "r_inject" /\ idx < NEvents
      /\ LET kind == IF Script = <<>> THEN "D" ELSE Script[idx + 1] IN
           /\ idx' = idx + 1
           /\ CASE kind = "D" -> ins' = ins + 1 /\ held' = held /\ pc0' = "n0"           \* cache insert + marker, notify
                [] kind = "O" -> ins' = ins /\ held' = held + 1 /\ pc0' = "n0"           \* cache insert, notify (nothing to take yet)
                [] kind = "H" -> ins' = ins + held /\ held' = 0                          \* the marker moves iff something was held
                                 /\ pc0' = IF held > 0 THEN "n0" ELSE "r_inject"
      /\ UNCHANGED <<pc1, del, waker, wakeFlag, r8, n6, q, sent, cmdSent, signal, finished, waker2, lk>> /\ UNCHANGED aq /\ T(0)
R1 == /\ pc0 = "n0" /\ pc0' = "n1"                           \* waker.take().map(wake)
      /\ waker' = FALSE /\ wakeFlag' = (wakeFlag \/ waker)
      /\ UNCHANGED <<pc1, ins, del, r8, n6, q, sent, cmdSent, signal, finished, lk, held, idx, waker2>> /\ UNCHANGED aq /\ T(0)
R2 == /\ pc0 = "n1" /\ pc0' = "n2" /\ r8' = TRUE             \* poll_event_sender.send()
      /\ UNCHANGED <<pc1, ins, del, waker, wakeFlag, n6, q, sent, cmdSent, signal, finished, lk, held, idx, waker2>> /\ UNCHANGED aq /\ T(0)
R3 == /\ pc0 = "n2" /\ pc0' = "r_inject"                     \* notification_sender.try_send(())
      /\ n6' = IF n6 < 4 THEN n6 + 1 ELSE n6
      /\ UNCHANGED <<pc1, ins, del, waker, wakeFlag, r8, q, sent, cmdSent, signal, finished, lk, held, idx, waker2>> /\ UNCHANGED aq /\ T(0)

(* ------------------------------------------------- thread 0: writer thread *)
\* process_writer_command pops every queued command; after each pop it wakes the stored waker
W0 == /\ Scenario = "awrite" /\ pc0 \in {"w_pop", "k1"}
      /\ IF q > 0
           THEN /\ q' = q - 1 /\ pc0' = "k1"
                /\ wakeFlag' = (wakeFlag \/ waker)             \* cc_upload_waker is woken by reference (it stays stored)
           ELSE /\ pc0' = "w_pop" /\ UNCHANGED <<q, wakeFlag>>
      /\ UNCHANGED <<pc1, ins, del, r8, n6, sent, cmdSent, finished, lk, held, idx, waker2, signal, waker>> /\ UNCHANGED aq /\ T(0)
\* "await": the only command is the wait itself; no reader is matched, so it completes at once: the Writer goes
\* straight to StatusChannelSender::try_send and stops in front of the channel's mutex
W1 == /\ Scenario = "await" /\ pc0 = "w_pop"
      /\ IF q > 0 THEN q' = q - 1 /\ pc0' = "sl0" ELSE UNCHANGED <<q, pc0>>
      /\ UNCHANGED <<pc1, ins, del, r8, n6, sent, cmdSent, finished, lk, held, idx, waker2, signal, waker, wakeFlag>> /\ UNCHANGED aq /\ T(0)
\* lock | send | wake and take the stored waker | unlock
W2 == /\ pc0 = "sl0" /\ ~lk
      /\ signal' = TRUE /\ wakeFlag' = (wakeFlag \/ waker) /\ waker' = FALSE /\ pc0' = "w_pop"
      /\ UNCHANGED <<pc1, ins, del, r8, n6, q, sent, cmdSent, finished, lk, held, idx, waker2>> /\ UNCHANGED aq /\ T(0)
\* scheduled while the application is inside its critical section: blocked on the mutex, no progress
W2b == /\ pc0 = "sl0" /\ lk
       /\ UNCHANGED <<pc0, pc1, ins, del, r8, n6, q, sent, cmdSent, finished, lk, held, idx, waker2, signal, waker, wakeFlag>> /\ UNCHANGED aq /\ T(0)

\* "awaitq": process_writer_command works off the queue (every write: pop, wake the waker of the queue slot BY REFERENCE,
\* yield "k1"); the wait command at its end either finds nothing owed (-> completion signal, "sl0") or leaves an
\* AckWaiter; when the event loop is idle and everything was processed the reader's ACKNACK (base = last + 1) arrives
Owed == Readers > 0 /\ N > 0 /\ ~acked          \* a reliable matched reader has not acknowledged every sample written
DataQ == q - (IF cmdIn THEN 1 ELSE 0)
WQ0 == /\ Scenario = "awaitq" /\ pc0 \in {"w_pop", "k1"}
       /\ IF DataQ > 0
            THEN /\ q' = q - 1 /\ pc0' = "k1" /\ wakeFlag' = (wakeFlag \/ waker2)
                 /\ UNCHANGED <<cmdIn, ackw, acked>>
          ELSE IF cmdIn
            THEN /\ q' = q - 1 /\ cmdIn' = FALSE /\ UNCHANGED <<wakeFlag, acked>>
                 /\ IF Owed THEN ackw' = TRUE /\ pc0' = "w_pop" ELSE pc0' = "sl0" /\ UNCHANGED ackw
          ELSE IF pc0 = "k1"                                     \* queue empty: back to the event loop
            THEN pc0' = "w_pop" /\ UNCHANGED <<q, wakeFlag, cmdIn, ackw, acked>>
          ELSE IF Owed                                           \* ACKNACK for everything
            THEN /\ acked' = TRUE /\ UNCHANGED <<q, wakeFlag, cmdIn>>
                 /\ IF ackw THEN ackw' = FALSE /\ pc0' = "sl0" ELSE UNCHANGED <<ackw, pc0>>
          ELSE UNCHANGED <<q, pc0, wakeFlag, cmdIn, ackw, acked>>
       /\ UNCHANGED <<pc1, ins, del, r8, n6, sent, cmdSent, finished, lk, held, idx, waker2, signal, waker>> /\ T(0)

(* ------------------------------------------ thread 1: async stream consumer *)
S0 == /\ Scenario = "stream" /\ pc1 = "a_poll"              \* first try_take_one
      /\ IF ins > del THEN del' = del + 1 /\ pc1' = "a_poll" ELSE pc1' = "p1" /\ UNCHANGED del
      /\ UNCHANGED <<pc0, ins, waker, wakeFlag, r8, n6, q, sent, cmdSent, signal, finished, lk, held, idx, waker2>> /\ UNCHANGED aq /\ T(1)
S1 == /\ pc1 = "p1" /\ pc1' = "p2" /\ waker' = TRUE         \* set_waker
      /\ UNCHANGED <<pc0, ins, del, wakeFlag, r8, n6, q, sent, cmdSent, signal, finished, lk, held, idx, waker2>> /\ UNCHANGED aq /\ T(1)
S2 == /\ ~NoKey /\ pc1 = "p2"                               \* second try_take_one
      /\ IF ins > del THEN del' = del + 1 /\ pc1' = "a_poll" ELSE pc1' = "a_parked" /\ UNCHANGED del
      /\ UNCHANGED <<pc0, ins, waker, wakeFlag, r8, n6, q, sent, cmdSent, signal, finished, lk, held, idx, waker2>> /\ UNCHANGED aq /\ T(1)
S3 == /\ pc1 = "a_parked" /\ wakeFlag /\ wakeFlag' = FALSE /\ pc1' = "a_poll"    \* the executor re-polls a woken task
      /\ UNCHANGED <<pc0, ins, del, waker, r8, n6, q, sent, cmdSent, signal, finished, lk, held, idx, waker2>> /\ UNCHANGED aq /\ T(1)

(* --------------------------- thread 1: async stream of a no_key DataReader *)
\* del counts the items taken out of the cache (values handed over and disposes skipped).
\* Skip(d): position after the disposes that follow item d; the wrapper's loop re-enters the keyed poll_next at its
\* first try_take_one without passing a yield point
RECURSIVE Skip(_)
Skip(d) == IF d < ins /\ Kinds[d + 1] = "D" THEN Skip(d + 1) ELSE d
NK0 == /\ NoKey /\ pc1 = "a_poll"                             \* first try_take_one (after any skipped disposes)
       /\ LET d2 == Skip(del) IN
            IF ins > d2 THEN del' = d2 + 1 /\ pc1' = "a_poll" ELSE del' = d2 /\ pc1' = "p1"
       /\ UNCHANGED <<pc0, ins, waker, wakeFlag, r8, n6, q, sent, cmdSent, signal, finished, lk, held, idx, waker2>> /\ UNCHANGED aq /\ T(1)
NK2 == /\ NoKey /\ pc1 = "p2"                                 \* second try_take_one
       /\ IF ins > del
            THEN IF Kinds[del + 1] = "V" THEN del' = del + 1 /\ pc1' = "a_poll"
                 ELSE LET d2 == Skip(del) IN                  \* a dispose: the wrapper polls the keyed stream again
                      IF ins > d2 THEN del' = d2 + 1 /\ pc1' = "a_poll" ELSE del' = d2 /\ pc1' = "p1"
            ELSE pc1' = "a_parked" /\ UNCHANGED del
       /\ UNCHANGED <<pc0, ins, waker, wakeFlag, r8, n6, q, sent, cmdSent, signal, finished, lk, held, idx, waker2>> /\ UNCHANGED aq /\ T(1)

(* -------------------------------------------------- thread 1: mio consumers *)
Readable == IF Scenario = "mio6" THEN n6 > 0 ELSE r8
C0 == /\ Scenario \in {"mio6", "mio8"} /\ pc1 = "c_wait" /\ Readable    \* poll returned an event
      /\ pc1' = "d0"                                                      \* ... and take() was entered: stops in front of the drain
      /\ UNCHANGED <<pc0, ins, del, waker, wakeFlag, r8, n6, q, sent, cmdSent, signal, finished, lk, held, idx, waker2>> /\ UNCHANGED aq /\ T(1)
C1 == /\ pc1 = "d0" /\ pc1' = "t1" /\ n6' = 0 /\ r8' = FALSE        \* take(): drain_read_notifications
      /\ UNCHANGED <<pc0, ins, del, waker, wakeFlag, q, sent, cmdSent, signal, finished, lk, held, idx, waker2>> /\ UNCHANGED aq /\ T(1)
C2 == /\ pc1 = "t1"                                                      \* take(): fill + take everything
      /\ del' = ins /\ pc1' = IF ins > del THEN "d0" ELSE "c_wait"    \* take until empty
      /\ UNCHANGED <<pc0, ins, waker, wakeFlag, r8, n6, q, sent, cmdSent, signal, finished, lk, held, idx, waker2>> /\ UNCHANGED aq /\ T(1)

(* ------------------------------------------------------ thread 1: AsyncWrite *)
A0 == /\ Scenario = "awrite" /\ pc1 = "aw_poll" /\ sent < Cap + N       \* try_send
      /\ IF q < Cap THEN q' = q + 1 /\ sent' = sent + 1 /\ pc1' = "aw_poll"
         ELSE pc1' = "w1" /\ UNCHANGED <<q, sent>>
      /\ UNCHANGED <<pc0, ins, del, waker, wakeFlag, r8, n6, cmdSent, signal, finished, lk, held, idx, waker2>> /\ UNCHANGED aq /\ T(1)
A1 == /\ pc1 = "w1" /\ pc1' = "w2" /\ waker' = TRUE                      \* store waker
      /\ UNCHANGED <<pc0, ins, del, wakeFlag, r8, n6, q, sent, cmdSent, signal, finished, lk, held, idx, waker2>> /\ UNCHANGED aq /\ T(1)
A2 == /\ pc1 = "w2"                                                      \* retry with the waker in place
      /\ IF q < Cap THEN q' = q + 1 /\ sent' = sent + 1 /\ pc1' = "aw_poll"
         ELSE pc1' = "aw_parked" /\ UNCHANGED <<q, sent>>
      /\ UNCHANGED <<pc0, ins, del, waker, wakeFlag, r8, n6, cmdSent, signal, finished, lk, held, idx, waker2>> /\ UNCHANGED aq /\ T(1)
A3 == /\ pc1 = "aw_parked" /\ wakeFlag /\ wakeFlag' = FALSE /\ pc1' = "aw_poll"
      /\ UNCHANGED <<pc0, ins, del, waker, r8, n6, q, sent, cmdSent, signal, finished, lk, held, idx, waker2>> /\ UNCHANGED aq /\ T(1)

(* ----------------------------------- thread 1: AsyncWaitForAcknowledgments *)
E0 == /\ Scenario = "await" /\ pc1 = "e_poll" /\ ~cmdSent               \* WaitingSendCommand: try_send
      /\ q' = q + 1 /\ cmdSent' = TRUE /\ pc1' = "a1" /\ waker2' = TRUE    \* waker stored before try_send
      /\ UNCHANGED <<pc0, ins, del, waker, wakeFlag, r8, n6, sent, signal, finished, lk, held, idx>> /\ UNCHANGED aq /\ T(1)
E1 == /\ pc1 \in {"a1", "e_repoll"} /\ (pc1 = "e_repoll" => cmdSent)       \* Waiting: lock the waker slot, try_recv
      /\ IF signal THEN finished' = TRUE /\ pc1' = "e_done" /\ UNCHANGED lk
         ELSE lk' = TRUE /\ pc1' = "sr1" /\ UNCHANGED finished          \* empty: stays inside the critical section
      /\ UNCHANGED <<pc0, ins, del, waker, wakeFlag, r8, n6, q, sent, cmdSent, signal, waker2, held, idx>> /\ UNCHANGED aq /\ T(1)
E1b == /\ Scenario = "await" /\ pc1 = "sr1"                                                   \* store the waker, unlock, return Pending
       /\ waker' = TRUE /\ lk' = FALSE /\ pc1' = "e_parked"
       /\ UNCHANGED <<pc0, ins, del, wakeFlag, r8, n6, q, sent, cmdSent, signal, finished, waker2, held, idx>> /\ UNCHANGED aq /\ T(1)
E2 == /\ pc1 = "e_parked" /\ wakeFlag /\ wakeFlag' = FALSE /\ pc1' = "e_repoll"
      /\ UNCHANGED <<pc0, ins, del, waker, r8, n6, q, sent, cmdSent, signal, finished, lk, held, idx, waker2>> /\ UNCHANGED aq /\ T(1)

\* "awaitq": WaitingSendCommand: clone the waker (yields in clone) | store it in the slot of the command queue, try_send:
\* room -> Waiting (as "await"), full -> keep the state, return Pending; a woken task that has not sent yet tries again
EQ0 == /\ Scenario = "awaitq" /\ pc1 \in {"e_poll", "e_repoll"} /\ ~cmdSent /\ pc1' = "wc0"
       /\ UNCHANGED <<pc0, ins, del, waker, waker2, wakeFlag, r8, n6, q, sent, cmdSent, signal, finished, lk, held, idx>> /\ UNCHANGED aq /\ T(1)
EQ1 == /\ pc1 = "wc0" /\ waker2' = TRUE
       /\ IF q < Cap THEN q' = q + 1 /\ cmdSent' = TRUE /\ cmdIn' = TRUE /\ pc1' = "a1"
          ELSE pc1' = "e_parked" /\ UNCHANGED <<q, cmdSent, cmdIn>>
       /\ UNCHANGED <<pc0, ins, del, waker, wakeFlag, r8, n6, sent, signal, finished, lk, held, idx, ackw, acked>> /\ T(1)
\* completion channel empty: clone the waker (still inside the critical section) | store it, unlock, return Pending
EQ1b == /\ Scenario = "awaitq" /\ pc1 = "sr1" /\ pc1' = "wc1"
        /\ UNCHANGED <<pc0, ins, del, waker, waker2, wakeFlag, r8, n6, q, sent, cmdSent, signal, finished, lk, held, idx>> /\ UNCHANGED aq /\ T(1)
EQ1c == /\ pc1 = "wc1" /\ waker' = TRUE /\ lk' = FALSE /\ pc1' = "e_parked"
        /\ UNCHANGED <<pc0, ins, del, wakeFlag, r8, n6, q, sent, cmdSent, signal, finished, waker2, held, idx>> /\ UNCHANGED aq /\ T(1)

Next == WQ0 \/ EQ0 \/ EQ1 \/ EQ1b \/ EQ1c \/ R0 \/ R1 \/ R2 \/ R3 \/ W0 \/ S0 \/ S1 \/ S2 \/ S3 \/ NK0 \/ NK2 \/ C0 \/ C1 \/ C2 \/ A0 \/ A1 \/ A2 \/ A3 \/ E0 \/ E1 \/ E1b \/ E2 \/ W1 \/ W2 \/ W2b
Spec == Init /\ [][Next]_vars

(* -------------------------------------------------------------- property *)
ProducerIdle == IF Reader THEN pc0 = "r_inject" ELSE (pc0 = "w_pop" /\ q = 0 /\ ~(Scenario = "awaitq" /\ Owed))
\* parked while the awaited condition holds, and nothing is going to wake it
LostWake ==
  \/ (pc1 = "a_parked" /\ ProducerIdle /\ ins > del /\ ~wakeFlag)
  \/ (pc1 = "c_wait" /\ ProducerIdle /\ ins > del /\ ~Readable)
  \/ (pc1 = "aw_parked" /\ ProducerIdle /\ ~wakeFlag)            \* the queue has room
  \/ (pc1 = "e_parked" /\ signal /\ ~wakeFlag)
  \* "awaitq", writer idle: the queue has room / the command was worked off and everything is acknowledged
  \/ (Scenario = "awaitq" /\ pc1 = "e_parked" /\ ProducerIdle /\ ~wakeFlag)
Inv_NoLostWake == ~LostWake
\* C20: the wait completes only when nothing is owed any more
Inv_NoEarlySuccess == finished => ~Owed

View == <<pc0, pc1, ins, del, waker, waker2, wakeFlag, r8, n6, q, sent, cmdSent, signal, finished, lk, held, idx, cmdIn, ackw, acked, seen>>
\* dump the schedule of every behaviour prefix that ends with the producer idle (a quiescent point)
GenEdge == (GenK > 0 /\ RandomElement(1..GenK) = 1) =>
             PrintT("REPLAY " \o ToJson([scenario |-> Scenario, n |-> N, kinds |-> Kinds, script |-> Script, readers |-> Readers, sched |-> trail']))
=============================================================================
