SPECIFICATION Spec
CONSTANTS
  Types = {"spdp", "drd", "dwd", "dtd", "qos", "pmd"}
  GenK = 1
  DumpSchema = TRUE
INVARIANT Law
ACTION_CONSTRAINT GenEdge
CHECK_DEADLOCK FALSE
