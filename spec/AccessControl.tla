--------------------------- MODULE AccessControl ---------------------------
(***************************************************************************)
(* C18 - model: TLC enumerates families ("slices") of abstract permissions *)
(* and governance documents together with a query universe, checks the     *)
(* decision function of AccessDecision.tla on every (document, query)      *)
(* (scan = first-applicable-rule statement, unprotected => granted, no     *)
(* valid grant => no protected access, non-ambiguous queries have exactly  *)
(* one admissible outcome, fnmatch table) and dumps every case as a REPLAY *)
(* line; the `access` driver renders each as real XML and asks the crate.  *)
(* Slice "sig" is the abstract signature clause.                           *)
(***************************************************************************)
EXTENDS AccessDecision, Json

CONSTANTS Slice,   \* "crit" | "rules" | "relay" | "dom" | "grants" | "window" | "gov" | "sig" | "forge" | "table"
          Big,     \* FALSE: quick bound, TRUE: thorough bound
          MaxEdits,\* slice "forge": number of cooperating edits of a signed container (0 elsewhere)
          MaxCo    \* slice "forge": number of co-SignerInfos a container may carry (adding one is an edit)

VARIABLES doc, subj, phase,
          fb, fca   \* slice "forge": the assembled container (AccessDecision!fblob) and the configured CA
vars == <<doc, subj, phase, fb, fca>>

Pats5  == {"A", "A*", "*", "?B", "[AB]"}
Names3 == <<"A", "AB", "B">>

C(t, p) == [topics |-> t, parts |-> p]
R(al, ds, p, s, rl) == [allow |-> al, doms |-> ds, pub |-> p, sub |-> s, relay |-> rl]
G(s, v, d, rs) == [subj |-> s, val |-> v, def |-> d, rules |-> rs]
T(e, r, w) == [expr |-> e, read |-> r, write |-> w]
D(k, a, b) == [k |-> k, a |-> a, b |-> b]

AllDoms == <<D("min", 0, 0)>>
GovProt == <<T("*", TRUE, TRUE)>>
cA    == C(<<"A">>, <<"*">>)
cB    == C(<<"B">>, <<"*">>)
cAst  == C(<<"A*">>, <<"*">>)
cStar == C(<<"*">>, <<"*">>)

Seq1(S) == {<<x>> : x \in S}
Seq2(S) == {<<x, y>> : x \in S, y \in S}
Seq2d(S) == {s \in Seq2(S) : s[1] # s[2]}
Seq3(S) == {<<x, y, z>> : x \in S, y \in S, z \in S}

Doc(gs, gov) == [grants |-> gs, gov |-> gov]
OneGrant(def, rules) == <<G("S1", "valid", def, rules)>>

(* ---- slice "crit": one criterion, every topic / partition pattern list ---- *)
CritTopicLists == Seq1(Pats5) \cup (IF Big THEN Seq2d(Pats5) ELSE {})
CritPartLists  == {<<>>} \cup Seq1(Pats5) \cup Seq2d(Pats5)
CritDocs ==
  {Doc(OneGrant("DENY", <<R(TRUE, AllDoms, <<C(t, p)>>, <<C(t, p)>>, <<>>)>>), GovProt)
     : t \in CritTopicLists, p \in CritPartLists}
  \cup {Doc(OneGrant("DENY", <<R(TRUE, AllDoms, <<C(t, <<"*">>)>>, <<C(t, <<"*">>)>>, <<>>)>>), GovProt)
     : t \in Seq2d(Pats5)}
CritQ == [doms |-> <<0>>, topics |-> Names3,
          parts |-> << <<>>, <<"A">>, <<"AB">>, <<"B">>, <<"A", "AB">>, <<"A", "B">>, <<"AB", "B">> >>]

(* ---- slice "rules": order of allow / deny rules, default, publish vs subscribe ---- *)
RuleCL == {<<>>, <<cA>>, <<cStar>>} \cup (IF Big THEN {<<cB, cAst>>} ELSE {})
RuleSet == {R(al, AllDoms, p, s, <<>>) : al \in BOOLEAN, p \in RuleCL, s \in RuleCL}
RuleSet3 == {R(al, AllDoms, p, p, <<>>) : al \in BOOLEAN, p \in {<<cA>>, <<cStar>>, <<cB>>}}
RulesDocs ==
  {Doc(OneGrant(d, rs), GovProt) : d \in {"ALLOW", "DENY"},
      rs \in Seq1(RuleSet) \cup Seq2(RuleSet) \cup (IF Big THEN Seq3(RuleSet3) ELSE {})}
RulesQ == [doms |-> <<0>>, topics |-> Names3, parts |-> << <<>>, <<"A">> >>]

(* ---- slice "relay": relay criteria (remote readers, topics) ---- *)
RelaySet == {R(al, AllDoms, p, s, rl) : al \in BOOLEAN, p \in {<<>>, <<cA>>}, s \in {<<>>, <<cA>>},
                                        rl \in {<<>>, <<cA>>, <<cStar>>}}
RelayDocs == {Doc(OneGrant(d, rs), GovProt) : d \in {"ALLOW", "DENY"}, rs \in Seq1(RelaySet) \cup Seq2(RelaySet)}
RelayQ == [doms |-> <<0>>, topics |-> <<"A", "B">>, parts |-> << <<"A">> >>]

(* ---- slice "dom": domain id values and ranges ---- *)
DomMembers == {D("id", 0, 0), D("id", 2, 0), D("range", 1, 2), D("range", 0, 1), D("range", 2, 1),
               D("min", 2, 0), D("max", 0, 1)}
DomRule(al, ds) == R(al, ds, <<cStar>>, <<cStar>>, <<>>)
DomSet1 == {DomRule(al, ds) : al \in BOOLEAN, ds \in Seq1(DomMembers)}
DomSet2 == {DomRule(al, ds) : al \in BOOLEAN, ds \in Seq2d(DomMembers)}
DomDocs ==
  {Doc(OneGrant(d, rs), GovProt) : d \in {"ALLOW", "DENY"},
      rs \in Seq1(DomSet1) \cup Seq2(DomSet1) \cup (IF Big THEN Seq1(DomSet2) ELSE {})}
DomQ == [doms |-> <<0, 1, 2, 3>>, topics |-> <<"A">>, parts |-> << <<"A">> >>]

(* ---- slice "grants": several grants, subject, validity window ---- *)
GrantRules == {<<R(TRUE, AllDoms, <<cA>>, <<cA>>, <<>>)>>, <<R(FALSE, AllDoms, <<cStar>>, <<cStar>>, <<>>)>>}
                \cup (IF Big THEN {<<R(TRUE, AllDoms, <<cStar>>, <<cStar>>, <<>>)>>} ELSE {})
GrantSet == {G(s, v, d, rs) : s \in {"S1", "S2"}, v \in {"valid", "expired", "future"},
                              d \in {"ALLOW", "DENY"}, rs \in GrantRules}
GrantGov == <<T("B", FALSE, FALSE), T("*", TRUE, TRUE)>>
GrantDocs == {Doc(gs, GrantGov) : gs \in Seq1(GrantSet) \cup Seq2(GrantSet)}
GrantQ == [doms |-> <<0>>, topics |-> <<"A", "B">>, parts |-> << <<"A">> >>]

(* ---- slice "window": validity bounds as the document WRITES them (digits + zone designator), ---- *)
(* ---- instants next to the bounds; first valid grant among windows                              ---- *)
Zn(k, m) == [zk |-> k, zm |-> m]
Zones == {Zn("none", 0), Zn("Z", 0), Zn("off", 0), Zn("off", 60), Zn("off", -300), Zn("off", 330)}
           \cup (IF Big THEN {Zn("off", 840), Zn("off", -720), Zn("off", -210)} ELSE {})
Zones3 == {Zn("Z", 0), Zn("off", 60), Zn("off", -300)}
\* the bound that designates instant `at`, written in zone z
Bd(at, z) == [d |-> at + (IF z.zk = "off" THEN 60 * z.zm ELSE 0), zk |-> z.zk, zm |-> z.zm]
\* (not_before, not_after) as instants relative to the reference: run out half an hour ago, running out in
\* half an hour, begun half an hour ago, beginning in half an hour
WinPairs == {<<-7200, -1800>>, <<-7200, 1800>>, <<-1800, 7200>>, <<1800, 7200>>}
GW(s, w, zb, za, d, rs) == [subj |-> s, val |-> "window", def |-> d, rules |-> rs, nb |-> Bd(w[1], zb), na |-> Bd(w[2], za)]
WinAllowA == <<R(TRUE, AllDoms, <<cA>>, <<cA>>, <<>>)>>
WinDenyA  == <<R(FALSE, AllDoms, <<cA>>, <<cA>>, <<>>)>>
WinOne == {<<GW("S1", w, zb, za, "DENY", WinAllowA)>> : w \in WinPairs, zb \in Zones, za \in Zones}
WinTwo == {<<GW("S1", w, zb, za, "DENY", WinAllowA), g2>> :
              w \in WinPairs, zb \in Zones3, za \in Zones3,
              g2 \in {G("S1", "valid", "ALLOW", WinDenyA),
                      GW("S1", <<-1800, 1800>>, Zn("off", -300), Zn("off", 60), "ALLOW", WinDenyA)}}
WindowDocs == {Doc(gs, GovProt) : gs \in WinOne \cup WinTwo}
\* instants asked explicitly (real find_grant): one second around every bound, the instants a reading that
\* ignores / mis-applies the designator would confuse, far away
WindowQ == [doms |-> <<0>>, topics |-> <<"A", "B">>, parts |-> << <<"A">> >>,
            times |-> <<-36000, -19800, -7201, -7200, -7199, -5400, -3600, -1801, -1800, -1799, -1, 0, 1,
                        1799, 1800, 1801, 3600, 5400, 7199, 7200, 7201, 19800, 36000>>]

(* ---- slice "gov": governance topic rules (first match, read / write switches) ---- *)
GovRules == {T(e, r, w) : e \in {"A", "A*", "*", "?B"}, r \in BOOLEAN, w \in BOOLEAN}
GovDocs == {Doc(OneGrant("DENY", <<R(TRUE, AllDoms, <<cA>>, <<>>, <<>>)>>), gv)
              : gv \in Seq1(GovRules) \cup Seq2(GovRules)}   \* the schema demands at least one topic rule
GovQ == [doms |-> <<0>>, topics |-> Names3, parts |-> << <<"A">> >>]

(* ---- slice "sig": abstract blobs ---- *)
Blobs == [content : {"c1", "c2"}, sigOver : {"c1", "c2", "none"}, signer : {"CA", "other", "none"}]
SigDocs == {Doc(<<>>, <<>>)}

ToSet(s) == {s[i] : i \in DOMAIN s}
Docs == CASE Slice = "crit" -> CritDocs [] Slice = "rules" -> RulesDocs [] Slice = "relay" -> RelayDocs
          [] Slice = "dom" -> DomDocs [] Slice = "grants" -> GrantDocs [] Slice = "gov" -> GovDocs
          [] Slice = "window" -> WindowDocs
          [] OTHER -> SigDocs
QU == CASE Slice = "crit" -> CritQ [] Slice = "rules" -> RulesQ [] Slice = "relay" -> RelayQ
        [] Slice = "dom" -> DomQ [] Slice = "grants" -> GrantQ [] Slice = "gov" -> GovQ
        [] Slice = "window" -> WindowQ
        [] OTHER -> [doms |-> <<>>, topics |-> <<>>, parts |-> <<>>]
\* the instants at which the grant lookup is judged: the reference instant (the decisions of a run are
\* taken at the clock = reference) and, slice "window", the instants asked explicitly
Times == {0} \cup (IF Slice = "window" THEN ToSet(WindowQ.times) ELSE {})
Subjects == IF Slice = "grants" THEN {"S1", "S2"} ELSE {"S1"}

PublicOps == {"create_writer", "create_reader", "create_topic", "remote_writer", "remote_reader", "remote_topic"}
DirectOps == {"entity_writer", "entity_reader", "entity_topic"}
\* exactly the queries the driver asks for a query universe (see access_drv.rs::queries)
Queries ==
  {[op |-> o, dom |-> d, topic |-> t, parts |-> <<>>] : o \in PublicOps, d \in ToSet(QU.doms), t \in ToSet(QU.topics)}
  \cup {[op |-> o, dom |-> d, topic |-> t, parts |-> p] : o \in DirectOps, d \in ToSet(QU.doms), t \in ToSet(QU.topics), p \in ToSet(QU.parts)}

(* ---- slice "forge": a party without any CA key assembles a signed container ---- *)
\* Materials: the signature parts the three signers made for the target document "T" and for
\* another document "O" (Init picks which one is carried, and which CA is configured); then up
\* to MaxEdits cooperating edits, each of them something that needs no key: transport another
\* content, rewrite a signed attribute (the signature value stays), exchange / damage the
\* signature value, replace a field that lies outside the signature.
NoBlob == [content |-> "-"]
\* what is added as a co-SignerInfo: the CA's genuine signatures (T, O), a third party's (foreign CA over T), the
\* participant's own over the edited content (the seeded runs of the driver draw from all Materials)
CoMaterials == {m \in Materials : m.by = "CA" \/ (m.by = "foreign" /\ m.of = "T") \/ m.of = "E"}
ForgeInit == /\ doc \in SigDocs /\ subj = "S1" /\ phase = 0
             /\ fb \in {FBase(m.by, m.of) : m \in Materials}
             /\ fca \in {"CA", "foreign"}
ForgeEdit ==
  \/ fb.content = "T" /\ \E c \in {"O", "E"} : fb' = [fb EXCEPT !.content = c]
  \/ fb.md = fb.of /\ \E m \in {"T", "O", "E", "junk"} \ {fb.of} : fb' = [fb EXCEPT !.md = m]
  \/ fb.rest = "orig" /\ fb' = [fb EXCEPT !.rest = "alt"]
  \/ fb.sig = fb.of /\ \E v \in {"T", "O", "junk"} \ {fb.of} : fb' = [fb EXCEPT !.sig = v]
  \/ \E f \in UFields : fb.un[f] = "orig" /\ \E v \in UAlts(f) : fb' = [fb EXCEPT !.un[f] = v]
  \* co-sign: put one more genuine SignerInfo (as its signer made it) into the SignedData
  \/ Len(fb.co) < MaxCo /\ \E m \in CoMaterials : fb' = [fb EXCEPT !.co = Append(@, SIBase(m.by, m.of))]
ForgeNext ==
  \/ phase = 0 /\ phase' = 1 /\ UNCHANGED <<doc, subj, fb, fca>>
  \/ phase = 1 /\ FEdits(fb) < MaxEdits /\ ForgeEdit /\ UNCHANGED <<doc, subj, phase, fca>>

Init == IF Slice = "forge" THEN ForgeInit
        ELSE doc \in Docs /\ subj \in Subjects /\ phase = 0 /\ fb = NoBlob /\ fca = "-"
Next == IF Slice = "forge" THEN ForgeNext
        ELSE phase = 0 /\ phase' = 1 /\ UNCHANGED <<doc, subj, fb, fca>>
Spec == Init /\ [][Next]_vars

(* ------------------------------- invariants ------------------------------ *)
\* the scan over the rule list is the "first applicable rule, else default" statement
Inv_ScanIsFirstApplicable == phase = 1 =>
  \A q \in Queries, amb \in AmbEp, i \in DOMAIN doc.grants, act \in {"pub", "sub", "relay"} :
     Scan(doc.grants[i].rules, doc.grants[i].def, act, q, amb) = Allowed(doc.grants[i], act, q, amb)
\* access the governance document leaves unprotected is granted to every subject with a valid grant
Inv_UnprotectedGranted == phase = 1 =>
  \A q \in Queries, t \in Times : (GrantIdx(doc, subj, t) # 0 /\ \A amb \in Amb : Unprotected(doc, q, amb)) => Acceptable(doc, subj, q, t) = {TRUE}
\* no currently valid grant: protected access is never granted
Inv_NoGrantNoProtectedAccess == phase = 1 =>
  \A q \in Queries, t \in Times : (GrantIdx(doc, subj, t) = 0 /\ \A amb \in Amb : ~Unprotected(doc, q, amb)) => Acceptable(doc, subj, q, t) = {FALSE}
\* the readings the standard leaves open only matter for partition-less queries and topics
Inv_OnlyDeclaredAmbiguity == phase = 1 =>
  \A q \in Queries, t \in Times : (q.parts # <<>> /\ q.op \notin TopicOps /\ GrantIdx(doc, subj, t) # 0) => Cardinality(Acceptable(doc, subj, q, t)) = 1
\* an expired / future / foreign grant never contributes
Inv_OnlyValidOwnGrantCounts ==
  \A t \in Times :
    LET g == GrantIdx(doc, subj, t) IN g # 0 => (doc.grants[g].subj = subj /\ GrantValidAt(doc.grants[g], t)
                                               /\ \A j \in 1..(g - 1) : doc.grants[j].subj # subj \/ ~GrantValidAt(doc.grants[j], t))
\* slice "window": a validity bound is an INSTANT - the zone designator is notation.  The same bounds spelled in
\* UTC select the same grant at every instant; a window written with designators is valid exactly between the
\* instants it designates (whatever its digits say)
Inv_ZoneIsNotation ==
  /\ \A t \in Times :
       GrantIdx(doc, subj, t) = GrantIdx([doc EXCEPT !.grants = [i \in DOMAIN doc.grants |-> RespellGrant(doc.grants[i])]], subj, t)
  /\ \A i \in DOMAIN doc.grants : doc.grants[i].val = "window" =>
       \E w \in WinPairs \cup {<<-1800, 1800>>} :
          \A t \in Times : GrantValidAt(doc.grants[i], t) = (w[1] <= t /\ t < w[2])
\* signature clause on the abstract blobs
Inv_AcceptedOnlyAsSigned ==
  Slice = "sig" => \A b \in Blobs, ca \in {"CA", "other"} :
     LET v == Verify(b, ca) IN v.accepted => (b.signer = ca /\ v.content = b.sigOver /\ v.content = b.content)

\* slice "forge": whatever is assembled without the CA's key, acceptance is admissible only for a
\* content the configured CA made this very signature value for ...
Inv_ForgedContentNeverAdmissible ==
  Slice = "forge" => (Admissible(fb, fca) => (fb.content \in {"T", "O"}
                                              /\ \E i \in DOMAIN SIs(fb) : SIs(fb)[i].by = fca /\ SIs(fb)[i].sig = fb.content))
\* ... the fields outside the signature have no say in it ...
Inv_UnsignedFieldsHaveNoSay ==
  Slice = "forge" => (Admissible(fb, fca) = Admissible([fb EXCEPT !.un = UOrig], fca))
\* ... and a verifier of the usual shape (digest comparison unconditional, then the signature over the
\* signed attributes) accepts only admissible containers, whichever container fields it insists on
Inv_ChainAcceptsOnlyAdmissible ==
  Slice = "forge" =>
     /\ \A strict \in {{}, {"root_type", "si_salg"}, UFields}, pol \in 0..(1 + MaxCo) :
           ChainVerify(fb, fca, strict, pol) => Admissible(fb, fca)
     /\ ChainVerify(fb, fca, {}, 0) = Admissible(fb, fca)
     /\ (FUntouched(fb) /\ fb.by = fca) => ChainVerify(fb, fca, UFields, 1)
\* slice "forge", co-signed containers: the digest comparison and the CA's signature must meet in ONE SignerInfo -
\* whenever a container is admissible, that SignerInfo alone (the others dropped) is an admissible container
Inv_OneSignerInfoCarriesBoth ==
  Slice = "forge" =>
     (Admissible(fb, fca) =>
        \E i \in DOMAIN SIs(fb) : LET s == SIs(fb)[i] IN
           Admissible([fb EXCEPT !.by = s.by, !.of = s.of, !.md = s.md, !.rest = s.rest, !.sig = s.sig, !.co = <<>>], fca))

(* ------------------------------ case dump -------------------------------- *)
GenEdge ==
  CASE Slice \in {"sig", "table"} -> TRUE
    [] Slice = "forge" -> PrintT("REPLAY " \o ToJson([kind |-> "forge", blob |-> fb', ca |-> fca']))
    [] OTHER -> PrintT("REPLAY " \o ToJson([kind |-> "dec", doc |-> doc, subj |-> subj, q |-> QU]))

\* the fnmatch table, cross-checked by checks/access.py against Python's fnmatch.fnmatchcase
TablePrinted ==
  (Slice = "table" /\ phase = 1) =>
    \A p \in DOMAIN PatTab, n \in DOMAIN NameTab :
       PrintT("FNMATCH " \o ToJson([p |-> p, n |-> n, m |-> Match(p, n)]))
=============================================================================
