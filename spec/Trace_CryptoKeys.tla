-------------------------- MODULE Trace_CryptoKeys --------------------------
(***************************************************************************)
(* Trace validation for the `crypto` driver (C16).  One line per call on   *)
(* the real CryptographicBuiltin instances.  The registration state        *)
(* (who registered, who matched whom, which token is stored where) evolves *)
(* deterministically on the logged INPUTS exactly as in CryptoKeys.tla;    *)
(* the logged OUTCOME of every decode is compared, as a class (same data / *)
(* other data / no data), with what the property allows:                   *)
(*   - an authorised receiver of untouched bytes gets exactly the data     *)
(*   - every alteration of a protected field, every decode without the     *)
(*     sender's key material, under foreign key material, or (origin       *)
(*     authentication) without a receiver-specific MAC for the receiver at *)
(*     hand yields no data.                                                *)
(* A Decode line aggregates all concrete alterations (every byte / bit of  *)
(* the field) that refine one tamper class; counts per outcome class.      *)
(* Classes keyid_sib / _ent / _rs / _peer / _own / _zero overwrite the     *)
(* header key id with the id of another existing key (CryptoAbs.KidT);     *)
(* rkid_swap exchanges the key ids of two receiver-specific MAC entries.   *)
(* The driver emits such an alteration only if it changes the bytes        *)
(* (n = 0 otherwise: nothing to judge).                                    *)
(* Second strengthening round: the plugins listed in cfg.eps2 own a second  *)
(* endpoint (entity id p + 10, CryptoAbs.Ep2).  At the endpoint levels the  *)
(* q / d / r / members of `to` of a line are entity ids; a Decode line is   *)
(* the outcome for ONE entity (at submessage level: whether the endpoint of *)
(* that entity is among the local endpoints the submessage is released to). *)
(* The clauses are unchanged: with origin authentication an entity for      *)
(* which the bytes carry no receiver-specific MAC gets no data, whatever    *)
(* its sibling endpoint obtains from the same bytes.                        *)
(* Known deviation S10 (DATA padding makes unaligned protected payloads    *)
(* undecodable) is reported as KNOWN only if KNOWN_S10=1, else as VIOL.    *)
(***************************************************************************)
EXTENDS CryptoAbs, TLC, Json, IOUtils

Rec == ndJsonDeserialize(IOEnv.TRACE)
KnownS10 == "KNOWN_S10" \in DOMAIN IOEnv /\ IOEnv.KNOWN_S10 = "1"

VARIABLES l, run, cfg, senders, eps2, local, mpart, mep, dk, ct, viol, known
tvars == <<l, run, cfg, senders, eps2, local, mpart, mep, dk, ct, viol, known>>

ToSet(s) == {s[i] : i \in DOMAIN s}
Put(f, k, v) == [x \in DOMAIN f \cup {k} |-> IF x = k THEN v ELSE f[x]]
Get(f, k) == IF k \in DOMAIN f THEN f[k] ELSE 0

NoCfg == [lvl |-> "msg", kind |-> "gmac", oa |-> FALSE, k256 |-> FALSE, dir |-> "w2r", other |-> "same"]

TraceInit ==
  /\ l = 1 /\ run = 0 /\ cfg = NoCfg /\ senders = {} /\ eps2 = {}
  /\ local = {} /\ mpart = {} /\ mep = {} /\ dk = <<>> /\ ct = <<>>
  /\ viol = {} /\ known = {}

Receivers == P \ senders
IsPair(p, q) == (p \in senders /\ q \in Receivers) \/ (q \in senders /\ p \in Receivers)
\* endpoint level: receiving entities = the receivers' first endpoints and the second endpoints of those in eps2
RecvEnts == Receivers \cup {Ep2(r) : r \in eps2 \cap Receivers}
IsEPair(p, q) == (p \in senders /\ q \in RecvEnts) \/ (q \in senders /\ p \in RecvEnts)
MatchedAtLevel(p, q) == IF IsMsg(cfg) THEN <<p, q>> \in mpart ELSE <<p, q>> \in mep
TokenLevel == IF IsMsg(cfg) THEN "part" ELSE "ep"

\* ---- the outcome of one Decode line against the property ----
DecodeClauses(e) ==
  LET c == ct[e.c]
      held == Get(dk, <<e.r, e.s>>)
      plain == e.same + e.other
      auth == Authorized(cfg, c, e.s, held, e.t)
      s10 == cfg.lvl = "payload" /\ c.frame = "data" /\ c.enc_len % 4 # 0
  IN IF e.n = 0 THEN [v |-> {}, k |-> {}]
     ELSE IF e.t \in MustReject THEN
       [v |-> IF plain > 0 THEN {"C16_tampered_" \o e.t \o "_decoded"} ELSE {}, k |-> {}]
     ELSE \* t = "none"
       IF auth THEN
         IF e.same = e.n THEN [v |-> {}, k |-> {}]
         ELSE IF e.other > 0 THEN [v |-> {"C16_decoded_differs_from_encoded"}, k |-> {}]
         ELSE IF s10 /\ KnownS10 THEN [v |-> {}, k |-> {"C16_unaligned_payload_undecodable_after_DATA_padding_S10"}]
         ELSE [v |-> {"C16_authorised_untouched_not_decoded"}, k |-> {}]
       ELSE
         [v |-> IF plain = 0 THEN {}
                ELSE IF ~HoldsKey(held) THEN {"C16_decoded_without_sender_key_material"}
                ELSE IF ~SameKeyMaterial(c, e.s) THEN {"C16_decoded_under_foreign_key_material"}
                ELSE {"C16_decoded_without_receiver_specific_mac_for_this_receiver"},
          k |-> {}]

Step ==
  /\ l <= Len(Rec)
  /\ l' = l + 1
  /\ LET e == Rec[l] IN
     CASE e.ev = "Reset" ->
            /\ run' = e.run
            /\ cfg' = [lvl |-> e.cfg.lvl, kind |-> e.cfg.kind, oa |-> e.cfg.oa, k256 |-> e.cfg.k256, dir |-> e.cfg.dir, other |-> e.cfg.other]
            /\ senders' = ToSet(e.cfg.senders)
            /\ eps2' = IF "eps2" \in DOMAIN e.cfg THEN ToSet(e.cfg.eps2) ELSE {}
            /\ local' = {} /\ mpart' = {} /\ mep' = {} /\ dk' = <<>> /\ ct' = <<>> /\ viol' = {} /\ known' = {}
       [] e.ev = "RegLocal" ->
            /\ local' = local \cup {e.p}
            /\ UNCHANGED <<run, cfg, senders, eps2, mpart, mep, dk, ct, viol, known>>
       [] e.ev = "MatchPart" ->
            /\ mpart' = IF IsPair(e.p, e.q) /\ e.p \in local THEN mpart \cup {<<e.p, e.q>>} ELSE mpart
            /\ UNCHANGED <<run, cfg, senders, eps2, local, mep, dk, ct, viol, known>>
       [] e.ev = "MatchEp" ->
            /\ mep' = IF IsEPair(e.p, e.q) /\ <<PluginOf(e.p), PluginOf(e.q)>> \in mpart THEN mep \cup {<<e.p, e.q>>} ELSE mep
            /\ UNCHANGED <<run, cfg, senders, eps2, local, mpart, dk, ct, viol, known>>
       [] e.ev = "Tokens" ->
            /\ dk' = IF /\ e.t = TokenLevel
                        /\ MatchedAtLevel(e.p, e.q) /\ MatchedAtLevel(e.d, e.p)
                        /\ Get(dk, <<e.d, e.p>>) = 0
                     THEN Put(dk, <<e.d, e.p>>, e.q) ELSE dk
            /\ UNCHANGED <<run, cfg, senders, eps2, local, mpart, mep, ct, viol, known>>
       [] e.ev = "Encode" ->
            /\ ct' = IF e.ok THEN Put(ct, e.c, [p |-> e.p, to |-> ToSet(e.to), frame |-> e.frame, al |-> e.al, enc_len |-> e.enc_len])
                     ELSE ct
            /\ UNCHANGED <<run, cfg, senders, eps2, local, mpart, mep, dk, viol, known>>
       [] e.ev = "Decode" ->
            /\ e.c \in DOMAIN ct /\ e.t \in AllT
            /\ e.same + e.other + e.nodata + e.panic = e.n
            /\ LET r == DecodeClauses(e) IN viol' = viol \cup r.v /\ known' = known \cup r.k
            /\ UNCHANGED <<run, cfg, senders, eps2, local, mpart, mep, dk, ct>>
       [] e.ev = "Skip" -> UNCHANGED <<run, cfg, senders, eps2, local, mpart, mep, dk, ct, viol, known>>
  /\ (viol' # viol /\ viol' # {}) =>
        PrintT("VIOL line=" \o ToString(l) \o " run=" \o ToString(run') \o " clauses=" \o ToString(viol' \ viol))
  /\ (known' # known /\ known' # {}) =>
        PrintT("KNOWN line=" \o ToString(l) \o " run=" \o ToString(run') \o " clauses=" \o ToString(known' \ known))

TraceSpec == TraceInit /\ [][Step]_tvars

TraceAccepted ==
  LET d == TLCGet("stats").diameter IN
  IF d = Len(Rec) + 1 THEN PrintT("TRACE-OK events=" \o ToString(Len(Rec)))
  ELSE PrintT("TRACE-STUCK line=" \o ToString(d)) /\ PrintT(Rec[d]) /\ FALSE
=============================================================================
