SPECIFICATION Spec
CONSTANTS
  P = {1}
  E = {1, 2, 7}
  Owner <- OwnerDef
  IsReader <- IsReaderDef
  OnTopic <- OnTopicDef
  Compatible <- CompatibleDef
  DefaultLease = 60000
  Late = FALSE
  Leases <- LeasesWithNone
  Dts = {400, 1000, 61000}
  MaxSteps = 10
  MaxTime = 70000
  GenK = 200
CONSTRAINT Bound
VIEW View
INVARIANT DInv_NoViolation
INVARIANT Inv_ParticipantsAgree
INVARIANT Inv_AtticOnlyOfAbsent
INVARIANT Inv_MatchedAreKnown
INVARIANT Inv_LifeSignsAgree
INVARIANT Inv_LocalAgree
INVARIANT Inv_AnnouncedAreKnown
ACTION_CONSTRAINT GenEdge
CHECK_DEADLOCK FALSE
