------------------------- MODULE Trace_SampleCache -------------------------
(***************************************************************************)
(* Trace validation for the `cache` driver (C08, C09): arrivals injected   *)
(* as real datagrams through MessageReceiver -> Reader -> TopicCache, and  *)
(* the results of every read/take form of the real DataReader /            *)
(* SimpleDataReader / async streams.                                       *)
(***************************************************************************)
EXTENDS SampleCacheAbs, Json, IOUtils

Rec == ndJsonDeserialize(IOEnv.TRACE)
VARIABLES l, run
tvars == <<scVars, l, run>>

TraceInit == SCInit(0) /\ l = 1 /\ run = 0

Scope(e) == IF e.scope = "all" THEN <<"all", -1>> ELSE <<e.scope, e.inst>>

Step ==
  /\ l <= Len(Rec)
  /\ l' = l + 1
  /\ LET e == Rec[l] IN
     CASE e.ev = "Reset" ->
            /\ depth' = e.depth /\ arr' = <<>> /\ ist' = <<>> /\ dgen' = <<>> /\ lastAcc' = <<>> /\ accHi' = <<>>
            /\ taken' = {} /\ wasRead' = {} /\ seenOut' = {} /\ errs' = 0 /\ fzRead' = {} /\ fzTaken' = {} /\ viol' = {}
            /\ run' = e.run
       [] e.ev = "Arrive" -> AbsArrive(e.w, e.sn, e.k, e.kind, e.ord) /\ UNCHANGED run
       [] e.ev = "Call" -> AbsCall(e.res, e.out, e.max, e.cond, Scope(e), e.removing, e.marking, e.full, e.viewing, e.strict) /\ UNCHANGED run
       [] e.ev = "Drained" -> AbsDrained /\ UNCHANGED run
       [] e.ev \in {"CallBegin", "RunDone"} -> UNCHANGED <<scVars, run>>
  /\ (viol' # viol /\ viol' # {}) =>
        PrintT("VIOL line=" \o ToString(l) \o " run=" \o ToString(run') \o " clauses=" \o ToString(viol' \ viol))

TraceSpec == TraceInit /\ [][Step]_tvars
TraceAccepted ==
  LET d == TLCGet("stats").diameter IN
  IF d = Len(Rec) + 1 THEN PrintT("TRACE-OK events=" \o ToString(Len(Rec)))
  ELSE PrintT("TRACE-STUCK line=" \o ToString(d)) /\ PrintT(Rec[d]) /\ FALSE
=============================================================================
