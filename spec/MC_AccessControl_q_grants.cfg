SPECIFICATION Spec
CONSTANTS
  Slice = "grants"
  Big = FALSE
  MaxEdits = 0
  MaxCo = 0
INVARIANT Inv_ScanIsFirstApplicable
INVARIANT Inv_UnprotectedGranted
INVARIANT Inv_NoGrantNoProtectedAccess
INVARIANT Inv_OnlyDeclaredAmbiguity
INVARIANT Inv_OnlyValidOwnGrantCounts
INVARIANT Inv_AcceptedOnlyAsSigned
INVARIANT Inv_ForgedContentNeverAdmissible
INVARIANT Inv_UnsignedFieldsHaveNoSay
INVARIANT Inv_ChainAcceptsOnlyAdmissible
INVARIANT Inv_OneSignerInfoCarriesBoth
INVARIANT Inv_ZoneIsNotation
INVARIANT TablePrinted
ACTION_CONSTRAINT GenEdge
CHECK_DEADLOCK FALSE
