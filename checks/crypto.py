"""C16: CryptoAbs.tla + CryptoKeys.tla + Trace_CryptoKeys.tla, `crypto` driver (three real
CryptographicBuiltin instances exchanging real tokens; feature `security`)."""
from pipeline import run_pipeline

TIERS = {
    # random runs = 28 configurations (level x sign/encrypt x origin authentication x key length x direction)
    # x payload lengths 0..67 (runs / 28 lengths are covered, 1904 = all of them once)
    "quick": dict(mc=[("MC_CryptoKeys_q_a.cfg", 8), ("MC_CryptoKeys_q_b.cfg", 8)], replay_limit=9000,
                  random=dict(runs=1904, events=0)),
    "thorough": dict(mc=[("MC_CryptoKeys_t_a.cfg", 12), ("MC_CryptoKeys_t_b.cfg", 12)], replay_limit=60000,
                     random=dict(runs=19040, events=0)),
}
ASSUME = [
    "AES-GCM / GMAC / HMAC-SHA256 themselves are trusted (ring); the model is symbolic: key material is identified by who generated it and for whom",
    "one endpoint per participant, three plugin instances, every registration call at most once per pair (constants in spec/MC_CryptoKeys_*.cfg)",
    "tokens are handed from one plugin instance to the other as CryptoToken values (the volatile secure channel that carries them is not part of C16)",
    "a tamper class is refined by every byte (xor 0x01, 0x80, 0xFF) of the field, every bit of MACs; multi-byte alterations only as header / MAC / body swaps between two encodings of the same plaintext",
    "submessage headers of SEC_PREFIX / SEC_BODY / SEC_POSTFIX (framing, not protected by design) are not altered; altering ANOTHER receiver's MAC is left unconstrained",
    "random 4-byte key ids of different plugins are assumed distinct (collision probability 2^-32 per pair)",
]


def run(pid, tier, seed, replay=None):
    return run_pipeline(pid, tier, seed, replay, driver="crypto", model="CryptoKeys.tla",
                        trace_module="Trace_CryptoKeys.tla", trace_cfg="Trace_CryptoKeys.cfg",
                        tiers=TIERS, prefixes=(pid + "_",), assumptions=ASSUME, security=True,
                        known_env=("KNOWN_S10",))
