"""C16: CryptoAbs.tla + CryptoKeys.tla + Trace_CryptoKeys.tla, `crypto` driver (three real
CryptographicBuiltin instances exchanging real tokens; feature `security`)."""
from pipeline import run_pipeline

TIERS = {
    # random runs = 28 configurations (level x sign/encrypt x origin authentication x key length x direction)
    # x payload lengths 0..67 (runs / 28 lengths are covered, 1904 = all of them once); protection of the endpoint
    # level not under test (same / none / other kind => one or two key materials per writer) is a model dimension
    # (constant Others) in the TLC part and drawn per run in the random part
    # q_c / t_c / t_d: a receiving participant with TWO endpoints matched with the same remote endpoint (constant Eps2;
    # entity ids p and p + 10), every subset of the receiving entities addressed; in the random part 40 % of the
    # endpoint-level runs give one or more receivers a second endpoint
    "quick": dict(mc=[("MC_CryptoKeys_q_a.cfg", 8), ("MC_CryptoKeys_q_b.cfg", 8), ("MC_CryptoKeys_q_c.cfg", 8)], replay_limit=32000,
                  random=dict(runs=1904, events=0)),
    "thorough": dict(mc=[("MC_CryptoKeys_t_a.cfg", 12), ("MC_CryptoKeys_t_b.cfg", 12), ("MC_CryptoKeys_t_c.cfg", 12), ("MC_CryptoKeys_t_d.cfg", 12)], replay_limit=200000,
                     random=dict(runs=19040, events=0)),
}
ASSUME = [
    "AES-GCM / GMAC / HMAC-SHA256 themselves are trusted (ring); the model is symbolic: key material is identified by who generated it and for whom",
    "three plugin instances, one or two endpoints per participant (a second endpoint has the kind and attributes of the first and only receiving participants get one), every registration call at most once per pair (constants in spec/MC_CryptoKeys_*.cfg)",
    "a sender gives each endpoint of a remote participant a receiver-specific key of its own by registering that remote participant once per endpoint (the crate's key factory keeps one matched remote endpoint per local endpoint and remote participant handle); the receiving side matches both local endpoints under the one handle of the remote participant",
    "tokens are handed from one plugin instance to the other as CryptoToken values (the volatile secure channel that carries them is not part of C16)",
    "a tamper class is refined by every byte (xor 0x01, 0x80, 0xFF) of the field, every bit of MACs; multi-byte alterations only as header / MAC / body swaps between two encodings of the same plaintext, "
    "the header key id overwritten with the id of another existing key (sender's sibling-level key, sender's other entity level key, receiver-specific key, another sender's key, the receiver's own key, zero), "
    "and the key ids of two receiver-specific MAC entries exchanged; one field altered at a time (no combined key id + kind alteration)",
    "submessage headers of SEC_PREFIX / SEC_BODY / SEC_POSTFIX (framing, not protected by design) are not altered; altering ANOTHER receiver's MAC is left unconstrained",
    "random 4-byte key ids of different plugins are assumed distinct (collision probability 2^-32 per pair)",
]


def run(pid, tier, seed, replay=None):
    return run_pipeline(pid, tier, seed, replay, driver="crypto", model="CryptoKeys.tla",
                        trace_module="Trace_CryptoKeys.tla", trace_cfg="Trace_CryptoKeys.cfg",
                        tiers=TIERS, prefixes=(pid + "_",), assumptions=ASSUME, security=True,
                        known_env=("KNOWN_S10",))
