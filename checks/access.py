"""C18: AccessDecision.tla + AccessControl.tla (model, case enumeration) + Trace_AccessControl.tla, `access` driver.
   1. the fnmatch table of the specification is cross-checked against Python's fnmatch.fnmatchcase (tool sanity)
   2. TLC enumerates the document slices, checks the decision-function invariants and dumps every case
   3. every case is rendered as XML, loaded by the real parsers and decided by the real code (unsigned entrance)
   4. seeded random documents over a larger alphabet; signed fixtures x byte-level alterations / foreign CA / spliced
      signatures through the real S/MIME verification and validate_local_permissions
   5. slice "forge": TLC enumerates the containers a party without the CA key can assemble from genuine material by
      up to MaxEdits COOPERATING edits (content, signed attributes, signature value, every field outside the signature);
      each is built on the real fixture bytes and verified by the real code; seeded: more edits, byte noise, DER byte sweeps
   6. slice "window" (round 2): validity bounds as the document WRITES them (digits + none | Z | (+|-)hh:mm), rendered relative
      to the wall clock (the public entrances decide at the real clock) and to fixed dates; the real find_grant is also asked at
      explicit instants one second either side of every bound; a bound is an instant, its designator is notation
   7. slice "forge", co-signed containers (round 2): a SignedData may carry further SignerInfos from the genuine material
      (incl. the edited content signed by the participant's own identity key); admissible only if ONE SignerInfo is both a
      valid signature of the configured CA and about the transported content; both transport and both DER orders are realised
   8. every real decision / verification outcome is validated by TLC against the trace specification."""
import fnmatch, glob, json, os, re
import common
from common import log, tlc, outdir, ToolError
from pipeline import run_pipeline

FIX = os.path.join(common.ROOT, "fixtures", "access")

TIERS = {
    "quick": dict(mc=[("MC_AccessControl_q_sig.cfg", 2), ("MC_AccessControl_q_crit.cfg", 8), ("MC_AccessControl_q_rules.cfg", 8),
                      ("MC_AccessControl_q_relay.cfg", 8), ("MC_AccessControl_q_dom.cfg", 8), ("MC_AccessControl_q_grants.cfg", 8),
                      ("MC_AccessControl_q_window.cfg", 8), ("MC_AccessControl_q_gov.cfg", 8), ("MC_AccessControl_q_forge.cfg", 8)],
                  random=dict(runs=300, events=40)),
    "thorough": dict(mc=[("MC_AccessControl_q_sig.cfg", 2), ("MC_AccessControl_t_crit.cfg", 8), ("MC_AccessControl_t_rules.cfg", 8),
                         ("MC_AccessControl_q_relay.cfg", 8), ("MC_AccessControl_t_dom.cfg", 8), ("MC_AccessControl_t_grants.cfg", 8),
                         ("MC_AccessControl_t_window.cfg", 8), ("MC_AccessControl_q_gov.cfg", 8), ("MC_AccessControl_t_forge.cfg", 8)],
                     random=dict(runs=15000, events=60)),
}
ASSUME = [
    "documents are bounded by the slices of spec/AccessControl.tla (constants Slice/Big in spec/MC_AccessControl_*.cfg): <=2 grants, <=3 rules, <=2 criteria, pattern alphabet {A,A*,*,?B,[AB]} over names {A,AB,B}; random runs use 12 patterns over 6 names, <=3 grants x <=3 rules",
    "the decision function is exercised below the signature check (cfg accessor verif_install_unsigned = the steps of validate_local_permissions after verify_signature); partitions reach the code through verif_check_entity because the public check_* methods always pass an empty partition list",
    "left open (every reading accepted): entities without partitions, topics whose governance rule enables only one of read/write access control, relay permission for topics, unprotected access for a subject without any currently valid grant",
    "data tags are not exercised (the public API never passes any); validity classes valid/expired/future are far from the wall clock (2001/2002, 2998/2999); validity windows (slice window) have their bounds 30 min / 2 h (seeded: 15 min .. 20 h) from the reference instant, written without designator, with Z or with an offset of -12:00..+14:00; the reference is the wall clock at the start of the run (a run takes milliseconds) or one of three fixed dates; the grant lookup is not judged at exactly not_after (inclusive or exclusive end left open); no fractional seconds, no leap seconds",
    "forged containers: edits are combined up to MaxEdits (quick 2, thorough 3; seeded runs 5) over the edit alphabet of AccessControl!ForgeEdit (12 fields outside the signature, each replaced by 1-6 concrete values per class); digests are taken as collision free; byte noise is not combined with the one-bit edits of the alphabet; co-signed containers: TLC adds at most one unedited co-SignerInfo (adding it is one of the MaxEdits edits), seeded runs up to two, also edited; the order of the signerInfos SET is not part of the abstract container (4 realisations: transport order x DER order)",
    "signature clause: 5 committed signed fixtures; single-byte alterations (quick: xor 0x01/0x20 at every position of one permissions and one governance fixture; thorough: 8 bit flips + delete/duplicate/overwrite at every position of all fixtures), foreign CA, identity-certificate signer, spliced signatures, truncations; only ECDSA-P256/SHA-256 signatures (the only kind the crate supports)",
]


def check_fnmatch_table(pid):
    out, info = tlc("AccessControl.tla", "MC_AccessControl_q_table.cfg", os.path.join(outdir(pid), "tlc_table"), workers=1, timeout=300)
    if not info.get("ok"):
        log(out[-1500:]); raise ToolError("fnmatch table configuration failed")
    rows = set()
    for line in out.splitlines():
        if line.startswith('"FNMATCH '):
            rows.add(json.loads(line)[8:])
    n = 0
    for r in sorted(rows):
        o = json.loads(r)
        if fnmatch.fnmatchcase(o["n"], o["p"]) != o["m"]:
            raise ToolError(f"specification's Glob disagrees with fnmatch on pattern {o['p']!r} name {o['n']!r}")
        n += 1
    if n < 50:
        raise ToolError("fnmatch table not printed")
    log(f"[spec] Glob of AccessDecision.tla agrees with fnmatch.fnmatchcase on {n} (pattern, name) pairs")
    return n


def run(pid, tier, seed, replay=None):
    n_tab = check_fnmatch_table(pid) if replay is None else 0
    rc = run_pipeline(pid, tier, seed, replay, driver="access", model="AccessControl.tla",
                      trace_module="Trace_AccessControl.tla", trace_cfg="Trace_AccessControl.cfg",
                      tiers=TIERS, prefixes=(pid + "_",), assumptions=ASSUME, security=True,
                      extra_vh=["--tier", tier, "--fixtures", FIX])
    if replay is None:
        # measured non-vacuity figures from the traces, appended to the evidence file
        stats = {"allow": 0, "deny": 0, "verify_accepted": 0, "verify_refused": 0, "validate_ok": 0, "validate_refused": 0, "panics": 0,
                 "forged_accepted": 0, "forged_refused": 0}
        for f in glob.glob(os.path.join(outdir(pid, "work"), "*", "trace_*.ndjson")):
            with open(f) as fh:
                for line in fh:
                    if '"ev":"Check"' in line:
                        stats["allow" if '"out":"allow"' in line else "deny"] += 1
                        if '"raw":"panic"' in line: stats["panics"] += 1
                    elif '"ev":"FVerify"' in line:
                        stats["forged_accepted" if '"out":"accepted"' in line else "forged_refused"] += 1
                    elif '"ev":"Verify"' in line:
                        stats["verify_accepted" if '"out":"accepted"' in line else "verify_refused"] += 1
                    elif '"ev":"Validate"' in line:
                        stats["validate_ok" if '"ok":true' in line else "validate_refused"] += 1
        p = os.path.join(common.EVID, f"{pid}.json")
        try:
            if common.repo_dirty():   # run against a modified tree: the evidence record was left untouched, leave it so
                raise OSError("dirty")
            with open(p) as fh:
                ev = json.load(fh)
            ev["coverage"]["real_outcomes"] = stats
            ev["coverage"]["fnmatch_pairs_cross_checked"] = n_tab
            with open(p, "w") as fh:
                json.dump(ev, fh, indent=1)
        except OSError:
            pass
        log(f"[impl] real outcomes: {stats}")
    return rc
