"""C11 / C12: DiscoveryAbs.tla + Discovery.tla + Trace_Discovery.tla, `disc` driver (real DiscoveryDB with
virtual clock, real DPEventLoop handlers, real local Writer and Reader)."""
from pipeline import run_pipeline

TIERS = {
    "quick": dict(mc=[("MC_Discovery_q_lease.cfg", 8), ("MC_Discovery_q_match.cfg", 8), ("MC_Discovery_q_late.cfg", 8)], replay_limit=8000, random=dict(runs=800, events=40)),
    "thorough": dict(mc=[("MC_Discovery_t_lease.cfg", 12), ("MC_Discovery_t_match.cfg", 12), ("MC_Discovery_t_two.cfg", 12), ("MC_Discovery_t_late.cfg", 12)], replay_limit=90000, random=dict(runs=12000, events=60)),
}
ASSUME = [
    "discovery events are applied as discovery.rs applies them (update DiscoveryDB, send the notification; the handler of DPEventLoop runs at once or, drawn per event, later while the DiscoveryDB is already ahead, in the order sent); the glue of discovery.rs itself is exercised by the system driver (C07)",
    "state space bounded by the constants in spec/MC_Discovery_*.cfg (participants, endpoints, lease values, clock steps, events per behaviour)",
    "virtual clock: no event falls on the exact lease boundary (model: leases 1100 / 2500 ms, steps of 400 / 1000 ms; random runs: leases end in 50 ms, steps are multiples of 100 ms), because real time keeps running under the virtual offset",
    "remote endpoints keep the QoS they were announced with; an endpoint may be announced before its participant was heard (SPDP lost)",
]


# C11 from the writer's side: between two discovery events nothing (ACKNACKs, repair and heartbeat timers, writes, cache
# cleaning) changes the set of readers the Writer holds proxies for (clause C11_writer_matched_set_differs_from_discovery
# in Trace_RtpsWriter.tla, judged on the behaviours of RtpsWriter.tla and the random runs of the writer driver)
WRITER_SRC = dict(driver="writer", model="RtpsWriter.tla", trace_module="Trace_RtpsWriter.tla", trace_cfg="Trace_RtpsWriter.cfg",
                  tiers={"quick": dict(mc=[("MC_RtpsWriter_q_rel.cfg", 8)], replay_limit=2500, random=dict(runs=120, events=120)),
                         "thorough": dict(mc=[("MC_RtpsWriter_t_all.cfg", 12)], replay_limit=30000, random=dict(runs=1500, events=300))})


def run(pid, tier, seed, replay=None):
    return run_pipeline(pid, tier, seed, replay, driver="disc", model="Discovery.tla",
                        trace_module="Trace_Discovery.tla", trace_cfg="Trace_Discovery.cfg",
                        tiers=TIERS, prefixes=(pid + "_",), assumptions=ASSUME, known_env=("KNOWN_S8",),
                        extra_sources=((WRITER_SRC,) if pid == "C11" else ()))
