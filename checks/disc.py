"""C11 / C12: DiscoveryAbs.tla + Discovery.tla + Trace_Discovery.tla, `disc` driver (real DiscoveryDB with
virtual clock, real DPEventLoop handlers, real local Writer and Reader)."""
from pipeline import run_pipeline

TIERS = {
    "quick": dict(mc=[], random=dict(runs=800, events=40)),
    "thorough": dict(mc=[], random=dict(runs=12000, events=60)),
}
ASSUME = [
    "discovery events are applied as discovery.rs applies them (update DiscoveryDB, then the notification handler of DPEventLoop); the glue of discovery.rs itself is exercised by the system driver (C07)",
    "virtual clock: leases end in x.5 s, ticks are whole seconds, so no event falls on the exact lease boundary",
    "remote endpoints keep the QoS they were announced with; endpoints are announced only by participants that are present",
]


def run(pid, tier, seed, replay=None):
    return run_pipeline(pid, tier, seed, replay, driver="disc", model="Discovery.tla",
                        trace_module="Trace_Discovery.tla", trace_cfg="Trace_Discovery.cfg",
                        tiers=TIERS, prefixes=(pid + "_",), assumptions=ASSUME, known_env=("KNOWN_S8",))
